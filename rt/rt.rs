// Runtime support shared by every generated T3 crate: scripted hooks, call trace,
// drop log, single-step executor. Included as `mod rt`.
#![allow(dead_code)]
use std::cell::RefCell;
use std::future::Future;
use std::pin::Pin;
use std::task::{Context, Poll, RawWaker, RawWakerVTable, Waker};

pub trait Named {
    const NAME: &'static str;
}
pub trait HasId {
    fn id(&self) -> u32;
}

/// The hooks of a generated machine must live in an unbounded `impl<C, S>`; the harness always
/// instantiates `C = Ctx`, so the id is read through a pointer cast.
pub fn cid<C>(c: &C) -> u32 {
    assert_eq!(std::mem::size_of::<C>(), std::mem::size_of::<Ctx>());
    unsafe { (*(c as *const C as *const Ctx)).id }
}

/// the marker type's name without its module path
pub fn sname<S>() -> &'static str {
    let n = std::any::type_name::<S>();
    match n.rfind("::") {
        Some(i) => &n[i + 2..],
        None => n,
    }
}

#[derive(Debug)]
pub struct Ctx {
    pub id: u32,
}
impl HasId for Ctx {
    fn id(&self) -> u32 {
        self.id
    }
}
impl Default for Ctx {
    fn default() -> Self {
        Ctx { id: 0 }
    }
}
impl Drop for Ctx {
    fn drop(&mut self) {
        let id = self.id;
        ST.with(|s| s.borrow_mut().drops.push(format!("ctx:{id}")));
    }
}

#[derive(Debug)]
pub struct Pay {
    pub id: u32,
}
impl Drop for Pay {
    fn drop(&mut self) {
        let id = self.id;
        ST.with(|s| s.borrow_mut().drops.push(format!("pay:{id}")));
    }
}

/// a payload type that is `Clone` (a library-side clone of a payload shows as a second drop of the same id)
#[derive(Debug, Clone)]
pub struct PayC {
    pub id: u32,
}
impl Drop for PayC {
    fn drop(&mut self) {
        let id = self.id;
        ST.with(|s| s.borrow_mut().drops.push(format!("pay:{id}")));
    }
}

#[derive(Debug, Default, Clone, PartialEq)]
pub struct D(pub u32);

#[derive(Clone, Debug)]
pub enum Abort {
    G(String),
    A(String),
    I,
}

#[derive(Clone, Debug, Default)]
pub struct Entry {
    pub b: Option<bool>,
    pub a: Option<Abort>,
    pub x: bool,
    pub s: u32,
    pub w: Option<(String, u32)>,
}

#[derive(Default)]
pub struct State {
    pub script: Vec<Entry>,
    pub sigma: Vec<String>,
    pub pos: usize,
    pub trace: Vec<String>,
    pub drops: Vec<String>,
    pub stuck_at: Option<usize>,
    pub stuck: bool,
    /// an async hook that was called (its future created) and whose body has not started yet
    pub entered: Option<String>,
}

thread_local! {
    pub static ST: RefCell<State> = RefCell::new(State::default());
}

pub fn parse_entry(s: &str) -> Entry {
    let mut e = Entry::default();
    if s == "-" {
        return e;
    }
    for kv in s.split(',') {
        let mut it = kv.splitn(2, '=');
        let k = it.next().unwrap_or("");
        let v = it.next().unwrap_or("");
        match k {
            "b" => e.b = Some(v == "1"),
            "x" => e.x = v == "1",
            "s" => e.s = v.parse().unwrap_or(0),
            "a" => {
                let mut p = v.splitn(2, '~');
                let t = p.next().unwrap_or("");
                let n = p.next().unwrap_or("").to_string();
                e.a = match t {
                    "I" => Some(Abort::I),
                    "G" => Some(Abort::G(n)),
                    "A" => Some(Abort::A(n)),
                    _ => None,
                }
            }
            "w" => {
                let mut p = v.splitn(2, '~');
                let f = p.next().unwrap_or("").to_string();
                let n = p.next().unwrap_or("0").parse().unwrap_or(0);
                e.w = Some((f, n));
            }
            _ => {}
        }
    }
    e
}

/// `<op> ; <sigma> ; <script>`
pub struct OpLine {
    pub toks: Vec<String>,
}

pub fn begin_op(line: &str) -> OpLine {
    let parts: Vec<&str> = line.split(" ; ").collect();
    let toks: Vec<String> = parts[0].split_whitespace().map(|s| s.to_string()).collect();
    let sigma: Vec<String> = if parts.len() > 1 && parts[1].trim() != "-" {
        parts[1].trim().split(',').filter(|s| !s.is_empty()).map(|s| s.to_string()).collect()
    } else {
        vec![]
    };
    let script: Vec<Entry> = if parts.len() > 2 {
        parts[2].split_whitespace().map(parse_entry).collect()
    } else {
        vec![]
    };
    let stuck_at = match toks.first().map(|s| s.as_str()) {
        Some("habandon") | Some("tabandon") => toks.get(3).and_then(|s| s.parse().ok()),
        _ => None,
    };
    ST.with(|s| {
        let mut s = s.borrow_mut();
        s.script = script;
        s.sigma = sigma;
        s.pos = 0;
        s.trace.clear();
        s.drops.clear();
        s.stuck_at = stuck_at;
        s.stuck = false;
        s.entered = None;
    });
    OpLine { toks }
}

pub fn onat(v: Option<u32>) -> String {
    match v {
        Some(n) => n.to_string(),
        None => "-".to_string(),
    }
}

/// Called at the entry of every user hook: logs what the hook observes and returns the
/// scripted response for this position. Panics (after logging) if the script says so.
pub fn hook(kind: &str, name: &str, state: &str, ctx: u32, ctx_arg: Option<u32>, payload: Option<u32>, slots: String) -> Entry {
    let (e, forever) = ST.with(|s| {
        let mut s = s.borrow_mut();
        if s.entered.as_deref() == Some(name) {
            s.entered = None;
        }
        let pos = s.pos;
        s.pos += 1;
        s.trace.push(format!("{kind}/{name}/{state}/{ctx}/{}/{}/{slots}", onat(ctx_arg), onat(payload)));
        let e = s.script.get(pos).cloned().unwrap_or_default();
        (e, s.stuck_at == Some(pos))
    });
    if e.x {
        std::panic::panic_any("hookpanic");
    }
    let mut e = e;
    if forever {
        e.s = u32::MAX;
    }
    e
}

/// Called when an async hook is *called* (before its future is first polled). A hook called while the
/// previous one has been called but has not even started is logged: hooks must run one after the other.
pub fn enter(name: &str) {
    ST.with(|s| {
        let mut s = s.borrow_mut();
        if let Some(prev) = s.entered.take() {
            s.trace.push(format!("overlap/{prev}/{name}"));
        }
        s.entered = Some(name.to_string());
    });
}

pub fn cond_answer(e: &Entry, name: &str) -> bool {
    match e.b {
        Some(b) => b,
        None => ST.with(|s| s.borrow().sigma.iter().any(|n| n == name)),
    }
}

pub fn leak(s: &str) -> &'static str {
    Box::leak(s.to_string().into_boxed_str())
}

pub struct Suspend(pub u32);
impl Future for Suspend {
    type Output = ();
    fn poll(mut self: Pin<&mut Self>, _cx: &mut Context<'_>) -> Poll<()> {
        if self.0 == u32::MAX {
            ST.with(|s| s.borrow_mut().stuck = true);
            return Poll::Pending;
        }
        if self.0 == 0 {
            Poll::Ready(())
        } else {
            self.0 -= 1;
            Poll::Pending
        }
    }
}
pub fn suspend(n: u32) -> Suspend {
    Suspend(n)
}

fn noop_waker() -> Waker {
    fn clone(_: *const ()) -> RawWaker {
        RawWaker::new(std::ptr::null(), &VTABLE)
    }
    fn noop(_: *const ()) {}
    static VTABLE: RawWakerVTable = RawWakerVTable::new(clone, noop, noop, noop);
    unsafe { Waker::from_raw(RawWaker::new(std::ptr::null(), &VTABLE)) }
}

/// Poll `f` until it completes, or until a hook is pending forever (then the future is
/// dropped, i.e. abandoned, and `None` is returned).
pub fn drive<F: Future>(f: F) -> Option<F::Output> {
    let mut f = Box::pin(f);
    let w = noop_waker();
    let mut cx = Context::from_waker(&w);
    let mut polls = 0u64;
    loop {
        match f.as_mut().poll(&mut cx) {
            Poll::Ready(v) => return Some(v),
            Poll::Pending => {
                polls += 1;
                if ST.with(|s| s.borrow().stuck) || polls > 1_000_000 {
                    return None;
                }
            }
        }
    }
}

pub fn take_trace() -> String {
    ST.with(|s| s.borrow().trace.join(" "))
}
pub fn take_drops() -> String {
    ST.with(|s| {
        let mut d = s.borrow().drops.clone();
        d.sort();
        d.join(" ")
    })
}

pub fn panic_text(p: Box<dyn std::any::Any + Send>) -> String {
    let msg: String = if let Some(s) = p.downcast_ref::<&str>() {
        s.to_string()
    } else if let Some(s) = p.downcast_ref::<String>() {
        s.clone()
    } else {
        "?".to_string()
    };
    if msg == "hookpanic" {
        return "panic:hook".to_string();
    }
    if msg.contains("dynamic machine in invalid state") {
        return "panic:invalid".to_string();
    }
    if msg.contains("called `Option::unwrap()` on a `None` value") {
        return "panic:unwrap".to_string();
    }
    if let Some(rest) = msg.strip_prefix("Around callback '") {
        // Around callback '<cb>' aborted at AfterSuccess stage during event '<ev>', but ...
        if let Some(i) = rest.find("' aborted at AfterSuccess stage during event '") {
            let cb = &rest[..i];
            let rest2 = &rest[i + "' aborted at AfterSuccess stage during event '".len()..];
            if let Some(j) = rest2.find('\'') {
                return format!("panic:after:{}:{}", cb, &rest2[..j]);
            }
        }
    }
    format!("panic:other:{msg}")
}

pub fn kind_text(k: &state_machines::core::TransitionErrorKind) -> String {
    use state_machines::core::TransitionErrorKind as K;
    match k {
        K::InvalidTransition => "I".to_string(),
        K::GuardFailed { guard } => format!("G~{guard}"),
        K::ActionFailed { action } => format!("A~{action}"),
    }
}

pub fn guard_err_text(e: &state_machines::core::GuardError) -> String {
    format!("errguard:{}:{}:{}", e.guard, e.event, kind_text(&e.kind))
}

pub fn dyn_err_text(e: &state_machines::DynamicError) -> String {
    use state_machines::DynamicError as E;
    match e {
        E::InvalidTransition { from, event } => format!("errdyn:IT:{from}:{event}"),
        E::GuardFailed { guard, event } => format!("errdyn:GF:{guard}:{event}"),
        E::ActionFailed { action, event } => format!("errdyn:AF:{action}:{event}"),
        E::WrongState { expected, actual, operation } => format!("errdyn:WS:{expected}:{actual}:{operation}"),
    }
}
