// T5: the real core functions and abort macros on the whole finite error algebra
// (3 kinds x marker names per position); printed as a canonical table.
use state_machines::core::{AroundOutcome, GuardError, TransitionContext, TransitionError, TransitionErrorKind};
use state_machines::{abort_guard, abort_with, DynamicError};

#[derive(Debug, Clone, Copy, PartialEq, Eq)]
struct Mk;

fn kind_text(k: &TransitionErrorKind) -> String {
    match k {
        TransitionErrorKind::InvalidTransition => "I".to_string(),
        TransitionErrorKind::GuardFailed { guard } => format!("G~{guard}"),
        TransitionErrorKind::ActionFailed { action } => format!("A~{action}"),
    }
}
fn dyn_text(e: &DynamicError) -> String {
    match e {
        DynamicError::InvalidTransition { from, event } => format!("IT:{from}:{event}"),
        DynamicError::GuardFailed { guard, event } => format!("GF:{guard}:{event}"),
        DynamicError::ActionFailed { action, event } => format!("AF:{action}:{event}"),
        DynamicError::WrongState { expected, actual, operation } => format!("WS:{expected}:{actual}:{operation}"),
    }
}
fn outcome_text(o: AroundOutcome<Mk>) -> String {
    match o {
        AroundOutcome::Proceed => "proceed".to_string(),
        AroundOutcome::Abort(e) => format!("abort:{}:{}", e.event, kind_text(&e.kind)),
    }
}

fn main() {
    let names: [&'static str; 5] = ["alpha", "b_2", "zz", "r_rate", "R2r"];
    for g in names {
        for e in names {
            let ge = GuardError::new(g, e);
            println!("new {g} {e} -> {}:{}:{}", ge.guard, ge.event, kind_text(&ge.kind));
            for kn in names {
                for k in [TransitionErrorKind::InvalidTransition, TransitionErrorKind::GuardFailed { guard: kn },
                          TransitionErrorKind::ActionFailed { action: kn }] {
                    let w = GuardError::with_kind(g, e, k.clone());
                    println!("with_kind {g} {e} {} -> {}:{}:{}", kind_text(&k), w.guard, w.event, kind_text(&w.kind));
                    println!("from_guard_error {g} {e} {} -> {}", kind_text(&k), dyn_text(&DynamicError::from_guard_error(w)));
                }
            }
            let t = TransitionError::guard_failed(Mk, e, g);
            println!("te_guard_failed {e} {g} -> {}:{}", t.event, kind_text(&t.kind));
            let t = TransitionError::invalid_transition(Mk, e);
            println!("te_invalid {e} -> {}:{}", t.event, kind_text(&t.kind));
            let ctx = TransitionContext::new(Mk, Mk, e);
            println!("abort_guard_expr {e} {g} -> {}", outcome_text(abort_guard!(ctx, (g))));
            for k in [TransitionErrorKind::InvalidTransition, TransitionErrorKind::GuardFailed { guard: g },
                      TransitionErrorKind::ActionFailed { action: g }] {
                println!("abort_with {e} {} -> {}", kind_text(&k), outcome_text(abort_with!(ctx, k.clone())));
            }
            println!("dyn_invalid {g} {e} -> {}", dyn_text(&DynamicError::invalid_transition(g, e)));
            println!("dyn_guard {g} {e} -> {}", dyn_text(&DynamicError::guard_failed(g, e)));
            println!("dyn_action {g} {e} -> {}", dyn_text(&DynamicError::action_failed(g, e)));
            for o in names {
                println!("dyn_wrong {g} {e} {o} -> {}", dyn_text(&DynamicError::wrong_state(g, e, o)));
            }
        }
    }
    // the identifier arm of abort_guard! stringifies the identifier (every leading character class once)
    macro_rules! ident_rows {
        ($ev:expr; $($g:ident),*) => { $(
            { let ctx = TransitionContext::new(Mk, Mk, $ev);
              println!("abort_guard_ident {} {} -> {}", $ev, stringify!($g), outcome_text(abort_guard!(ctx, $g))); }
        )* };
    }
    ident_rows!("alpha"; zz, alpha, r, rr, ready, r_2, x_r, R, Rr, _r, a9);
    ident_rows!("r_rate"; zz, rate_limit, require_badge);
}
