"""Definition trees for the state_machine! DSL: generation, mutation and the two
serialisations (DSL text for the real macro, prefix line format for the Lean model).

A definition is a list of top-level items (see SMV/Syntax.lean):
  ('name', X) ('initial', X) ('context', TY) ('async', b) ('dynamic', b)
  ('legacy', key, 'ident'|'brace') ('unknown', key)
  ('states', [titem]) ('events', [evblock], colon)
  titem  : ('leaf', n, TY|None) | ('sup', n, TY|None, [bitem])
  bitem  : ('state', n, TY|None) | ('sup', n, TY|None, [bitem]) | ('initial', n) | ('unknown', key)
  evblock: (name, [evitem])
  evitem : ('transition', [tritem]) | (hook, [names], bracketed) | ('payload', TY) | ('unknown', key)
  tritem : ('from', [names], bracketed) | ('to', n) | (hook, [names], bracketed) | ('unknown', key)
TY is a list of token atoms (no whitespace inside an atom).
No semantics lives here: which leaf a superstate resolves to etc. is never computed in
Python; anything of that kind is obtained from the Lean driver.
"""
import random
import re

HOOKS = ('guards', 'unless', 'before', 'after', 'around')
HOOK_PREFIX = {'guards': 'guards', 'unless': 'unl', 'before': 'before', 'after': 'after', 'around': 'around'}

# ---------------------------------------------------------------------------------------
# serialisation: prefix format (Lean driver)

def _ty(t):
    return [str(len(t))] + list(t)

def _opt_ty(t):
    return ['0'] if t is None else ['1'] + _ty(t)

def _names(l):
    return [str(len(l))] + list(l)

def _bitem(b):
    k = b[0]
    if k == 'state':
        return ['state', b[1]] + _opt_ty(b[2])
    if k == 'sup':
        out = ['sup', b[1]] + _opt_ty(b[2]) + [str(len(b[3]))]
        for x in b[3]:
            out += _bitem(x)
        return out
    if k == 'initial':
        return ['initial', b[1]]
    return ['unknown', b[1]]

def _titem(t):
    if t[0] == 'leaf':
        return ['leaf', t[1]] + _opt_ty(t[2])
    out = ['sup', t[1]] + _opt_ty(t[2]) + [str(len(t[3]))]
    for x in t[3]:
        out += _bitem(x)
    return out

def _tritem(t):
    k = t[0]
    if k == 'from':
        return ['from'] + _names(t[1])
    if k == 'to':
        return ['to', t[1]]
    if k == 'to_list':
        # `to: [A, B]` is not in the grammar (a target is one identifier): for the model an unparsable entry
        return ['unknown', 'to_list']
    if k in HOOKS:
        return [HOOK_PREFIX[k]] + _names(t[1])
    return ['unknown', t[1]]

def _evitem(e):
    k = e[0]
    if k == 'transition':
        out = ['transition', str(len(e[1]))]
        for t in e[1]:
            out += _tritem(t)
        return out
    if k == 'payload':
        return ['payload'] + _ty(e[1])
    if k in HOOKS:
        return [HOOK_PREFIX[k]] + _names(e[1])
    return ['unknown', e[1]]

def to_prefix(d):
    out = [str(len(d))]
    for it in d:
        k = it[0]
        if k in ('name', 'initial'):
            out += [k, it[1]]
        elif k == 'context':
            out += ['context'] + _ty(it[1])
        elif k in ('async', 'dynamic'):
            out += [k, '1' if it[1] else '0']
        elif k == 'legacy':
            out += ['legacy', it[1]]
        elif k == 'unknown':
            out += ['unknown', it[1]]
        elif k == 'states':
            out += ['states', str(len(it[1]))]
            for t in it[1]:
                out += _titem(t)
        elif k == 'events':
            out += ['events', str(len(it[1]))]
            for (n, items) in it[1]:
                out += [n, str(len(items))]
                for e in items:
                    out += _evitem(e)
        else:
            raise ValueError(k)
    return ' '.join(out)

# ---------------------------------------------------------------------------------------
# serialisation: DSL text (real macro). `rng` only picks separator styles.

class Style:
    def __init__(self, rng=None):
        self.rng = rng
    def comma(self):
        if self.rng is None:
            return ','
        return ',' if self.rng.random() < 0.8 else ''
    def lcomma(self):   # separator inside ident lists
        if self.rng is None:
            return ', '
        return ', ' if self.rng.random() < 0.85 else ' '
    def trail(self):    # trailing separator after last list element
        if self.rng is None:
            return ''
        return ',' if self.rng.random() < 0.2 else ''

def ty_text(t):
    return ' '.join(t)

def _data(t):
    return '' if t is None else '(' + ty_text(t) + ')'

def _names_text(l, bracketed, st):
    if not bracketed and len(l) == 1:
        return l[0]
    return '[' + st.lcomma().join(l) + (st.trail() if l else '') + ']'

def _bitems_text(items, st, ind):
    out = []
    for b in items:
        k = b[0]
        if k == 'state':
            out.append(f'{ind}state {b[1]}{_data(b[2])}{st.comma()}')
        elif k == 'sup':
            out.append(f'{ind}superstate {b[1]}{_data(b[2])} {{')
            out += _bitems_text(b[3], st, ind + '  ')
            out.append(f'{ind}}}{st.comma()}')
        elif k == 'initial':
            out.append(f'{ind}initial: {b[1]}{st.comma()}')
        else:
            out.append(f'{ind}{b[1]}: Whatever{st.comma()}')
    return out

def to_text(d, rng=None):
    st = Style(rng)
    out = []
    for it in d:
        k = it[0]
        if k in ('name', 'initial'):
            out.append(f'{k}: {it[1]}{st.comma()}')
        elif k == 'context':
            out.append(f'context: {ty_text(it[1])},')
        elif k in ('async', 'dynamic'):
            out.append(f'{k}: {"true" if it[1] else "false"}{st.comma()}')
        elif k == 'legacy':
            # a fourth element 'nocomma' forces the (optional) separator after the entry to be absent
            sep = '' if (len(it) > 3 and it[3] == 'nocomma') else st.comma()
            if len(it) > 2 and it[2] == 'brace':
                out.append(f'{it[1]}: {{ }}{sep}')
            else:
                out.append(f'{it[1]}: LegacyIdent{sep}')
        elif k == 'unknown':
            out.append(f'{it[1]}: Whatever{st.comma()}')
        elif k == 'states':
            out.append('states: [')
            for t in it[1]:
                if t[0] == 'leaf':
                    out.append(f'  {t[1]}{_data(t[2])}{st.comma()}')
                else:
                    out.append(f'  superstate {t[1]}{_data(t[2])} {{')
                    out += _bitems_text(t[3], st, '    ')
                    out.append(f'  }}{st.comma()}')
            out.append(f']{st.comma()}')
        elif k == 'events':
            colon = it[2] if len(it) > 2 else False
            out.append('events: {' if colon else 'events {')
            for (n, items) in it[1]:
                out.append(f'  {n} {{')
                for e in items:
                    ek = e[0]
                    if ek == 'transition':
                        parts = []
                        for t in e[1]:
                            tk = t[0]
                            if tk == 'from':
                                parts.append(f'from: {_names_text(t[1], t[2] if len(t) > 2 else True, st)}')
                            elif tk == 'to':
                                parts.append(f'to: {t[1]}')
                            elif tk == 'to_list':
                                parts.append('to: [' + ', '.join(t[1]) + ']')
                            elif tk in HOOKS:
                                parts.append(f'{tk}: {_names_text(t[1], t[2] if len(t) > 2 else True, st)}')
                            else:
                                parts.append(f'{t[1]}: Whatever')
                        sep = [st.comma() for _ in parts]
                        body = ' '.join(p + (s if i + 1 < len(parts) else st.trail()) for i, (p, s) in enumerate(zip(parts, sep)))
                        out.append(f'    transition: {{ {body} }}{st.comma()}')
                    elif ek == 'payload':
                        out.append(f'    payload: {ty_text(e[1])},')
                    elif ek in HOOKS:
                        out.append(f'    {ek}: {_names_text(e[1], e[2] if len(e) > 2 else True, st)}{st.comma()}')
                    else:
                        out.append(f'    {e[1]}: Whatever{st.comma()}')
                out.append(f'  }}{st.comma()}')
            out.append(f'}}{st.comma()}')
    return '\n'.join(out)

# ---------------------------------------------------------------------------------------
# parsing DSL text (only to extract the definitions that already exist in /repo)

_TOK = re.compile(r"""\s*(?:(//[^\n]*)|('[A-Za-z_][A-Za-z0-9_]*)|([A-Za-z_][A-Za-z0-9_]*)|(\d[\dA-Za-z_]*)|("(?:[^"\\]|\\.)*")|(::|->)|(.))""", re.S)

def tokenize(s):
    out = []
    pos = 0
    while pos < len(s):
        m = _TOK.match(s, pos)
        if not m:
            break
        pos = m.end()
        if m.group(1):
            continue
        t = m.group(2) or m.group(3) or m.group(4) or m.group(5) or m.group(6) or m.group(7)
        if t is None or t.isspace():
            continue
        out.append(t)
    return out

class _P:
    def __init__(self, toks):
        self.t = toks
        self.i = 0
    def peek(self, k=0):
        return self.t[self.i + k] if self.i + k < len(self.t) else None
    def next(self):
        x = self.peek()
        self.i += 1
        return x
    def expect(self, x):
        y = self.next()
        if y != x:
            raise SyntaxError(f'expected {x} got {y} at {self.i}')
    def opt(self, x):
        if self.peek() == x:
            self.i += 1
            return True
        return False
    def ty_until(self, stops):
        """collect type tokens until one of `stops` at nesting depth 0"""
        out = []
        depth = 0
        while True:
            x = self.peek()
            if x is None:
                break
            if depth == 0 and x in stops:
                break
            if x in '([<':
                depth += 1
            elif x in ')]>' and not (x == '>' and out and out[-1] == '-'):
                depth -= 1
            out.append(self.next())
        return out
    def data(self):
        if self.peek() == '(':
            self.next()
            t = self.ty_until((')',))
            self.expect(')')
            return t
        return None
    def names(self):
        if self.peek() == '[':
            self.next()
            l = []
            while self.peek() != ']':
                l.append(self.next())
                self.opt(',')
            self.next()
            return l, True
        return [self.next()], False
    def block(self):
        items = []
        self.expect('{')
        while self.peek() != '}':
            k = self.next()
            if k == 'state':
                n = self.next()
                items.append(('state', n, self.data()))
            elif k == 'superstate':
                n = self.next()
                d = self.data()
                items.append(('sup', n, d, self.block()))
            elif k == 'initial':
                self.expect(':')
                items.append(('initial', self.next()))
            else:
                raise SyntaxError('block key ' + k)
            self.opt(',')
        self.next()
        return items
    def skip_group(self):
        depth = 0
        while True:
            x = self.next()
            if x in '([{':
                depth += 1
            elif x in ')]}':
                depth -= 1
                if depth == 0:
                    return

def parse_text(s):
    p = _P(tokenize(s))
    d = []
    while p.peek() is not None:
        k = p.next()
        if k in ('name', 'initial'):
            p.expect(':')
            d.append((k, p.next()))
        elif k == 'context':
            p.expect(':')
            d.append(('context', p.ty_until((',',))))
        elif k in ('async', 'dynamic'):
            p.expect(':')
            d.append((k, p.next() == 'true'))
        elif k in ('state', 'action', 'callbacks'):
            p.expect(':')
            if p.peek() == '{':
                p.skip_group()
                d.append(('legacy', k, 'brace'))
            else:
                p.next()
                d.append(('legacy', k, 'ident'))
        elif k == 'states':
            p.expect(':')
            p.expect('[')
            items = []
            while p.peek() != ']':
                n = p.next()
                if n == 'superstate':
                    n = p.next()
                    dt = p.data()
                    items.append(('sup', n, dt, p.block()))
                else:
                    items.append(('leaf', n, p.data()))
                p.opt(',')
            p.next()
            d.append(('states', items))
        elif k == 'events':
            colon = p.opt(':')
            p.expect('{')
            blocks = []
            while p.peek() != '}':
                n = p.next()
                p.expect('{')
                items = []
                while p.peek() != '}':
                    ek = p.next()
                    p.expect(':')
                    if ek == 'transition':
                        p.expect('{')
                        tr = []
                        while p.peek() != '}':
                            tk = p.next()
                            p.expect(':')
                            if tk == 'from':
                                l, b = p.names()
                                tr.append(('from', l, b))
                            elif tk == 'to':
                                tr.append(('to', p.next()))
                            elif tk in HOOKS:
                                l, b = p.names()
                                tr.append((tk, l, b))
                            else:
                                raise SyntaxError('tr key ' + tk)
                            p.opt(',')
                        p.next()
                        items.append(('transition', tr))
                    elif ek == 'payload':
                        items.append(('payload', p.ty_until((',', '}'))))
                    elif ek in HOOKS:
                        l, b = p.names()
                        items.append((ek, l, b))
                    else:
                        raise SyntaxError('ev key ' + ek)
                    p.opt(',')
                p.next()
                blocks.append((n, items))
                p.opt(',')
            p.next()
            d.append(('events', blocks, colon))
        else:
            raise SyntaxError('top key ' + k)
        p.opt(',')
    return d

def extract_blocks(src):
    """all `state_machine! { … }` bodies in a source text"""
    out = []
    for m in re.finditer(r'state_machine!\s*\{', src):
        i = m.end()
        depth = 1
        j = i
        while j < len(src) and depth:
            c = src[j]
            if c == '{':
                depth += 1
            elif c == '}':
                depth -= 1
            j += 1
        out.append(src[i:j - 1])
    return out

# ---------------------------------------------------------------------------------------
# random generation

KEYWORDS = {'as', 'break', 'const', 'continue', 'crate', 'else', 'enum', 'extern', 'false', 'fn', 'for', 'if',
            'impl', 'in', 'let', 'loop', 'match', 'mod', 'move', 'mut', 'pub', 'ref', 'return', 'self', 'Self',
            'static', 'struct', 'super', 'trait', 'true', 'type', 'unsafe', 'use', 'where', 'while', 'async',
            'await', 'dyn', 'abstract', 'become', 'box', 'do', 'final', 'macro', 'override', 'priv', 'typeof',
            'unsized', 'virtual', 'yield', 'try', 'gen', 'union', 'superstate', 'state', 'initial'}

STATE_WORDS = ['Idle', 'Active', 'Done', 'Open', 'Closed', 'HTTPServer', 'IOError', 'X', 'A', 'B', 'Q', 'S9', 'Run2Go', 'C', 'S', 'T', 'Ok',
               'Err', 'Some', 'None', 'Result', 'Option', 'Default', 'Debug',
               'LaunchPrep', 'In_Flight', 'lower', 'Zed', 'Alpha', 'Beta', 'Gamma', 'Delta', 'K8s', 'Standby', 'Up',
               'Dn', 'L', 'M', 'N', 'Wait', 'Ready', 'Busy', 'ParseXML', 'Mid', 'Deep', 'Far', 'R2D2', 'Ab', 'AbC',
               'ready', 'rr2', 'HalfOpen', 'r_state', 'Any', 'All', 'any', 'Initial', 'State', 'Event']
SUPER_WORDS = ['Flight', 'Group', 'Outer', 'Inner', 'Net', 'P', 'W', 'Zone', 'Core', 'Shell', 'Top', 'Sub', 'GRP', 'Ring1']
EVENT_WORDS = ['go', 'stop', 'launch', 'land', 'abort', 'tick', 'next', 'reset', 'a', 'b', 'x1', 'set_thrust',
               'enter_half_open', 'e2', 'do_it', 'http_get', 'io', 'step', 'flip', 'ping', 'k_9', 'retry', 'fire',
               'verify_2fa', 'retry_3x', 'go_4th_gear', 'phase_2_start', 'x_1_y2z', 'any', 'all']
HOOK_WORDS = ['check', 'ok', 'ready', 'log', 'audit', 'pre', 'post', 'wrap', 'g1', 'g2', 'is_set', 'deny', 'tx',
              'fuel_ok', 'note', 'h', 'hk2', 'veto', 'warm', 'cool', 'gate', 'Trace', 'onEnter']
TYPES = [['u32'], ['D'], ['Vec', '<', 'u8', '>'], ['(', 'u32', ',', 'u8', ')'], ['&', "'static", 'str'],
         ['Option', '<', 'u32', '>'], ['[', 'u8', ';', '4', ']'], ['core', '::', 'primitive', '::', 'u16'],
         ['(', ')'], ['Pay'], ['Ctx'], ['i64']]

def pick_names(rng, pool, n, taken):
    out = []
    tries = 0
    while len(out) < n:
        tries += 1
        w = rng.choice(pool)
        if tries > 50 or w in taken or w in KEYWORDS:
            w = w + str(rng.randrange(100))
        if w in taken or w in KEYWORDS:
            continue
        taken.add(w)
        out.append(w)
    return out

class Shape:
    """knobs for wf_random"""
    def __init__(self, **kw):
        self.max_leaves = 8
        self.max_depth = 3
        self.max_events = 4
        self.max_hooks = 2
        self.p_data = 0.3
        self.p_super_data = 0.1
        self.p_payload = 0.3
        self.p_ctx = 0.3
        self.p_async = 0.3
        self.p_dynamic = 0.5
        self.p_legacy = 0.05
        self.__dict__.update(kw)

def _gen_forest(rng, leaves, supers, depth, shape, top):
    """distribute `leaves` into a forest; returns list of items (titem at top, bitem below)"""
    items = []
    i = 0
    while i < len(leaves):
        remaining = len(leaves) - i
        if depth < shape.max_depth and supers and remaining >= 1 and rng.random() < (0.35 if top else 0.3):
            k = rng.randint(1, min(remaining, 4))
            sname = supers.pop()
            body = _gen_forest(rng, leaves[i:i + k], supers, depth + 1, shape, False)
            # declared initial: any leaf beneath (document order known: leaves[i:i+k])
            if rng.random() < 0.5:
                pos = rng.randrange(len(body) + 1)
                body.insert(pos, ('initial', rng.choice([l[0] for l in leaves[i:i + k]])))
            sdata = rng.choice(TYPES) if rng.random() < shape.p_super_data else None
            items.append(('sup', sname, sdata, body))
            i += k
        else:
            n, dt = leaves[i]
            items.append(('leaf' if top else 'state', n, dt))
            i += 1
    return items

def _hooks(rng, shape, pool):
    out = []
    for k in HOOKS:
        if rng.random() < 0.35:
            n = rng.randint(1, shape.max_hooks)
            l = [rng.choice(pool) for _ in range(n)]
            out.append((k, l, rng.random() < 0.7))
    return out

def wf_random(rng, shape=None):
    """a random definition that satisfies the documented rules (by construction: each leaf
    is given at most one transition per event; no derived-name collisions are *prevented*
    here except plain duplicates — name-level corner cases are what the corpus is for)."""
    shape = shape or Shape()
    taken = set()
    mname = pick_names(rng, ['Machine', 'Deck', 'Ctl', 'Fsm', 'M', 'Robot', 'HTTPConn', 'Door2'], 1, taken)[0]
    nleaves = rng.randint(1, shape.max_leaves)
    lnames = pick_names(rng, STATE_WORDS, nleaves, taken)
    leaves = [(n, (rng.choice(TYPES) if rng.random() < shape.p_data else None)) for n in lnames]
    supers = pick_names(rng, SUPER_WORDS, 6, taken)
    forest = _gen_forest(rng, leaves, supers, 0, shape, True)
    # collect superstates with the leaves beneath them (document order), from the tree itself
    sup_leaves = {}
    def walk(items):
        acc = []
        for it in items:
            if it[0] in ('leaf', 'state'):
                acc.append(it[1])
            elif it[0] == 'sup':
                sub = walk(it[3])
                sup_leaves[it[1]] = sub
                acc += sub
        return acc
    walk(forest)
    hookpool = pick_names(rng, HOOK_WORDS, 6, taken)
    nev = rng.randint(0, shape.max_events)
    enames = pick_names(rng, EVENT_WORDS, nev, taken)
    blocks = []
    for en in enames:
        items = []
        if rng.random() < shape.p_payload:
            items.append(('payload', rng.choice(TYPES)))
        items += _hooks(rng, shape, hookpool)
        # partition a random subset of leaves among 1..3 transitions
        free = lnames[:]
        rng.shuffle(free)
        ntr = rng.randint(1, 3)
        trs = []
        for _ in range(ntr):
            if not free:
                break
            srcs = []
            # maybe use a superstate all of whose leaves are still free
            cands = [s for s, ls in sup_leaves.items() if ls and all(l in free for l in ls)]
            if cands and rng.random() < 0.4:
                s = rng.choice(cands)
                srcs.append(s)
                for l in sup_leaves[s]:
                    free.remove(l)
            k = rng.randint(0 if srcs else 1, min(2, len(free)))
            for _ in range(k):
                srcs.append(free.pop())
            rng.shuffle(srcs)
            tgt = rng.choice(lnames + list(sup_leaves.keys()))
            tr = [('from', srcs, len(srcs) != 1 or rng.random() < 0.5), ('to', tgt)]
            if rng.random() < 0.3:
                tr.reverse()
            tr += _hooks(rng, shape, hookpool)
            trs.append(('transition', tr))
        for t in trs:
            items.insert(rng.randrange(len(items) + 1), t)
        blocks.append((en, items))
    d = [('name', mname)]
    if rng.random() < shape.p_ctx:
        d.append(('context', rng.choice(TYPES)))
    if rng.random() < shape.p_async:
        d.append(('async', rng.random() < 0.85))
    if rng.random() < shape.p_dynamic:
        d.append(('dynamic', rng.random() < 0.85))
    if rng.random() < shape.p_legacy:
        d.append(('legacy', rng.choice(['state', 'action', 'callbacks']), rng.choice(['ident', 'brace'])))
    d.append(('initial', rng.choice(lnames)))
    d.append(('states', forest))
    if blocks or rng.random() < 0.7:
        d.append(('events', blocks, rng.random() < 0.5))
    # top-level order is free except that it does not matter; shuffle a little
    head = d[:1]
    rest = d[1:]
    if rng.random() < 0.3:
        rng.shuffle(rest)
    return head + rest

# ---------------------------------------------------------------------------------------
# rule-violating edits (C13). Each returns (rule, mutated definition) or None.

def _copy(d):
    import copy
    return copy.deepcopy(d)

def _states_item(d):
    for i, it in enumerate(d):
        if it[0] == 'states':
            return i
    return None

def _events_item(d):
    for i, it in enumerate(d):
        if it[0] == 'events':
            return i
    return None

def _all_blocks(items, path=()):
    """yield (container_list, index) for every sup item in the forest"""
    for i, it in enumerate(items):
        if it[0] == 'sup':
            yield items, i
            yield from _all_blocks(it[3])

def _leaf_names(items):
    out = []
    for it in items:
        if it[0] in ('leaf', 'state'):
            out.append(it[1])
        elif it[0] == 'sup':
            out += _leaf_names(it[3])
    return out

def _sup_names(items):
    out = []
    for it in items:
        if it[0] == 'sup':
            out.append(it[1])
            out += _sup_names(it[3])
    return out

COLLIDING_PAIRS = [('IOBusy', 'IoBusy'), ('Ab', 'AB'), ('HTTPServer', 'HttpServer'), ('T', 't'), ('OK', 'Ok'), ('Q2', 'q2')]
# distinct identifiers with distinct snake_case forms that coincide under a cruder normalisation (lower-casing):
# such definitions compile, so a confusion of the two states shows as behaviour
CASE_PAIRS = [('Backup', 'BackUp'), ('Setup', 'SetUp'), ('Online', 'OnLine'), ('Standby2', 'StandBy2')]

def repeat_variant(d, rng):
    """d with keys written twice, the overridden (earlier) occurrence being wrong or different: the definition
    means the same as d, because the last occurrence of a key is the one that counts"""
    m = _copy(d)
    si, ei = _states_item(m), _events_item(m)
    changed = False
    if ei is not None:
        for bi, (n, items) in enumerate(m[ei][1]):
            new_items = []
            for e in items:
                if e[0] == 'transition' and rng.random() < 0.6:
                    tr = list(e[1])
                    k = rng.random()
                    if k < 0.4:
                        tr.insert(0, ('to', 'Nowhere'))
                    elif k < 0.7:
                        tr.insert(0, ('from', ['Nowhere', 'Elsewhere'], True))
                    else:
                        tr.insert(0, ('guards', ['overridden_g'], True)) if any(t[0] == 'guards' for t in tr) else tr.insert(0, ('to', 'Nowhere'))
                    new_items.append(('transition', tr))
                    changed = True
                elif e[0] in HOOKS and rng.random() < 0.4:
                    new_items.append((e[0], ['overridden_h'], True))
                    new_items.append(e)
                    changed = True
                elif e[0] == 'payload' and rng.random() < 0.5:
                    new_items.append(('payload', ['i64']))
                    new_items.append(e)
                    changed = True
                else:
                    new_items.append(e)
            m[ei][1][bi] = (n, new_items)
    ini = [it for it in m if it[0] == 'initial']
    if ini and rng.random() < 0.5:
        m.insert(1, ('initial', 'Nowhere'))
        changed = True
    return m if changed else None

def collide_variant(d, rng):
    """d with two of its states renamed to a pair of distinct identifiers that have the same snake_case
    form (the derived field / accessor names coincide); exactly one of the two carries data, so the
    definition still compiles in typestate mode. None when d has fewer than two state names."""
    si = _states_item(d)
    if si is None:
        return None
    leaves = _leaf_names(d[si][1])
    sups = _sup_names(d[si][1])
    if len(leaves) < 2:
        return None
    a, b = rng.choice(COLLIDING_PAIRS + CASE_PAIRS)
    if rng.random() < 0.5:
        a, b = b, a
    if a in leaves + sups or b in leaves + sups:
        return None
    x = rng.choice(leaves)
    y = rng.choice([n for n in leaves if n != x] + sups)
    m = {x: a, y: b}
    def r(n):
        return m.get(n, n)
    def rb(items):
        out = []
        for it in items:
            if it[0] in ('leaf', 'state'):
                data = it[2]
                if it[1] == x:
                    data = ['u32']
                elif it[1] == y:
                    data = None
                out.append((it[0], r(it[1]), data))
            elif it[0] == 'sup':
                data = it[2]
                if it[1] == y:
                    data = None
                out.append(('sup', r(it[1]), data, rb(it[3])))
            elif it[0] == 'initial':
                out.append(('initial', r(it[1])))
            else:
                out.append(it)
        return out
    nd = []
    for it in d:
        if it[0] == 'initial':
            nd.append(('initial', r(it[1])))
        elif it[0] == 'states':
            nd.append(('states', rb(it[1])) + tuple(it[2:]))
        elif it[0] == 'events':
            blocks = []
            for (en, items) in it[1]:
                ni = []
                for e in items:
                    if e[0] == 'transition':
                        ni.append(('transition', [(('from', [r(z) for z in t[1]]) + tuple(t[2:])) if t[0] == 'from' else
                                                  (('to', r(t[1])) if t[0] == 'to' else t) for t in e[1]]))
                    else:
                        ni.append(e)
                blocks.append((en, ni))
            nd.append(('events', blocks) + tuple(it[2:]))
        else:
            nd.append(it)
    return nd

def mutations(d, rng):
    """all single rule-violating edits of d that this generator knows, as (rule, def)"""
    out = []
    si = _states_item(d)
    ei = _events_item(d)
    # R1 required sections
    for key in ('name', 'initial', 'states'):
        m = [it for it in _copy(d) if it[0] != key]
        if len(m) != len(d):
            out.append((f'R1-missing-{key}', m))
    # R2 unknown key at every level
    m = _copy(d)
    m.insert(rng.randrange(len(m) + 1), ('unknown', 'bogus'))
    out.append(('R2-unknown-top', m))
    if si is not None:
        forest = d[si][1]
        blocks = list(_all_blocks(forest))
        for bi in range(len(blocks)):
            m = _copy(d)
            mb = list(_all_blocks(m[si][1]))
            cont, idx = mb[bi]
            body = cont[idx][3]
            body.insert(rng.randrange(len(body) + 1), ('unknown', 'bogus'))
            out.append(('R2-unknown-block', m))
    if ei is not None:
        for bi, (n, items) in enumerate(d[ei][1]):
            m = _copy(d)
            its = m[ei][1][bi][1]
            its.insert(rng.randrange(len(its) + 1), ('unknown', 'bogus'))
            out.append(('R2-unknown-event', m))
            for ti, e in enumerate(items):
                if e[0] == 'transition':
                    m = _copy(d)
                    tr = m[ei][1][bi][1][ti][1]
                    tr.insert(rng.randrange(len(tr) + 1), ('unknown', 'bogus'))
                    out.append(('R2-unknown-transition', m))
    if si is not None:
        forest = d[si][1]
        leaves = _leaf_names(forest)
        sups = _sup_names(forest)
        # R3 duplicate leaf: add a leaf named like an existing leaf, at top level or in a block
        for ln in leaves[:3]:
            m = _copy(d)
            m[si][1].insert(rng.randrange(len(m[si][1]) + 1), ('leaf', ln, None))
            out.append(('R3-dup-leaf-top', m))
            mb = list(_all_blocks(_copy(d)[si][1]))
            for bi in range(len(mb)):
                m = _copy(d)
                cont, idx = list(_all_blocks(m[si][1]))[bi]
                body = cont[idx][3]
                body.insert(rng.randrange(len(body) + 1), ('state', ln, None))
                out.append(('R3-dup-leaf-block', m))
        # R3 duplicate superstate: a second superstate with an existing superstate's name
        for sn in sups[:3]:
            m = _copy(d)
            m[si][1].insert(rng.randrange(len(m[si][1]) + 1), ('sup', sn, None, [('state', 'Fresh' + sn, None)]))
            out.append(('R3-dup-super-top', m))
            mb = list(_all_blocks(d[si][1]))
            for bi in range(len(mb)):
                m = _copy(d)
                cont, idx = list(_all_blocks(m[si][1]))[bi]
                body = cont[idx][3]
                body.insert(rng.randrange(len(body) + 1), ('sup', sn, None, [('state', 'Fresh' + sn, None)]))
                out.append(('R3-dup-super-nested', m))
        # R3 leaf named like a superstate
        for sn in sups[:2]:
            m = _copy(d)
            m[si][1].append(('leaf', sn, None))
            out.append(('R3-leaf-named-like-super', m))
        # R4 initial undeclared / a superstate
        m = _copy(d)
        m = [('initial', 'Nowhere') if it[0] == 'initial' else it for it in m]
        out.append(('R4-initial-undeclared', m))
        for sn in sups[:2]:
            m = [('initial', sn) if it[0] == 'initial' else it for it in _copy(d)]
            out.append(('R4-initial-super', m))
        # R5 superstate without children (new empty one, top and nested; and with only `initial:`)
        m = _copy(d)
        m[si][1].append(('sup', 'EmptySup', None, []))
        out.append(('R5-empty-super-top', m))
        for bi in range(len(blocks)):
            m = _copy(d)
            cont, idx = list(_all_blocks(m[si][1]))[bi]
            cont[idx][3].append(('sup', 'EmptySup', None, []))
            out.append(('R5-empty-super-nested', m))
        # R6 initial child outside the superstate's descendants
        for bi in range(len(blocks)):
            cont, idx = blocks[bi]
            inside = set(_leaf_names(cont[idx][3]))
            outside = [l for l in leaves if l not in inside]
            first_inside = leaves.index(next(l for l in leaves if l in inside)) if inside else 0
            earlier = [l for l in outside if leaves.index(l) < first_inside]
            later = [l for l in outside if leaves.index(l) > first_inside]
            cands = ([('earlier-leaf', earlier[-1])] if earlier else []) + ([('later-leaf', later[0])] if later else []) + \
                    [('undeclared', 'Nowhere')] + [('superstate', x) for x in sups[:1]]
            for label, cand in cands:
                m = _copy(d)
                c2, i2 = list(_all_blocks(m[si][1]))[bi]
                body = [b for b in c2[i2][3] if b[0] != 'initial']
                body.insert(rng.randrange(len(body) + 1), ('initial', cand))
                c2[i2] = (c2[i2][0], c2[i2][1], c2[i2][2], body)
                out.append((f'R6-initial-child-{label}', m))
    if ei is not None and si is not None:
        leaves = _leaf_names(d[si][1])
        sups = _sup_names(d[si][1])
        for bi, (n, items) in enumerate(d[ei][1]):
            # R7 non-snake event name
            for bad in (n.capitalize() if n.capitalize() != n else 'Xx', n + '_', '_' + n, n + '__z', 'camelCase'):
                m = _copy(d)
                m[ei][1][bi] = (bad, m[ei][1][bi][1])
                out.append(('R7-event-not-snake', m))
            # R8 event without transitions
            m = _copy(d)
            m[ei][1][bi] = (n, [e for e in m[ei][1][bi][1] if e[0] != 'transition'])
            out.append(('R8-event-no-transition', m))
            for ti, e in enumerate(items):
                if e[0] != 'transition':
                    continue
                # R9 missing from / to / empty from
                for key in ('from', 'to'):
                    m = _copy(d)
                    m[ei][1][bi][1][ti] = ('transition', [t for t in e[1] if t[0] != key])
                    out.append((f'R9-transition-missing-{key}', m))
                m = _copy(d)
                m[ei][1][bi][1][ti] = ('transition', [('from', [], True) if t[0] == 'from' else t for t in e[1]])
                out.append(('R9-transition-empty-from', m))
                # R9 a target that is a list (the grammar has one identifier)
                tgt = [t[1] for t in e[1] if t[0] == 'to']
                if tgt:
                    other = rng.choice(leaves)
                    for lst in ([tgt[-1], other], [other, tgt[-1]], ['Nowhere', tgt[-1]], [tgt[-1]]):
                        m = _copy(d)
                        m[ei][1][bi][1][ti] = ('transition', [('to_list', lst) if t[0] == 'to' else t for t in e[1]])
                        out.append(('R9-target-list', m))
                # R10 with a repeated key: the LAST `to:` / `from:` of a block is the one that counts
                m = _copy(d)
                m[ei][1][bi][1][ti] = ('transition', list(e[1]) + [('to', 'Nowhere')])
                out.append(('R10-target-undeclared-repeated-last', m))
                m = _copy(d)
                m[ei][1][bi][1][ti] = ('transition', list(e[1]) + [('from', ['Nowhere'], True)])
                out.append(('R10-source-undeclared-repeated-last', m))
                # R10 undeclared source / target
                m = _copy(d)
                m[ei][1][bi][1][ti] = ('transition', [('to', 'Nowhere') if t[0] == 'to' else t for t in e[1]])
                out.append(('R10-target-undeclared', m))
                m = _copy(d)
                m[ei][1][bi][1][ti] = ('transition', [('from', list(t[1]) + ['Nowhere'], True) if t[0] == 'from' else t for t in e[1]])
                out.append(('R10-source-undeclared', m))
                m = _copy(d)
                m[ei][1][bi][1][ti] = ('transition', [('from', ['Nowhere'] + list(t[1]), True) if t[0] == 'from' else t for t in e[1]])
                out.append(('R10-source-undeclared-first', m))
                # R11 two transitions applicable to the same leaf: duplicate a source, repeat the
                # transition, or add an enclosing superstate / a nested leaf as a further source
                srcs = [t[1] for t in e[1] if t[0] == 'from']
                if srcs and srcs[-1]:
                    s0 = srcs[-1][0]
                    m = _copy(d)
                    m[ei][1][bi][1][ti] = ('transition', [('from', list(t[1]) + [s0], True) if t[0] == 'from' else t for t in e[1]])
                    out.append(('R11-duplicate-source', m))
                    m = _copy(d)
                    other = rng.choice(leaves)
                    m[ei][1][bi][1].append(('transition', [('from', [s0], False), ('to', other)]))
                    out.append(('R11-second-transition-same-source', m))
    return out


# ---------------------------------------------------------------------------------------
# bounded-exhaustive hierarchies

def _forest_shapes(nl, ns):
    """all ordered forests with exactly nl leaves and ns (non-empty) superstates; 'L' | ('S', forest)"""
    if nl == 0 and ns == 0:
        yield []
        return
    if nl > 0:
        for rest in _forest_shapes(nl - 1, ns):
            yield ['L'] + rest
    if ns > 0:
        for a in range(1, nl + 1):
            for b in range(0, ns):
                for body in _forest_shapes(a, b):
                    for rest in _forest_shapes(nl - a, ns - 1 - b):
                        yield [('S', body)] + rest

def forest_exhaustive(max_leaves=4, max_sups=3, step=1):
    """every hierarchy shape with <= max_leaves leaves and <= max_sups superstates (any nesting, any position of
    leaves relative to nested blocks), every choice of explicit `initial:` per superstate (none or any leaf
    beneath it, written first or last in the block), and for every state or superstate an event leaving it;
    the targets rotate through all names across the definitions. Well-formed by construction."""
    import itertools
    out = []
    counter = [0]
    for nl in range(1, max_leaves + 1):
        for ns in range(0, max_sups + 1):
            for si, shape in enumerate(_forest_shapes(nl, ns)):
                # declaration order is not alphabetical order in three shapes out of four (a front end that sorts
                # names somewhere — seeded change C18-e — is invisible on alphabetically declared hierarchies)
                lnames = iter([['A', 'B', 'Cc', 'D9'], ['D9', 'Cc', 'B', 'A'], ['B', 'A', 'D9', 'Cc'], ['Cc', 'D9', 'A', 'B']][si % 4])
                snames = iter([['P', 'Q', 'R2'], ['R2', 'Q', 'P'], ['Q', 'R2', 'P']][si % 3])
                sups = []          # (name, leaves beneath)
                def build(items, top):
                    res = []
                    for it in items:
                        if it == 'L':
                            res.append(('leaf' if top else 'state', next(lnames), None))
                        else:
                            nm = next(snames)
                            body = build(it[1], False)
                            res.append(('sup', nm, None, body))
                            sups.append((nm, _leaf_names(body)))
                    return res
                forest = build(shape, True)
                leaves = _leaf_names(forest)
                names = leaves + [n for n, _ in sups]
                opts = [[None] + [(l, pos) for l in ls for pos in ((0, 1) if len(ls) > 1 else (0,))] for _, ls in sups]
                for combo in itertools.product(*opts):
                    counter[0] += len(names)
                    if step > 1 and (counter[0] // step) == ((counter[0] - len(names)) // step):
                        continue
                    ini = {sups[i][0]: c for i, c in enumerate(combo) if c is not None}
                    def with_ini(items):
                        res = []
                        for it in items:
                            if it[0] == 'sup':
                                body = with_ini(it[3])
                                if it[1] in ini:
                                    l, pos = ini[it[1]]
                                    body = ([('initial', l)] + body) if pos == 0 else (body + [('initial', l)])
                                res.append(('sup', it[1], it[2], body))
                            else:
                                res.append(it)
                        return res
                    f2 = with_ini(forest)
                    for j in range(len(names)):
                        if step > 1 and (counter[0] - len(names) + j + 1) % step != 0:
                            continue
                        blocks = [(f'e{i}', [('transition', [('from', [names[i]], False), ('to', names[(i + j) % len(names)])])])
                                  for i in range(len(names))]
                        out.append([('name', 'M'), ('dynamic', True), ('initial', leaves[j % len(leaves)]),
                                    ('states', f2), ('events', blocks, True)])
    return out

# ---------------------------------------------------------------------------------------
# bounded-exhaustive small definitions

def small_exhaustive():
    """every definition over leaves {A, B}, at most one superstate P, at most one event `go` with one or
    two transitions (sources from {A, B, P, [A, B]}, targets from {A, B, P}), one optional guard at event
    level and one optional unless at transition level, times async x payload x context x dynamic.
    Well-formed and ill-formed alike (undeclared P, ambiguous transitions, ...)."""
    forests = [
        [('leaf', 'A', None)],
        [('leaf', 'A', None), ('leaf', 'B', None)],
        [('leaf', 'A', ['u32']), ('leaf', 'B', None)],
        [('sup', 'P', None, [('state', 'A', None)])],
        [('sup', 'P', None, [('state', 'A', None), ('state', 'B', None)])],
        [('sup', 'P', None, [('state', 'A', None), ('state', 'B', ['u32']), ('initial', 'B')])],
        [('leaf', 'A', None), ('sup', 'P', None, [('state', 'B', None)])],
        [('sup', 'P', None, [('state', 'A', None)]), ('leaf', 'B', None)],
        [('sup', 'P', ['u32'], [('state', 'A', None), ('initial', 'A')]), ('leaf', 'B', None)],
        [('sup', 'P', None, [('sup', 'Q', None, [('state', 'A', None)]), ('state', 'B', None)])],
    ]
    srcs = [['A'], ['B'], ['P'], ['A', 'B']]
    tgts = ['A', 'B', 'P']
    out = []
    for forest in forests:
        evs = [None]
        for s1 in srcs:
            for t1 in tgts:
                evs.append([(s1, t1)])
                for s2 in (['A'], ['B']):
                    for t2 in ('A', 'B'):
                        evs.append([(s1, t1), (s2, t2)])
        for ev in evs:
            for hooks in range(4 if ev else 1):
                for opt in range(16 if ev else 4):
                    d = [('name', 'M')]
                    if opt & 1:
                        d.append(('async', True))
                    if opt & 2:
                        d.append(('context', ['Ctx']))
                    if opt & 4:
                        d.append(('dynamic', True))
                    d.append(('initial', 'A'))
                    d.append(('states', forest))
                    if ev:
                        items = []
                        if opt & 8:
                            items.append(('payload', ['u32']))
                        if hooks & 1:
                            items.append(('guards', ['g'], True))
                        for k, (s_, t_) in enumerate(ev):
                            tr = [('from', s_, len(s_) > 1), ('to', t_)]
                            if hooks & 2 and k == 0:
                                tr.append(('unless', ['u'], True))
                            items.append(('transition', tr))
                        d.append(('events', [('go', items)], True))
                    out.append(d)
    return out
