"""T3: compiled machines (real proc-macro, /repo's current tree) driven with scripted hooks,
compared with the Lean model on the same operation lines.

Python re-implements no semantics: every machine fact used to write the harness code (edge
list, derived names, storage fields) comes from the Lean driver's INFO block; expected
outputs come from the Lean driver's SCN mode.
"""
import os
import random
import shutil
import subprocess
import sys
from concurrent.futures import ThreadPoolExecutor

sys.path.insert(0, os.path.dirname(__file__))
import defs as D
import t12

VERIF = os.path.dirname(os.path.dirname(os.path.abspath(__file__)))
RT = os.path.join(VERIF, 'rt', 'rt.rs')

STATE_POOL = ['Idle', 'Active', 'Done', 'HTTPServer', 'IOError', 'S9', 'LaunchPrep', 'Standby', 'Zed', 'Alpha', 'HalfOpen',
              'Beta', 'Busy', 'Wait2', 'ParseXML', 'Q', 'Run2Go']
SUPER_POOL = ['Flight', 'Group', 'Outer', 'Inner', 'Zone', 'Ring1']
EVENT_POOL = ['go', 'stop', 'launch', 'tick', 'next', 'reset', 'x1', 'set_thrust', 'enter_half_open', 'http_get', 'io', 'k_9',
              'verify_2fa', 'retry_3x', 'phase_2_start']
MACHINE_POOL = ['Machine', 'Deck', 'Ctl', 'Fsm', 'HTTPConn', 'Door2']

def hook_names(kind, payload, n=3):
    base = {'guards': 'g', 'unless': 'g', 'before': 'b', 'after': 'a', 'around': 'w'}[kind]
    if kind != 'around' and payload:
        base += 'p'
    return [f'{base}{i}' for i in range(n)]

class T3Shape:
    def __init__(self, **kw):
        self.max_leaves = 5
        self.max_depth = 2
        self.max_events = 3
        self.p_data = 0.4
        self.p_super_data = 0.1
        self.p_payload = 0.35
        self.p_ctx = 0.4
        self.p_async = 0.35
        self.dynamic = True
        self.p_hook = 0.4
        self.max_hooks = 2
        self.__dict__.update(kw)

def _hooks(rng, shape, payload):
    out = []
    for k in D.HOOKS:
        if rng.random() < shape.p_hook:
            pool = hook_names(k, payload)
            l = [rng.choice(pool) for _ in range(rng.randint(1, shape.max_hooks))]
            out.append((k, l, True))
    return out

def t3_def(rng, shape=None, force=None):
    """a well-formed, compilable definition with harness-known types (Ctx / Pay / D)"""
    shape = shape or T3Shape()
    force = force or {}
    nleaves = rng.randint(2, shape.max_leaves)
    lnames = rng.sample(STATE_POOL, nleaves)
    leaves = [(n, (['D'] if rng.random() < shape.p_data else None)) for n in lnames]
    supers = rng.sample(SUPER_POOL, len(SUPER_POOL))
    fshape = D.Shape(max_depth=shape.max_depth, p_super_data=0.0)
    forest = D._gen_forest(rng, leaves, supers, 0, fshape, True)
    # optional data on superstates
    def sup_data(items):
        out = []
        for it in items:
            if it[0] == 'sup':
                dt = ['D'] if rng.random() < shape.p_super_data else None
                out.append(('sup', it[1], dt, sup_data(it[3])))
            else:
                out.append(it)
        return out
    forest = sup_data(forest)
    sup_leaves = {}
    def walk(items):
        acc = []
        for it in items:
            if it[0] in ('leaf', 'state'):
                acc.append(it[1])
            elif it[0] == 'sup':
                sub = walk(it[3])
                sup_leaves[it[1]] = sub
                acc += sub
        return acc
    walk(forest)
    nev = rng.randint(1, shape.max_events)
    enames = rng.sample(EVENT_POOL, nev)
    blocks = []
    ptype = 'PayC' if rng.random() < 0.3 else 'Pay'     # a cloneable payload type in some machines
    for en in enames:
        payload = rng.random() < shape.p_payload
        items = []
        if payload:
            items.append(('payload', [ptype]))
        items += _hooks(rng, shape, payload)
        free = lnames[:]
        rng.shuffle(free)
        trs = []
        for _ in range(rng.randint(1, 3)):
            if not free:
                break
            srcs = []
            cands = [s for s, ls in sup_leaves.items() if ls and all(l in free for l in ls)]
            if cands and rng.random() < 0.4:
                s = rng.choice(cands)
                srcs.append(s)
                for l in sup_leaves[s]:
                    free.remove(l)
            k = rng.randint(0 if srcs else 1, min(2, len(free)))
            for _ in range(k):
                srcs.append(free.pop())
            tgt = rng.choice(lnames + list(sup_leaves.keys()))
            tr = [('from', srcs, len(srcs) != 1 or rng.random() < 0.5), ('to', tgt)]
            tr += _hooks(rng, shape, payload)
            trs.append(('transition', tr))
        for t in trs:
            items.insert(rng.randrange(len(items) + 1), t)
        blocks.append((en, items))
    d = [('name', rng.choice(MACHINE_POOL))]
    concrete = force.get('concrete', rng.random() < shape.p_ctx)
    if concrete:
        d.append(('context', ['Ctx']))
    is_async = force.get('async', rng.random() < shape.p_async)
    if is_async:
        d.append(('async', True))
    if force.get('dynamic', shape.dynamic):
        d.append(('dynamic', True))
    d.append(('initial', force.get('initial') or rng.choice(lnames)))
    d.append(('states', forest))
    d.append(('events', blocks, rng.random() < 0.5))
    return d

def assign_def(rng, is_async, payload, concrete, dynamic=True):
    """one event from the initial state with conditions / arounds / callbacks at both levels"""
    lnames = rng.sample(STATE_POOL, 3)
    leaves = [('leaf', n, (['D'] if rng.random() < 0.5 else None)) for n in lnames]
    ev = []
    if payload:
        ev.append(('payload', ['Pay']))
    def some(kind, lo, hi):
        pool = hook_names(kind, payload)
        return [rng.choice(pool) for _ in range(rng.randint(lo, hi))]
    for k, lo, hi in (('guards', 0, 2), ('unless', 0, 1), ('before', 0, 2), ('after', 0, 2), ('around', 0, 2)):
        l = some(k, lo, hi)
        if l:
            ev.append((k, l, True))
    tr = [('from', [lnames[0]], False), ('to', rng.choice(lnames))]
    for k, lo, hi in (('guards', 0, 2), ('unless', 0, 2), ('before', 0, 1), ('after', 0, 1), ('around', 0, 1)):
        l = some(k, lo, hi)
        if l:
            tr.append((k, l, True))
    ev.insert(rng.randrange(len(ev) + 1), ('transition', tr))
    d = [('name', 'Machine'), ('initial', lnames[0])]
    if concrete:
        d.append(('context', ['Ctx']))
    if is_async:
        d.append(('async', True))
    if dynamic:
        d.append(('dynamic', True))
    d.append(('states', leaves))
    d.append(('events', [('go', ev)], True))
    return d

def big_def(n_states=36, n_events=40):
    """deterministic: more states and events than any machine word has bits (a ring of states, one event per step
    and four more that share sources with earlier ones) — seeded change C01-g fast-rejects by a 32-bit event mask"""
    st = [f'St{i}' for i in range(n_states)]
    d = [('name', 'Machine'), ('dynamic', True), ('initial', st[0]),
         ('states', [('leaf', x, None) for x in st]),
         ('events', [(f'ev{i}', [('transition', [('from', [st[i % n_states]], False), ('to', st[(i + 1) % n_states])])])
                     for i in range(n_events)], True)]
    return d

def full_def(is_async, payload, concrete, dynamic=True, ptype='Pay', data=True, initial='Idle'):
    """deterministic: every hook kind at event and at transition level, with and without an around callback,
    an unless-only edge, a multi-source and a superstate-source transition, a superstate target, data on leaves at
    two depths and on two nested superstates, a self-transition of a data state — in one of the four generated shapes"""
    P = [('payload', [ptype])] if payload else []
    DT = ['D'] if data else None
    def h(k):
        # conditions used as `unless` get names of their own (a name that is both a guard and an unless-condition
        # of one edge could never let it fire)
        return [n + 'u' for n in hook_names(k, payload)] if k == 'unless' else hook_names(k, payload)
    d = [('name', 'Machine')]
    if concrete:
        d.append(('context', ['Ctx']))
    if is_async:
        d.append(('async', True))
    if dynamic:
        d.append(('dynamic', True))
    d.append(('initial', initial))
    d.append(('states', [('leaf', 'Idle', DT),
                         ('sup', 'Flight', DT, [('state', 'Launch', None),
                                                   ('sup', 'Outer', DT, [('state', 'HalfOpen', DT), ('state', 'Busy', None),
                                                                           ('initial', 'Busy')]),
                                                   ('initial', 'Launch')]),
                         ('leaf', 'Done', None)]))
    d.append(('events', [
        ('go', P + [('guards', [h('guards')[0], h('guards')[1]], True), ('unless', [h('unless')[2]], True),
                    ('before', [h('before')[0]], True), ('after', [h('after')[0]], True), ('around', [h('around')[0]], True),
                    ('transition', [('from', ['Idle', 'Done'], True), ('to', 'Flight'), ('guards', [h('guards')[2]], True),
                                    ('unless', [h('unless')[0]], True), ('before', [h('before')[1]], True),
                                    ('after', [h('after')[1]], True), ('around', [h('around')[1]], True)])]),
        ('next', P + [('transition', [('from', ['Flight'], False), ('to', 'Outer'), ('unless', [h('unless')[1]], True)])]),
        ('tick', P + [('transition', [('from', ['HalfOpen'], False), ('to', 'HalfOpen'), ('before', [h('before')[2]], True),
                                      ('after', [h('after')[2]], True)]),
                      ('transition', [('from', ['Busy'], False), ('to', 'HalfOpen'), ('guards', [h('guards')[0]], True)])]),
        ('stop', [('transition', [('from', ['Outer', 'Launch'], True), ('to', 'Done'), ('around', [h('around')[2]], True)])]),
        ('reset', [('transition', [('from', ['Done'], False), ('to', 'Idle')])]),
        # a source list with the leaf first and the superstate last (`stop` has them the other way round)
        ('halt', [('transition', [('from', ['Idle', 'Outer'], True), ('to', 'Done')])]),
    ], True))
    return d

def hier_def(rng, is_async=False, concrete=False, dynamic=True):
    """nested superstates (depth 2-3) with leaves before and after the nested blocks; every event
    has one transition whose source is a (preferably nested) superstate or a single leaf"""
    names = rng.sample(STATE_POOL, 8)
    sups = rng.sample(SUPER_POOL, 4)
    it = iter(names)
    def leaf(top=False):
        n = next(it)
        return ('leaf' if top else 'state', n, (['D'] if rng.random() < 0.3 else None))
    def with_initial(body, p=0.6):
        """an explicit `initial:` naming a leaf beneath the block (any depth), preferably not the first one"""
        if rng.random() < p:
            below = D._leaf_names(body)
            cand = below[1:] or below
            body = list(body)
            body.insert(rng.randrange(len(body) + 1), ('initial', rng.choice(cand)))
        return body
    inner2 = ('sup', sups[2], None, with_initial([leaf(), leaf()]))
    inner_body = [leaf(), inner2, leaf()] if rng.random() < 0.5 else [leaf(), leaf()]
    inner = ('sup', sups[1], None, with_initial(inner_body))
    outer_body = [leaf(), inner, leaf()]
    rng.shuffle(outer_body) if rng.random() < 0.3 else None
    outer = ('sup', sups[0], None, with_initial(outer_body))
    forest = [leaf(True), outer]
    if rng.random() < 0.5:
        forest.append(leaf(True))
    used_sups = [sups[0], sups[1]] + ([sups[2]] if inner2 in inner_body else [])
    leaves = D._leaf_names(forest)
    blocks = []
    enames = rng.sample(EVENT_POOL, 4)
    for i, en in enumerate(enames):
        src = used_sups[-1 - (i % len(used_sups))] if i < 2 else rng.choice(leaves)
        # the first two events enter a superstate (so that its initial leaf matters), the others go anywhere
        tgt = rng.choice(used_sups) if i in (0, 2) else rng.choice(leaves + used_sups)
        if i == 2:
            src = leaves[0]
        items = [('transition', [('from', [src], False), ('to', tgt)])]
        if rng.random() < 0.3:
            items.append(('guards', [rng.choice(hook_names('guards', False))], True))
        blocks.append((en, items))
    d = [('name', 'Player')]
    if concrete:
        d.append(('context', ['Ctx']))
    if is_async:
        d.append(('async', True))
    if dynamic:
        d.append(('dynamic', True))
    d.append(('initial', rng.choice(leaves)))
    d.append(('states', forest))
    d.append(('events', blocks, True))
    return d

def t3ify(d):
    """the same definition with the harness's types (Ctx / Pay / D) and with hook names made unique per
    signature class, so that a definition drawn for the token-level tie can be compiled and driven"""
    names = {}
    # a hook name used with one signature only is kept (its spelling may matter); others are renamed
    sig_of = {}
    for n, (kind, payload) in []:
        pass
    for it in d:
        if it[0] != 'events':
            continue
        for (en, items) in it[1]:
            payload = any(e[0] == 'payload' for e in items)
            def note(kind, ns):
                # (before and after callbacks have the same Rust signature, but the harness labels each hook function
                #  with one kind: a name used as both is split, or the trace would call an `after` call a `before`)
                sig = {'guards': 'c', 'unless': 'c', 'before': 'mb', 'after': 'ma', 'around': 'w'}[kind] + ('p' if payload and kind != 'around' else '')
                for n in ns:
                    sig_of.setdefault(n, set()).add(sig)
            for e in items:
                if e[0] in D.HOOKS:
                    note(e[0], e[1])
                elif e[0] == 'transition':
                    for t in e[1]:
                        if t[0] in D.HOOKS:
                            note(t[0], t[1])
    reserved = {'slots_text', 'apply_write', 'opt_get', 'opt_set', 'ctx_id', 'new', 'ctx', 'into_dynamic'} | set(D.KEYWORDS)
    def hn(kind, payload, n):
        if len(sig_of.get(n, ())) == 1 and n not in reserved and not n.endswith('_data') and not n.endswith('_data_mut'):
            return n
        pre = {'guards': 'g', 'unless': 'g', 'before': 'b', 'after': 'a', 'around': 'w'}[kind]
        if kind != 'around' and payload:
            pre += 'p'
        key = (pre, n)
        if key not in names:
            names[key] = f'{pre}{sum(1 for k in names if k[0] == pre)}'
        return names[key]
    def forest(items):
        out = []
        for it in items:
            if it[0] in ('leaf', 'state'):
                out.append((it[0], it[1], ['D'] if it[2] else None))
            elif it[0] == 'sup':
                out.append(('sup', it[1], ['D'] if it[2] else None, forest(it[3])))
            else:
                out.append(it)
        return out
    res = []
    for it in d:
        if it[0] == 'context':
            res.append(('context', ['Ctx']))
        elif it[0] == 'states':
            res.append(('states', forest(it[1])) + tuple(it[2:]))
        elif it[0] == 'events':
            blocks = []
            for (en, items) in it[1]:
                payload = any(e[0] == 'payload' for e in items)
                nitems = []
                for e in items:
                    if e[0] == 'payload':
                        nitems.append(('payload', ['Pay']))
                    elif e[0] in D.HOOKS:
                        nitems.append((e[0], [hn(e[0], payload, n) for n in e[1]]) + tuple(e[2:]))
                    elif e[0] == 'transition':
                        nitems.append(('transition', [((t[0], [hn(t[0], payload, n) for n in t[1]]) + tuple(t[2:])) if t[0] in D.HOOKS else t
                                                      for t in e[1]]))
                    else:
                        nitems.append(e)
                blocks.append((en, nitems))
            res.append(('events', blocks) + tuple(it[2:]))
        else:
            res.append(it)
    return res

def scn_edges(info, d, cap_edges=10, cap_bits=4):
    """for every edge: walk to its source along accepted transitions (all guards true, nothing else
    holds), then take it under every truth assignment of its conditions"""
    guards = sorted(n for n, (k, _) in hooks_used(d).items() if k == 'guards')
    evs = {x['name']: x for x in info['events']}
    dyn = info['dynamic']
    def call(e, p):
        ev = evs[e['event']]
        pl = p if ev['payload'] else '-'
        return f'handle {ev["pascal"]} {pl}' if dyn else f'tcall {ev["method"]} {pl}'
    # breadth-first paths from the initial state
    init = info.get('initial')
    paths = {init: []}
    todo = [init]
    while todo:
        s = todo.pop(0)
        for e in info['edges']:
            if e['src'] == s and e['target'] not in paths:
                paths[e['target']] = paths[s] + [e]
                todo.append(e['target'])
    out = []
    data_states = [x['state'] for x in info['storage']]
    if dyn:
        # the Default impl, then every reader
        out.append([op_line('default'), op_line('state')] + [op_line(f'read {x}') for x in data_states] +
                   [op_line(f'into {init}')] + [op_line(f'topt {x}') for x in data_states] + [op_line('drop')])
    if dyn:
        # data of a superstate: set it from every leaf beneath, convert to the typed machine and back, read again
        for sp in info['storage']:
            if sp['leaf']:
                continue
            for (leaf, anc) in info['substates']:
                if anc != sp['state'] or leaf not in paths:
                    continue
                out.append([op_line('newdyn 4')] + [op_line(call(x, '8'), guards, None) for x in paths[leaf]] +
                           [op_line(f'set {sp["state"]} 7'), op_line(f'read {sp["state"]}'), op_line(f'into {leaf}'),
                            op_line(f'topt {sp["state"]}'), op_line('todyn'), op_line(f'read {sp["state"]}'), op_line('drop')])
    if dyn:
        # the complement: in every reachable state, every event the relation has no edge for (it must be refused as
        # an invalid transition naming that state, and change nothing)
        have = {(e['src'], e['event']) for e in info['edges']}
        for st_ in list(paths)[:12]:
            missing = [x for x in info['events'] if (st_, x['name']) not in have][:6]
            if missing:
                out.append([op_line('newdyn 4')] + [op_line(call(x, '8'), guards, None) for x in paths[st_]] +
                           [op_line(f'handle {x["pascal"]} {"9" if x["payload"] else "-"}', guards, None) for x in missing] +
                           [op_line('state'), op_line('drop')])
    for e in info['edges'][:cap_edges]:
        if e['src'] not in paths:
            continue
        pre = [op_line('newdyn 4' if dyn else 'newtyped 4')] + [op_line(call(x, '8'), guards, None) for x in paths[e['src']]]
        nab = len(e['ar'])
        nc = len(e['g']) + len(e['u'])
        for bits in range(1 << min(nc, cap_bits)):
            script = ['-'] * nab + [f'b={(bits >> i) & 1}' for i in range(nc)]
            out.append(pre + [op_line(call(e, '9'), None, script), op_line('state' if dyn else 'topt X'),
                              op_line(call(e, '9'), guards, None), op_line('drop')])
        # every around callback of the edge vetoes once, with each kind of error (the InvalidTransition veto must
        # name the state the machine is in)
        for i in range(nab):
            for kind in ('I', 'G~zz', 'A~quota'):
                script = ['-'] * i + [f'a={kind}']
                out.append(pre + [op_line(call(e, '9'), guards, script), op_line('state' if dyn else 'topt X'), op_line('drop')])
    return out

# ---------------------------------------------------------------------------------------
# machine facts from the Lean driver

def parse_info(lines):
    info = {'states': [], 'superstates': [], 'storage': [], 'events': [], 'edges': [], 'substates': []}
    for l in lines:
        t = l.split()
        if not t:
            continue
        if t[0] == 'ERR':
            info['err'] = l
        elif t[0] == 'machine':
            info['name'] = t[1]
            kv = dict(x.split('=') for x in t[2:])
            info['async'] = kv['async'] == 'true'
            info['concrete'] = kv['concrete'] == 'true'
            info['dynamic'] = kv['dynamic'] == 'true'
        elif t[0] == 'dynname':
            info['dynname'] = t[1]
            info['eventenum'] = t[3]
        elif t[0] == 'initial':
            info['initial'] = t[1]
        elif t[0] == 'static':
            info['accepted'] = t[1].split('=')[1] == 'true'
        elif t[0] == 'state':
            info['states'].append({'name': t[1], 'snake': t[2].split('=')[1]})
        elif t[0] == 'superstate':
            info['superstates'].append(t[1])
        elif t[0] == 'storage':
            kv = dict(x.split('=') for x in t[2:])
            info['storage'].append({'state': t[1], 'field': kv['field'], 'opt': kv['opt'], 'snake': kv['snake'], 'leaf': kv['leaf'] == 'true'})
        elif t[0] == 'event':
            kv = dict(x.split('=') for x in t[2:])
            info['events'].append({'name': t[1], 'pascal': kv['pascal'], 'method': kv['method'], 'payload': kv['payload'] == 'true'})
        elif t[0] == 'edge':
            kv = dict(x.split('=', 1) for x in t[4:])
            sp = lambda s: [x for x in s.split(',') if x]
            info['edges'].append({'src': t[1], 'event': t[2], 'target': t[3], 'g': sp(kv['g']), 'u': sp(kv['u']),
                                  'b': sp(kv['b']), 'a': sp(kv['a']), 'ar': sp(kv['ar'])})
        elif t[0] == 'substate':
            info['substates'].append((t[1], t[2]))
    return info

def get_infos(items):
    """items: list of (id, feature, def) -> {id: info}"""
    inp = ''.join(f'INFO {i} {1 if f else 0} {D.to_prefix(d)}\n' for (i, f, d) in items)
    r = subprocess.run([t12.DRIVER], input=inp, capture_output=True, text=True)
    out = {}
    cur = None
    for line in r.stdout.split('\n'):
        if line.startswith('#INFO '):
            cur = line[6:].strip()
            out[cur] = []
        elif line.strip() == '#END':
            cur = None
        elif cur is not None:
            out[cur].append(line)
    return {k: parse_info(v) for k, v in out.items()}

# ---------------------------------------------------------------------------------------
# harness code

def payload_type(d):
    """`PayC` when the definition's payloads use the cloneable harness type, else `Pay`"""
    return 'PayC' if any(e[0] == 'payload' and e[1] == ['PayC'] for it in d if it[0] == 'events'
                         for (_, items) in it[1] for e in items) else 'Pay'

def hooks_used(d):
    """{name: (kind-group, payload?)} from the definition tree (syntactic)"""
    out = {}
    for it in d:
        if it[0] != 'events':
            continue
        for (en, items) in it[1]:
            payload = any(e[0] == 'payload' for e in items)
            def reg(k, names):
                for n in names:
                    out[n] = (k, payload)
            for e in items:
                if e[0] in D.HOOKS:
                    reg(e[0], e[1])
                elif e[0] == 'transition':
                    for t in e[1]:
                        if t[0] in D.HOOKS:
                            reg(t[0], t[1])
    return out

def module_code(idx, d, text, info, skip_typed=None):
    # skip_typed: (source state, method) pairs for which rustc reported that the typed method does not exist
    # (an escalated suspect): the arm is left out, the call answers `nosuch` and the oracles take it from there
    M = info['name']
    conc = info['concrete']
    asy = info['async']
    dyn = info['dynamic']
    PT = 'PayC' if any(e[0] == 'payload' and e[1] == ['PayC'] for it in d if it[0] == 'events' for (_, items) in it[1] for e in items) else 'Pay'
    states = [s['name'] for s in info['states']]
    snake = {s['name']: s['snake'] for s in info['states']}
    first = states[0]
    MT = (lambda s: f'{M}<def::{s}>') if conc else (lambda s: f'{M}<Ctx, def::{s}>')
    DT = info['dynname'] if conc else f"{info['dynname']}<Ctx>"
    EV = info['eventenum']
    hdr = f'impl<S> {M}<S>' if conc else f'impl<C, S> {M}<C, S>'
    ctxty = 'Ctx' if conc else 'C'
    aw = '.await' if asy else ''
    afn = 'async fn' if asy else 'fn'
    L = []
    A = L.append
    A(f'pub mod m{idx} {{')
    A('#![allow(dead_code, unused_variables, unused_mut, non_snake_case, non_camel_case_types, unreachable_patterns, unused_imports, unused_assignments, private_interfaces)]')
    # the definition and the user's hooks live in `def`; the harness drives the machine from the enclosing
    # module, as a caller elsewhere would (everything the macro generates for callers must be `pub`)
    A('pub mod def {')
    A('use crate::rt::{self, Named, HasId, Ctx, Pay, PayC, D};')
    A('use state_machines::state_machine;')
    A('use state_machines::core::{AroundOutcome, AroundStage, TransitionError, TransitionErrorKind};')
    A('state_machine! {')
    text_at = len(L)
    A(text)
    A('}')
    for s in states:
        A(f'impl Named for {s} {{ const NAME: &\'static str = "{s}"; }}')
    # hooks
    A(f'{hdr} {{')
    A('  pub fn ctx_id(&self) -> u32 { rt::cid(&self.ctx) }')
    A('  pub fn slots_text(&self) -> String {')
    A('    let v: Vec<String> = vec![' + ', '.join(
        f'format!("{st["field"]}={{}}", rt::onat(self.{st["opt"]}().map(|d| d.0)))' for st in info['storage']) + '];')
    A('    v.join(";")')
    A('  }')
    A('  pub fn apply_write(&mut self, w: &Option<(String, u32)>) {')
    A('    if let Some((f, v)) = w { match f.as_str() {')
    for st in info['storage']:
        A(f'      "{st["field"]}" => {{ if let Some(d) = self.{st["opt"]}_mut() {{ d.0 = *v; }} }}')
    A('      _ => {} } }')
    A('  }')
    A('  pub fn opt_get(&self, st: &str) -> Option<Option<u32>> { match st {')
    for st in info['storage']:
        A(f'      "{st["state"]}" => Some(self.{st["opt"]}().map(|d| d.0)),')
    A('      _ => None } }')
    A('  pub fn opt_set(&mut self, st: &str, v: u32) -> Option<Option<u32>> { match st {')
    for st in info['storage']:
        A(f'      "{st["state"]}" => Some(match self.{st["opt"]}_mut() {{ Some(d) => {{ let o = d.0; d.0 = v; Some(o) }} None => None }}),')
    A('      _ => None } }')
    for name, (kind, payload) in sorted(hooks_used(d).items()):
        parg = f', p: &{PT}' if payload else ''
        pid = 'Some(p.id)' if payload else 'None'
        susp = 'rt::suspend(e.s).await;' if asy else ''
        # async hooks are written as plain functions returning a future, so that the moment a hook is *called*
        # is observable (rt::enter) apart from the moment its body starts: C15 wants each hook started only
        # after the previous one completed
        parg_a = f", p: &'a {PT}" if payload else ''
        if kind in ('guards', 'unless'):
            if asy:
                A(f"  fn {name}<'a>(&'a self, ctx: &'a {ctxty}{parg_a}) -> impl ::core::future::Future<Output = bool> + 'a {{ rt::enter(\"{name}\"); async move {{")
            else:
                A(f'  {afn} {name}(&self, ctx: &{ctxty}{parg}) -> bool {{')
            A(f'    let e = rt::hook("cond", "{name}", rt::sname::<S>(), rt::cid(&self.ctx), Some(rt::cid(ctx)), {pid}, self.slots_text()); {susp}')
            A(f'    rt::cond_answer(&e, "{name}") }}' + (' }' if asy else ''))
        elif kind in ('before', 'after'):
            # (a machine without state data has nothing a callback could write: its async callbacks take `&self`,
            #  so that two of them *can* be called before either is awaited - the ordering C15 forbids is then
            #  observed at run time instead of being refused by the borrow checker)
            shared = asy and not info['storage']
            if asy:
                A(f"  fn {name}<'a>(&'a {'' if shared else 'mut '}self{parg_a}) -> impl ::core::future::Future<Output = ()> + 'a {{ rt::enter(\"{name}\"); async move {{")
            else:
                A(f'  {afn} {name}(&mut self{parg}) {{')
            A(f'    let e = rt::hook("{kind}", "{name}", rt::sname::<S>(), rt::cid(&self.ctx), None, {pid}, self.slots_text()); {susp}')
            A(('    let _ = &e.w; }' if shared else '    self.apply_write(&e.w); }') + (' }' if asy else ''))
        elif asy:
            A(f"  fn {name}<'a>(&'a self, stage: AroundStage) -> impl ::core::future::Future<Output = AroundOutcome<self::{first}>> + 'a {{ rt::enter(\"{name}\"); async move {{")
            A('    let kind = match stage { AroundStage::Before => "ab", AroundStage::AfterSuccess => "aa" };')
            A(f'    let e = rt::hook(kind, "{name}", rt::sname::<S>(), rt::cid(&self.ctx), None, None, self.slots_text()); {susp}')
            A('    match e.a { None => AroundOutcome::Proceed, Some(ab) => AroundOutcome::Abort(TransitionError {')
            A(f'      from: self::{first}, event: "harness", kind: match ab {{')
            A('        rt::Abort::G(n) => TransitionErrorKind::GuardFailed { guard: rt::leak(&n) },')
            A('        rt::Abort::A(n) => TransitionErrorKind::ActionFailed { action: rt::leak(&n) },')
            A('        rt::Abort::I => TransitionErrorKind::InvalidTransition } }) } } }')
        else:
            A(f'  {afn} {name}(&self, stage: AroundStage) -> AroundOutcome<self::{first}> {{')
            A('    let kind = match stage { AroundStage::Before => "ab", AroundStage::AfterSuccess => "aa" };')
            A(f'    let e = rt::hook(kind, "{name}", rt::sname::<S>(), rt::cid(&self.ctx), None, None, self.slots_text()); {susp}')
            A('    match e.a { None => AroundOutcome::Proceed, Some(ab) => AroundOutcome::Abort(TransitionError {')
            A(f'      from: self::{first}, event: "harness", kind: match ab {{')
            A('        rt::Abort::G(n) => TransitionErrorKind::GuardFailed { guard: rt::leak(&n) },')
            A('        rt::Abort::A(n) => TransitionErrorKind::ActionFailed { action: rt::leak(&n) },')
            A('        rt::Abort::I => TransitionErrorKind::InvalidTransition } }) } }')
    A('}')
    A('}')   # end of `def`
    # a state may be called `None`, `Some`, `Option`, ... (the markers live in `def` and shadow the prelude there):
    # the harness's own code in `def` names the prelude items by their full paths, and the enclosing module imports
    # only the machine's types, never the markers
    import re as _re
    for k_ in range(len(L)):
        if k_ != text_at and k_ > 1:
            l_ = L[k_]
            l_ = _re.sub(r'(?<![:\w])Some\(', '::core::option::Option::Some(', l_)
            l_ = _re.sub(r'(?<![:\w])None\b', '::core::option::Option::None', l_)
            l_ = _re.sub(r'(?<![:\w])Option<', '::core::option::Option<', l_)
            L[k_] = l_
    A('use def::{' + ', '.join([M] + ([info['dynname'], EV] if dyn else [])) + '};')
    A('use crate::rt::{self, Named, HasId, Ctx, Pay, PayC, D};')
    A('use state_machines::core::{AroundOutcome, AroundStage, TransitionError, TransitionErrorKind};')
    A('use std::panic::{catch_unwind, AssertUnwindSafe};')
    # holder
    A('enum HAny { ' + ', '.join(f'{s}({MT(s)})' for s in states) + ' }')
    # the state a typed call lands in is read off the type the method really returns, not off the model
    for s in states:
        A(f'impl From<{MT(s)}> for HAny {{ fn from(m: {MT(s)}) -> HAny {{ HAny::{s}(m) }} }}')
    if dyn:
        A(f'enum Hold {{ T(HAny), D({DT}), Gone }}')
    else:
        A('enum Hold { T(HAny), Gone }')
    A('fn obs(h: &Hold) -> String { match h {')
    A('  Hold::Gone => "gone".to_string(),')
    A('  Hold::T(a) => match a {')
    for s in states:
        A(f'    HAny::{s}(m) => format!("typed:{s}:{{}}:{{}}", m.ctx_id(), m.slots_text()),')
    A('  },')
    if dyn:
        A('  Hold::D(d) => {')
        A('    let st = match catch_unwind(AssertUnwindSafe(|| d.current_state())) { Ok(s) => s.to_string(), Err(_) => "poisoned".to_string() };')
        A('    let reads: Vec<String> = vec![' + ', '.join(
            f'format!("{st["state"]}={{}}", rt::onat(d.{st["snake"]}_data().map(|v| v.0)))' for st in info['storage']) + '];')
        A('    format!("dyn:{}:{}", st, reads.join(";")) }')
    A('} }')
    A('fn pay(s: &str) -> Option<u32> { if s == "-" { None } else { s.parse().ok() } }')
    if dyn:
        A(f'fn mk_event(v: &str, p: Option<u32>) -> Option<{EV}> {{ match v {{')
        for e in info['events']:
            if e['payload']:
                A(f'  "{e["pascal"]}" => Some({EV}::{e["pascal"]}({PT} {{ id: p.unwrap_or(0) }})),')
            else:
                A(f'  "{e["pascal"]}" => Some({EV}::{e["pascal"]}),')
        A('  _ => None } }')
    evp = {e['name']: e for e in info['events']}
    A('pub fn run(lines: &[String]) -> Vec<String> {')
    A('  let mut hold = Hold::Gone; let mut out = Vec::new();')
    A('  for line in lines {')
    A('    let op = rt::begin_op(line);')
    A('    let t: Vec<&str> = op.toks.iter().map(|s| s.as_str()).collect();')
    A('    let (nh, res): (Hold, String) = match (t[0], hold) {')
    A(f'      ("newtyped", h) => {{ drop(h); rt::begin_op(line); (Hold::T(HAny::{info["initial"]}({M}::new(Ctx {{ id: t[1].parse().unwrap() }}))), "unit".to_string()) }}')
    if dyn:
        A(f'      ("newdyn", h) => {{ drop(h); rt::begin_op(line); (Hold::D({info["dynname"]}::new(Ctx {{ id: t[1].parse().unwrap() }})), "unit".to_string()) }}')
        A(f'      ("default", h) => {{ drop(h); rt::begin_op(line); (Hold::D(<{DT} as Default>::default()), "unit".to_string()) }}')
        # handle
        if asy:
            call = 'rt::drive(d.handle(ev))'
            A('      ("handle", Hold::D(mut d)) | ("habandon", Hold::D(mut d)) => { match mk_event(t[1], pay(t[2])) { None => (Hold::D(d), "nosuch".to_string()), Some(ev) => {')
            A(f'        let r = catch_unwind(AssertUnwindSafe(|| {call}));')
            A('        let res = match r { Ok(Some(Ok(()))) => "ok".to_string(), Ok(Some(Err(e))) => rt::dyn_err_text(&e), Ok(None) => "abandoned".to_string(), Err(p) => rt::panic_text(p) };')
            A('        (Hold::D(d), res) } } }')
            A('      ("hnopoll", Hold::D(mut d)) => { match mk_event(t[1], pay(t[2])) { None => (Hold::D(d), "nosuch".to_string()), Some(ev) => {')
            A('        { let f = d.handle(ev); drop(f); } (Hold::D(d), "abandoned".to_string()) } } }')
        else:
            A('      ("handle", Hold::D(mut d)) => { match mk_event(t[1], pay(t[2])) { None => (Hold::D(d), "nosuch".to_string()), Some(ev) => {')
            A('        let r = catch_unwind(AssertUnwindSafe(|| d.handle(ev)));')
            A('        let res = match r { Ok(Ok(())) => "ok".to_string(), Ok(Err(e)) => rt::dyn_err_text(&e), Err(p) => rt::panic_text(p) };')
            A('        (Hold::D(d), res) } } }')
        A('      ("state", Hold::D(d)) => { let r = match catch_unwind(AssertUnwindSafe(|| d.current_state())) { Ok(s) => format!("str:{s}"), Err(p) => rt::panic_text(p) }; (Hold::D(d), r) }')
        A('      ("read", Hold::D(d)) => { let r = match t[1] {')
        for st in info['storage']:
            A(f'        "{st["state"]}" => format!("val:{{}}", rt::onat(d.{st["snake"]}_data().map(|v| v.0))),')
        A('        _ => "nosuch".to_string() }; (Hold::D(d), r) }')
        A('      ("write", Hold::D(mut d)) => { let v: u32 = t[2].parse().unwrap(); let r = match t[1] {')
        for st in info['storage']:
            A(f'        "{st["state"]}" => match d.{st["snake"]}_data_mut() {{ Some(r) => {{ let o = r.0; r.0 = v; format!("val:{{o}}") }} None => "val:-".to_string() }},')
        A('        _ => "nosuch".to_string() }; (Hold::D(d), r) }')
        A('      ("set", Hold::D(mut d)) => { let v: u32 = t[2].parse().unwrap(); let r = match t[1] {')
        for st in info['storage']:
            A(f'        "{st["state"]}" => match d.set_{st["snake"]}_data(D(v)) {{ Ok(()) => "ok".to_string(), Err(e) => rt::dyn_err_text(&e) }},')
        A('        _ => "nosuch".to_string() }; (Hold::D(d), r) }')
        A('      ("into", Hold::D(d)) => { match t[1] {')
        for s in states:
            A(f'        "{s}" => match d.into_{snake[s]}() {{ Ok(m) => (Hold::T(HAny::{s}(m)), "ok".to_string()), Err(d) => (Hold::D(d), "refused".to_string()) }},')
        A('        _ => (Hold::D(d), "nosuch".to_string()) } }')
        A('      ("todyn", Hold::T(a)) => { (Hold::D(match a {')
        for s in states:
            A(f'        HAny::{s}(m) => m.into_dynamic(),')
        A('      }), "unit".to_string()) }')
    # typed calls
    A('      ("tcall", Hold::T(a)) | ("tabandon", Hold::T(a)) | ("tnopoll", Hold::T(a)) => { match (a, t[1]) {')
    for e in info['edges']:
        ev = evp[e['event']]
        if skip_typed and (e['src'], ev['method']) in skip_typed:
            continue
        arg = (PT + ' { id: pay(t[2]).unwrap_or(0) }') if ev['payload'] else ''
        A(f'        (HAny::{e["src"]}(m), "{ev["method"]}") => {{')
        if asy:
            A(f'          if t[0] == "tnopoll" {{ let f = m.{ev["method"]}({arg}); drop(f); (Hold::Gone, "abandoned".to_string()) }} else {{')
            A(f'          let r = catch_unwind(AssertUnwindSafe(move || rt::drive(m.{ev["method"]}({arg}))));')
            A('          match r {')
            A('            Ok(Some(Ok(nm))) => (Hold::T(HAny::from(nm)), "ok".to_string()),')
            A('            Ok(Some(Err((old, ge)))) => (Hold::T(HAny::from(old)), rt::guard_err_text(&ge)),')
            A('            Ok(None) => (Hold::Gone, "abandoned".to_string()),')
            A('            Err(p) => (Hold::Gone, rt::panic_text(p)) } } }')
        else:
            A(f'          let r = catch_unwind(AssertUnwindSafe(move || m.{ev["method"]}({arg})));')
            A('          match r {')
            A('            Ok(Ok(nm)) => (Hold::T(HAny::from(nm)), "ok".to_string()),')
            A('            Ok(Err((old, ge))) => (Hold::T(HAny::from(old)), rt::guard_err_text(&ge)),')
            A('            Err(p) => (Hold::Gone, rt::panic_text(p)) } }')
    A('        (a, _) => (Hold::T(a), "nosuch".to_string()) } }')
    A('      ("tdata", Hold::T(a)) => { match (a, t[1]) {')
    for st in info['storage']:
        if st['leaf']:
            s = st['state']
            A(f'        (HAny::{s}(m), "{s}") => {{ match catch_unwind(AssertUnwindSafe(|| m.{st["snake"]}_data().0)) {{ Ok(v) => (Hold::T(HAny::{s}(m)), format!("val:{{v}}")), Err(p) => {{ drop(m); (Hold::Gone, rt::panic_text(p)) }} }} }}')
    A('        (a, _) => (Hold::T(a), "nosuch".to_string()) } }')
    A('      ("tdatamut", Hold::T(a)) => { let v: u32 = t[2].parse().unwrap(); match (a, t[1]) {')
    for st in info['storage']:
        if st['leaf']:
            s = st['state']
            A(f'        (HAny::{s}(mut m), "{s}") => {{ match catch_unwind(AssertUnwindSafe(|| {{ m.{st["snake"]}_data_mut().0 = v; }})) {{ Ok(()) => (Hold::T(HAny::{s}(m)), "unit".to_string()), Err(p) => {{ drop(m); (Hold::Gone, rt::panic_text(p)) }} }} }}')
    A('        (a, _) => (Hold::T(a), "nosuch".to_string()) } }')
    A('      ("topt", Hold::T(a)) => { let r = match &a {')
    for s in states:
        A(f'        HAny::{s}(m) => m.opt_get(t[1]),')
    A('      }; (Hold::T(a), match r { Some(v) => format!("val:{}", rt::onat(v)), None => "nosuch".to_string() }) }')
    A('      ("toptmut", Hold::T(mut a)) => { let v: u32 = t[2].parse().unwrap(); let r = match &mut a {')
    for s in states:
        A(f'        HAny::{s}(m) => m.opt_set(t[1], v),')
    A('      }; (Hold::T(a), match r { Some(v) => format!("val:{}", rt::onat(v)), None => "nosuch".to_string() }) }')
    A('      ("drop", h) => { drop(h); (Hold::Gone, "unit".to_string()) }')
    A('      (_, h) => (h, "nosuch".to_string()),')
    A('    };')
    A('    hold = nh;')
    A('    let o = obs(&hold);')
    A('    out.push(format!("{} | {} | {} | {}", res, rt::take_trace(), rt::take_drops(), o));')
    A('  }')
    A('  out')
    A('}')
    A('}')
    return '\n'.join(L)

MAIN = '''
use std::io::{self, BufRead, Write};
fn main() {
    std::panic::set_hook(Box::new(|_| {}));
    let stdin = io::stdin();
    let stdout = io::stdout();
    let mut w = io::BufWriter::new(stdout.lock());
    let mut cur: Option<(String, usize)> = None;
    let mut lines: Vec<String> = Vec::new();
    for line in stdin.lock().lines() {
        let line = line.unwrap();
        if let Some(rest) = line.strip_prefix("#SCN ") {
            let mut it = rest.split_whitespace();
            let id = it.next().unwrap().to_string();
            let m: usize = it.next().unwrap().parse().unwrap();
            cur = Some((id, m));
            lines.clear();
        } else if line.trim() == "#END" {
            if let Some((id, m)) = cur.take() {
                writeln!(w, "#SCN {id}").unwrap();
                let out = dispatch(m, &lines);
                for l in out { writeln!(w, "{l}").unwrap(); }
                writeln!(w, "#END").unwrap();
            }
        } else if cur.is_some() {
            lines.push(line);
        }
    }
}
'''

def write_crate(cdir, mods, repo, feature):
    """mods: list of (idx, code)"""
    os.makedirs(os.path.join(cdir, 'src'), exist_ok=True)
    os.makedirs(os.path.join(cdir, '.cargo'), exist_ok=True)
    feat = ', features = ["dynamic"]' if feature else ''
    open(os.path.join(cdir, 'Cargo.toml'), 'w').write(f'''[package]
name = "t3crate"
version = "0.1.0"
edition = "2024"

[workspace]

[dependencies]
state-machines = {{ path = "{repo}/state-machines"{feat} }}

[profile.dev]
debug = false
opt-level = 0
incremental = false
''')
    open(os.path.join(cdir, '.cargo', 'config.toml'), 'w').write('[net]\noffline = true\n')
    shutil.copy(os.path.join(repo, 'Cargo.lock'), os.path.join(cdir, 'Cargo.lock'))
    src = ['#![allow(dead_code)]', f'#[path = "{RT}"]', 'mod rt;']
    for idx, code in mods:
        src.append(code)
    src.append('fn dispatch(m: usize, lines: &[String]) -> Vec<String> { match m {')
    for idx, _ in mods:
        src.append(f'  {idx} => m{idx}::run(lines),')
    src.append('  _ => vec![] } }')
    src.append(MAIN)
    open(os.path.join(cdir, 'src', 'main.rs'), 'w').write('\n'.join(src))

def write_multi_crate(cdir, units, repo, feature):
    """units: list of (name, mods); one binary target per unit (src/bin/<name>.rs), so that one
    `cargo build --keep-going` builds every unit that compiles and shares the dependencies"""
    write_crate(cdir, [], repo, feature)
    os.remove(os.path.join(cdir, 'src', 'main.rs'))
    os.makedirs(os.path.join(cdir, 'src', 'bin'), exist_ok=True)
    for name, mods in units:
        src = ['#![allow(dead_code)]', f'#[path = "{RT}"]', 'mod rt;']
        for idx, code in mods:
            src.append(code)
        src.append('fn dispatch(m: usize, lines: &[String]) -> Vec<String> { match m {')
        for idx, _ in mods:
            src.append(f'  {idx} => m{idx}::run(lines),')
        src.append('  _ => vec![] } }')
        src.append(MAIN)
        open(os.path.join(cdir, 'src', 'bin', f'{name}.rs'), 'w').write('\n'.join(src))

def build_multi_crate(cdir, target_dir):
    env = dict(os.environ, CARGO_NET_OFFLINE='true')
    r = subprocess.run(['cargo', 'build', '--offline', '--quiet', '--keep-going', '--bins', '--target-dir', target_dir],
                       cwd=cdir, env=env, capture_output=True, text=True)
    return r.returncode == 0, r.stderr

def build_crate(cdir, target_dir):
    env = dict(os.environ, CARGO_NET_OFFLINE='true')
    r = subprocess.run(['cargo', 'build', '--offline', '--quiet', '--target-dir', target_dir], cwd=cdir, env=env,
                       capture_output=True, text=True)
    return r.returncode == 0, r.stderr[-6000:]

# ---------------------------------------------------------------------------------------
# scenarios

def rand_entry(rng, names_g, fields, p=0.25):
    if rng.random() > p:
        return '-'
    parts = []
    r = rng.random()
    if r < 0.35:
        parts.append(f'b={rng.randint(0, 1)}')
    elif r < 0.55:
        k = rng.choice(['I', 'G~' + rng.choice(names_g + ['zz']), 'A~' + rng.choice(['act', 'quota'])])
        parts.append(f'a={k}')
    elif r < 0.65:
        parts.append('x=1')
    elif r < 0.85 and fields:
        parts.append(f'w={rng.choice(fields)}~{rng.randint(1, 99)}')
    if rng.random() < 0.3:
        parts.append(f's={rng.randint(0, 3)}')
    return ','.join(parts) if parts else '-'

def op_line(op, sigma=None, script=None):
    return f"{op} ; {','.join(sigma) if sigma else '-'} ; {' '.join(script) if script else '-'}"

def scn_walk(rng, info, d, n_ops=14):
    conds = sorted(n for n, (k, _) in hooks_used(d).items() if k in ('guards', 'unless'))
    guards = sorted(n for n, (k, _) in hooks_used(d).items() if k == 'guards')
    fields = [s['field'] for s in info['storage']]
    data_states = [s['state'] for s in info['storage']]
    states = [s['name'] for s in info['states']]
    ops = []
    dyn = info['dynamic']
    ops.append(op_line(f'newdyn {rng.randint(1, 50)}' if dyn and rng.random() < 0.85 else f'newtyped {rng.randint(1, 50)}'))
    for _ in range(n_ops):
        sigma = [g for g in guards if rng.random() < 0.85] + [c for c in conds if c not in guards and rng.random() < 0.1]
        script = [rand_entry(rng, conds, fields, 0.12) for _ in range(8)]
        r = rng.random()
        ev = rng.choice(info['events']) if info['events'] else None
        p = str(rng.randint(100, 199)) if ev and ev['payload'] else '-'
        if r < 0.42 and ev:
            ops.append(op_line(f'handle {ev["pascal"]} {p}', sigma, script))
        elif r < 0.56 and ev:
            ops.append(op_line(f'tcall {ev["method"]} {p}', sigma, script))
        elif r < 0.62:
            ops.append(op_line('state'))
        elif r < 0.70 and data_states:
            ops.append(op_line(rng.choice([f'read {rng.choice(data_states)}', f'write {rng.choice(data_states)} {rng.randint(1, 99)}',
                                           f'set {rng.choice(data_states)} {rng.randint(1, 99)}'])))
        elif r < 0.80:
            ops.append(op_line(f'into {rng.choice(states)}'))
        elif r < 0.88:
            ops.append(op_line('todyn'))
        elif r < 0.96 and data_states:
            ops.append(op_line(rng.choice([f'tdata {rng.choice(data_states)}', f'tdatamut {rng.choice(data_states)} {rng.randint(1, 99)}',
                                           f'topt {rng.choice(data_states)}', f'toptmut {rng.choice(data_states)} {rng.randint(1, 99)}'])))
        elif r < 0.98:
            ops.append(op_line('default' if dyn and not False else 'state'))
        else:
            ops.append(op_line('state'))
    ops.append(op_line('drop'))
    return ops

def scn_assign(rng, info, d, mode):
    """all truth assignments of the conditions of the (single) edge from the initial state, and
    all single around outcomes; through handle (mode 'dyn') or the typed method (mode 'typed')"""
    e = info['edges'][0]
    ev = [x for x in info['events'] if x['name'] == e['event']][0]
    p = '7' if ev['payload'] else '-'
    nab = len(e['ar'])
    nc = len(e['g']) + len(e['u'])
    out = []
    call = (lambda: f'handle {ev["pascal"]} {p}') if mode == 'dyn' else (lambda: f'tcall {ev["method"]} {p}')
    new = 'newdyn 3' if mode == 'dyn' else 'newtyped 3'
    for bits in range(1 << min(nc, 6)):
        script = ['-'] * nab + [f'b={(bits >> i) & 1}' for i in range(nc)]
        out.append([op_line(new), op_line(call(), None, script), op_line(call(), e['g'], None), op_line('drop')])
    kinds = ['I', 'G~zz', 'A~quota']
    tot = nab + nc + len(e['b']) + len(e['a']) + nab
    for i in list(range(nab)) + list(range(tot - nab, tot)):
        for k in kinds:
            script = ['-'] * tot
            script[i] = f'a={k}'
            out.append([op_line(new), op_line(call(), e['g'], script), op_line('state' if mode == 'dyn' else 'topt ' + (info['storage'][0]['state'] if info['storage'] else 'X')), op_line('drop')])
    return out

def scn_abandon(rng, info, d):
    """each hook position of a dispatch panics (sync) / is the last one polled (async); then
    every public operation"""
    out = []
    if not info['dynamic']:
        return out
    guards = sorted(n for n, (k, _) in hooks_used(d).items() if k == 'guards')
    states = [s['name'] for s in info['states']]
    data_states = [s['state'] for s in info['storage']]
    for e in info['edges'][:4]:
        ev = [x for x in info['events'] if x['name'] == e['event']][0]
        p = '9' if ev['payload'] else '-'
        tot = 2 * len(e['ar']) + len(e['g']) + len(e['u']) + len(e['b']) + len(e['a'])
        for i in range(tot + 1):
            pre = [op_line('newdyn 5')]
            # walk towards the source state with favourable conditions (a few attempts)
            for _ in range(3):
                e2 = rng.choice(info['events'])
                pre.append(op_line(f'handle {e2["pascal"]} {"8" if e2["payload"] else "-"}', guards, None))
            if info['async']:
                op = op_line(f'habandon {ev["pascal"]} {p} {i}', guards, None)
            else:
                script = ['-'] * i + ['x=1']
                op = op_line(f'handle {ev["pascal"]} {p}', guards, script)
            post = [op_line('state')]
            for s in data_states:
                post += [op_line(f'read {s}'), op_line(f'write {s} 4'), op_line(f'set {s} 6')]
            post.append(op_line(f'handle {ev["pascal"]} {p}', guards, None))
            for s in states:
                post.append(op_line(f'into {s}'))
            post.append(op_line('drop'))
            out.append(pre + [op] + post)
        if info['async']:
            out.append([op_line('newdyn 5'), op_line(f'hnopoll {ev["pascal"]} {p}'), op_line('state'),
                        op_line(f'handle {ev["pascal"]} {p}', guards, None), op_line('drop')])
    return out

def scn_susp(rng, info, d):
    """async: random suspension counts on every hook"""
    ops = scn_walk(rng, info, d)
    out = []
    for l in ops:
        a, b, c = l.split(' ; ')
        ent = c.split() if c != '-' else []
        ent = ent + ['-'] * (10 - len(ent))
        ent = [(x if x != '-' else '') for x in ent]
        ent = [(x + (',' if x else '') + f's={rng.randint(0, 3)}') if 's=' not in x else x for x in ent]
        out.append(' ; '.join([a, b, ' '.join(ent)]))
    return out

# ---------------------------------------------------------------------------------------
# running

def run_model_scenarios(scns):
    """scns: list of (sid, feature, def, ops) -> {sid: [lines]}"""
    jobs = []
    for ch in t12._chunks(scns, t12.NPROC):
        if ch:
            inp = ''.join(f'SCN {sid} {1 if f else 0} {D.to_prefix(d)}\n' + '\n'.join(ops) + '\nEND\n' for (sid, f, d, ops) in ch)
            jobs.append(([t12.DRIVER], inp))
    res = {}
    with ThreadPoolExecutor(t12.NPROC) as ex:
        for out in ex.map(lambda j: t12._run(*j), jobs):
            cur = None
            for line in out.split('\n'):
                if line.startswith('#SCN '):
                    cur = line[5:].strip()
                    res[cur] = []
                elif line.strip() == '#END':
                    cur = None
                elif cur is not None:
                    res[cur].append(line)
    return res

def run_impl_scenarios(binary, scns):
    """scns: list of (sid, module idx, ops)"""
    inp = ''.join(f'#SCN {sid} {m}\n' + '\n'.join(ops) + '\n#END\n' for (sid, m, ops) in scns)
    r = subprocess.run([binary], input=inp, capture_output=True, text=True)
    res = {}
    cur = None
    for line in r.stdout.split('\n'):
        if line.startswith('#SCN '):
            cur = line[5:].strip()
            res[cur] = []
        elif line.strip() == '#END':
            cur = None
        elif cur is not None:
            res[cur].append(line)
    return res, r.returncode, r.stderr[-2000:]
