"""T1/T2: run the real front end + generator (smx) and the Lean model driver on the same
definitions and compare their canonical dumps.

compare(defs) -> list of result dicts, one per definition:
  {'id', 'stream', 'feature', 'status': 'same'|'diff', 'kind': 'T1'|'T2', 'region', 'line',
   'model', 'impl', 'verdict': 'ok'|'parse-err'|'validate-err'|..., 'branches': set(...)}
"""
import os
import zlib
import subprocess
import sys

sys.path.insert(0, os.path.dirname(__file__))
import defs as D

VERIF = os.path.dirname(os.path.dirname(os.path.abspath(__file__)))
DRIVER = os.path.join(VERIF, 'lean/.lake/build/bin/smvdriver')

def smx_bin(feature, work):
    return os.path.join(work, 'smx-feat' if feature else 'smx-nofeat', 'release', 'smx')

def build_smx(work, repo='/repo', quiet=True):
    """build smx twice (without / with its `dynamic` feature) against `repo`'s current tree"""
    env = dict(os.environ, SMX_REPO=repo, CARGO_NET_OFFLINE='true')
    for feat in (False, True):
        td = os.path.join(work, 'smx-feat' if feat else 'smx-nofeat')
        cmd = ['cargo', 'build', '--release', '--offline', '--manifest-path', os.path.join(VERIF, 'smx/Cargo.toml'),
               '--target-dir', td]
        if feat:
            cmd += ['--features', 'dynamic']
        r = subprocess.run(cmd, env=env, capture_output=True, text=True)
        if r.returncode != 0:
            return False, r.stderr
    return True, ''

def split_blocks(text):
    out = {}
    cur = None
    for line in text.split('\n'):
        if line.startswith('#DEF '):
            cur = line[5:].strip()
            out[cur] = []
        elif line.strip() == '#END':
            cur = None
        elif cur is not None:
            out[cur].append(line)
    return out

NPROC = max(1, min(16, (os.cpu_count() or 4)))

def _chunks(items, n):
    k = max(1, (len(items) + n - 1) // n)
    return [items[i:i + k] for i in range(0, len(items), k)]

def _run(cmd, inp):
    r = subprocess.run(cmd, input=inp, capture_output=True, text=True)
    if r.returncode != 0:
        raise RuntimeError(f'{cmd[0]} failed: ' + r.stderr[-2000:])
    return r.stdout

def run_impl(items, work):
    """items: list of (id, feature, text). returns {id: block text}"""
    from concurrent.futures import ThreadPoolExecutor
    jobs = []
    for feat in (False, True):
        sel = [(i, t) for (i, f, t) in items if bool(f) == feat]
        for ch in _chunks(sel, NPROC):
            if ch:
                jobs.append(([smx_bin(feat, work)], ''.join(f'#DEF {i}\n{t}\n#END\n' for (i, t) in ch)))
    res = {}
    with ThreadPoolExecutor(NPROC) as ex:
        for out in ex.map(lambda j: _run(*j), jobs):
            res.update(split_blocks(out))
    return res

def run_model(items):
    """items: list of (id, feature, prefix). returns {id: [lines]}"""
    from concurrent.futures import ThreadPoolExecutor
    jobs = [([DRIVER], ''.join(f'{i} {1 if f else 0} {p}\n' for (i, f, p) in ch)) for ch in _chunks(items, NPROC) if ch]
    res = {}
    with ThreadPoolExecutor(NPROC) as ex:
        for out in ex.map(lambda j: _run(*j), jobs):
            res.update(split_blocks(out))
    return res

def verdict_of(lines):
    for l in lines:
        if l.startswith('PARSE ERR'):
            return 'parse-err'
        if l.startswith('VALIDATE ERR'):
            return 'validate-err'
        if l.startswith('EXPAND ERR'):
            return 'expand-err'
        if l == 'PANIC':
            return 'panic'
        if l == 'DEADPATH':
            return 'deadpath'
    return 'ok'

def err_of(lines):
    for l in lines:
        if ' ERR ' in l and (l.startswith('PARSE') or l.startswith('VALIDATE') or l.startswith('EXPAND')):
            return l
    return None

def _region_at(rline, idx):
    if not rline:
        return 'FE'
    k = 0
    for part in rline.split('\t')[1:]:
        r, n = part.rsplit(':', 1)
        k += int(n)
        if idx < k:
            return r
    return 'FE'

def _is_err(l):
    return ' ERR ' in l and l.split(' ', 1)[0] in ('PARSE', 'VALIDATE', 'EXPAND')

def _split_items(toks):
    """the top-level items of a flattened token list (cut after a `}` or `;` at bracket depth 0)"""
    items, cur, depth = [], [], 0
    for t in toks:
        cur.append(t)
        if t in ('{', '(', '['):
            depth += 1
        elif t in ('}', ')', ']'):
            depth -= 1
            if depth == 0 and t == '}':
                items.append(tuple(cur)); cur = []
        elif t == ';' and depth == 0:
            items.append(tuple(cur)); cur = []
    if cur:
        items.append(tuple(cur))
    return items

# identifiers the templates bind locally (let / pattern / closure / parameter names); a consistent renaming
# of one of them to a name that occurs nowhere else is alpha-equivalence
LOCALS = {'new_machine', 'old_machine', 'err', 'state_name', 'new_state', 'current', 'callback_name', 'state', 'data',
          'm', 'event', 'payload'}
import re as _re
_IDENT_RE = _re.compile(r'^[A-Za-z_][A-Za-z0-9_]*$')

_NOT_BEFORE = {'.', '::', 'fn', 'struct', 'enum', 'mod', 'impl', 'trait', 'type', 'const', 'static', 'use', 'for', "'", 'dyn', 'as'}
_NOT_AFTER = {'(', '::', '!', '<'}
_RESERVED = {'self', 'Self', 'super', 'crate', 'mut', 'ref', 'let', 'match', 'if', 'else', 'return', 'move', 'async', 'await',
             'pub', 'where', 'in', 'true', 'false', 'loop', 'while', 'break', 'continue', 'unsafe', 'core', 'ctx', '_state'}

def _only_local_roles(toks, name):
    """is `name` used, in this item, only where a local variable can stand: a lower-case identifier never
    preceded by `.`, `::`, an item keyword, and never followed by `(`, `::`, `!`, `<`, `{` (so it is not a field, a
    method, a path segment, a function, a macro, a type or a struct literal)"""
    if not name or not (name[0].islower() or name[0] == '_') or name in _RESERVED or not _IDENT_RE.match(name):
        return False
    seen = False
    for i, t in enumerate(toks):
        if t != name:
            continue
        seen = True
        prev = toks[i - 1] if i > 0 else ''
        nxt = toks[i + 1] if i + 1 < len(toks) else ''
        if prev in _NOT_BEFORE or nxt in _NOT_AFTER:
            return False
        if nxt == '{' and not (prev == 'match' or (prev in ('&', '*') and i >= 2 and toks[i - 2] == 'match')):
            return False      # `name { … }` is a struct literal unless it is the scrutinee of a match
        if prev == ':' and i >= 2 and toks[i - 2] != ':':
            # `x : name` — a type or a value in a struct literal; a value is fine, a type is not (types are
            # upper-case in generated code; lower-case primitive types are not renamed by anyone)
            pass
    return seen

def _local_rename_only(mt, it, user_words=(), fresh_against=None):
    if len(mt) != len(it):
        return False
    fwd = {}
    for a, b in zip(mt, it):
        if a == b and a not in fwd:
            continue
        if a in user_words or not _IDENT_RE.match(b) or not (a in LOCALS or _only_local_roles(mt, a)):
            return False
        if fwd.setdefault(a, b) != b:
            return False
    if not fwd or len(set(fwd.values())) != len(fwd):
        return False
    mset = set(mt) if fresh_against is None else fresh_against
    if any(v in mset for v in fwd.values()):
        return False      # the new name already means something in the expansion
    # every occurrence of a renamed local is renamed
    return all(fwd.get(a, a) == b for a, b in zip(mt, it))

def _canon_items(toks):
    """top-level items as a sorted list; inside an `impl` block the member items are sorted too
    (neither order means anything to rustc)"""
    out = []
    for item in _split_items(toks):
        k = 0
        while k < len(item) and item[k] == '#':       # attributes: `#` `[` ... `]`
            depth = 0
            k += 1
            while k < len(item):
                if item[k] == '[':
                    depth += 1
                elif item[k] == ']':
                    depth -= 1
                    if depth == 0:
                        k += 1
                        break
                k += 1
        if k < len(item) and item[k] == 'impl' and item[-1] == '}':
            depth = 0
            open_at = None
            for j in range(k, len(item)):
                if item[j] in ('{', '(', '['):
                    if item[j] == '{' and depth == 0:
                        open_at = j
                        break
                    depth += 1
                elif item[j] in ('}', ')', ']'):
                    depth -= 1
            if open_at is not None:
                members = sorted(_split_items(list(item[open_at + 1:-1])))
                item = tuple(item[:open_at + 1]) + tuple(t for mem in members for t in mem) + ('}',)
        out.append(item)
    return sorted(out)

def _segments(toks):
    """split a token span at brace-depth 0 into segments: runs separated by `,` / `;`, and every `{ … }` group's
    interior as a segment of its own (binders of a `let`, a match arm or a block do not cross these)"""
    segs, cur, depth, i = [], [], 0, 0
    n = len(toks)
    while i < n:
        t = toks[i]
        if t == '{' and depth == 0:
            # find the matching brace
            d, j = 1, i + 1
            while j < n and d:
                if toks[j] == '{':
                    d += 1
                elif toks[j] == '}':
                    d -= 1
                j += 1
            cur.append('{')
            segs.append(('run', cur)); cur = []
            segs.append(('block', toks[i + 1:j - 1]))
            cur.append('}')
            i = j
            continue
        if t in ('(', '['):
            depth += 1
        elif t in (')', ']'):
            depth -= 1
        cur.append(t)
        if t in (',', ';') and depth == 0:
            segs.append(('run', cur)); cur = []
        i += 1
    if cur:
        segs.append(('run', cur))
    return segs

def _alpha_ok(mt, it, fresh_against, user_words, level=0):
    """are two token spans equal up to renaming of local variables, scope by scope? Each segment must be equal
    or differ by a functional renaming of local-role identifiers to names that occur nowhere in the model's
    item (`fresh_against`); otherwise it is split further."""
    if mt == it:
        return True
    if len(mt) != len(it) or level > 12:
        return False
    if _local_rename_only(mt, it, user_words, fresh_against):
        return True
    sm, si = _segments(mt), _segments(it)
    if len(sm) != len(si) or len(sm) <= 1:
        return False
    for (ka, a), (kb, b) in zip(sm, si):
        if ka != kb or len(a) != len(b):
            return False
        if not _alpha_ok(a, b, fresh_against, user_words, level + 1):
            return False
    return True

def _match_close(toks, i):
    """index of the bracket closing the one opened at i"""
    op = toks[i]
    cl = {'{': '}', '(': ')', '[': ']'}[op]
    d = 0
    for j in range(i, len(toks)):
        if toks[j] == op:
            d += 1
        elif toks[j] == cl:
            d -= 1
            if d == 0:
                return j
    return len(toks) - 1

def _enclosing_block_end(toks, p):
    """index of the `}` closing the innermost `{` that contains position p (len if none)"""
    d = 0
    for j in range(p, len(toks)):
        if toks[j] == '{':
            d += 1
        elif toks[j] == '}':
            if d == 0:
                return j
            d -= 1
    return len(toks)

def _binders(toks):
    """(position, scope_lo, scope_hi) of the local binders of an item: `let` patterns, match-arm patterns,
    function parameters (approximate but conservative: anything not recognised is a use)"""
    out = []
    n = len(toks)
    def is_var(i):
        t = toks[i]
        return (_IDENT_RE.match(t) and (t[0].islower() or t[0] == '_') and t not in _RESERVED and
                (i + 1 >= n or toks[i + 1] not in ('(', '::', '!')) and (i == 0 or toks[i - 1] not in ('.', '::')))
    i = 0
    while i < n:
        t = toks[i]
        if t == 'let':
            j = i + 1
            depth = 0
            while j < n and not (toks[j] in ('=', ':') and depth == 0) and toks[j] != ';':
                if toks[j] in ('(', '['):
                    depth += 1
                elif toks[j] in (')', ']'):
                    depth -= 1
                j += 1
            # end of the statement
            k = j
            d = 0
            while k < n and not (toks[k] == ';' and d == 0):
                if toks[k] in ('(', '[', '{'):
                    d += 1
                elif toks[k] in (')', ']', '}'):
                    d -= 1
                    if d < 0:
                        break
                k += 1
            hi = _enclosing_block_end(toks, k)
            for q in range(i + 1, j):
                if toks[q] != 'mut' and is_var(q):
                    out.append((q, k + 1, hi))
        elif t == '=>':
            # the arm pattern: back to the previous `{` or `,` at depth 0
            j = i - 1
            d = 0
            while j >= 0:
                if toks[j] in (')', ']', '}'):
                    d += 1
                elif toks[j] in ('(', '[', '{'):
                    if d == 0:
                        break
                    d -= 1
                elif toks[j] == ',' and d == 0:
                    break
                j -= 1
            # the arm body
            if i + 1 < n and toks[i + 1] == '{':
                hi = _match_close(toks, i + 1)
            else:
                k = i + 1
                d = 0
                while k < n and not (toks[k] == ',' and d == 0):
                    if toks[k] in ('(', '[', '{'):
                        d += 1
                    elif toks[k] in (')', ']', '}'):
                        d -= 1
                        if d < 0:
                            break
                    k += 1
                hi = k
            for q in range(j + 1, i):
                if is_var(q):
                    out.append((q, i + 1, hi))
        elif t == 'fn' and i + 2 < n and toks[i + 2] == '(':
            close = _match_close(toks, i + 2)
            # body: the next `{` at depth 0 after the signature
            k = close + 1
            while k < n and toks[k] != '{' and toks[k] != ';':
                k += 1
            if k < n and toks[k] == '{':
                hi = _match_close(toks, k)
                for q in range(i + 3, close):
                    if q + 1 < n and toks[q + 1] == ':' and toks[q] != 'self' and is_var(q):
                        out.append((q, k + 1, hi))
        i += 1
    return out

def _merge_punct(toks):
    """the flattened streams carry punctuation one character at a time: re-join `::`, `=>`, `->`"""
    out = []
    i = 0
    n = len(toks)
    while i < n:
        if i + 1 < n and (toks[i], toks[i + 1]) in ((':', ':'), ('=', '>'), ('-', '>')):
            out.append(toks[i] + toks[i + 1])
            i += 2
        else:
            out.append(toks[i])
            i += 1
    return out

def _alpha_equiv(mt, it, user_words):
    """do two token lists of one item differ only by renaming variables bound inside it (let / match arm /
    parameter), each to a name that occurs nowhere in the model's item, with every use in the binder's scope
    renamed alike? (binder detection is approximate; what it does not recognise must be token-equal)"""
    if len(mt) != len(it):
        return False
    mt, it = _merge_punct(mt), _merge_punct(it)
    if len(mt) != len(it):
        return False
    mset = set(mt)
    expect = list(mt)
    for (p, lo, hi) in sorted(_binders(mt), key=lambda b: (b[1], -b[2])):
        a, b = mt[p], it[p]
        if a == b:
            # unchanged binder: re-establishes the name in its scope (it may shadow a renamed outer one)
            for q in range(lo, min(hi, len(mt))):
                if mt[q] == a:
                    expect[q] = a
            expect[p] = a
            continue
        if not _IDENT_RE.match(b) or b == '_' or a == '_' or b in mset or a in user_words or not _only_local_roles(mt, a):
            return False      # (`_` is not a binding: the value is dropped at once)
        expect[p] = b
        for q in range(lo, min(hi, len(mt))):
            if mt[q] == a:
                expect[q] = b
    return expect == it

def _self_paths(item):
    """inside `impl … Type … { … }`, spell `Self ::` as `Type ::` (the two are the same path there)"""
    toks = _merge_punct(list(item))
    k = 0
    while k < len(toks) and toks[k] == '#':          # attributes
        d = 0
        k += 1
        while k < len(toks):
            if toks[k] == '[':
                d += 1
            elif toks[k] == ']':
                d -= 1
                if d == 0:
                    k += 1
                    break
            k += 1
    if k >= len(toks) or toks[k] != 'impl':
        return toks
    # header up to the opening brace at angle depth 0
    j = k + 1
    depth = 0
    hdr = []
    while j < len(toks) and not (toks[j] == '{' and depth == 0):
        if toks[j] == '<':
            depth += 1
        elif toks[j] == '>':
            depth -= 1
        hdr.append((toks[j], depth))
        j += 1
    names = [t for (t, dpt) in hdr if dpt == 0 and _IDENT_RE.match(t) and t not in ('for', 'where', 'impl', 'dyn', 'crate', 'core', 'state_machines')]
    if 'for' in [t for (t, dpt) in hdr if dpt == 0]:
        idx = [i for i, (t, dpt) in enumerate(hdr) if t == 'for' and dpt == 0][-1]
        names = [t for (t, dpt) in hdr[idx + 1:] if dpt == 0 and _IDENT_RE.match(t) and t not in ('where', 'crate', 'core', 'state_machines')]
    if not names:
        return toks
    ty = names[0] if 'for' in [t for (t, dpt) in hdr if dpt == 0] else names[-1] if False else names[0]
    out = toks[:j]
    for i in range(j, len(toks)):
        if toks[i] == 'Self' and i + 1 < len(toks) and toks[i + 1] == '::':
            out.append(ty)
        else:
            out.append(toks[i])
    return out

def _user_words(lines):
    """the user's own identifiers, read off the front-end dump: everything but the line kinds and the field
    labels (`event go p=- g=a,b` contributes go, a, b; not `event`, `p`, `g`)"""
    import re
    out = set()
    for l in lines:
        if l.startswith('T\t') or l.startswith('R\t'):
            continue
        parts = l.strip().split()
        for t in parts[1:]:
            if '=' in t:
                t = t.split('=', 1)[1]
            out.update(re.findall(r'[A-Za-z_][A-Za-z0-9_]*', t))
    return out

def compare_one(model, impl):
    """first difference between the model's and the implementation's dump.
    Two differences are not differences of anything a property reads and are only noted:
    the wording (and phase) of the diagnostic when both sides refuse the definition, the order of
    the top-level items of the expansion (item order in a module means nothing to rustc), and a consistent
    renaming of a variable the generated code binds locally to a fresh name."""
    rline = None
    m2 = []
    for l in model:
        if l.startswith('R\t'):
            rline = l
        else:
            m2.append(l)
    if m2 == impl:
        return {'status': 'same'}
    notes = []
    if any(_is_err(l) for l in m2) and any(_is_err(l) for l in impl):
        return {'status': 'same', 'notes': ['diagnostic-text']}
    n = max(len(m2), len(impl))
    for k in range(n):
        ml = m2[k] if k < len(m2) else '<end>'
        il = impl[k] if k < len(impl) else '<end>'
        if ml == il:
            continue
        if ml.startswith('T\t') and il.startswith('T\t'):
            mt = ml.split('\t')[1:]
            it = il.split('\t')[1:]
            if len(mt) == len(it) and _canon_items(mt) == _canon_items(it):
                notes.append('item-order')
                continue
            if len(mt) == len(it):
                mi, ii = _split_items(mt), _split_items(it)
                if len(mi) == len(ii) and all(a == b or _self_paths(a) == _self_paths(b) for a, b in zip(mi, ii)):
                    notes.append('self-path')
                    continue
            if len(mt) == len(it):
                # scope by scope: a local never crosses a top-level item
                mi, ii = _split_items(mt), _split_items(it)
                uw = _user_words(m2)
                if len(mi) == len(ii) and all(a == b or _alpha_equiv(list(a), list(b), uw) for a, b in zip(mi, ii)):
                    notes.append('local-rename')
                    continue
            j = 0
            while j < len(mt) and j < len(it) and mt[j] == it[j]:
                j += 1
            return {'status': 'diff', 'kind': 'T2', 'region': _region_at(rline, min(j, len(mt) - 1)), 'line': j,
                    'model': ' '.join(mt[max(0, j - 6):j + 4]) if j < len(mt) else '<end>',
                    'impl': ' '.join(it[max(0, j - 6):j + 4]) if j < len(it) else '<end>'}
        kind = 'T2' if (ml.startswith('T\t') or il.startswith('T\t')) else 'T1'
        # does the expansion differ as well, or only the front-end dump (an internal representation)?
        t2_also = [l for l in m2 if l.startswith('T\t')] != [l for l in impl if l.startswith('T\t')]
        return {'status': 'diff', 'kind': kind, 'region': 'FE', 'line': k, 'model': ml[:300], 'impl': il[:300],
                'fe_parts': sorted(fe_parts(m2, impl)), 't2_also': t2_also}
    return {'status': 'same', 'notes': notes}

def _edge_fields(l):
    # edge S -> T ev=.. p=.. g=.. u=.. b=.. a=.. ar=..
    t = l.split()
    d = {'src': t[1] if len(t) > 1 else '', 'tgt': t[3] if len(t) > 3 else ''}
    for x in t[4:]:
        if '=' in x:
            k, v = x.split('=', 1)
            d[k] = v
    return d

def fe_parts(model, impl):
    """which parts of the front-end dump differ (names of line kinds; for edges, of fields)"""
    parts = set()
    mm = [l for l in model if not l.startswith('T\t')]
    ii = [l for l in impl if not l.startswith('T\t')]
    def by_kind(ls):
        d = {}
        for l in ls:
            k = l.strip().split(' ', 1)[0]
            d.setdefault(k, []).append(l)
        return d
    a, b = by_kind(mm), by_kind(ii)
    for k in set(a) | set(b):
        if a.get(k) != b.get(k):
            if k == 'edge':
                ea, eb = a.get(k, []), b.get(k, [])
                if len(ea) != len(eb):
                    parts.add('edge.set')
                for x, y in zip(ea, eb):
                    fx, fy = _edge_fields(x), _edge_fields(y)
                    for f in set(fx) | set(fy):
                        if fx.get(f) != fy.get(f):
                            parts.add('edge.' + f)
            else:
                parts.add(k)
    return parts

def regions_of(model):
    out = {}
    for l in model:
        if l.startswith('R\t'):
            for part in l.split('\t')[1:]:
                r, n = part.rsplit(':', 1)
                out[r] = out.get(r, 0) + int(n)
    return out

def ntokens_of(lines):
    for l in lines:
        if l.startswith('T\t'):
            return l.count('\t')
    return 0

def compare(cases, work):
    """cases: list of dicts {'id', 'stream', 'feature', 'def'} (+ optional 'text')"""
    import random
    impl_items, model_items = [], []
    for c in cases:
        if 'text' not in c:
            c['text'] = D.to_text(c['def'], random.Random(zlib.crc32(c['id'].encode())))
        impl_items.append((c['id'], c['feature'], c['text']))
        model_items.append((c['id'], c['feature'], D.to_prefix(c['def'])))
    impl = run_impl(impl_items, work)
    model = run_model(model_items)
    results = []
    for c in cases:
        m = model.get(c['id'], ['<missing>'])
        i = impl.get(c['id'], ['<missing>'])
        r = compare_one(m, i)
        r.update(id=c['id'], stream=c['stream'], feature=c['feature'], verdict=verdict_of(i),
                 model_verdict=verdict_of(m), err=err_of(i), regions=regions_of(m), ntokens=ntokens_of(i))
        results.append(r)
    return results

def name_corpus():
    """every identifier of length <= 7 over {a, B, 2, _} and of length <= 5 over {a, b, A, B, 1, _} (not
    starting with a digit, not `_` alone), plus the word pools"""
    import itertools
    out = []
    for alpha, n in (('aB2_', 7), ('abAB1_', 5)):
        for k in range(1, n + 1):
            for t in itertools.product(alpha, repeat=k):
                w = ''.join(t)
                if w[0].isdigit() or set(w) == {'_'}:
                    continue
                out.append(w)
    out += D.STATE_WORDS + D.SUPER_WORDS + D.EVENT_WORDS + D.HOOK_WORDS
    return sorted(set(out))

def compare_names(work):
    """to_snake_case / to_pascal_case of the real utils.rs against the model's, on name_corpus()"""
    names = name_corpus()
    inp_i = ''.join(f'#NAME {n}\n' for n in names)
    inp_m = ''.join(f'NAME {n}\n' for n in names)
    ri = subprocess.run([os.path.join(work, 'smx-nofeat', 'release', 'smx')], input=inp_i, capture_output=True, text=True)
    rm = subprocess.run([DRIVER], input=inp_m, capture_output=True, text=True)
    li = [l for l in ri.stdout.split('\n') if l.startswith('#NAME ')]
    lm = [l for l in rm.stdout.split('\n') if l.startswith('#NAME ')]
    diffs = [{'impl': a, 'model': b} for a, b in zip(li, lm) if a != b]
    if len(li) != len(names) or len(lm) != len(names):
        diffs.append({'impl': f'{len(li)} lines', 'model': f'{len(lm)} lines', 'expected': len(names)})
    diffs.sort(key=lambda d: len(d['impl']))
    return {'names': len(names), 'ndiffs': len(diffs), 'diffs': diffs[:20]}

def repo_corpus(repo='/repo'):
    out = []
    for root, dirs, files in os.walk(repo):
        dirs[:] = [d for d in dirs if d not in ('target', '.git')]
        for f in sorted(files):
            if not (f.endswith('.rs') or f.endswith('.md') or f.endswith('.skip')):
                continue
            p = os.path.join(root, f)
            try:
                src = open(p, encoding='utf-8').read()
            except Exception:
                continue
            for k, b in enumerate(D.extract_blocks(src)):
                try:
                    d = D.parse_text(b)
                except Exception as e:
                    continue
                if not any(it[0] == 'name' for it in d):
                    continue   # fragments inside doc comments
                out.append({'id': f'repo:{os.path.relpath(p, repo)}#{k}', 'stream': 'repo', 'def': d, 'text': b})
    return out

if __name__ == '__main__':
    import random
    work = os.path.join(VERIF, '.work')
    os.makedirs(work, exist_ok=True)
    ok, err = build_smx(work)
    if not ok:
        print(err)
        sys.exit(2)
    n = int(sys.argv[1]) if len(sys.argv) > 1 else 200
    seed = int(sys.argv[2]) if len(sys.argv) > 2 else 1
    rng = random.Random(seed)
    cases = []
    for c in repo_corpus():
        for f in (0, 1):
            cc = dict(c)
            cc['id'] = c['id'] + f'/f{f}'
            cc['feature'] = f
            cases.append(cc)
    for k in range(n):
        d = D.wf_random(rng)
        cases.append({'id': f'rand{k}', 'stream': 'rand', 'feature': rng.random() < 0.3, 'def': d})
        if k % 4 == 0:
            for j, (rule, m) in enumerate(D.mutations(d, rng)):
                cases.append({'id': f'mut{k}.{j}.{rule}', 'stream': 'mut', 'feature': False, 'def': m})
    res = compare(cases, work)
    nd = 0
    seen = set()
    from collections import Counter
    cnt = Counter()
    for r in res:
        cnt[(r['stream'], r['verdict'], r['status'])] += 1
        if r['status'] != 'same':
            nd += 1
            if r['stream'] != 'repo' and nd <= 40 and (r['stream'], r['kind'], r['model'][:30]) not in seen:
                seen.add((r['stream'], r['kind'], r['model'][:30]))
                print('DIFF', r['id'], r['kind'], r['region'], 'line', r['line'])
                print('   model:', r['model'])
                print('   impl :', r['impl'])
    for k, v in sorted(cnt.items()):
        print(k, v)
    print('cases', len(res), 'diffs', nd)
