// Generates the `mod` declarations of the macro crate (read from its lib.rs) as
// `#[path]` includes, so that the real parser / validator / generator sources of
// /repo's current working tree are compiled, unchanged, into this harness.
use std::{env, fs, path::PathBuf};

fn main() {
    let repo = env::var("SMX_REPO").unwrap_or_else(|_| "/repo".to_string());
    let src = PathBuf::from(&repo).join("state-machines-macro/src");
    let lib = fs::read_to_string(src.join("lib.rs")).expect("read lib.rs");
    let mut out = String::new();
    for line in lib.lines() {
        let l = line.trim();
        let l = l.strip_prefix("pub ").unwrap_or(l);
        if let Some(rest) = l.strip_prefix("mod ") {
            if let Some(name) = rest.strip_suffix(';') {
                let name = name.trim();
                let file = src.join(format!("{name}.rs"));
                let path = if file.exists() { file } else { src.join(name).join("mod.rs") };
                out.push_str(&format!("#[path = {:?}]\npub mod {};\n", path.display().to_string(), name));
            }
        }
    }
    let dest = PathBuf::from(env::var("OUT_DIR").unwrap()).join("mods.rs");
    fs::write(dest, out).unwrap();
    println!("cargo:rerun-if-changed={}", src.display());
    println!("cargo:rerun-if-env-changed=SMX_REPO");
    // rerun-if-changed on a directory only watches its mtime; list every file too
    fn walk(p: &std::path::Path) {
        if let Ok(rd) = fs::read_dir(p) {
            for e in rd.flatten() {
                let p = e.path();
                if p.is_dir() { walk(&p) } else { println!("cargo:rerun-if-changed={}", p.display()); }
            }
        }
    }
    walk(&src);
}
