//! smx — runs the *real* parser, validator and generator of /repo's macro crate (its
//! sources are included unchanged, see build.rs) on definitions read from stdin and
//! prints the front-end structures (T1) and the flattened expansion (T2) in the same
//! canonical text format as the Lean model driver.
#![allow(dead_code)]
#![allow(clippy::all)]

include!(concat!(env!("OUT_DIR"), "/mods.rs"));

use proc_macro2::{Delimiter, TokenStream, TokenTree};
use quote::ToTokens;
use std::io::{self, BufRead, Write};

fn is_doc_attr(tt: &TokenTree) -> bool {
    if let TokenTree::Group(g) = tt {
        if g.delimiter() == Delimiter::Bracket {
            if let Some(TokenTree::Ident(i)) = g.stream().into_iter().next() {
                return i == "doc";
            }
        }
    }
    false
}

fn lit_text(l: &proc_macro2::Literal) -> String {
    let s = l.to_string();
    if s.starts_with('"') {
        if let Ok(ls) = syn::parse_str::<syn::LitStr>(&s) {
            return format!("{:?}", ls.value());
        }
    }
    s
}

/// Flatten a token stream: groups become their delimiter tokens, doc attributes vanish.
fn flatten(ts: TokenStream, out: &mut Vec<String>) {
    let trees: Vec<TokenTree> = ts.into_iter().collect();
    let mut i = 0;
    while i < trees.len() {
        match &trees[i] {
            TokenTree::Punct(p) if p.as_char() == '#' && i + 1 < trees.len() && is_doc_attr(&trees[i + 1]) => {
                i += 2;
                continue;
            }
            TokenTree::Group(g) => {
                let (o, c) = match g.delimiter() {
                    Delimiter::Parenthesis => ("(", ")"),
                    Delimiter::Brace => ("{", "}"),
                    Delimiter::Bracket => ("[", "]"),
                    Delimiter::None => ("", ""),
                };
                if !o.is_empty() { out.push(o.to_string()); }
                flatten(g.stream(), out);
                if !c.is_empty() { out.push(c.to_string()); }
            }
            TokenTree::Ident(id) => out.push(id.to_string()),
            TokenTree::Punct(p) => out.push(p.as_char().to_string()),
            TokenTree::Literal(l) => out.push(lit_text(l)),
        }
        i += 1;
    }
}

fn ty_text<T: ToTokens>(t: &T) -> String {
    let mut v = Vec::new();
    flatten(t.to_token_stream(), &mut v);
    v.join(" ")
}

fn oty<T: ToTokens>(t: &Option<T>) -> String {
    match t { Some(t) => ty_text(t), None => "-".to_string() }
}

fn ns(l: &[syn::Ident]) -> String {
    l.iter().map(|i| i.to_string()).collect::<Vec<_>>().join(",")
}

fn dump_machine(m: &types::StateMachine, out: &mut Vec<String>) {
    out.push(format!("name {}", m.name));
    out.push(format!("initial {}", m.initial));
    out.push(format!("context {}", oty(&m.context)));
    out.push(format!("async {} dynamic {}", m.async_mode, m.dynamic_mode));
    out.push(format!("states {}", ns(&m.states)));
    for s in &m.state_storage {
        out.push(format!("storage {} {} {}", s.state_name, s.field, ty_text(&s.ty)));
    }
    let mut keys: Vec<&String> = m.hierarchy.lookup.keys().collect();
    keys.sort();
    for k in keys { out.push(format!("lookup {}={}", k, ns(&m.hierarchy.lookup[k]))); }
    let mut keys: Vec<&String> = m.hierarchy.ancestors.keys().collect();
    keys.sort();
    for k in keys { out.push(format!("ancestors {}={}", k, ns(&m.hierarchy.ancestors[k]))); }
    let mut keys: Vec<&String> = m.hierarchy.initial_children.keys().collect();
    keys.sort();
    for k in keys { out.push(format!("initial_child {}={}", k, m.hierarchy.initial_children[k])); }
    for s in &m.hierarchy.superstates {
        out.push(format!("superstate {} init={}", ns(&s.descendants), s.initial));
    }
    for e in &m.events {
        out.push(format!("event {} p={} g={} u={} b={} a={} ar={}", e.name, oty(&e.payload),
            ns(&e.guards), ns(&e.unless), ns(&e.before), ns(&e.after), ns(&e.around)));
        for t in &e.transitions {
            out.push(format!("  transition from={} to={} g={} u={} b={} a={} ar={}", ns(&t.sources), t.target,
                ns(&t.guards), ns(&t.unless), ns(&t.before), ns(&t.after), ns(&t.around)));
        }
    }
    let mut keys: Vec<&String> = m.transition_graph.edges.keys().collect();
    keys.sort();
    for k in keys {
        for e in &m.transition_graph.edges[k] {
            out.push(format!("edge {} -> {} ev={} p={} g={} u={} b={} a={} ar={}", k, e.target, e.event,
                oty(&e.payload), ns(&e.guards), ns(&e.unless), ns(&e.before), ns(&e.after), ns(&e.around)));
        }
    }
}

/// Canonical order for the superstate marker items (their real order is that of
/// `HashMap::keys()`): every item of the shape `# [..] pub struct X ;` (six token trees) whose `X` is a
/// superstate is found wherever it stands, and those items are put back, sorted by name, into the
/// positions they occupied.
fn canonical_tokens(ts: TokenStream, sups: &std::collections::HashSet<String>) -> Vec<String> {
    let trees: Vec<TokenTree> = ts.into_iter().collect();
    let is_p = |t: &TokenTree, c: char| matches!(t, TokenTree::Punct(p) if p.as_char() == c);
    let is_i = |t: &TokenTree, s: &str| matches!(t, TokenTree::Ident(i) if i == s);
    let mut at: Vec<usize> = Vec::new();
    let mut i = 0;
    while i + 6 <= trees.len() {
        let name = trees[i + 4].to_string();
        if is_p(&trees[i], '#') && matches!(trees[i + 1], TokenTree::Group(_)) && is_i(&trees[i + 2], "pub")
            && is_i(&trees[i + 3], "struct") && matches!(trees[i + 4], TokenTree::Ident(_)) && is_p(&trees[i + 5], ';')
            && sups.contains(&name)
        {
            at.push(i);
            i += 6;
        } else {
            i += 1;
        }
    }
    let mut chunks: Vec<Vec<TokenTree>> = at.iter().map(|&k| trees[k..k + 6].to_vec()).collect();
    chunks.sort_by_key(|c| c[4].to_string());
    let mut re = trees.clone();
    for (k, c) in at.iter().zip(chunks.into_iter()) {
        for (j, t) in c.into_iter().enumerate() {
            re[k + j] = t;
        }
    }
    let mut out = Vec::new();
    flatten(re.into_iter().collect(), &mut out);
    out
}

fn process(id: &str, text: &str) -> Vec<String> {
    let mut out = vec![format!("#DEF {id}")];
    match syn::parse_str::<types::StateMachine>(text) {
        Err(e) => out.push(format!("PARSE ERR {e}")),
        Ok(m) => {
            dump_machine(&m, &mut out);
            match m.validate() {
                Err(e) => out.push(format!("VALIDATE ERR {e}")),
                Ok(()) => {
                    out.push("VALIDATE OK".to_string());
                    let dead = m.hierarchy.lookup.keys().any(|k| m.transition_graph.edges.get(k).is_some_and(|v| !v.is_empty()));
                    if dead {
                        out.push("DEADPATH".to_string());
                    } else {
                        match m.expand() {
                            Err(e) => out.push(format!("EXPAND ERR {e}")),
                            Ok(ts) => {
                                let sups: std::collections::HashSet<String> = m.hierarchy.lookup.keys().map(|k| k.to_string()).collect();
                                let toks = canonical_tokens(ts, &sups);
                                out.push(format!("T\t{}", toks.join("\t")));
                            }
                        }
                    }
                }
            }
        }
    }
    out.push("#END".to_string());
    out
}

fn main() {
    // `--tokens`: print only the flattened tokens of the text on stdin (used to learn how a
    // user type flattens)
    let stdin = io::stdin();
    let stdout = io::stdout();
    let mut w = io::BufWriter::new(stdout.lock());
    std::panic::set_hook(Box::new(|_| {}));
    let mut id = String::new();
    let mut buf = String::new();
    let mut in_def = false;
    for line in stdin.lock().lines() {
        let line = line.unwrap();
        if let Some(rest) = line.strip_prefix("#NAME ") {
            let n = rest.trim();
            writeln!(w, "#NAME {}\t{}\t{}", n, codegen::utils::to_snake_case(n), codegen::utils::to_pascal_case(n)).unwrap();
        } else if let Some(rest) = line.strip_prefix("#DEF ") {
            id = rest.trim().to_string();
            buf.clear();
            in_def = true;
        } else if line.trim() == "#END" && in_def {
            in_def = false;
            let idc = id.clone();
            let text = buf.clone();
            let res = std::panic::catch_unwind(move || process(&idc, &text));
            match res {
                Ok(lines) => for l in lines { writeln!(w, "{l}").unwrap(); },
                Err(_) => { writeln!(w, "#DEF {id}\nPANIC\n#END").unwrap(); }
            }
        } else if in_def {
            buf.push_str(&line);
            buf.push('\n');
        }
    }
}
