"""T5: the real core functions / abort macros on the whole finite error algebra, compared with the
Lean transcription (tie) and checked against C12's statement directly (oracle). Exhaustive."""
import os
import subprocess
import sys

HERE = os.path.dirname(os.path.abspath(__file__))
VERIF = os.path.dirname(HERE)
sys.path.insert(0, os.path.join(VERIF, 'gen'))
import t12   # noqa: E402

def oracle(row):
    """C12 on one row of the implementation's table; returns None or what is wrong"""
    lhs, rhs = row.split(' -> ')
    t = lhs.split()
    f = t[0]
    if f == 'new':
        want = f'{t[1]}:{t[2]}:G~{t[1]}'
    elif f == 'with_kind':
        want = f'{t[1]}:{t[2]}:{t[3]}'
    elif f == 'from_guard_error':
        g, e, k = t[1], t[2], t[3]
        if k == 'I':
            return None if rhs.startswith('IT:') and rhs.endswith(':' + e) else f'kind or event changed: {rhs}'
        want = ('GF:' if k[0] == 'G' else 'AF:') + k[2:] + ':' + e
    elif f == 'te_guard_failed':
        want = f'{t[1]}:G~{t[2]}'
    elif f == 'te_invalid':
        want = f'{t[1]}:I'
    elif f in ('abort_guard_expr', 'abort_guard_ident'):
        want = f'abort:{t[1]}:G~{t[2]}'
    elif f == 'abort_with':
        want = f'abort:{t[1]}:{t[2]}'
    elif f == 'dyn_invalid':
        want = f'IT:{t[1]}:{t[2]}'
    elif f == 'dyn_guard':
        want = f'GF:{t[1]}:{t[2]}'
    elif f == 'dyn_action':
        want = f'AF:{t[1]}:{t[2]}'
    elif f == 'dyn_wrong':
        want = f'WS:{t[1]}:{t[2]}:{t[3]}'
    else:
        return 'unknown row'
    return None if rhs == want else f'expected {want}'

def run(work, repo):
    cdir = os.path.join(work, 't5crate')
    import shutil
    shutil.rmtree(cdir, ignore_errors=True)
    shutil.copytree(os.path.join(VERIF, 'rt', 't5'), cdir)
    toml = open(os.path.join(cdir, 'Cargo.toml')).read().replace('/repo/state-machines', f'{repo}/state-machines')
    open(os.path.join(cdir, 'Cargo.toml'), 'w').write(toml)
    shutil.copy(os.path.join(repo, 'Cargo.lock'), os.path.join(cdir, 'Cargo.lock'))
    env = dict(os.environ, CARGO_NET_OFFLINE='true')
    r = subprocess.run(['cargo', 'run', '--offline', '--quiet', '--target-dir', os.path.join(work, 't5target')],
                       cwd=cdir, env=env, capture_output=True, text=True)
    res = {'rows': 0, 'diffs': [], 'oracle_failures': [], 'build_error': None}
    if r.returncode != 0:
        res['build_error'] = r.stderr[-2000:]
        return res
    impl = [l for l in r.stdout.split('\n') if l.strip()]
    m = subprocess.run([t12.DRIVER], input='CORE\n', capture_output=True, text=True)
    model = [l for l in m.stdout.split('\n') if l.strip()]
    res['rows'] = len(impl)
    for i in range(max(len(impl), len(model))):
        a = impl[i] if i < len(impl) else '<missing>'
        b = model[i] if i < len(model) else '<missing>'
        if a != b:
            res['diffs'].append({'impl': a, 'model': b})
    for row in impl:
        w = oracle(row)
        if w:
            res['oracle_failures'].append({'row': row, 'what': w})
    res['sample'] = impl[:3]
    return res
