"""Per-property configuration: Lean module, T2 regions consumed, runtime families."""

ALL_REGIONS = ['FE', 'MK', 'ST', 'IH', 'CT', 'SIG', 'AB', 'GC', 'BC', 'CN', 'AC', 'AA', 'SUB', 'SA', 'XA',
               'EV', 'AS', 'DN', 'HD', 'CS', 'DA', 'DF', 'ID', 'EX']

PROPS = {
    'C03': {
        'level_text': 'Proof, for every machine, edge, async/payload/context combination, hook lists of any length, receiver, payload, history and hook environment: the generated method returns Ok iff every guard answers true and every unless answers false (fires_iff); on the first blocking condition it returns the receiver unchanged with an error naming that condition and the event, having consulted exactly the conditions up to it in order (first_block, first_block_general with history-dependent hooks). Unbounded; tests only sample assignments.',
        'level_note': 'Theorems are about genMethod (the model of generate_transition_method) and methodProg (the trusted reading of the emitted body). Tie: T2 token-exact in regions FE SIG GC.',
        'title': 'A transition fires iff all guards hold and no unless-condition holds',
        'modules': ['SMV.Props.C03'],
        'regions': ['FE', 'SIG', 'GC'],
        't3': ['assign'],
        'design_ref': 'DESIGN.md §7 C03',
    },
    'C04': {
        'level_text': "Proof (success_trace): whenever the generated method returns Ok, for any hook environment, the hooks invoked are exactly around-Before, guards, unless, before (source-typed machine), after (target-typed machine), around-AfterSuccess, each declared hook once in declaration order, each handed the machine's own context and the caller's payload; result typed in the target with the same context.",
        'level_note': "Order of event-level before transition-level hooks is the order of the edge's merged lists (edgesOfSource, tied by T1). Tie: T2 regions FE AB GC BC CN AC AA.",
        'title': 'Success path runs every hook exactly once in the documented order',
        'modules': ['SMV.Props.C04'],
        'regions': ['FE', 'AB', 'GC', 'BC', 'CN', 'AC', 'AA'],
        't3': ['assign', 'walk'],
        'design_ref': 'DESIGN.md §7 C04',
    },
    'C05': {
        'level_text': 'Proof (refusal_identity, retry_succeeds): whenever the generated method returns Err, the machine handed back equals the receiver (state, context, every slot) and only around-Before stages and conditions ran; a later call under favourable conditions succeeds. Dynamic-mode half proved in SMV/Props/C05 once the wrapper theorems land.',
        'level_note': 'Around callbacks are modelled as taking &self (a write they perform is outside the model). Tie: T2 regions AB GC HD.',
        'title': 'A refused transition has no effect and returns the machine intact',
        'modules': ['SMV.Props.C05'],
        'regions': ['AB', 'GC', 'HD'],
        't3': ['assign', 'walk'],
        'design_ref': 'DESIGN.md §7 C05',
    },
    'C06': {
        'level_text': "Proof (before_abort, after_success_on_ok, no_after_success_on_err, ok_implies_after_all_proceed, after_abort_panics): a Before-stage abort at any position returns the receiver unchanged with the abort's kind, the carried name (callback name for invalid-transition) and the event; AfterSuccess stages run exactly once each, last, only on success; an AfterSuccess abort always panics with the generated message and never yields Ok/Err.",
        'level_note': 'Tie: T2 regions AB AA (panic literal included).',
        'title': 'Around callbacks can veto before the transition and are never swallowed after',
        'modules': ['SMV.Props.C06'],
        'regions': ['AB', 'AA'],
        't3': ['assign'],
        'design_ref': 'DESIGN.md §7 C06',
    },
}

ALLOWED_AXIOMS = {'propext', 'Quot.sound', 'Classical.choice'}

TRUSTED_BASE = [
    'Lean 4.33 kernel; axioms at most propext, Quot.sound, Classical.choice (audited per theorem on every run)',
    'L3 reading of each generated fragment as Rust semantics (SMV/Exec.lean): modelled, validated by T3, not proved',
    'smx harness (real macro sources compiled unchanged via #[path]), token comparator and its canonicalisation '
    '(doc attributes stripped, superstate-marker order, string literals by value, punctuation spacing ignored)',
    'Python generator of definitions (gen/defs.py): both serialisations of a definition tree',
    'ASCII non-raw identifiers; user types opaque; hooks use the public API only and are deterministic in the history',
]
