"""Per-property configuration: Lean module, T2 regions consumed, runtime families."""

ALL_REGIONS = ['FE', 'MK', 'ST', 'IH', 'CT', 'SIG', 'AB', 'GC', 'BC', 'CN', 'AC', 'AA', 'SUB', 'SA', 'XA',
               'EV', 'AS', 'DN', 'HD', 'CS', 'DA', 'DF', 'ID', 'EX']

PROPS = {
    'C18': {
        'title': 'Behaviour does not depend on the identifiers chosen',
        'level_text': "PARTIAL. Proof (C18.parseStates_rename, graph_rename, delta_rename; Lemmas/Rename.parse_ren): an injective renaming of state and superstate names commutes with parsing the states section (all nesting depths), with building the transition graph and with delta_M, so the declared relation of the renamed definition is the renamed relation; with C01-C16 (which hold for every validated machine whatever its names, under the no-collision side conditions N1/N2) the renamed machine behaves as the renamed specification. Clashes with identifiers used inside the generated code are rustc's name resolution, not a Lean statement: they are probed by T4 rename (adversarial identifier pool x context mode x dynamic, each against its neutral twin over the whole probe matrix) and by T2 on a corpus drawing names from that pool. C18Twin.twin_behaves_alike transports the refinement theorem along the renaming: dispatched the same events under hooks answering alike, the renamed twin accepts exactly the same events and ends in the renamed state, for every history; C18TwinReply.twin_replies_alike adds vetoes and the error values: the twin's replies are the original's with the state named by an InvalidTransition error renamed. A T1/T2 mismatch that disappears on the neutrally renamed twin of the definition is name-dependent and is consumed by this check whatever its region; the `collide` stream draws pairs of state names with the same snake_case form.",
        'level_note': 'Known finding F6 (state named C with generic context) is listed in known_findings.json and re-observed on every run. Ties: T2 all regions, T4 rename.',
        'modules': ['SMV.Props.C18', 'SMV.Props.C18Twin', 'SMV.Props.C18TwinReply'],
        'regions': ['FE', 'MK', 'ST', 'IH', 'CT', 'SIG', 'SUB', 'EV', 'AS', 'DN', 'ID', 'EX'],
        't3': ['walk', 'assign'],
        't4': ['rename'],
        'design_ref': 'DESIGN.md §7 C18',
    },
    'C02': {
        'title': 'Typestate API mirrors the transition relation at compile time',
        'level_text': "Proof over the emitted impl blocks (C02.method_exists_iff, method_types, new_only_initial, accessor_only_own_state): the method of e is found on M<s> iff delta_M(s,e) is defined, it is the method generated for that edge with Ok type M<target> and Err type (Self, GuardError) in the impl of s; new is found only on the initial state's type; the infallible accessors live only in the impl block of their own state. PARTIAL: that rustc's method resolution is this lookup is the trusted Static reading, validated by T4 probes over the full (leaf x event) matrix, every new, every accessor, with Ok/Err type ascriptions (E0599/E0308 keyed by line). RefineTyped.typed_step_refines / typed_refines_spec: the typestate API refines the same abstract machine as the wrapper - the method of e is found on M<s> exactly when the abstract machine has an edge, returns Ok(M<target>) exactly when it fires (no veto, guards true, unless false) and otherwise Err((the same machine, the abstract machine's error)), along every history in which the caller threads the machine handed back.",
        'level_note': 'Ties: T1 (graph), T2 regions FE MK ST IH CT SIG XA, T4 method/types/new/accessor probes, T3 (a typed call the declared relation has and rustc does not find, on generated machines and on escalated suspects).',
        'modules': ['SMV.Props.C02', 'SMV.Props.RefineTyped'],
        'regions': ['FE', 'MK', 'ST', 'IH', 'CT', 'SIG', 'XA'],
        't3': ['walk'],
        't4': ['method'],
        'design_ref': 'DESIGN.md §7 C02',
    },
    'C07': {
        'title': 'Hierarchy resolution: descendants, initial child and SubstateOf agree',
        'level_text': "Proof for every nesting depth (C07.expand_super, expand_leaf, expand_undeclared, resolve_super, resolve_leaf, substate_impls, edge_iff, superstate_source; C07Decl.delta_declared: delta_M read off the definition tree; Lemmas/Hier*.lean: the imperative parser walk characterised equationally, then read under the name distinctness a successful parse guarantees): a superstate source stands for exactly the leaves nested anywhere beneath it, a superstate target resolves to its declared initial leaf or else its first-declared leaf, SubstateOf<P> is emitted for leaf l exactly for the superstates enclosing l; edges of the graph are exactly the (expanded source, resolved target) pairs with event-then-transition hook lists.",
        'level_note': 'Spec side (leavesUnder, initialLeaf, ancestorsOf) is plain structural recursion over the forest (SMV/Spec.lean). Ties: T1 (lookup/ancestors/initial_children/edges dumped from the real parser), T2 regions FE SUB IH SIG, T3 hier family, T4 substate probes (both polarities of the whole leaf x superstate matrix).',
        'modules': ['SMV.Props.C07', 'SMV.Props.C07Decl', 'SMV.Props.EndToEnd'],
        'regions': ['FE', 'SUB', 'IH', 'SIG'],
        't3': ['walk'],
        't4': ['substate', 'hier-method'],
        'design_ref': 'DESIGN.md §7 C07',
    },
    'C13': {
        'title': 'Ill-formed definitions are rejected at compile time, never reinterpreted',
        'level_text': "Proof in the contrapositive, rule by rule (C13.r1_required_sections, r2_no_unknown_key, transition_block_shape, r3_names_distinct, r4_initial_is_leaf, r56_superstates_ok, r7_to_r10_events, r11_unambiguous): if the macro accepts a definition (parse and validate succeed; otherwise the expansion is compile_error!) and rustc's duplicate-method rule does not fire, the definition has every required section, no unknown key at any level, pairwise distinct state names (leaf and superstate), a declared leaf as initial state, superstates with children and with initial children among their descendants, snake_case events with at least one transition, transitions with from and to and non-empty declared sources and declared targets, and at most one applicable transition per (leaf, event). R1-R10 are refused by the macro, R11 by rustc (E0592; Static rule, trusted, validated by T4 illformed). Converse (C13Iff.validate_iff, C13Complete.parser_accepts, macro_accepts): the validator succeeds exactly when its rules hold of the parsed machine, and a definition satisfying the parser's rules parses, so the macro refuses only for R1-R10.",
        'level_note': 'Ties: T1 verdict and message on the mut stream (every rule x every position), T2 FE MK SUB IH, T4 illformed (every mutated definition must fail to compile, macro-phase and rustc-phase crates separately). History: duplicate superstate names were accepted by the unchanged snapshot (F3), fixed by /repo commit 1395bb8.',
        'modules': ['SMV.Props.C13', 'SMV.Props.C13Iff', 'SMV.Props.C13Complete'],
        'regions': ['FE', 'MK', 'SUB', 'IH'],
        't4': ['illformed'],
        'design_ref': 'DESIGN.md §7 C13',
    },
    'C14': {
        'title': 'Every well-formed definition compiles in every supported configuration',
        'level_text': "PARTIAL. Proof (C14.dynamic_iff, item_names, toSnake_noUpper, pascalGo_noUnderscore, toPascal_head, accessor_names; C12.method_name_declared): the dynamic API is emitted iff dynamic: true or the feature is set; generated names follow the convention (snake_case methods/accessors/extractors for any state name, PascalCase variants, Dynamic<Name>, <Name>Event). That rustc accepts the expansion of every well-formed definition is not a Lean statement: it is established by rustc on the T4 pos corpus (option product, four build configurations) and on every machine T3 compiles, rebuilt from the current tree on every run. The macro-level half is a theorem (C13Complete.macro_accepts: every definition satisfying R1-R10 is expanded, never refused), and where the naming side conditions fail the modelled rustc rules reject the expansion (SideConditions). C14Names.accepted_iff characterises the modelled verdict of rustc (its duplicate-definition rules E0428/E0124/E0592/E0119 over the emitted items) as a condition on names alone: the expansion is accepted exactly when the derived names (type names, struct fields, per-state methods, event variants, Dynamic<M> methods) do not coincide; namesOK_config / accepted_config / namesOK_hooks show that the verdict is the same for every choice of sync/async, context mode and type, payloads and hooks; the corollaries (state_named_like_generated_type, event_named_new, snake_collision_dynamic, extractor_meets_reader, event_named_like_accessor) name each family of coincidences, one instance of each being re-observed with rustc on every run (T4 known).",
        'level_note': 'Known limits of the real code at the edges of well-formedness are recorded in known_findings.json (derived-name collisions, dynamic with zero events, concrete context without Default under dynamic). Ties: T2 all regions decl/sig, T4 pos, T3 builds.',
        'modules': ['SMV.Props.C14', 'SMV.Props.SideConditions', 'SMV.Props.C13Complete', 'SMV.Props.C14Names'],
        'regions': ['FE', 'MK', 'ST', 'IH', 'CT', 'SIG', 'SA', 'XA', 'SUB', 'EV', 'AS', 'DN', 'DF', 'ID', 'EX', 'DA', 'HD', 'CS'],
        't4': ['pos', 'known', 'advpos'],
        'design_ref': 'DESIGN.md §7 C14',
    },
    'C17': {
        'title': 'Generated code keeps the zero-cost, no_std footprint',
        'level_text': "PARTIAL. Proof (C17.all_states_have_markers, struct_fields, no_data_no_slots): every leaf and superstate gets a marker item (unit struct with the template's fixed derive list, token-checked), the machine struct has exactly ctx, the PhantomData and one Option per data-carrying state - none without state data. Zero size, Copy/Eq/Debug/Send/Sync of markers, size_of::<M<Ctx,S>>() == size_of::<Ctx>() and building under #![no_std] without alloc are rustc's facts, established by T4 pos built as a no_std library with const size asserts, MachineState bounds and TransitionError<Marker> uses.",
        'level_note': 'Ties: T2 all regions (any std/alloc path or changed derive list is a token mismatch), T4 pos nostd/typestate configurations.',
        'modules': ['SMV.Props.C17'],
        'regions': ['MK', 'ST', 'IH', 'CT', 'SIG', 'CN', 'SA', 'XA', 'SUB', 'EV', 'AS', 'DN', 'DF', 'ID', 'EX', 'DA', 'HD', 'CS', 'AB', 'GC', 'BC', 'AC', 'AA'],
        't4': ['nostd', 'advpos'],
        'design_ref': 'DESIGN.md §7 C17',
    },
    'C01': {
        'title': 'Dynamic machine follows exactly the declared transition relation',
        'level_text': "Proof (C01.follows_delta, handle_step, new_initial; Lemmas/Handle.handleProg_eq): for every validated machine, every finite sequence of declared events, payloads, hook environment and history, the wrapper created by new is after each returning handle in exactly the state obtained by folding delta_M over the accepted events; an event without transition from the current state is refused with InvalidTransition{from: current, event} without running a hook and leaves the wrapper unchanged; current_state() always names a declared leaf. delta_M is the machine's transition graph; that the graph is the declared relation with superstates expanded/resolved is C07. Refinement (Refine.refines_spec, step_refines): under hooks whose conditions answer by a truth assignment and whose callbacks let the call through (one environment per dispatch), every dispatch of every finite sequence of declared events returns, the accepted events are exactly those of the four-line abstract machine (edge defined, guards true, unless false) and the wrapper ends in its final state. EndToEnd.end_to_end composes this from the definition as written: a definition satisfying the rules is expanded, its abstract machine's edges are declared ones, and the wrapper created by new answers every history with the abstract machine's replies and ends in its state.",
        'level_note': 'Side conditions stated in the theorems: the machine validates, its graph is the one built from its events (what parse returns), PascalCase images of event names pairwise distinct (N1; the real code at the excluded point does not compile: duplicate enum variant). Ties: T1 (graph), T2 regions FE IH SIG CN CT EV AS DN HD CS, T3 walk/hier/abandon.',
        'modules': ['SMV.Props.C01', 'SMV.Props.Refine', 'SMV.Props.EndToEnd'],
        'regions': ['FE', 'IH', 'SIG', 'CN', 'CT', 'EV', 'AS', 'DN', 'HD', 'CS'],
        't3': ['walk', 'assign', 'abandon', 'susp'],
        'design_ref': 'DESIGN.md §7 C01',
    },
    'C08': {
        'title': 'State data exists exactly while its state is current and starts fresh on entry',
        'level_text': "Proof (C08.new_establishes, fresh_on_entry, ok_preserves, err_preserves, mutation_preserves, accessor_total, absent_elsewhere; C08Hist.step_preserves_inv, inv_along_history, read_iff_in_state: the invariant is preserved by every operation of the public API and therefore holds at every point of every history): the invariant 'slot of X present iff machine in X' is established by new (initial state's data = Default), re-established by every Ok of every generated method under arbitrary hooks (including in-place mutation by callbacks), kept by refusals and mutations; on every entry (self-transitions included) the target slot is Default and all others empty; hence the infallible accessor never panics. RefineData.cell_refines/new_related: along every history of handle, reader, mutable accessor and setter the data of X is an abstract cell - absent outside X, Default on entry, latest stored value while in X. RefineDataW.cell_refines_w: the same with before/after callbacks that write state data through &mut self - a before callback's write goes to the consumed machine and is never seen, the after callbacks of the entering transition overwrite Default in declaration order.",
        'level_note': 'Side condition: storage field names pairwise distinct (N2; otherwise E0124). Data on superstates is modelled and token-checked; the invariant covers it too (never present). Ties: T2 regions CT CN SA XA, T3 walk/data families reading every slot after every step. History: the unchanged snapshot violated this at construction (F1), fixed by /repo commit e370adb.',
        'modules': ['SMV.Props.C08', 'SMV.Props.C08Hist', 'SMV.Props.RefineData', 'SMV.Props.RefineDataW'],
        'regions': ['CT', 'CN', 'SA', 'XA'],
        't3': ['walk', 'assign', 'abandon', 'susp'],
        'design_ref': 'DESIGN.md §7 C08',
    },
    'C09': {
        'title': 'Typestate and dynamic modes are observationally equivalent',
        'level_text': "Proof (C09.handle_is_typed, typed_method_iff, error_correspondence): for every state, declared event, payload, history and hook environment, handle runs exactly the typed method that exists for that event on the current state (same hook trace, same resulting machine, guard-failed/action-failed errors mapped with the same names, panics propagating) and an event has no typed method on the current state exactly when the wrapper refuses it as an invalid transition. RefineReply.step_reply / replies_refine: along every history under scripted hooks, each reply of handle is exactly the abstract machine's reply - Ok, InvalidTransition{from: current leaf, event} when no edge, the first vetoing around callback's error, else GuardFailed naming the first guard answering false / unless-condition answering true and the declared event. RefineErase.conversion_erasure: for ARBITRARY hooks (history-dependent answers, writes, vetoes, panics) a history that dispatches events through whichever API the caller holds, converting between the modes at will, ends with the same machine carried (state, context, every data slot) after the same hook trace as the same events dispatched through handle on the machine wrapped once, and is ended by a hook panic exactly when that one is.",
        'level_note': 'Same side conditions as C01. Ties: T2 region HD, T3 (same operations through handle and through into_<s>/typed call/into_dynamic).',
        'modules': ['SMV.Props.C09', 'SMV.Props.RefineReply', 'SMV.Props.RefineTyped', 'SMV.Props.RefineMixed', 'SMV.Props.RefineErase', 'SMV.Props.EndToEndModes'],
        'regions': ['HD', 'EV', 'SIG'],
        't3': ['walk', 'assign'],
        't5': True,
        'design_ref': 'DESIGN.md §7 C09',
    },
    'C10': {
        'title': 'Mode conversions are exact and lossless',
        'level_text': "Proof (C10.into_dynamic_state, extract_iff, extract_method, roundtrip, default_is_new, conversions_silent, conversion_step, conversion_chain): into_dynamic wraps the machine unchanged under its own state's variant; into_<s> succeeds iff the wrapper is in s and otherwise (poisoned included) hands the wrapper back unchanged; both round trips are the identity; conversions run no hook and drop nothing; Default is new(Default::default()). RefineMixed.mixed_refines_spec: along every history in which the caller dispatches events through whichever mode it holds (handle, or the typed method when it exists) and converts between the modes at will, the state follows the abstract machine over the dispatched events, each dispatch is accepted exactly when the abstract machine accepts it, and every conversion succeeds and changes nothing. RefineErase.gStep_convert / conversion_erasure: along histories with arbitrary hooks every conversion succeeds, runs no hook and carries the very same typed machine (state, context value, every data slot) over; erasing all conversions from a history changes neither the machine carried at the end nor the hook trace.",
        'level_note': 'Ties: T2 regions ID EX DF DN, T3 walk (into/todyn interleaved with transitions, concrete context + data).',
        'modules': ['SMV.Props.C10', 'SMV.Props.RefineMixed', 'SMV.Props.RefineErase', 'SMV.Props.EndToEndModes'],
        'regions': ['ID', 'EX', 'DF', 'DN'],
        't3': ['walk', 'abandon'],
        'design_ref': 'DESIGN.md §7 C10',
    },
    'C11': {
        'title': 'Dynamic data accessors and setters are gated by the current state',
        'level_text': "Proof (C11.leaf_acc, read_gated, set_gated, read_after_set, read_after_write, set_other_slots, agrees_with_typed): for the data of a leaf state X the generated reader returns a value iff the wrapper is in X, the setter stores iff in X and otherwise changes nothing and returns WrongState{expected X, actual current state (or <extracted>), operation set_x_data}; what is set or written is what is read; the reader agrees with the typed accessor after conversion. RefineData.cell_refines lifts this to every history: each read returns the latest value stored since X was last entered (Default if none), nothing in any other state.",
        'level_note': 'With C08 (slot present iff in X) the reader returns Some iff in X. Ties: T2 regions DA AS, T3 walk/abandon.',
        'modules': ['SMV.Props.C11', 'SMV.Props.RefineData', 'SMV.Props.RefineDataW'],
        'regions': ['DA', 'AS'],
        't3': ['walk', 'abandon'],
        'design_ref': 'DESIGN.md §7 C11',
    },
    'C12': {
        'title': 'Errors and event names report exactly what was declared',
        'level_text': "Proof (C12.method_name_declared, event_name_declared, state_name_declared, error_names_event, invalid_names_state, from_guard_error_preserves, constructors_build_what_they_say; with C03.first_block and C06.before_abort for the blocking hook's name): generated method names and Event::name() are the declared snake_case names, every error carries the declared event, every InvalidTransition returned by handle names the state the machine was in, the core conversion and constructors and the abort macros keep kind and names. RefineReply.step_reply / replies_refine: along every history under scripted hooks, each reply of handle is exactly the abstract machine's reply - Ok, InvalidTransition{from: current leaf, event} when no edge, the first vetoing around callback's error, else GuardFailed naming the first guard answering false / unless-condition answering true and the declared event.",
        'level_note': 'Ties: T2 regions FE GC AB AA EV HD, T3, T5 (real core functions and abort macros on the whole finite error algebra). History: the unchanged snapshot returned from: "" for an around abort of kind InvalidTransition (F2), fixed by /repo commit caca8a2.',
        'modules': ['SMV.Props.C12', 'SMV.Props.RefineReply'],
        'regions': ['FE', 'GC', 'AB', 'AA', 'EV', 'HD'],
        't3': ['walk', 'assign'],
        't5': True,
        'design_ref': 'DESIGN.md §7 C12',
    },
    'C15': {
        'title': 'Async machines behave exactly like their sync counterparts',
        'level_text': "Proof (C15.runAsync_eq_run, methodProg_async_erase, async_method_eq_sync, async_handle_eq_sync): under every suspension schedule the async expansion of every edge and of handle yields exactly the result, state, data and hook trace of the sync expansion of the same definition; the async branches of the generator add .await to every hook call and nothing else. PARTIAL: the Send clause is not a Lean theorem; it is established by rustc on the probe crates (T4 assert_send). RefineAsyncVeto.async_refines_spec_veto / async_replies_refine and RefineAsyncData.async_cell_refines: with vetoes, with exact replies and with the data cell, the asynchronous machine under any schedule per dispatch refines the same abstract machines as its synchronous expansion. RefineTypedAsync.typed_async_refines_spec: likewise the typestate API of an async machine, every call awaited to completion under any schedule. RefineEraseAsync.async_conversion_erasure: for arbitrary hooks and any suspension schedule per dispatch, an async machine driven through either API with conversions interleaved ends with the same machine carried (state, context, data) after the same hook trace as the synchronous expansion's wrapper over the same events, or both are ended by a hook panic. C15Valid.validate_syncTwin: validation never reads async, so the synchronous twin of a validated machine validates and the hypothesis hv' of all async theorems is always met. EndToEndModes.end_to_end_modes: from the definition as written (parser's and validator's rules) to the machine new creates behaving, through either API with conversions under arbitrary hooks and schedules, as the synchronous expansion's wrapper.",
        'level_note': 'That `.await` runs a hook future to completion before the next statement is the trusted reading of the fragment, validated by T3 susp (random suspension counts per hook, hand-written single-step executor). Ties: T2 regions SIG AB GC BC AC AA HD.',
        'modules': ['SMV.Props.C15', 'SMV.Props.RefineAsync', 'SMV.Props.RefineAsyncVeto', 'SMV.Props.RefineAsyncData', 'SMV.Props.RefineTypedAsync', 'SMV.Props.RefineEraseAsync', 'SMV.Props.C15Valid', 'SMV.Props.EndToEndModes'],
        'regions': ['SIG', 'AB', 'GC', 'BC', 'AC', 'AA', 'HD'],
        't3': ['susp', 'abandon'],
        't4': ['send'],
        'design_ref': 'DESIGN.md §7 C15',
    },
    'C16': {
        'title': 'Context and payload are moved, never duplicated or lost',
        'level_text': "Proof (C16.hooks_see_own_context, context_moved, handle_keeps_context, payload_once, context_dropped_with_machine, conversions_keep_context, step_ctx_accounting, context_dropped_exactly_once, dropped_once_at_the_end), for any emitted method and wrapper code: every hook sees the receiver's context and every guard is handed exactly it, Ok moves it into the new machine and Err hands the receiver back, a returning handle keeps it, conversions keep it; the drop log of every call contains the payload exactly once on every path and the context exactly when the machine is destroyed (panic/abandon) and never otherwise. RefineErase.conversion_erasure: the context value carried at the end of any history mixing both modes and conversions is the one the pure-handle history carries (arbitrary hooks).",
        'level_note': 'The drop log is part of the L3 reading (SMV/Ops.lean), validated by T3 drop counters. Ties: T2 regions CT CN GC SIG HD ID EX DN.',
        'modules': ['SMV.Props.C16', 'SMV.Props.RefineErase'],
        'regions': ['CT', 'CN', 'GC', 'SIG', 'HD', 'ID', 'EX', 'DN'],
        't3': ['walk', 'assign', 'abandon', 'susp'],
        'design_ref': 'DESIGN.md §7 C16',
    },
    'C19': {
        'title': 'Abandoned dispatch is fail-stop; completed dispatch never poisons',
        'level_text': "Proof (C19.returning_handle_usable, panic_poisons, abandon_poisons, poisoned_ops, never_polled_intact, abandoned_drops): every handle that returns leaves the wrapper in a declared state; a handle that panics or is abandoned at any hook index leaves inner = None, after which current_state and handle panic without running hooks, readers return None, setters return WrongState{actual <extracted>}, into_<s> returns Err(self) and no typed machine; an unpolled future leaves the wrapper intact; context and payload are dropped exactly once. C19Hist.fail_stop_history / poisoned_forever: along every history of dispatches under ARBITRARY hooks (panicking, refusing, vetoing, writing), either every dispatch returns and the wrapper still holds a machine in a declared leaf, or exactly one dispatch panics, all before it returned, and every later dispatch panics with the invalid-state message without running a hook - the wrapper is poisoned for good.",
        'level_note': 'Abandonment point n = the future dropped while hook n is pending / hook n panicking: validated by T3 abandon (panic at each hook index under catch_unwind; async future dropped at each suspension point; then every public operation). Ties: T2 regions HD CS DA EX AB GC BC AC AA.',
        'modules': ['SMV.Props.C19', 'SMV.Props.C19Hist'],
        'regions': ['HD', 'CS', 'DA', 'EX', 'AB', 'GC', 'BC', 'AC', 'AA'],
        't3': ['abandon', 'walk'],
        'design_ref': 'DESIGN.md §7 C19',
    },
    'C03': {
        'level_text': 'Proof, for every machine, edge, async/payload/context combination, hook lists of any length, receiver, payload, history and hook environment: the generated method returns Ok iff every guard answers true and every unless answers false (fires_iff); on the first blocking condition it returns the receiver unchanged with an error naming that condition and the event, having consulted exactly the conditions up to it in order (first_block, first_block_general with history-dependent hooks). Unbounded; tests only sample assignments. RefineReply.step_reply / replies_refine: along every history under scripted hooks, each reply of handle is exactly the abstract machine\'s reply - Ok, InvalidTransition{from: current leaf, event} when no edge, the first vetoing around callback\'s error, else GuardFailed naming the first guard answering false / unless-condition answering true and the declared event.',
        'level_note': 'Theorems are about genMethod (the model of generate_transition_method) and methodProg (the trusted reading of the emitted body). Tie: T2 token-exact in regions FE SIG GC.',
        'title': 'A transition fires iff all guards hold and no unless-condition holds',
        'modules': ['SMV.Props.C03', 'SMV.Props.RefineReply'],
        'regions': ['FE', 'SIG', 'GC'],
        't3': ['assign', 'walk', 'susp'],
        'design_ref': 'DESIGN.md §7 C03',
    },
    'C04': {
        'level_text': "Proof (success_trace): whenever the generated method returns Ok, for any hook environment, the hooks invoked are exactly around-Before, guards, unless, before (source-typed machine), after (target-typed machine), around-AfterSuccess, each declared hook once in declaration order, each handed the machine's own context and the caller's payload; result typed in the target with the same context. RefineTrace.step_trace restates it against the abstract machine at the level of handle: nothing is called without an edge, the documented list when it fires, the around Before stages and the conditions up to the first blocker when refused. RefineTraceHist.calls_refine lifts it to histories: the hooks a whole history of dispatches calls, by kind and name and in order, are the concatenation of the abstract machine's per-dispatch lists.",
        'level_note': "Order of event-level before transition-level hooks is the order of the edge's merged lists (edgesOfSource, tied by T1). Tie: T2 regions FE AB GC BC CN AC AA.",
        'title': 'Success path runs every hook exactly once in the documented order',
        'modules': ['SMV.Props.C04', 'SMV.Props.RefineTrace', 'SMV.Props.RefineTraceHist'],
        'regions': ['FE', 'AB', 'GC', 'BC', 'CN', 'AC', 'AA'],
        't3': ['assign', 'walk'],
        'design_ref': 'DESIGN.md §7 C04',
    },
    'C05': {
        'level_text': 'Proof (refusal_identity, retry_succeeds): whenever the generated method returns Err, the machine handed back equals the receiver (state, context, every slot) and only around-Before stages and conditions ran; a later call under favourable conditions succeeds. Dynamic-mode half proved in SMV/Props/C05 once the wrapper theorems land.',
        'level_note': 'Around callbacks are modelled as taking &self (a write they perform is outside the model). Tie: T2 regions AB GC HD.',
        'title': 'A refused transition has no effect and returns the machine intact',
        'modules': ['SMV.Props.C05', 'SMV.Props.C05Dyn', 'SMV.Props.RefineSkip', 'SMV.Props.RefineSkipVeto'],
        'regions': ['AB', 'GC', 'HD'],
        't3': ['assign', 'walk'],
        'design_ref': 'DESIGN.md §7 C05',
    },
    'C06': {
        'level_text': "Proof (before_abort, after_success_on_ok, no_after_success_on_err, ok_implies_after_all_proceed, after_abort_panics): a Before-stage abort at any position returns the receiver unchanged with the abort's kind, the carried name (callback name for invalid-transition) and the event; AfterSuccess stages run exactly once each, last, only on success; an AfterSuccess abort always panics with the generated message and never yields Ok/Err. RefineVeto.refines_spec_veto: along every history the wrapper is the abstract machine in which an event fires iff there is an edge, no around callback of the edge vetoes (with any error kind), guards true, unless false.",
        'level_note': 'Tie: T2 regions AB AA (panic literal included) and HD (the wrapper hands the veto on: RefineVeto / RefineReply are about handle).',
        'title': 'Around callbacks can veto before the transition and are never swallowed after',
        'modules': ['SMV.Props.C06', 'SMV.Props.RefineVeto', 'SMV.Props.RefineSkipVeto'],
        't5': True,
        'regions': ['AB', 'AA', 'HD'],
        't3': ['assign'],
        'design_ref': 'DESIGN.md §7 C06',
    },
}

# the hypotheses of the property theorems are shown satisfiable on one concrete, non-trivial definition
WITNESS = 'SMV.Props.Witness'
for _p in PROPS.values():
    _p['modules'].append(WITNESS)

ALLOWED_AXIOMS = {'propext', 'Quot.sound', 'Classical.choice'}

TRUSTED_BASE = [
    'Lean 4.33 kernel; axioms at most propext, Quot.sound, Classical.choice (audited per theorem on every run)',
    'L3 reading of each generated fragment as Rust semantics (SMV/Exec.lean): modelled, validated by T3, not proved',
    'smx harness (real macro sources compiled unchanged via #[path]), token comparator and its canonicalisation '
    '(doc attributes stripped, superstate-marker order, string literals by value, punctuation spacing ignored)',
    'Python generator of definitions (gen/defs.py): both serialisations of a definition tree',
    'ASCII non-raw identifiers; user types opaque; hooks use the public API only and are deterministic in the history',
]


# ---------------------------------------------------------------------------------------
# Which parts of the ties a property's theorems consume (DESIGN §6).

EVERYTHING_FE = {'name', 'initial', 'context', 'async', 'states', 'PARSE', 'VALIDATE', 'EXPAND', 'PANIC', 'DEADPATH', '<missing>', '<end>'}

FE_PARTS = {
    # front-end dump line kinds / edge fields -> properties whose theorems read them
    'storage': {'C08', 'C10', 'C11', 'C14', 'C17', 'C18', 'C02'},
    'lookup': {'C07', 'C13', 'C14', 'C18'},
    'ancestors': {'C07', 'C13', 'C14', 'C18'},
    'initial_child': {'C07', 'C13', 'C14', 'C18'},
    'superstate': {'C07', 'C13'},
    'event': {'C13', 'C14', 'C12'},
    'transition': {'C13', 'C14', 'C07'},
    'edge.set': {'C01', 'C02', 'C07', 'C09', 'C13', 'C14'},
    'edge.src': {'C01', 'C02', 'C07', 'C09', 'C13'},
    'edge.tgt': {'C01', 'C02', 'C07', 'C09', 'C13'},
    'edge.ev': {'C01', 'C02', 'C09', 'C12', 'C13'},
    'edge.g': {'C03', 'C04', 'C05', 'C12'},
    'edge.u': {'C03', 'C04', 'C05', 'C12'},
    'edge.b': {'C04'},
    'edge.a': {'C04'},
    'edge.ar': {'C04', 'C06', 'C12'},
    'edge.p': {'C04', 'C14', 'C16', 'C02'},
}

def fe_relevant(pid, diff):
    """does a front-end (T1) mismatch touch what property pid's theorems consume?"""
    v, mv = diff.get('verdict'), diff.get('model_verdict')
    if v != mv:
        # a disagreement on the verdict: a definition the rules refuse is expanded (C13), or a definition
        # the rules admit is refused (C14); no machine exists on one side, so nothing else is touched
        if mv == 'ok':
            return pid == 'C14'
        return pid == 'C13'
    if pid in ('C18', 'C14'):
        return True     # these consume the whole front end
    parts = diff.get('fe_parts') or ['<missing>']
    if diff.get('stream') == 'mut' and set(parts) <= {'PARSE', 'VALIDATE', 'EXPAND'}:
        return pid == 'C13'

    for part in parts:
        if part in EVERYTHING_FE or part not in FE_PARTS:
            return True
        if pid in FE_PARTS[part]:
            return True
    return False

OP_PROPS = {
    'handle': {'C01', 'C03', 'C04', 'C05', 'C06', 'C08', 'C09', 'C12', 'C15', 'C16', 'C19'},
    'habandon': {'C15', 'C16', 'C19'},
    'hnopoll': {'C15', 'C16', 'C19'},
    'tcall': {'C03', 'C04', 'C05', 'C06', 'C08', 'C09', 'C12', 'C15', 'C16'},
    'tabandon': {'C15', 'C16'},
    'tnopoll': {'C15', 'C16'},
    'newdyn': {'C01', 'C08', 'C10', 'C16'}, 'newtyped': {'C08', 'C16', 'C02'}, 'default': {'C10', 'C01', 'C08'},
    'state': {'C01', 'C19', 'C12'},
    'read': {'C11', 'C19', 'C08'}, 'write': {'C11', 'C19', 'C08'}, 'set': {'C11', 'C19', 'C08', 'C12'},
    'into': {'C10', 'C16', 'C19'}, 'todyn': {'C10', 'C16'},
    'tdata': {'C08', 'C02'}, 'tdatamut': {'C08'}, 'topt': {'C08'}, 'toptmut': {'C08'},
    'drop': {'C16'},
}

COMPONENT_PROPS = {
    # which component of a call's observation differs -> properties reading it
    'res': {'C01', 'C03', 'C04', 'C05', 'C06', 'C09', 'C12', 'C15', 'C19'},
    'trace.ab': {'C04', 'C06', 'C09', 'C15', 'C16'},
    'trace.aa': {'C04', 'C06', 'C09', 'C15', 'C16'},
    'trace.cond': {'C03', 'C04', 'C05', 'C09', 'C15', 'C16'},
    'trace.before': {'C04', 'C05', 'C08', 'C09', 'C15', 'C16'},
    'trace.after': {'C04', 'C05', 'C08', 'C09', 'C15', 'C16'},
    'drops': {'C16', 'C19'},
    'obs': {'C01', 'C05', 'C08', 'C10', 'C11', 'C19'},
}

def t3_relevant(pid, diff):
    """does an implementation-vs-model disagreement on one operation line touch what pid consumes?"""
    op = (diff['ops'][-1].split() or ['?'])[0]
    if pid not in OP_PROPS.get(op, set()):
        return False
    if op not in ('handle', 'tcall', 'habandon', 'tabandon'):
        return True
    a = diff['impl'].split(' | ')
    b = diff['model'].split(' | ')
    if len(a) != 4 or len(b) != 4:
        return True
    comps = set()
    if a[0] != b[0]:
        comps.add('res')
    if a[1] != b[1]:
        ka = [c.split('/')[0] for c in a[1].split()]
        kb = [c.split('/')[0] for c in b[1].split()]
        ca, cb = a[1].split(), b[1].split()
        for i in range(max(len(ca), len(cb))):
            x = ca[i] if i < len(ca) else None
            y = cb[i] if i < len(cb) else None
            if x != y:
                for z in (x, y):
                    if z:
                        comps.add('trace.' + z.split('/')[0])
    if a[2] != b[2]:
        comps.add('drops')
    if a[3] != b[3]:
        comps.add('obs')
    return any(pid in COMPONENT_PROPS.get(c, set()) for c in comps)


# which rows of the core table (T5) a property reads
T5_ROW_PROPS = {
    'abort_guard_expr': {'C06', 'C12'}, 'abort_guard_ident': {'C06', 'C12'}, 'abort_with': {'C06', 'C12'},
    'with_kind': {'C06', 'C12'}, 'from_guard_error': {'C09', 'C12'},
    'new': {'C12'}, 'te_guard_failed': {'C12', 'C06'}, 'te_invalid': {'C12', 'C06'},
    'dyn_invalid': {'C12'}, 'dyn_guard': {'C12'}, 'dyn_action': {'C12'}, 'dyn_wrong': {'C12'},
}

def t5_relevant(pid, row):
    f = (row or '').split(' ', 1)[0]
    return pid in T5_ROW_PROPS.get(f, {pid})
