"""T4: rustc probe crates, built from /repo's current tree with the real proc-macro.

Families
  pos        well-formed option-product corpus must compile: std binary crate, the same as a
             `#![no_std]` library without alloc, and with the crate feature `dynamic`; size/trait
             const asserts for markers and data-less machines (C14, C17); `assert_send` on every async
             future (C15)
  method     the full (leaf x event) matrix, `new` on every state, every infallible accessor on every
             state: compiles iff the model says the method exists (else E0599); Ok/Err type ascriptions
             for every edge (C02)
  substate   every (leaf, superstate) pair: `Leaf: SubstateOf<P>` iff P contains the leaf (else E0277) (C07)
  illformed  one rule-violating edit per rule: must not compile (C13)
Expected answers come from the Lean model's INFO block (edges, ancestors, storage); rustc's verdicts are
read from `cargo check --message-format=json`, keyed by line.
"""
import json
import os
import zlib
import random
import shutil
import subprocess
import sys
from concurrent.futures import ThreadPoolExecutor

HERE = os.path.dirname(os.path.abspath(__file__))
VERIF = os.path.dirname(HERE)
sys.path.insert(0, os.path.join(VERIF, 'gen'))
import defs as D      # noqa: E402
import t3gen as T     # noqa: E402

TIERS = {
    'quick': {'pos': 40, 'probe': 10, 'illformed_from': 6},
    'thorough': {'pos': 480, 'probe': 120, 'illformed_from': 40},
}

PRELUDE_STD = '''#![allow(dead_code, unused_variables, unused_mut, non_snake_case, non_camel_case_types, unused_imports, private_interfaces)]
#[derive(Debug, Default)] pub struct Ctx { pub id: u32 }
#[derive(Debug)] pub struct Pay { pub id: u32 }
#[derive(Debug, Clone)] pub struct PayC { pub id: u32 }
#[derive(Debug, Default, Clone, PartialEq)] pub struct D(pub u32);
pub fn assert_send<T: Send>(_: T) {}
pub fn is_machine_state<T: state_machines::MachineState>() {}
pub fn sub<L: state_machines::SubstateOf<P>, P>() {}
'''

def hooks_impl(d, info):
    """trivial bodies with the signatures the generated code calls"""
    M = info['name']
    conc = info['concrete']
    asy = info['async']
    first = info['states'][0]['name']
    hdr = f'impl<S> {M}<S>' if conc else f'impl<C, S> {M}<C, S>'
    ctxty = 'Ctx' if conc else 'C'
    afn = 'async fn' if asy else 'fn'
    L = [f'{hdr} {{']
    for name, (kind, payload) in sorted(T.hooks_used(d).items()):
        parg = f', _p: &{T.payload_type(d)}' if payload else ''
        if kind in ('guards', 'unless'):
            L.append(f'  {afn} {name}(&self, _ctx: &{ctxty}{parg}) -> bool {{ true }}')
        elif kind in ('before', 'after'):
            L.append(f'  {afn} {name}(&mut self{parg}) {{ }}')
        else:
            L.append(f'  {afn} {name}(&self, _stage: state_machines::core::AroundStage) -> state_machines::core::AroundOutcome<{first}> {{ state_machines::core::AroundOutcome::Proceed }}')
    L.append('}')
    return '\n'.join(L)

def pos_module(idx, d, text, info, nostd):
    M = info['name']
    conc = info['concrete']
    asy = info['async']
    MT = (lambda s: f'{M}<{s}>') if conc else (lambda s: f'{M}<Ctx, {s}>')
    L = [f'pub mod m{idx} {{', 'pub mod def {', 'use super::super::*;', 'use state_machines::state_machine;', 'state_machine! {', text, '}',
         hooks_impl(d, info), '}', 'use super::*;', 'use def::*;']
    states = [s['name'] for s in info['states']]
    for s in states + info['superstates']:
        L.append(f'const _: () = assert!(core::mem::size_of::<{s}>() == 0);')
        L.append(f'fn ms_{s}() {{ is_machine_state::<{s}>(); let _e: state_machines::core::TransitionError<{s}> = state_machines::core::TransitionError::invalid_transition({s}, "e"); }}')
    if not info['storage']:
        for s in states[:2]:
            L.append(f'const _: () = assert!(core::mem::size_of::<{MT(s)}>() == core::mem::size_of::<Ctx>());')
    if info['dynamic']:
        # the dynamic API exists whenever it is requested (by `dynamic: true` or by the crate feature)
        DT0 = info['dynname'] if conc else f"{info['dynname']}<Ctx>"
        L.append(f'fn dyn_exists(d: &{DT0}) -> &\'static str {{ d.current_state() }}')
    if asy:
        evp = {e['name']: e for e in info['events']}
        for k, e in enumerate(info['edges']):
            ev = evp[e['event']]
            arg = (T.payload_type(d) + ' { id: 0 }') if ev['payload'] else ''
            L.append(f'fn send_{k}(m: {MT(e["src"])}) {{ assert_send(m.{ev["method"]}({arg})); }}')
        if info['dynamic'] and info['events']:
            DT = info['dynname'] if conc else f"{info['dynname']}<Ctx>"
            ev = info['events'][0]
            arg = ('(' + T.payload_type(d) + ' { id: 0 })') if ev['payload'] else ''
            L.append(f'fn send_h(d: &mut {DT}) {{ assert_send(d.handle({info["eventenum"]}::{ev["pascal"]}{arg})); }}')
    L.append('}')
    return '\n'.join(L)

def probe_module(idx, d, text, info):
    """returns (code lines, probes) where probes: list of (line offset in module, kind, expect_ok, code, what)"""
    M = info['name']
    conc = info['concrete']
    asy = info['async']
    MT = (lambda s: f'{M}<{s}>') if conc else (lambda s: f'{M}<Ctx, {s}>')
    # the definition (with the user's hooks) lives in its own module; everything is used from a sibling, as a
    # caller in another module would: what the macro generates must be `pub`
    L = [f'pub mod p{idx} {{', 'pub mod def {', 'use super::super::*;', 'use state_machines::state_machine;', 'state_machine! {']
    L += text.split('\n')
    L += ['}']
    L += hooks_impl(d, info).split('\n')
    L += ['}', 'use super::*;', 'use def::*;']
    probes = []
    states = [s['name'] for s in info['states']]
    evp = {e['name']: e for e in info['events']}
    edges = {(e['src'], e['event']): e for e in info['edges']}
    n = 0
    for s in states:
        for ev in info['events']:
            arg = (T.payload_type(d) + ' { id: 0 }') if ev['payload'] else ''
            ok = (s, ev['name']) in edges
            L.append(f'fn pm{n}(m: {MT(s)}) {{ let _ = m.{ev["method"]}({arg}); }}')
            probes.append((len(L) - 1, 'method', ok, 'E0599', f'{ev["method"]} on {M}<{s}>'))
            n += 1
            if ok:
                e = edges[(s, ev['name'])]
                aw = '.await' if asy else ''
                fn = 'async fn' if asy else 'fn'
                L.append(f'{fn} pt{n}(m: {MT(s)}) {{ let _r: ::core::result::Result<{MT(e["target"])}, ({MT(s)}, state_machines::core::GuardError)> = m.{ev["method"]}({arg}){aw}; }}')
                probes.append((len(L) - 1, 'types', True, 'E0308', f'{ev["method"]} on {M}<{s}> : Result<{M}<{e["target"]}>, ({M}<{s}>, GuardError)>'))
                n += 1
                wrong = [t for t in states if t != e['target']]
                if wrong:
                    L.append(f'{fn} pw{n}(m: {MT(s)}) {{ let _r: ::core::result::Result<{MT(wrong[0])}, ({MT(s)}, state_machines::core::GuardError)> = m.{ev["method"]}({arg}){aw}; }}')
                    probes.append((len(L) - 1, 'types', False, 'E0308', f'{ev["method"]} on {M}<{s}> must not be typed in {wrong[0]}'))
                    n += 1
        newcall = f'{M}::<{s}>::new(Ctx::default())' if conc else f'{M}::<Ctx, {s}>::new(Ctx::default())'
        L.append(f'fn pn{n}() {{ let _ = {newcall}; }}')
        probes.append((len(L) - 1, 'new', s == info['initial'], 'E0599', f'new on {M}<{s}>'))
        n += 1
        for st in info['storage']:
            if st['leaf']:
                L.append(f'fn pa{n}(m: &{MT(s)}) {{ let _ = m.{st["snake"]}_data(); }}')
                probes.append((len(L) - 1, 'accessor', s == st['state'], 'E0599', f'{st["snake"]}_data on {M}<{s}>'))
                n += 1
    anc = {}
    for (leaf, a) in info['substates']:
        anc.setdefault(leaf, set()).add(a)
    for s in states:
        for p in info['superstates']:
            L.append(f'fn ps{n}() {{ sub::<{s}, {p}>(); }}')
            probes.append((len(L) - 1, 'substate', p in anc.get(s, set()), 'E0277', f'{s}: SubstateOf<{p}>'))
            n += 1
    L.append('}')
    return L, probes

def write_crate(cdir, src, repo, feature, lib=False):
    os.makedirs(os.path.join(cdir, 'src'), exist_ok=True)
    os.makedirs(os.path.join(cdir, '.cargo'), exist_ok=True)
    feat = ', features = ["dynamic"]' if feature else ''
    open(os.path.join(cdir, 'Cargo.toml'), 'w').write(f'''[package]
name = "t4crate"
version = "0.1.0"
edition = "2024"

[workspace]

[dependencies]
state-machines = {{ path = "{repo}/state-machines"{feat} }}
''')
    open(os.path.join(cdir, '.cargo', 'config.toml'), 'w').write('[net]\noffline = true\n')
    shutil.copy(os.path.join(repo, 'Cargo.lock'), os.path.join(cdir, 'Cargo.lock'))
    open(os.path.join(cdir, 'src', 'lib.rs' if lib else 'main.rs'), 'w').write(src)

def cargo_check(cdir, target_dir):
    env = dict(os.environ, CARGO_NET_OFFLINE='true')
    r = subprocess.run(['cargo', 'check', '--offline', '--message-format=json', '--target-dir', target_dir],
                       cwd=cdir, env=env, capture_output=True, text=True)
    errs = []
    for line in r.stdout.split('\n'):
        if not line.startswith('{'):
            continue
        try:
            j = json.loads(line)
        except Exception:
            continue
        if j.get('reason') != 'compiler-message':
            continue
        m = j['message']
        if m.get('level') != 'error':
            continue
        code = (m.get('code') or {}).get('code')
        lines = set()
        def walk(sp):
            if sp.get('file_name', '').endswith(('main.rs', 'lib.rs')):
                lines.add(sp['line_start'])
            if sp.get('expansion'):
                walk(sp['expansion']['span'])
        prim = [sp for sp in m.get('spans', []) if sp.get('is_primary')] or m.get('spans', [])
        for sp in prim:
            walk(sp)
        errs.append({'code': code, 'lines': sorted(lines), 'msg': m.get('message', '')[:200]})
    return r.returncode == 0, errs, r.stderr[-1500:]

def gen_pos_defs(rng, n, dynamic_kw, full=False):
    out = []
    if full:
        # the four generated shapes x context mode, each with every hook kind at both levels (deterministic)
        for asy in (False, True):
            for pay in (False, True):
                for conc in (False, True):
                    out.append(T.full_def(asy, pay, conc, dynamic=dynamic_kw.get('dynamic', True)))
        n += len(out)
    k = 0
    while len(out) < n:
        combo = k
        k += 1
        r = combo % 4
        asy = bool(combo & 1)
        conc = bool(combo & 2)
        if r == 0:
            d = T.t3_def(rng, T.T3Shape(max_depth=3, max_leaves=6), force={'async': asy, 'concrete': conc, **dynamic_kw})
        elif r == 1:
            d = T.hier_def(rng, asy, conc, dynamic=dynamic_kw.get('dynamic', True))
        elif r == 2:
            d = T.assign_def(rng, asy, bool(combo & 4), conc, dynamic=dynamic_kw.get('dynamic', True))
        else:
            d = T.t3_def(rng, T.T3Shape(p_data=0.8, p_super_data=0.3), force={'async': asy, 'concrete': conc, **dynamic_kw})
        out.append(d)
    return out

def check_ill_suspects(ill_suspects, root, repo):
    """ill-formed definitions (by construction of the mutation) which the real macro front end expanded:
    compile each with trivial hooks; the ones rustc accepts are concrete C13 failing inputs"""
    accepted = []
    tdir = os.path.join(root, 'target_illsus')
    for k, (rule, d, orig_id) in enumerate(ill_suspects):
        if rule.startswith('R11'):
            continue
        try:
            td = T.t3ify(d)
            leaves = D._leaf_names([it for it in td if it[0] == 'states'][0][1])
            info = {'name': [it for it in td if it[0] == 'name'][0][1],
                    'concrete': any(it[0] == 'context' for it in td),
                    'async': any(it[0] == 'async' and it[1] for it in td),
                    'states': [{'name': leaves[0] if leaves else 'X'}]}
            text = D.to_text(td, random.Random(zlib.crc32(orig_id.encode())))
        except Exception:
            continue
        src = PRELUDE_STD + f'pub mod i{k} {{\nuse super::*;\nuse state_machines::state_machine;\nstate_machine! {{\n{text}\n}}\n'
        src += hooks_impl(td, info) + '\n}\nfn main() {}\n'
        cdir = os.path.join(root, f'illsus{k}')
        write_crate(cdir, src, repo, False)
        ok, errs, stderr = cargo_check(cdir, tdir)
        if ok and not errs:
            accepted.append({'rule': rule, 'dsl': text, 'phase': 'expanded by the macro and accepted by rustc'})
    return accepted

def run(tier, seed, work, repo, ill_suspects=None):
    cfg = TIERS[tier]
    rng = random.Random(seed * 104729 + 7)
    root = os.path.join(work, 't4')
    shutil.rmtree(root, ignore_errors=True)
    os.makedirs(root, exist_ok=True)
    res = {'pos_machines': 0, 'pos_failures': [], 'probes': 0, 'probe_failures': [], 'probe_kinds': {},
           'illformed': 0, 'illformed_accepted': [], 'crate_errors': [], 'send_probes': 0}
    # ---- pos: three configurations
    configs = [('std', False, False, {'dynamic': True}), ('nostd', False, True, {'dynamic': True}),
               ('feature', True, False, {'dynamic': False}), ('typestate', False, True, {'dynamic': False})]
    jobs = []
    for cname, feature, nostd, dkw in configs:
        ds = gen_pos_defs(rng, cfg['pos'] // len(configs) + 1, dkw, full=True)
        if feature:
            # with the crate feature on, an explicit `dynamic: false` (or `async: false`) changes nothing
            ds = [([it for it in d if it[0] != 'dynamic'] + [('dynamic', False)]) if i % 2 else d for i, d in enumerate(ds)]
            ds = [(d + [('async', False)]) if (i % 4 == 1 and not any(it[0] == 'async' for it in d)) else d for i, d in enumerate(ds)]
        items = [(f'{cname}{i}', feature, d) for i, d in enumerate(ds)]
        infos = T.get_infos(items)
        mods = []
        ranges = []
        src = ('#![no_std]\n' if nostd else '') + PRELUDE_STD
        line = src.count('\n') + 1
        for i, (iid, f, d) in enumerate(items):
            info = infos.get(iid, {})
            if 'err' in info or 'name' not in info:
                continue
            text = D.to_text(d)
            code = pos_module(i, d, text, info, nostd)
            n = code.count('\n') + 1
            ranges.append((line, line + n - 1, text, feature))
            res['send_probes'] += code.count('assert_send(')
            src += code + '\n'
            line += n
        if not nostd:
            src += 'fn main() {}\n'
        cdir = os.path.join(root, f'pos_{cname}')
        write_crate(cdir, src, repo, feature, lib=nostd)
        jobs.append(('pos', cname, cdir, ranges, None))
    # ---- pos, context types: a concrete context need not be a bare path
    CTX_TYPES = ['Vec<u32>', '(u8, bool)', '()', 'Option<Ctx>', '[u8; 4]', "&'static str", 'Box<Ctx>',
                 'core::primitive::u16', 'std::collections::BTreeMap<u8, Vec<Ctx>>']
    for feature in (False, True):
        src = PRELUDE_STD
        line = src.count('\n') + 1
        ranges = []
        for i, ty in enumerate(CTX_TYPES):
            for asy in (False, True):
                dyn = '' if feature else 'dynamic: true,\n'
                # the same type as the data of the initial state and of a later state
                text = (f'name: M,\ncontext: {ty},\n{dyn}' + ('async: true,\n' if asy else '') +
                        f'initial: A,\nstates: [A({ty}), B(D), Cc({ty})],\nevents: {{\n  go {{ guards: [ok], transition: {{ from: A, to: B }} }}\n'
                        f'  on {{ transition: {{ from: B, to: Cc }} }}\n}},')
                afn = 'async fn' if asy else 'fn'
                code = (f'pub mod k{i}{int(asy)} {{\nuse super::*;\nuse state_machines::state_machine;\nstate_machine! {{\n{text}\n}}\n'
                        f'impl<S> M<S> {{ {afn} ok(&self, _c: &{ty}) -> bool {{ true }} }}\n'
                        f'pub fn mk(c: {ty}) -> (M<A>, DynamicM, DynamicM) {{ (M::new(c), M::new(<{ty} as Default>::default()).into_dynamic(), DynamicM::default()) }}\n}}')
                n = code.count('\n') + 1
                ranges.append((line, line + n - 1, text, feature))
                src += code + '\n'
                line += n
        src += 'fn main() {}\n'
        cname = 'ctxtypes_feature' if feature else 'ctxtypes'
        cdir = os.path.join(root, f'pos_{cname}')
        write_crate(cdir, src, repo, feature, lib=False)
        jobs.append(('pos', cname, cdir, ranges, None))
    # ---- probes
    pds = gen_pos_defs(rng, cfg['probe'], {'dynamic': True})
    items = [(f'probe{i}', False, d) for i, d in enumerate(pds)]
    infos = T.get_infos(items)
    src = PRELUDE_STD
    line = src.count('\n') + 1
    allprobes = []
    for i, (iid, f, d) in enumerate(items):
        info = infos.get(iid, {})
        if 'err' in info or 'name' not in info:
            continue
        text = D.to_text(d)
        L, probes = probe_module(i, d, text, info)
        for (off, kind, ok, code, what) in probes:
            allprobes.append({'line': line + off, 'kind': kind, 'expect_ok': ok, 'code': code, 'what': what, 'dsl': text})
        src += '\n'.join(L) + '\n'
        line += len(L)
    src += 'fn main() {}\n'
    cdir = os.path.join(root, 'probes')
    write_crate(cdir, src, repo, False)
    jobs.append(('probe', 'probes', cdir, None, allprobes))
    # ---- ill-formed: macro-phase errors and rustc-phase errors in separate crates
    ill = []
    bases = gen_pos_defs(rng, cfg['illformed_from'], {'dynamic': True})
    for b in bases:
        for rule, md in D.mutations(b, rng):
            ill.append((rule, md))
    rng.shuffle(ill)
    seen_rules = {}
    keep = []
    for rule, md in ill:
        if seen_rules.get(rule, 0) < (2 if tier == 'quick' else 8):
            seen_rules[rule] = seen_rules.get(rule, 0) + 1
            keep.append((rule, md))
    # which of them the macro itself refuses (model verdict): these go to the macro-phase crate
    items = [(f'ill{i}', False, md) for i, (rule, md) in enumerate(keep)]
    infos = T.get_infos(items)
    for phase in ('macro', 'rustc'):
        src = PRELUDE_STD
        line = src.count('\n') + 1
        ranges = []
        for i, (rule, md) in enumerate(keep):
            info = infos.get(f'ill{i}', {})
            is_macro = ('err' in info) or ('name' not in info)
            if (phase == 'macro') != is_macro:
                continue
            text = D.to_text(md)
            body = f'pub mod i{i} {{\nuse super::*;\nuse state_machines::state_machine;\nstate_machine! {{\n{text}\n}}\n'
            if not is_macro:
                body += hooks_impl(md, info) + '\n'
            body += '}\n'
            n = body.count('\n')
            ranges.append((line, line + n - 1, text, rule))
            src += body
            line += n
        src += 'fn main() {}\n'
        cdir = os.path.join(root, f'ill_{phase}')
        write_crate(cdir, src, repo, False)
        jobs.append(('ill', phase, cdir, ranges, None))
    # ---- run cargo check on all crates in parallel
    def go(job):
        kind, name, cdir, ranges, probes = job
        ok, errs, stderr = cargo_check(cdir, os.path.join(root, 'target_' + name))
        return job, ok, errs, stderr
    with ThreadPoolExecutor(8) as ex:
        outs = list(ex.map(go, jobs))
    for (kind, name, cdir, ranges, probes), ok, errs, stderr in outs:
        if kind == 'pos':
            res['pos_machines'] += len(ranges)
            if not ok:
                hit = False
                for (a, b, text, feature) in ranges:
                    es = [e for e in errs if any(a <= l <= b for l in e['lines'])]
                    if es:
                        hit = True
                        res['pos_failures'].append({'config': name, 'dsl': text, 'feature': feature,
                                                    'errors': [f"{e['code']}: {e['msg']}" for e in es[:3]]})
                if not hit:
                    res['crate_errors'].append({'crate': name, 'stderr': stderr, 'errors': errs[:3]})
        elif kind == 'probe':
            res['probes'] += len(probes)
            by_line = {}
            for e in errs:
                for l in e['lines']:
                    by_line.setdefault(l, []).append(e)
            stray = [e for e in errs if not any(l in {p['line'] for p in probes} for l in e['lines'])]
            if stray:
                res['crate_errors'].append({'crate': name, 'errors': stray[:3], 'stderr': stderr[-500:]})
            for p in probes:
                res['probe_kinds'][p['kind']] = res['probe_kinds'].get(p['kind'], 0) + 1
                es = by_line.get(p['line'], [])
                if p['expect_ok'] and es:
                    res['probe_failures'].append({'kind': p['kind'], 'what': p['what'], 'expected': 'compiles',
                                                  'got': f"{es[0]['code']}: {es[0]['msg']}", 'dsl': p['dsl']})
                if not p['expect_ok'] and not any(e['code'] == p['code'] for e in es) and not stray:
                    res['probe_failures'].append({'kind': p['kind'], 'what': p['what'], 'expected': p['code'],
                                                  'got': 'compiles' if not es else f"{es[0]['code']}", 'dsl': p['dsl']})
        else:
            res['illformed'] += len(ranges)
            for (a, b, text, rule) in ranges:
                es = [e for e in errs if any(a <= l <= b for l in e['lines'])]
                if not es:
                    res['illformed_accepted'].append({'rule': rule, 'dsl': text, 'phase': name})
    if ill_suspects:
        res['ill_suspects'] = len(ill_suspects)
        res['illformed_accepted'] += check_ill_suspects(ill_suspects, root, repo)
    shutil.rmtree(root, ignore_errors=True)
    return res


# ---------------------------------------------------------------------------------------
# known findings (C14) and adversarial identifiers (C18)

def _simple_def(name='M', states=('A', 'B'), events=(('go', 'A', 'B'),), initial=None, dynamic=True, ctx=None, data=None):
    d = [('name', name)]
    if ctx:
        d.append(('context', ctx))
    if dynamic:
        d.append(('dynamic', True))
    d.append(('initial', initial or states[0]))
    d.append(('states', [('leaf', s, (['D'] if data and s in data else None)) for s in states]))
    d.append(('events', [(en, [('transition', [('from', [src], False), ('to', tgt)])]) for (en, src, tgt) in events], True))
    return d

KNOWN_PROBES = [
    # (finding id, description, definition, extra prelude) — each is a well-formed definition that does not compile today
    ('F5-pascal-collision', 'events `a1` and `a_1` both become variant `A1` under dynamic dispatch',
     _simple_def(events=(('a1', 'A', 'B'), ('a_1', 'B', 'A'))), ''),
    ('F5-field-collision', 'data states `HTTPServer` and `HttpServer` get the same storage field',
     _simple_def(states=('HTTPServer', 'HttpServer'), events=(('go', 'HTTPServer', 'HttpServer'),), data=('HTTPServer', 'HttpServer')), ''),
    ('F5-event-named-new', 'an event named `new` from the initial state clashes with the constructor',
     _simple_def(events=(('new', 'A', 'B'),), dynamic=False), ''),
    ('F7-concrete-ctx-without-default', 'concrete context without Default under dynamic dispatch: the generated `impl Default … where Ctx: Default` is rejected',
     _simple_def(ctx=['NoDef']), '#[derive(Debug)] pub struct NoDef;\n'),
    # the remaining families of derived-name coincidences (Lean: C14Names.accepted_iff and its corollaries)
    ('F5-extractor-collision', 'states `HTTPServer` and `HttpServer` (no data) both get the extractor `into_http_server` under dynamic dispatch',
     _simple_def(states=('HTTPServer', 'HttpServer'), events=(('go', 'HTTPServer', 'HttpServer'),)), ''),
    ('F5-extractor-meets-reader', 'state `Data` beside a data-carrying state `Into`: extractor and reader are both `into_data`',
     _simple_def(states=('Into', 'Data'), events=(('go', 'Into', 'Data'),), data=('Into',)), ''),
    ('F5-event-named-like-accessor', 'an event named `state_data_idle` beside a data-carrying state `Idle` clashes with the generated accessor',
     _simple_def(states=('Idle', 'B'), events=(('state_data_idle', 'B', 'Idle'),), data=('Idle',), dynamic=False), ''),
    ('F5-event-named-like-own-accessor', 'an event named `idle_data` leaving the data-carrying state `Idle` clashes with its accessor',
     _simple_def(states=('Idle', 'B'), events=(('idle_data', 'Idle', 'B'),), data=('Idle',), dynamic=False), ''),
    ('F5-event-named-into-dynamic', 'an event named `into_dynamic` under dynamic dispatch clashes with the conversion',
     _simple_def(events=(('into_dynamic', 'A', 'B'),)), ''),
    ('F5-state-named-like-generated-type', 'a state named `MEvent` in a machine `M` under dynamic dispatch clashes with the generated event enum',
     _simple_def(states=('A', 'MEvent'), events=(('go', 'A', 'MEvent'),)), ''),
]

ADVERSARIAL = ['C', 'S', 'T', 'Ok', 'Err', 'Some', 'None', 'Result', 'Option', 'Default', 'Debug', 'Self_', 'Box', 'Send',
               'PhantomData', 'Sync', 'Copy', 'M', 'Any', 'All', 'Initial', 'State', 'Event', 'Setup/SetUp']

def rename_twin_probe(adv, concrete, dynamic):
    """a definition whose first leaf is called `adv`, and its twin with a neutral name; the probes of both
    (method matrix, new, accessors) must agree modulo the renaming whenever both compile. A pair `a/b` names the
    first and the third leaf (identifiers that differ only in case, with distinct snake_case forms)"""
    first, third = (adv.split('/') if '/' in adv else (adv, 'Third'))
    def mk(a, c):
        return _simple_def(name='Mach', states=(a, 'Other', c), events=(('go', a, 'Other'), ('back', 'Other', a), ('fin', c, 'Other')),
                           dynamic=dynamic, ctx=(['Ctx'] if concrete else None), data=(a,))
    return mk(first, third), mk('Neutral', 'Third')

def run_known_and_rename(work, repo):
    """returns {'known': [{id, reproduced, ...}], 'rename': [{identifier, concrete, dynamic, verdict, ...}]}"""
    root = os.path.join(work, 't4k')
    shutil.rmtree(root, ignore_errors=True)
    os.makedirs(root, exist_ok=True)
    res = {'known': [], 'rename': []}
    # ---- known findings: one crate each (they fail in different compiler phases)
    kjobs = []
    for fid, desc, d, extra in KNOWN_PROBES:
        info = T.get_infos([('k', False, d)]).get('k', {})
        text = D.to_text(d)
        src = PRELUDE_STD + extra + 'use state_machines::state_machine;\nstate_machine! {\n' + text + '\n}\n'
        if 'name' in info:
            src += hooks_impl(d, info) + '\n'
        src += 'fn main() {}\n'
        cdir = os.path.join(root, fid)
        write_crate(cdir, src, repo, False)
        kjobs.append((fid, desc, cdir, text))
    # ---- rename, round 1: which adversarial definitions compile at all (one crate, module per definition)
    cases = []
    for adv in ADVERSARIAL:
        for concrete in (False, True):
            for dynamic in (False, True):
                a, n = rename_twin_probe(adv, concrete, dynamic)
                cases.append({'adv': adv, 'concrete': concrete, 'dynamic': dynamic, 'def': a, 'twin': n})
    infos = T.get_infos([(f'a{i}', False, c['def']) for i, c in enumerate(cases)] +
                        [(f't{i}', False, c['twin']) for i, c in enumerate(cases)])
    src = PRELUDE_STD
    line = src.count('\n') + 1
    for i, c in enumerate(cases):
        text = D.to_text(c['def'])
        body = f'pub mod a{i} {{\nuse super::*;\nuse state_machines::state_machine;\nstate_machine! {{\n{text}\n}}\n}}\n'
        n = body.count('\n')
        c['range'] = (line, line + n - 1)
        c['text'] = text
        src += body
        line += n
    src += 'fn main() {}\n'
    cdir1 = os.path.join(root, 'rn1')
    write_crate(cdir1, src, repo, False)
    def go(job):
        return cargo_check(job, os.path.join(root, 'tgt_' + os.path.basename(job)))
    with ThreadPoolExecutor(8) as ex:
        outs = list(ex.map(go, [k[2] for k in kjobs] + [cdir1]))
    for (fid, desc, cdir, text), (ok, errs, stderr) in zip(kjobs, outs[:-1]):
        res['known'].append({'id': fid, 'what': desc, 'reproduced': not ok, 'dsl': text,
                             'errors': [f"{e['code']}: {e['msg']}" for e in errs[:2]]})
    ok1, errs1, _ = outs[-1]
    for c in cases:
        a, b = c['range']
        es = [e for e in errs1 if any(a <= l <= b for l in e['lines'])]
        c['errors'] = [f"{e['code']}: {e['msg']}" for e in es[:2]]
        c['compiles'] = not es
    # ---- round 2: the ones that compile, and their twins, with the whole probe matrix
    src = PRELUDE_STD
    line = src.count('\n') + 1
    allp = []
    idx = 0
    for i, c in enumerate(cases):
        if not c['compiles']:
            continue
        for which, d, key in (('adv', c['def'], f'a{i}'), ('twin', c['twin'], f't{i}')):
            info = infos.get(key, {})
            if 'name' not in info:
                continue
            L, probes = probe_module(idx, d, D.to_text(d), info)
            idx += 1
            c[which + '_probes'] = [(line + off, kind, what) for (off, kind, okx, code, what) in probes]
            c[which + '_range'] = (line, line + len(L) - 1)
            src += '\n'.join(L) + '\n'
            line += len(L)
    src += 'fn main() {}\n'
    cdir2 = os.path.join(root, 'rn2')
    write_crate(cdir2, src, repo, False)
    ok2, errs2, _ = cargo_check(cdir2, os.path.join(root, 'tgt_rn2'))
    bad_lines = set()
    for e in errs2:
        bad_lines.update(e['lines'])
    for c in cases:
        if not c['compiles']:
            res['rename'].append({'identifier': c['adv'], 'concrete': c['concrete'], 'dynamic': c['dynamic'],
                                  'verdict': 'does-not-compile', 'difference': None, 'dsl': c['text'], 'errors': c['errors']})
            continue
        pa, pt = c.get('adv_probes', []), c.get('twin_probes', [])
        # errors inside the definition's module that are not on a probe line: it does not compile after all
        if 'adv_range' in c:
            lo, hi = c['adv_range']
            plines = {l for (l, _, _) in pa}
            late = [e for e in errs2 if any(lo <= l <= hi and l not in plines for l in e['lines'])]
            if late:
                res['rename'].append({'identifier': c['adv'], 'concrete': c['concrete'], 'dynamic': c['dynamic'],
                                      'verdict': 'does-not-compile', 'difference': None, 'dsl': c['text'],
                                      'errors': [f"{e['code']}: {e['msg']}" for e in late[:2]]})
                continue
        diff = []
        for (la, ka, wa), (lt, kt, wt) in zip(pa, pt):
            if (la in bad_lines) != (lt in bad_lines):
                diff.append({'probe': wa, 'adversarial_compiles': la not in bad_lines, 'twin_probe': wt, 'twin_compiles': lt not in bad_lines})
        res['rename'].append({'identifier': c['adv'], 'concrete': c['concrete'], 'dynamic': c['dynamic'],
                              'verdict': 'differs' if diff else 'same', 'difference': diff[:4] or None, 'dsl': c['text'], 'errors': []})
    shutil.rmtree(root, ignore_errors=True)
    return res

def replay_compile(dsl, feature, work, repo):
    """compile one definition (with neutral hooks) against /repo's current tree; returns (compiles?, errors)"""
    d = D.parse_text(dsl)
    info = T.get_infos([('k', bool(feature), d)]).get('k', {})
    src = PRELUDE_STD + 'pub mod dfn {\nuse super::*;\nuse state_machines::state_machine;\nstate_machine! {\n' + dsl + '\n}\n'
    if 'name' in info:
        src += hooks_impl(d, info) + '\n'
    src += '}\nfn main() {}\n'
    root = os.path.join(work, 't4replay')
    shutil.rmtree(root, ignore_errors=True)
    write_crate(os.path.join(root, 'c'), src, repo, bool(feature))
    ok, errs, stderr = cargo_check(os.path.join(root, 'c'), os.path.join(root, 'tgt'))
    shutil.rmtree(root, ignore_errors=True)
    return ok, [f"{e['code']}: {e['msg']}" for e in errs[:4]]
