#!/usr/bin/env python3
"""/verif/check <ID> quick|thorough   |   /verif/check <ID> --replay <file>

Decides one property: (1) the Lean theorems of the property build and pass the axiom
audit; (2) the model they are about corresponds to /repo's current tree (T1/T2 token-exact
in the regions the property consumes; T3/T4/T5 families where the property has them);
(3) the property's own oracle holds on the real observations. See DESIGN.md §6.
"""
import fcntl
import hashlib
import json
import os
import random
import re
import subprocess
import sys
import time

HERE = os.path.dirname(os.path.abspath(__file__))
VERIF = os.path.dirname(HERE)
sys.path.insert(0, os.path.join(VERIF, 'gen'))
sys.path.insert(0, HERE)

import defs as D          # noqa: E402
import t12                # noqa: E402
from props import PROPS, ALLOWED_AXIOMS, TRUSTED_BASE, ALL_REGIONS, fe_relevant, t3_relevant, t5_relevant   # noqa: E402

REPO = os.environ.get('VERIF_REPO', '/repo')
WORK = os.path.join(VERIF, '.work')
LEAN = os.path.join(VERIF, 'lean')

def log(*a):
    print(*a, file=sys.stderr, flush=True)

# ---------------------------------------------------------------------------------------
# hashing / caching

def tree_hash(paths, exts):
    h = hashlib.sha256()
    for base in paths:
        if os.path.isfile(base):
            h.update(base.encode())
            h.update(open(base, 'rb').read())
            continue
        for root, dirs, files in os.walk(base):
            dirs[:] = sorted(d for d in dirs if d not in ('target', '.git', '.lake', '__pycache__', '.work'))
            for f in sorted(files):
                if exts and not f.endswith(exts):
                    continue
                p = os.path.join(root, f)
                h.update(p.encode())
                try:
                    h.update(open(p, 'rb').read())
                except OSError:
                    pass
    return h.hexdigest()

def repo_hash():
    return tree_hash([os.path.join(REPO, 'state-machines-macro'), os.path.join(REPO, 'state-machines-core'),
                      os.path.join(REPO, 'state-machines'), os.path.join(REPO, 'Cargo.toml'),
                      os.path.join(REPO, 'Cargo.lock'), os.path.join(REPO, 'README.md'),
                      os.path.join(REPO, 'examples')], ('.rs', '.toml', '.md', '.lock', '.skip'))

def verif_hash():
    return tree_hash([os.path.join(VERIF, 'gen'), os.path.join(VERIF, 'smx', 'src'), os.path.join(VERIF, 'smx', 'build.rs'),
                      os.path.join(VERIF, 'smx', 'Cargo.toml'), os.path.join(LEAN, 'SMV'), os.path.join(LEAN, 'Main.lean'),
                      os.path.join(VERIF, 'checklib'), os.path.join(VERIF, 'rt')], ('.py', '.rs', '.toml', '.lean'))

class Lock:
    def __init__(self, name):
        os.makedirs(WORK, exist_ok=True)
        self.path = os.path.join(WORK, name + '.lock')
    def __enter__(self):
        self.f = open(self.path, 'w')
        fcntl.flock(self.f, fcntl.LOCK_EX)
        return self
    def __exit__(self, *a):
        fcntl.flock(self.f, fcntl.LOCK_UN)
        self.f.close()

# ---------------------------------------------------------------------------------------
# Lean: build + audit

def lean_build(targets):
    r = subprocess.run(['lake', 'build'] + targets, cwd=LEAN, capture_output=True, text=True)
    return r.returncode == 0, (r.stdout + r.stderr)[-6000:]

def strip_lean_comments(src):
    out = []
    i = 0
    depth = 0
    while i < len(src):
        if src.startswith('/-', i):
            depth += 1
            i += 2
        elif depth and src.startswith('-/', i):
            depth -= 1
            i += 2
        elif depth:
            i += 1
        elif src.startswith('--', i):
            j = src.find('\n', i)
            i = len(src) if j < 0 else j
        else:
            out.append(src[i])
            i += 1
    return ''.join(out)

FORBIDDEN = re.compile(r'\b(sorry|admit|native_decide|bv_decide|implemented_by|unsafe)\b|^\s*axiom\s|maxHeartbeats\s+0', re.M)

def lean_sources():
    out = []
    for root, dirs, files in os.walk(os.path.join(LEAN, 'SMV')):
        for f in sorted(files):
            if f.endswith('.lean'):
                out.append(os.path.join(root, f))
    return out

def grep_forbidden():
    hits = []
    for p in lean_sources():
        src = strip_lean_comments(open(p, encoding='utf-8').read())
        for m in FORBIDDEN.finditer(src):
            hits.append(f'{os.path.relpath(p, LEAN)}: {m.group(0).strip()}')
    return hits

def theorems_of(module):
    """exported theorem names (fully qualified) of a Props module"""
    path = os.path.join(LEAN, module.replace('.', '/') + '.lean')
    src = strip_lean_comments(open(path, encoding='utf-8').read())
    ns = []
    out = []
    for line in src.split('\n'):
        m = re.match(r'\s*namespace\s+(\S+)', line)
        if m:
            ns.append(m.group(1))
            continue
        m = re.match(r'\s*end\s+(\S+)', line)
        if m and ns and ns[-1] == m.group(1):
            ns.pop()
            continue
        m = re.match(r'\s*(?:private\s+)?theorem\s+(\S+)', line)
        if m:
            out.append('.'.join(ns + [m.group(1)]))
    return out

def audit(modules):
    """returns (theorems, ok_theorems, problems)"""
    thms = []
    for mod in modules:
        thms += theorems_of(mod)
    os.makedirs(os.path.join(WORK, 'audit'), exist_ok=True)
    f = os.path.join(WORK, 'audit', '_'.join(m.split('.')[-1] for m in modules) + '.lean')
    with open(f, 'w') as fh:
        for mod in modules:
            fh.write(f'import {mod}\n')
        for t in thms:
            fh.write(f'#print axioms {t}\n')
    r = subprocess.run(['lake', 'env', 'lean', f], cwd=LEAN, capture_output=True, text=True)
    out = r.stdout + r.stderr
    ok = []
    problems = []
    seen = {}
    for m in re.finditer(r"'([^']+)' depends on axioms: \[([^\]]*)\]", out.replace('\n', ' ')):
        seen[m.group(1)] = set(a.strip() for a in m.group(2).split(',') if a.strip())
    for m in re.finditer(r"'([^']+)' does not depend on any axioms", out):
        seen[m.group(1)] = set()
    for t in thms:
        if t not in seen:
            problems.append(f'{t}: no #print axioms output')
        elif not seen[t] <= ALLOWED_AXIOMS:
            problems.append(f'{t}: axioms {sorted(seen[t] - ALLOWED_AXIOMS)}')
        else:
            ok.append(t)
    if r.returncode != 0 and not problems:
        problems.append('audit file failed to elaborate: ' + out[-500:])
    return thms, ok, problems, {t: sorted(seen.get(t, [])) for t in thms}

# ---------------------------------------------------------------------------------------
# prepare: build the ties from /repo's current tree and run them (cached)

TIERS = {
    'quick': {'rand': 1200, 'mut_every': 4},
    'thorough': {'rand': 25000, 'mut_every': 3},
}

def gen_cases(tier, seed):
    import itertools
    rng = random.Random(seed)
    cases = []
    for c in t12.repo_corpus(REPO):
        for f in (0, 1):
            cc = dict(c)
            cc['id'] = c['id'] + f'/f{f}'
            cc['feature'] = f
            cases.append(cc)
    cfg = TIERS[tier]
    small = D.small_exhaustive()
    step_ = 1 if tier == 'thorough' else 6
    for k, d in enumerate(small[::step_]):
        cases.append({'id': f'small{k}', 'stream': 'small', 'feature': (k % 5 == 0), 'def': d})
    # bounded-exhaustive hierarchies (shape x explicit initials x source/target of an event per name)
    for k, d in enumerate(D.forest_exhaustive(step=(2 if tier == 'thorough' else 40))):
        cases.append({'id': f'forest{k}', 'stream': 'forest', 'feature': (k % 7 == 0), 'def': d})
    # coinciding concatenations: state `X` with event `y_z` and state `XY` with event `z` (snake(X)_y_z = snake(XY)_z),
    # likewise for PascalCase (`Xy` + `Zw` vs `XyZ` + `w`): any derived key built by joining two names collides
    words = ['arm', 'hold', 'release', 'io', 'x2', 'ab', 'cd']
    kk = 0
    for a_ in words:
        for b_ in words:
            for c_ in words:
                if b_ == c_ or (len({a_, b_, c_}) < 3 and (kk % 3)):
                    kk += 1
                    continue
                A, AB = a_.capitalize(), a_.capitalize() + b_.capitalize()
                for asy, pay in ((False, False), (True, True)):
                    cases.append({'id': f'concat{kk}.{int(asy)}', 'stream': 'concat', 'feature': (kk % 4 == 0), 'def':
                                  [('name', 'M'), ('dynamic', True)] + ([('async', True)] if asy else []) +
                                  [('initial', A), ('states', [('leaf', A, None), ('leaf', AB, ['u32']), ('leaf', 'Idle', None)]),
                                   ('events', [(f'{b_}_{c_}', ([('payload', ['u32'])] if pay else []) +
                                                [('transition', [('from', [A], False), ('to', AB)])]),
                                               (c_, [('transition', [('from', [AB], False), ('to', 'Idle')]), ('after', ['log'], True)]),
                                               (b_, [('transition', [('from', ['Idle'], False), ('to', A)])])], True)]})
                kk += 1
    # hook names that differ only in case or in the snake_case form (`Ok`/`ok`, `Trace`/`trace`, `S`/`s`) side by side
    kk = 0
    for (h1, h2) in (('Ok', 'ok'), ('Trace', 'trace'), ('S', 's'), ('onEnter', 'on_enter')):
        for (k1, k2) in (('before', 'after'), ('before', 'before'), ('guards', 'unless'), ('around', 'around'), ('after', 'before')):
            for asy, pay in ((False, False), (True, True), (False, True)):
                ev_items = ([('payload', ['u32'])] if pay else [])
                if k1 == k2:
                    ev_items.append((k1, [h1, h2], True))
                else:
                    ev_items += [(k1, [h1], True), (k2, [h2], True)]
                ev_items.append(('transition', [('from', ['A'], False), ('to', 'B')]))
                cases.append({'id': f'hookcoll{kk}', 'stream': 'hookcollide', 'feature': (kk % 3 == 0), 'def':
                              [('name', 'M'), ('dynamic', True)] + ([('async', True)] if asy else []) +
                              [('initial', 'A'), ('states', [('leaf', 'A', None), ('leaf', 'B', ['u32'])]),
                               ('events', [('go', ev_items), ('back', [('transition', [('from', ['B'], False), ('to', 'A')])])], True)]})
                kk += 1
    # every identifier of length <= 4 over {a, r, B, R, 2, _} as the name of a data state, of an event and of a hook:
    # whatever string the generator derives from a name (state strings, operation names, field names, variants)
    # is compared for every leading / trailing character class
    kk = 0
    for n in range(1, 5):
        for t in itertools.product('arBR2_', repeat=n):
            w = ''.join(t)
            if w[0].isdigit() or set(w) == {'_'}:
                continue
            step_ = 1 if tier == 'thorough' else 3
            if kk % step_ == 0:
                cases.append({'id': f'nm_s{kk}', 'stream': 'names', 'feature': (kk % 4 == 0), 'def':
                              [('name', 'M'), ('dynamic', True), ('initial', 'Zz'), ('states', [('leaf', w, ['u32']), ('leaf', 'Zz', None)]),
                               ('events', [('go', [('transition', [('from', ['Zz'], False), ('to', w)])]),
                                           ('back', [('transition', [('from', [w], False), ('to', 'Zz')])])], True)]})
                cases.append({'id': f'nm_e{kk}', 'stream': 'names', 'feature': False, 'def':
                              [('name', 'M'), ('dynamic', True), ('initial', 'Aa'), ('states', [('leaf', 'Aa', None), ('leaf', 'Bb', ['u32'])]),
                               ('events', [(w, [('guards', ['chk'], True), ('transition', [('from', ['Aa'], False), ('to', 'Bb')])])], True)]})
                cases.append({'id': f'nm_h{kk}', 'stream': 'names', 'feature': False, 'def':
                              [('name', 'M'), ('dynamic', True), ('initial', 'Aa'), ('states', [('leaf', 'Aa', None), ('leaf', 'Bb', None)]),
                               ('events', [('go', [('guards', [w], True), ('around', [w + 'x'], True),
                                                   ('transition', [('from', ['Aa'], False), ('to', 'Bb'), ('before', [w + 'y'], True)])])], True)]})
            kk += 1
    # every short event name over {a, B, 2, _}: the snake_case rule (validation.rs) and the derived names
    import itertools
    kk = 0
    for n in range(1, 5):
        for t in itertools.product('aB2_', repeat=n):
            w = ''.join(t)
            if w[0].isdigit() or set(w) == {'_'}:
                continue
            cases.append({'id': f'evname{kk}', 'stream': 'evname', 'feature': False, 'rule': 'R7-event-not-snake',
                          'def': [('name', 'M'), ('dynamic', True), ('initial', 'A'), ('states', [('leaf', 'A', None)]),
                                  ('events', [(w, [('transition', [('from', ['A'], False), ('to', 'A')])])], True)]})
            kk += 1
    for k in range(cfg['rand']):
        d = D.wf_random(rng)
        cases.append({'id': f'rand{k}', 'stream': 'rand', 'feature': rng.random() < 0.3, 'def': d})
        if k % 10 == 3:
            # deeper nesting, longer hook lists, more events than the default shape
            dd_ = D.wf_random(rng, D.Shape(max_depth=5, max_hooks=4, max_leaves=10, max_events=5))
            cases.append({'id': f'deep{k}', 'stream': 'deep', 'feature': rng.random() < 0.3, 'def': dd_})
        if k % 4 == 1:
            rd_ = D.repeat_variant(d, rng)
            if rd_ is not None:
                cases.append({'id': f'rep{k}', 'stream': 'repeat', 'feature': rng.random() < 0.3, 'def': rd_})
        if k % 5 == 2:
            cd = D.collide_variant(d, rng)
            if cd is not None:
                cases.append({'id': f'coll{k}', 'stream': 'collide', 'feature': rng.random() < 0.3, 'def': cd})
        if k % cfg['mut_every'] == 0:
            for j, (rule, m) in enumerate(D.mutations(d, rng)):
                cases.append({'id': f'mut{k}.{j}.{rule}', 'stream': 'mut', 'feature': False, 'def': m, 'rule': rule})
                if j % 5 == k % 5 and not rule.startswith('R1-'):
                    # the same ill-formed definition with a legacy (parsed and ignored) entry, written without the
                    # optional separator, somewhere among the sections
                    m2 = list(m)
                    m2.insert(rng.randrange(len(m2) + 1), ('legacy', rng.choice(['state', 'action', 'callbacks']),
                                                          rng.choice(['ident', 'brace']), 'nocomma'))
                    cases.append({'id': f'mutleg{k}.{j}.{rule}', 'stream': 'mut', 'feature': False, 'def': m2, 'rule': rule})
    return cases

def prepare(tier, seed):
    """returns the prep dict (from cache when the tree, the machinery, the seed and the tier
    are unchanged)"""
    key = hashlib.sha256((repo_hash() + verif_hash() + f'{tier}:{seed}').encode()).hexdigest()[:24]
    cdir = os.path.join(WORK, 'cache', f'{tier}-{key}')
    pj = os.path.join(cdir, 'prep.json')
    with Lock('prepare'):
        if os.path.exists(pj):
            return json.load(open(pj))
        # prune old cache entries
        cache_root = os.path.join(WORK, 'cache')
        if os.path.isdir(cache_root):
            import shutil
            for d in os.listdir(cache_root):
                if d != f'{tier}-{key}' and d.startswith(tier + '-') or '-' not in d:
                    shutil.rmtree(os.path.join(cache_root, d), ignore_errors=True)
        os.makedirs(cdir, exist_ok=True)
        t0 = time.time()
        prep = {'key': key, 'tier': tier, 'seed': seed, 'errors': []}
        ok, out = lean_build(['SMV', 'smvdriver'])
        prep['lean_build_ok'] = ok
        if not ok:
            prep['errors'].append('lean build failed: ' + out[-1500:])
        ok, err = t12.build_smx(WORK, REPO)
        prep['smx_build_ok'] = ok
        if not ok:
            prep['errors'].append('smx build failed: ' + err[-3000:])
        prep['t12'] = None
        if prep['lean_build_ok'] and prep['smx_build_ok']:
            cases = gen_cases(tier, seed)
            res = t12.compare(cases, WORK)
            by_id = {c['id']: c for c in cases}
            diffs = []
            all_diffs = diffs
            notes = {}
            regions = {}
            streams = {}
            verdicts = {}
            ntok = 0
            nontrivial = set()
            for r in res:
                streams[r['stream']] = streams.get(r['stream'], 0) + 1
                verdicts[r['verdict']] = verdicts.get(r['verdict'], 0) + 1
                ntok += r['ntokens']
                for k, v in r['regions'].items():
                    regions[k] = regions.get(k, 0) + v
                if r['ntokens'] > 0:
                    nontrivial.add(by_id[r['id']]['text'])
                for nt in r.get('notes', []):
                    notes[nt] = notes.get(nt, 0) + 1
                if r['status'] != 'same':
                    c = by_id[r['id']]
                    diffs.append({'id': r['id'], 'stream': r['stream'], 'feature': bool(r['feature']), 'kind': r['kind'],
                                  'region': r['region'], 'at': r['line'], 'model': r['model'], 'impl': r['impl'], 'fe_parts': r.get('fe_parts'),
                                  'tokens_differ': r.get('t2_also', r['kind'] == 'T2'),
                                  'text': c['text'], 'prefix': D.to_prefix(c['def']), 'verdict': r['verdict'], 'model_verdict': r['model_verdict']})
            # is a mismatch name-dependent? (it disappears on the consistently renamed, neutral twin) -> C18
            try:
                import t3 as _t3
                groups = {}
                # (definitions whose *expansion* differs first: a front-end dump can differ on every definition
                #  when only an internal representation changed)
                for dd in sorted(diffs, key=lambda x: (not x['tokens_differ'], len(x['text']))):
                    if dd['verdict'] == 'ok' and dd['model_verdict'] == 'ok':
                        g = groups.setdefault((dd['kind'], dd['region'], dd['stream']), [])
                        if len(g) < 3:
                            g.append(dd)
                cand = [dd for g in groups.values() for dd in g][:60]
                twins = []
                for dd in cand:
                    td, _ = _t3.rename_def(by_id[dd['id']]['def'], neutral=True)
                    twins.append({'id': 'tw:' + dd['id'], 'stream': 'twin', 'feature': dd['feature'], 'def': td})
                if twins:
                    res2 = {r2['id']: r2 for r2 in t12.compare(twins, WORK)}
                    for dd in cand:
                        r2 = res2.get('tw:' + dd['id'])
                        dd['name_dependent'] = bool(r2) and r2['status'] == 'same' and r2['verdict'] == 'ok'
                    diffs.sort(key=lambda x: not x.get('name_dependent', False))
            except Exception:
                import traceback
                prep['errors'].append('name-dependence probe failed: ' + traceback.format_exc()[-1500:])
            samples = []
            for r in res[:: max(1, len(res) // 6)][:6]:
                samples.append({'id': r['id'], 'verdict': r['verdict'], 'tokens': r['ntokens'], 'text': by_id[r['id']]['text'][:600]})
            prep['t12'] = {'cases': len(res), 'tokens_compared': ntok, 'streams': streams, 'verdicts': verdicts,
                           'regions': regions, 'diffs': diffs[:200], 'ndiffs': len(diffs), 'harmless_differences_noted': notes,
                           'distinct_expanded': len(nontrivial), 'samples': samples}
        prep['names'] = None
        if prep['lean_build_ok'] and prep['smx_build_ok']:
            try:
                prep['names'] = t12.compare_names(WORK)
            except Exception:
                import traceback
                prep['errors'].append('names tie failed: ' + traceback.format_exc()[-1500:])
        prep['t3'] = None
        # escalation: definitions whose expansion differs from the model's are handed to the runtime
        # harness, so that a broken token-level tie comes with a concrete failing input when there is one
        suspects = []
        ill_suspects = []
        if prep['t12']:
            groups = {}
            for dd in sorted(all_diffs, key=lambda x: (not x['tokens_differ'], len(x['text']))):
                c = by_id[dd['id']]
                if dd['verdict'] == 'ok' and dd['model_verdict'] != 'ok':
                    # refused by the rules (model), expanded by the real front end
                    if len(ill_suspects) < 12:
                        ill_suspects.append((c.get('rule') or ('refused by the rules: ' + dd['model'][:80]), c['def'], dd['id']))
                    continue
                if dd['stream'] == 'mut':
                    continue
                if dd['verdict'] != 'ok' or dd['model_verdict'] != 'ok':
                    continue
                g = groups.setdefault((dd['kind'], dd['region'], dd['stream']), [])
                if len(g) < 40:
                    g.append((dd['feature'], c['def'], dd['id']))
            # keep, per group, the three smallest the model's rustc rules accept (an ambiguous or name-colliding
            # definition does not compile anyway)
            try:
                import t3gen as _T
                flat = [x for g in groups.values() for x in g]
                tinfo = {}
                items = []
                for (f_, d_, i_) in flat:
                    try:
                        items.append((i_, f_, _T.t3ify(d_)))
                    except Exception:
                        pass
                tinfo = _T.get_infos(items)
                for key_, g in groups.items():
                    good = [x for x in g if 'err' not in tinfo.get(x[2], {'err': 1}) and tinfo[x[2]].get('accepted', True)]
                    suspects += good[:2]
            except Exception:
                for g in groups.values():
                    suspects += g[:3]
            suspects = suspects[:(24 if tier == 'quick' else 48)]
            prep['t12']['suspects'] = len(suspects)
            prep['t12']['ill_suspects'] = len(ill_suspects)
        # identifiers on which to_snake_case / to_pascal_case differ from the model: machines using them
        name_suspects = []
        for nd in ((prep.get('names') or {}).get('diffs') or [])[:8]:
            w = nd['impl'].split('\t')[0].replace('#NAME ', '').strip()
            if not w or not (w[0].isalpha() or w[0] == '_'):
                continue
            ev, st = ('go', w) if w[0].isupper() else (w, 'Busy')
            if ev != ev.lower() or ev.startswith('_') or ev.endswith('_') or '__' in ev or st in ('Idle', 'D', 'Ctx', 'Pay'):
                continue
            name_suspects.append((False, [('name', 'Machine'), ('dynamic', True), ('initial', 'Idle'),
                                          ('states', [('leaf', 'Idle', None), ('leaf', st, ['D'])]),
                                          ('events', [(ev, [('guards', ['g0'], True),
                                                            ('transition', [('from', ['Idle'], False), ('to', st)])])], True)],
                                  'name:' + w))
        if prep['lean_build_ok']:
            try:
                import t3
                prep['t3'] = t3.run(tier, seed, WORK, REPO, suspects=suspects, strict_suspects=name_suspects)
            except Exception as ex:   # harness failure: reported, never silently passed
                import traceback
                prep['errors'].append('T3 harness failed: ' + traceback.format_exc()[-2000:])
        prep['t4'] = None
        if prep['lean_build_ok']:
            try:
                import t4
                prep['t4'] = t4.run(tier, seed, WORK, REPO, ill_suspects=ill_suspects)
            except Exception:
                import traceback
                prep['errors'].append('T4 harness failed: ' + traceback.format_exc()[-2000:])
        prep['t4k'] = None
        if prep['lean_build_ok']:
            try:
                import t4
                prep['t4k'] = t4.run_known_and_rename(WORK, REPO)
            except Exception:
                import traceback
                prep['errors'].append('T4 known/rename harness failed: ' + traceback.format_exc()[-2000:])
        prep['t5'] = None
        if prep['lean_build_ok']:
            try:
                import t5
                prep['t5'] = t5.run(WORK, REPO)
            except Exception:
                import traceback
                prep['errors'].append('T5 harness failed: ' + traceback.format_exc()[-2000:])
        prep['wall_s'] = round(time.time() - t0, 1)
        json.dump(prep, open(pj, 'w'))
        return prep

# ---------------------------------------------------------------------------------------
# known findings

def known_findings():
    p = os.path.join(VERIF, 'known_findings.json')
    if os.path.exists(p):
        return json.load(open(p))
    return {'findings': [], 'fixed': []}

# ---------------------------------------------------------------------------------------

def write_evidence(pid, tier, seed, cov, wall, violations, assumptions):
    os.makedirs(os.path.join(VERIF, 'evidence'), exist_ok=True)
    ev = {'property_id': pid, 'tier': tier, 'seed': seed, 'level': 'proof', 'coverage': cov,
          'assumptions': assumptions, 'wall_s': round(wall, 1), 'violations': violations}
    json.dump(ev, open(os.path.join(VERIF, 'evidence', pid + '.json'), 'w'), indent=1)

def write_replay(pid, payload):
    d = os.path.join(VERIF, 'replays', pid)
    os.makedirs(d, exist_ok=True)
    n = 0
    while os.path.exists(os.path.join(d, f'{n}.json')):
        n += 1
    p = os.path.join(d, f'{n}.json')
    json.dump(payload, open(p, 'w'), indent=1)
    return p

# state names the dynamic wrapper's unqualified `Ok(..)`, `Err(..)`, `Result<..>`, `Default` clash with on the pinned
# tree (C18 allows a definition using them not to compile; DESIGN §8). `C` with a generic context is known finding F6.
NONCOMPILING_IDENTIFIERS = {'Ok', 'Err', 'Result', 'Default'}

def run_check(pid, tier):
    t0 = time.time()
    seed = int(os.environ.get('VERIF_SEED', '1'))
    cfg = PROPS[pid]
    prep = prepare(tier, seed)
    violations = []   # list of (replay payload, found_input: bool)

    # (1) proof
    thms, ok_thms, problems = [], [], []
    axioms = {}
    if prep['lean_build_ok']:
        bok, bout = lean_build(cfg['modules'])
        if not bok:
            problems.append('theorem module failed to build: ' + bout[-1500:])
            try:
                for mod in cfg['modules']:
                    thms += theorems_of(mod)
            except Exception:
                pass
        else:
            thms, ok_thms, problems, axioms = audit(cfg['modules'])
            forb = grep_forbidden()
            if forb:
                problems += ['forbidden construct: ' + x for x in forb]
                ok_thms = []
    else:
        problems.append('Lean model failed to build')
    if tier == 'thorough' and not problems:
        for mod in cfg['modules']:
            r = subprocess.run(['lake', 'env', 'leanchecker', mod], cwd=LEAN, capture_output=True, text=True)
            if r.returncode != 0:
                problems.append(f'leanchecker {mod}: ' + (r.stdout + r.stderr)[-500:])
    if problems:
        violations.append(({'property': pid, 'broken': 'proof', 'theorems': thms, 'problems': problems}, False))

    # (2) correspondence, in the regions this property consumes
    tie = prep.get('t12')
    rel = []
    if not prep['smx_build_ok']:
        violations.append(({'property': pid, 'broken': 'tie', 'tie': 'smx build', 'detail': prep['errors']}, False))
    elif tie is not None:
        rel = [d for d in tie['diffs'] if (d['region'] in cfg['regions'] and d['kind'] == 'T2') or
               (d['kind'] == 'T1' and 'FE' in cfg['regions'] + ['FE'] and fe_relevant(pid, d)) or
               (pid == 'C18' and d.get('name_dependent'))]
        if rel:
            rel.sort(key=lambda d: len(d['text']))
            d = rel[0]
            violations.append(({'property': pid, 'broken': 'tie', 'tie': f"{d['kind']} region {d['region']}",
                                'definition_id': d['id'], 'feature': d['feature'], 'at_token': d['at'],
                                'model': d['model'], 'impl': d['impl'], 'dsl': d['text'], 'prefix': d['prefix'],
                                'other_mismatches_in_consumed_regions': len(rel) - 1,
                                'replay': f'./check {pid} --replay <this file>'}, False))

    # (2b) the identifier conversions (utils.rs) against the model's, consumed by the properties about names
    nm = prep.get('names')
    if pid in ('C12', 'C14', 'C18') and prep.get('smx_build_ok') and prep.get('lean_build_ok'):
        if nm is None:
            violations.append(({'property': pid, 'broken': 'tie', 'tie': 'names', 'detail': prep['errors']}, False))
        elif nm['ndiffs']:
            violations.append(({'property': pid, 'broken': 'tie', 'tie': 'T6 names (to_snake_case / to_pascal_case)',
                                'impl': nm['diffs'][0]['impl'], 'model': nm['diffs'][0]['model'],
                                'other_disagreements': nm['ndiffs'] - 1}, False))

    # (3) runtime tie (impl vs model) in this property's families, and the property's own
    #     oracle on the implementation's observations (impl vs oracle), reported separately
    t3r = prep.get('t3')
    t3_rel = []
    if cfg.get('t3'):
        if t3r is None:
            violations.append(({'property': pid, 'broken': 'tie', 'tie': 'T3 harness', 'detail': prep['errors']}, False))
        else:
            for f in t3r['oracle_failures']:
                if f['property'] == pid:
                    violations.append(({'property': pid, 'broken': 'property', 'what': f['what'], 'dsl': f['dsl'],
                                        'feature': f['feature'], 'prefix': f['prefix'], 'ops': f['ops'], 'observed': f['observed'],
                                        'scenario': f['sid'], 'family': f['family'],
                                        **{k: f[k] for k in ('typed_ops', 'typed_observed', 'twin_dsl', 'twin_kind', 'twin_ops',
                                                             'twin_observed', 'twin_prefix', 'twin_inv') if k in f},
                                        'replay': f'./check {pid} --replay <this file>'}, True))
                elif f['property'] == 'HARNESS':
                    violations.append(({'property': pid, 'broken': 'tie', 'tie': 'T3 harness output', 'what': f['what']}, False))
            t3_rel = [d for d in t3r['model_diffs'] if t3_relevant(pid, d)]
            if t3_rel:
                d = t3_rel[0]
                violations.append(({'property': pid, 'broken': 'tie', 'tie': f"T3 family {d['family']} (implementation vs model)",
                                    'scenario': d['sid'], 'dsl': d['dsl'], 'feature': d['feature'], 'prefix': d['prefix'],
                                    'ops': d['ops'], 'impl': d['impl'], 'model': d['model'],
                                    'other_disagreements': len(t3_rel) - 1}, False))
            if t3r['build_errors'] and t3r['machines'] == 0:
                violations.append(({'property': pid, 'broken': 'tie', 'tie': 'T3 crates do not build',
                                    'detail': t3r['build_errors'][:1]}, False))

    # (3b) T4: rustc probe crates
    t4r = prep.get('t4')
    if cfg.get('t4'):
        if t4r is None:
            violations.append(({'property': pid, 'broken': 'tie', 'tie': 'T4 harness', 'detail': prep['errors']}, False))
        else:
            fams = cfg['t4']
            if 'pos' in fams or 'nostd' in fams or 'send' in fams:
                for f in t4r['pos_failures']:
                    is_send = any('Send' in e or 'cannot be sent' in e for e in f['errors'])
                    is_nostd = True      # a definition that does not compile with std does not compile without it either
                    if ('pos' in fams) or ('send' in fams and is_send) or ('nostd' in fams and is_nostd):
                        violations.append(({'property': pid, 'broken': 'property',
                                            'what': f"well-formed definition does not compile in configuration {f['config']}: " + '; '.join(f['errors'][:2]),
                                            'dsl': f['dsl'], 'feature': f['feature'], 'config': f['config']}, True))
                if ('pos' in fams or 'nostd' in fams) and t3r:
                    for f in t3r.get('compile_failures', []):
                        violations.append(({'property': pid, 'broken': 'property', 'what': 'well-formed definition does not compile: ' + f['stderr'][-400:],
                                            'dsl': f['dsl'], 'feature': f['feature']}, True))
            for f in t4r['probe_failures']:
                if f['kind'] in fams or (f['kind'] in ('method', 'types', 'new', 'accessor') and 'method' in fams) or \
                        (f['kind'] == 'method' and 'hier-method' in fams and 'superstate' in f['dsl']):
                    violations.append(({'property': pid, 'broken': 'property',
                                        'what': f"{f['what']}: expected {f['expected']}, rustc says {f['got']}", 'dsl': f['dsl'],
                                        'probe_kind': f['kind']}, True))
            if 'illformed' in fams:
                for f in t4r['illformed_accepted']:
                    violations.append(({'property': pid, 'broken': 'property',
                                        'what': f"ill-formed definition ({f['rule']}) compiles", 'dsl': f['dsl'], 'rule': f['rule']}, True))
            if t4r['crate_errors']:
                violations.append(({'property': pid, 'broken': 'tie', 'tie': 'T4 probe crate has errors outside any probe',
                                    'detail': t4r['crate_errors'][:2]}, False))

    # (3c) known findings and adversarial identifiers
    t4k = prep.get('t4k')
    known_lines = []
    kf = known_findings().get('findings', [])
    if cfg.get('t4') and ('known' in cfg['t4'] or 'rename' in cfg['t4']):
        if t4k is None:
            violations.append(({'property': pid, 'broken': 'tie', 'tie': 'T4 known/rename harness', 'detail': prep['errors']}, False))
        else:
            if 'known' in cfg['t4']:
                for k in t4k['known']:
                    listed = [f for f in kf if f['property'] == pid and f['signature'].get('probe') == k['id']]
                    if k['reproduced'] and listed:
                        known_lines.append(f"KNOWN-FINDING: property={pid} {listed[0]['text']}")
                    elif k['reproduced'] and not listed:
                        violations.append(({'property': pid, 'broken': 'property', 'what': 'well-formed definition does not compile: ' + k['what'],
                                            'dsl': k['dsl'], 'errors': k['errors']}, True))
            if 'rename' in cfg['t4']:
                for r in t4k['rename']:
                    if r['verdict'] != 'differs':
                        continue
                    listed = [f for f in kf if f['property'] == pid and
                              f['signature'].get('identifier') == r['identifier'] and f['signature'].get('concrete') == r['concrete']]
                    if listed:
                        line = f"KNOWN-FINDING: property={pid} {listed[0]['text']}"
                        if line not in known_lines:
                            known_lines.append(line)
                    else:
                        violations.append(({'property': pid, 'broken': 'property',
                                            'what': f"a state named `{r['identifier']}` compiles into a machine whose API differs from its renamed twin's",
                                            'dsl': r['dsl'], 'difference': r['difference'], 'concrete_context': r['concrete'],
                                            'dynamic': r['dynamic']}, True))

    # (3d) identifiers that coincide with prelude or generated names but do not clash with anything the generated
    #      code writes unqualified: such definitions are well-formed and must compile (C14; hence C17). The clashes
    #      that exist on the pinned tree are a fixed, documented table (DESIGN §8): only those are tolerated.
    if cfg.get('t4') and 'advpos' in cfg['t4']:
        if t4k is None:
            violations.append(({'property': pid, 'broken': 'tie', 'tie': 'T4 known/rename harness', 'detail': prep['errors']}, False))
        else:
            for r in t4k['rename']:
                if r['verdict'] != 'does-not-compile':
                    continue
                if (r['identifier'] in NONCOMPILING_IDENTIFIERS and r['dynamic']) or (r['identifier'] == 'C' and not r['concrete']):
                    continue
                violations.append(({'property': pid, 'broken': 'property',
                                    'what': f"well-formed definition with a state named `{r['identifier']}` does not compile: " + '; '.join(r['errors'][:2]),
                                    'dsl': r['dsl'], 'feature': False, 'concrete_context': r['concrete'], 'dynamic': r['dynamic']}, True))

    # (4) T5: the real core functions on the whole finite error algebra
    t5r = prep.get('t5')
    if cfg.get('t5'):
        if t5r is None or t5r.get('build_error'):
            violations.append(({'property': pid, 'broken': 'tie', 'tie': 'T5 harness', 'detail': (t5r or {}).get('build_error') or prep['errors']}, False))
        else:
            of_ = [f for f in t5r['oracle_failures'] if t5_relevant(pid, f['row'])]
            df_ = [d for d in t5r['diffs'] if t5_relevant(pid, d.get('impl') or d.get('model') if isinstance(d, dict) else str(d))]
            for f in of_[:3]:
                violations.append(({'property': pid, 'broken': 'property', 'what': f['what'], 'core_call': f['row'],
                                    'replay': 'cd /verif/rt/t5 && cargo run --offline   (prints the whole table)'}, True))
            if df_ and not of_:
                violations.append(({'property': pid, 'broken': 'tie', 'tie': 'T5 core table (implementation vs model)',
                                    'first': df_[0], 'count': len(df_)}, False))

    # evidence
    cov = {
        'obligations': len(thms), 'discharged': len(ok_thms),
        'checker_cmd': f'cd /verif/lean && lake build {" ".join(cfg["modules"])} && lake env lean .work/audit (#print axioms per theorem)'
                       + (' && lake env leanchecker' if tier == 'thorough' else ''),
        'trusted_base': TRUSTED_BASE,
        'theorems': thms, 'axioms': axioms,
        'samples': (tie or {}).get('samples', []) + [{'theorem': t} for t in thms[:4]],
        'correspondence': {
            'definitions_compared': (tie or {}).get('cases', 0),
            'tokens_compared': (tie or {}).get('tokens_compared', 0),
            'streams': (tie or {}).get('streams', {}),
            'verdicts': (tie or {}).get('verdicts', {}),
            'regions_consumed': cfg['regions'],
            'tokens_in_consumed_regions': {r: (tie or {}).get('regions', {}).get(r, 0) for r in cfg['regions']},
            'mismatches_total': (tie or {}).get('ndiffs', 0),
            'mismatches_in_consumed_regions': len(rel),
            'harmless_differences_noted': (tie or {}).get('harmless_differences_noted', {}),
            'suspect_definitions_escalated_to_runtime': (tie or {}).get('suspects', 0),
            'identifiers_compared_T6': (prep.get('names') or {}).get('names', 0),
            'identifier_conversion_mismatches': (prep.get('names') or {}).get('ndiffs', 0),
        },
        'runtime': ({
            'machines_compiled': t3r['machines'], 'scenarios': t3r['scenarios'], 'operations': t3r['ops'],
            'hook_invocations_traced': t3r['hooks_traced'], 'families': t3r['families'], 'shapes': t3r['shapes'],
            'families_consumed': cfg.get('t3', []),
            'impl_vs_model_disagreements': t3r['n_model_diffs'], 'impl_vs_oracle_failures': t3r['n_oracle_failures'],
            'crates_failed_to_build': len(t3r['build_errors']), 'samples': t3r['samples'][:2],
        } if t3r else None),
        'rustc_probes': ({'well_formed_machines_compiled': t4r['pos_machines'], 'configurations': ['std', 'no_std lib', 'feature=dynamic', 'typestate-only no_std'],
                          'failed_to_compile': len(t4r['pos_failures']), 'probes': t4r['probes'], 'probe_kinds': t4r['probe_kinds'],
                          'probe_failures': len(t4r['probe_failures']), 'illformed_definitions': t4r['illformed'],
                          'illformed_accepted': len(t4r['illformed_accepted']), 'assert_send_probes': t4r['send_probes'],
                          'families_consumed': cfg.get('t4')} if (t4r and cfg.get('t4')) else None),
        'identifier_probes': ({'adversarial_identifiers': sorted({r['identifier'] for r in t4k['rename']}),
                               'definitions': len(t4k['rename']),
                               'verdicts': {v: sum(1 for r in t4k['rename'] if r['verdict'] == v) for v in ('same', 'does-not-compile', 'differs')},
                               'known_finding_probes': {k['id']: k['reproduced'] for k in t4k['known']}}
                              if (t4k and cfg.get('t4') and ('rename' in cfg['t4'] or 'known' in cfg['t4'])) else None),
        'core_algebra': ({'rows_exhaustive': t5r['rows'], 'impl_vs_model_disagreements': len(t5r['diffs']),
                          'impl_vs_oracle_failures': len(t5r['oracle_failures']), 'sample': t5r.get('sample')}
                         if (t5r and cfg.get('t5')) else None),
        'traces_validated_against_impl': (t3r or {}).get('scenarios', 0),
        'evaluations': (tie or {}).get('cases', 0),
        'distinct_nontrivial': (tie or {}).get('distinct_expanded', 0),
        'rule': 'definitions: every state_machine! block of /repo (x2 feature settings) + bounded-exhaustive small definitions (all of them in thorough, every 6th in quick) + seeded random well-formed trees '
                '+ one rule-violating edit per rule and position; non-trivial = distinct DSL texts that expand to tokens',
    }
    assumptions = list(TRUSTED_BASE)
    nviol = len(violations)
    write_evidence(pid, tier, seed, cov, time.time() - t0, nviol, assumptions)

    if not violations:
        for l in known_lines:
            print(l)
        print(f'OK property={pid} tier={tier} theorems={len(ok_thms)}/{len(thms)} '
              f'definitions={cov["correspondence"]["definitions_compared"]} tokens={cov["correspondence"]["tokens_compared"]}')
        return 0
    # report: a concrete failing input first, if any
    violations.sort(key=lambda v: not v[1])
    payload, has_input = violations[0]
    payload['all'] = [v[0] for v in violations[1:6]]
    path = write_replay(pid, payload)
    tail = '' if has_input else ' no-failing-input-found'
    print(f'VIOLATION property={pid} replay={path}{tail}')
    return 1

def run_replay(pid, path):
    payload = json.load(open(path))
    if payload.get('broken') == 'tie' and 'dsl' in payload:
        os.makedirs(WORK, exist_ok=True)
        ok, err = t12.build_smx(WORK, REPO)
        lean_build(['smvdriver'])
        d = D.parse_text(payload['dsl']) if 'prefix' not in payload else None
        impl = t12.run_impl([('replay', payload.get('feature', False), payload['dsl'])], WORK)
        inp = f"replay {1 if payload.get('feature') else 0} {payload['prefix']}\n"
        r = subprocess.run([t12.DRIVER], input=inp, capture_output=True, text=True)
        model = t12.split_blocks(r.stdout)
        res = t12.compare_one(model.get('replay', []), impl.get('replay', []))
        print(json.dumps(res, indent=1))
        if res['status'] != 'same':
            print(f'VIOLATION property={pid} replay={path} no-failing-input-found')
            return 1
        print('replay: model and implementation agree on this definition now')
        return 0
    if 'ops' in payload and 'prefix' in payload:
        import t3
        res = t3.replay_one(payload, WORK, REPO)
        print(json.dumps(res, indent=1)[:4000])
        bad = [f for f in res['oracle_failures'] if f['property'] == pid]
        if bad:
            print(f'VIOLATION property={pid} replay={path}')
            return 1
        if res['impl'] != res['model']:
            print(f'VIOLATION property={pid} replay={path} no-failing-input-found')
            return 1
        print('replay: the implementation satisfies the property on this input and agrees with the model')
        return 0
    if 'dsl' in payload and 'does not compile' in payload.get('what', ''):
        import t4
        lean_build(['smvdriver'])
        ok, errs = t4.replay_compile(payload['dsl'], payload.get('feature', False), WORK, REPO)
        print(json.dumps({'compiles': ok, 'errors': errs}, indent=1))
        if not ok:
            print(f'VIOLATION property={pid} replay={path}')
            return 1
        print('replay: the definition compiles now')
        return 0
    print(json.dumps(payload, indent=1)[:3000])
    return 1

def main():
    if len(sys.argv) < 3:
        print(__doc__)
        return 2
    pid = sys.argv[1]
    if pid not in PROPS:
        print(f'unknown or unclaimed property {pid}')
        return 2
    if sys.argv[2] == '--replay':
        return run_replay(pid, sys.argv[3])
    tier = sys.argv[2]
    if tier not in TIERS:
        tier = os.environ.get('VERIF_TIER', 'quick')
    return run_check(pid, tier)

if __name__ == '__main__':
    sys.exit(main())
