"""T3 runtime tie + property oracles on real observations.

run(tier, seed, work, repo) builds crates of machines with the real proc-macro from /repo's
current tree, drives them, compares every output line with the Lean model (impl vs model:
the correspondence) and evaluates each property's own predicate on the implementation's
observations (impl vs oracle: the property itself). The two are reported separately.
"""
import json
import os
import zlib
import random
import shutil
import sys
from concurrent.futures import ThreadPoolExecutor

HERE = os.path.dirname(os.path.abspath(__file__))
VERIF = os.path.dirname(HERE)
sys.path.insert(0, os.path.join(VERIF, 'gen'))
import defs as D      # noqa: E402
import t3gen as T     # noqa: E402

TIERS = {
    'quick': {'crates': 6, 'per_crate': 14, 'walks': 4, 'abandon_cap': 14, 'assign_per_combo': 1, 'pairs': 2},
    'thorough': {'crates': 16, 'per_crate': 56, 'walks': 12, 'abandon_cap': 60, 'assign_per_combo': 4, 'pairs': 6},
}

# ---------------------------------------------------------------------------------------
# parsing observation lines

def parse_line(l):
    parts = l.split(' | ')
    if len(parts) != 4:
        return None
    res, trace, drops, obs = parts
    calls = []
    for c in trace.split():
        f = c.split('/')
        if len(f) >= 7:
            calls.append({'kind': f[0], 'name': f[1], 'state': f[2], 'ctx': f[3], 'ctxArg': f[4], 'payload': f[5], 'slots': f[6]})
    return {'res': res, 'calls': calls, 'drops': drops.split(), 'obs': obs,
            'overlaps': [c for c in trace.split() if c.startswith('overlap/')]}

def strip_overlaps(l):
    """`overlap/<a>/<b>` trace tokens (an async hook called before the previous one had started) are the
    harness's own observation; the model has no counterpart, the C15 oracle reads them"""
    if 'overlap/' not in l:
        return l
    parts = l.split(' | ')
    if len(parts) != 4:
        return l
    parts[1] = ' '.join(c for c in parts[1].split() if not c.startswith('overlap/'))
    return ' | '.join(parts)

def obs_state(obs):
    """(mode, state, ctx or None, slots/reads dict)"""
    t = obs.split(':')
    if t[0] == 'dyn':
        reads = dict(x.split('=') for x in t[2].split(';') if '=' in x) if len(t) > 2 else {}
        return ('dyn', t[1], None, reads)
    if t[0] == 'typed':
        slots = dict(x.split('=') for x in t[3].split(';') if '=' in x) if len(t) > 3 else {}
        return ('typed', t[1], t[2], slots)
    return ('gone', None, None, {})

def parse_op(line):
    a, b, c = line.split(' ; ')
    toks = a.split()
    sigma = [] if b.strip() == '-' else [x for x in b.strip().split(',') if x]
    script = [] if c.strip() == '-' else c.split()
    ents = []
    for s in script:
        e = {}
        if s != '-':
            for kv in s.split(','):
                if '=' in kv:
                    k, v = kv.split('=', 1)
                    e[k] = v
        ents.append(e)
    return toks, sigma, ents

# ---------------------------------------------------------------------------------------
# property oracles: each takes (scenario record) and yields failure dicts

def edge_of(info, state, ev_key, by):
    for e in info['edges']:
        if e['src'] == state:
            evn = e['event']
            evi = [x for x in info['events'] if x['name'] == evn][0]
            if evi[by] == ev_key:
                return e, evi
    return None, None

def oracles(rec):
    """evaluate every runtime property's predicate on the implementation's observations of one
    scenario; returns list of {'property', 'op_index', 'what'}"""
    info = rec['info']
    out = []
    prev = ('gone', None, None, {})
    leaf_data = {s['state']: s for s in info['storage'] if s['leaf']}
    states = [s['name'] for s in info['states']]
    ctx_id = None
    ctx_drops = 0
    alive = False
    for i, (opl, il) in enumerate(zip(rec['ops'], rec['impl'])):
        o = parse_line(il)
        if o is None:
            out.append({'property': 'HARNESS', 'op_index': i, 'what': 'unparsable line ' + il[:80]})
            break
        toks, sigma, ents = parse_op(opl)
        op = toks[0]
        cur = obs_state(o['obs'])
        def fail(p, what):
            out.append({'property': p, 'op_index': i, 'what': what})
        for ov in o['overlaps']:
            f_ = ov.split('/')
            fail('C15', f'hook {f_[2]} was called before hook {f_[1]}, called earlier, had started: hooks of an async '
                        'transition must run one after the other')
        # ---- C16 bookkeeping: context identity and drop counts
        if op in ('newdyn', 'newtyped', 'default') and o['res'] == 'unit':
            ctx_id = toks[1] if op != 'default' else '0'
            ctx_drops = 0
            alive = True
        for dr in o['drops']:
            if dr.startswith('ctx:'):
                if dr[4:] != (ctx_id or ''):
                    fail('C16', f'a context other than the machine\'s was dropped: {dr}')
                ctx_drops += 1
                if ctx_drops > 1:
                    fail('C16', 'context dropped more than once')
                alive = False
        if any(dr.startswith('ctx:') for dr in o['drops']) and not (
                op in ('drop', 'newdyn', 'newtyped', 'default') or o['res'].startswith('panic') or o['res'] == 'abandoned'):
            fail('C16', f'the context was dropped by `{op}` (result {o["res"]}) although the machine was not dropped')
        if cur[0] == 'typed' and ctx_id is not None and cur[2] != ctx_id:
            fail('C16', f'machine carries context {cur[2]} but was created with {ctx_id}')
        for c in o['calls']:
            if ctx_id is not None and c['ctx'] != ctx_id:
                fail('C16', f'hook {c["name"]} saw context {c["ctx"]} instead of {ctx_id}')
            if c['kind'] == 'cond' and c['ctxArg'] != c['ctx']:
                fail('C16', f'guard {c["name"]} was handed context {c["ctxArg"]} but the machine carries {c["ctx"]}')
        if op in ('handle', 'tcall', 'habandon', 'tabandon', 'hnopoll', 'tnopoll') and o['res'] != 'nosuch':
            p = toks[2]
            n = sum(1 for d in o['drops'] if d == f'pay:{p}')
            if p != '-' and n != 1:
                fail('C16', f'payload {p} dropped {n} times during the call')
            if p == '-' and any(d.startswith('pay:') for d in o['drops']):
                fail('C16', 'a payload was dropped by a call that took none')
        if cur[0] == 'gone' and alive and op not in ('into',) and prev[0] != 'gone':
            fail('C16', 'machine is gone but its context was not dropped')
        # ---- C19: a dispatch that returns (Ok or Err) leaves the machine in a declared state and usable
        if op == 'handle' and prev[0] == 'dyn' and prev[1] in states and (o['res'] == 'ok' or o['res'].startswith('errdyn:')):
            if cur[0] != 'dyn' or cur[1] not in states:
                fail('C19', f'handle returned {o["res"]} but the machine is now {cur[1]}')
        # ---- C02: the typed method of an event exists on M<s> whenever the relation has an edge from s
        if op == 'tcall' and prev[0] == 'typed' and o['res'] == 'nosuch' and prev[1] in states:
            e0, _ = edge_of(info, prev[1], toks[1], 'method')
            if e0 is not None:
                fail('C02', f'{prev[1]} --{e0["event"]}--> {e0["target"]} is declared, but the machine typed in {prev[1]} has no '
                            f'method `{toks[1]}`')
        # ---- transitions
        if op in ('handle', 'tcall') and prev[0] in ('dyn', 'typed') and o['res'] != 'nosuch' and prev[1] in states:
            dyn = op == 'handle'
            if dyn and prev[0] != 'dyn':
                prev = cur
                continue
            src = prev[1]
            e, evi = edge_of(info, src, toks[1], 'pascal' if dyn else 'method')
            ev_name = None
            if dyn:
                evs = [x for x in info['events'] if x['pascal'] == toks[1]]
                ev_name = evs[0]['name'] if evs else None
            res = o['res']
            if e is None:
                if dyn:
                    # C01/C12: refused as invalid, naming state and event; state unchanged; no hook
                    if res != f'errdyn:IT:{src}:{ev_name}':
                        if res.startswith(f'errdyn:IT:{src}:') or res.startswith('errdyn:IT:'):
                            # refused as invalid, but the error does not name the state / the declared event
                            fail('C12', f'invalid-transition error for event {ev_name} in state {src} reads {res}')
                        else:
                            fail('C01', f'event {ev_name} has no transition from {src} but handle returned {res}')
                    if o['calls']:
                        fail('C01', 'hooks ran for an event with no transition')
                    if cur[1] != src:
                        fail('C01', f'state changed from {src} to {cur[1]} on a refused event')
                prev = cur
                continue
            if dyn and res.startswith('errdyn:IT:') and not o['calls']:
                # refused as invalid without running a single hook, although the declared relation has an edge
                fail('C01', f'{src} --{e["event"]}--> {e["target"]} is declared, but handle refused the event as invalid ({res})')
                fail('C09', f'the typed method of {e["event"]} exists on a machine in {src}, but handle reports {res}')
                prev = cur
                continue
            nab = len(e['ar'])
            conds = [(g, True) for g in e['g']] + [(u, False) for u in e['u']]
            exp_calls = ([('ab', n, src) for n in e['ar']] + [('cond', n, src) for n, _ in conds] +
                         [('before', n, src) for n in e['b']] + [('after', n, e['target']) for n in e['a']] +
                         [('aa', n, e['target']) for n in e['ar']])
            got_calls = [(c['kind'], c['name'], c['state']) for c in o['calls']]
            # the documented order: what ran must be a prefix of the documented list (C04)
            if got_calls != exp_calls[:len(got_calls)]:
                fail('C04', f'hooks ran out of the documented order: got {got_calls}, documented {exp_calls}')
            def ent(k):
                return ents[k] if k < len(ents) else {}
            def stop_at(k):
                """what the documented semantics says about hook k given its scripted answer:
                None = continue, else (category, expected result)"""
                kind, name, st = exp_calls[k]
                en = ent(k)
                if en.get('x') == '1':
                    return ('C19', ('panic', 'hook'))
                if kind == 'ab' and 'a' in en:
                    a = en['a']
                    nm = name if a == 'I' else a.split('~', 1)[1]
                    return ('C06', ('err', nm, a))
                if kind == 'cond':
                    ans = (en['b'] == '1') if 'b' in en else (name in sigma)
                    if ans != conds[k - nab][1]:
                        return ('C03', ('err', name, 'G~' + name))
                if kind == 'aa' and 'a' in en:
                    a = en['a']
                    nm = name if a == 'I' else a.split('~', 1)[1]
                    return ('C06', ('panic', f'after:{nm}:{e["event"]}'))
                return None
            is_ok = res == 'ok'
            is_err = res.startswith('errguard:') or res.startswith('errdyn:GF:') or res.startswith('errdyn:AF:') or res.startswith('errdyn:IT:')
            expected = None
            cat = None
            if got_calls == exp_calls[:len(got_calls)]:
                # follow the hooks that actually ran; the first one whose scripted answer the
                # implementation did not honour decides which property is violated
                for k in range(len(got_calls)):
                    st = stop_at(k)
                    if st is not None:
                        cat, expected = st
                        if k != len(got_calls) - 1:
                            fail(cat, f'hook #{k} ({exp_calls[k][0]} {exp_calls[k][1]}) answered so that the call must stop there '
                                      f'({expected}), but {len(got_calls) - k - 1} more hooks ran')
                            expected = None
                        break
                else:
                    if len(got_calls) < len(exp_calls):
                        lastk = exp_calls[len(got_calls) - 1][0] if got_calls else exp_calls[0][0]
                        cat = {'cond': 'C03', 'ab': 'C06', 'aa': 'C06'}.get(lastk, 'C04')
                        if not res.startswith('panic:hook'):
                            fail(cat, f'the call stopped after {len(got_calls)} of {len(exp_calls)} hooks with {res} although every '
                                      f'hook that ran let it proceed')
                    else:
                        cat, expected = 'C04', ('ok',)
            if expected is not None:
                if expected[0] == 'ok':
                    if not is_ok:
                        fail('C03' if (res.startswith('errguard') or res.startswith('errdyn:GF')) else cat,
                             f'every hook let the call proceed but it returned {res}')
                elif expected[0] == 'err':
                    nm, k = expected[1], expected[2]
                    if dyn:
                        if k == 'I':
                            want = f'errdyn:IT:{src}:{e["event"]}'
                            if res != want:
                                # C12: an invalid-transition error from a dynamic machine names the state it was in
                                fail('C12' if res.startswith('errdyn:IT:') else cat,
                                     f'around Before aborted with InvalidTransition in state {src}: handle returned {res}')
                        else:
                            want = {'G': f'errdyn:GF:{k[2:]}:{e["event"]}', 'A': f'errdyn:AF:{k[2:]}:{e["event"]}'}[k[0]]
                            if res != want:
                                fail(cat, f'expected {want}, handle returned {res}')
                                if res.startswith('errdyn:') and res[7:9] != want[7:9]:
                                    # the typed method fails with this kind; the wrapper reports another one
                                    fail('C09', f'the typed method fails with {k}; handle reports {res}')
                    else:
                        want = f'errguard:{nm}:{e["event"]}:{k}'
                        if res != want:
                            fail(cat, f'expected {want}, method returned {res}')
                elif expected[0] == 'panic':
                    if res != 'panic:' + expected[1]:
                        fail(cat, f'expected panic {expected[1]}, got {res}')
            # C04, conditioned on an observed success
            if is_ok:
                if got_calls != exp_calls:
                    fail('C04', f'call succeeded but the hooks that ran are {got_calls}; documented: {exp_calls}')
                    # which kind of hook is not what was declared for this edge
                    def of(kinds, calls):
                        return [(k, n) for (k, n, _) in calls if k in kinds]
                    if of(('cond',), got_calls) != of(('cond',), exp_calls):
                        fail('C03', f'{src} --{e["event"]}--> fired after consulting {of(("cond",), got_calls)}; the conditions '
                                    f'declared for this transition are {of(("cond",), exp_calls)}')
                    if of(('ab', 'aa'), got_calls) != of(('ab', 'aa'), exp_calls):
                        fail('C06', f'{src} --{e["event"]}--> was bracketed by {of(("ab", "aa"), got_calls)}; the around callbacks '
                                    f'declared for this transition are {of(("ab", "aa"), exp_calls)}')
                if cur[1] != e['target']:
                    fail('C01', f'{src} --{e["event"]}--> should reach {e["target"]}, machine is in {cur[1]}')
                    if not dyn:
                        fail('C02', f'the method of {e["event"]} on a machine typed in {src} returns a machine typed in {cur[1]}; '
                                    f'the declared, resolved target is {e["target"]}')
                pl = toks[2] if evi['payload'] else '-'
                for c in o['calls']:
                    if c['kind'] in ('cond', 'before', 'after') and c['payload'] != pl:
                        fail('C04', f'hook {c["name"]} saw payload {c["payload"]}, caller supplied {pl}')
            # C05, conditioned on an observed refusal
            if is_err:
                if (cur[0], cur[1], cur[3]) != (prev[0], prev[1], prev[3]):
                    fail('C05', f'refused call changed the machine: before {prev}, after {cur}')
                    # C06: a veto at the Before stage *prevents* the transition: afterwards the machine is where it was
                    if cat == 'C06' and expected is not None and expected[0] == 'err' and (cur[0], cur[1]) != (prev[0], prev[1]):
                        fail('C06', f'around Before vetoed {e["event"]} in {src}: the transition must be prevented and the machine '
                                    f'stay in {src}, but afterwards it is {cur[0]}:{cur[1]}')
                if any(c['kind'] in ('before', 'after', 'aa') for c in o['calls']):
                    fail('C05', 'a callback or AfterSuccess stage ran although the call returned an error')
            if res.startswith('panic') and dyn and cur[1] != 'poisoned' and cur[1] != src:
                fail('C19', f'after a panicking dispatch the machine reports {cur[1]} (was {src})')
        # ---- C19: once poisoned, nothing is reported but unavailability
        if prev[0] == 'dyn' and prev[1] == 'poisoned':
            if op == 'state' and not o['res'].startswith('panic:invalid'):
                fail('C19', f'current_state on an abandoned machine returned {o["res"]}')
            if op == 'handle' and not o['res'].startswith('panic:invalid') and o['res'] != 'nosuch':
                fail('C19', f'handle on an abandoned machine returned {o["res"]}')
            if op == 'handle' and o['calls']:
                fail('C19', 'hooks ran on an abandoned machine')
            if op in ('read', 'write') and o['res'] not in ('val:-', 'nosuch'):
                fail('C19', f'data accessor on an abandoned machine returned {o["res"]}')
            if op == 'set' and not (o['res'].startswith('errdyn:WS:') and ':<extracted>:' in o['res']) and o['res'] != 'nosuch':
                fail('C19', f'setter on an abandoned machine returned {o["res"]}')
            if op == 'into' and o['res'] not in ('refused', 'nosuch'):
                fail('C19', f'into_<s> on an abandoned machine returned {o["res"]}')
        # ---- C08 / C11: data present iff in state (leaf data states), through the dynamic readers
        if cur[0] == 'dyn' and cur[1] in states:
            for st, v in cur[3].items():
                if st in leaf_data:
                    if (v != '-') != (cur[1] == st):
                        fail('C08', f'in state {cur[1]}: data of {st} is {"present" if v != "-" else "absent"}')
                        # observed through the dynamic reader: the reader is not gated by the current state
                        fail('C11', f'in state {cur[1]} the reader of {st} returns {"a value" if v != "-" else "nothing"}')
        if cur[0] == 'typed':
            for st, sp in leaf_data.items():
                v = cur[3].get(sp['field'], '-')
                if (v != '-') != (cur[1] == st):
                    fail('C08', f'typed machine in {cur[1]}: slot of {st} is {"present" if v != "-" else "absent"}')
        if op in ('handle', 'tcall') and o['res'] == 'ok' and cur[1] in leaf_data:
            # fresh on entry (also self-transitions): default unless an after-hook wrote it
            wrote = any('w' in e2 for e2 in ents)
            v = cur[3].get(cur[1], cur[3].get(leaf_data[cur[1]]['field']))
            if not wrote and v != '0':
                fail('C08', f'entered {cur[1]}: data is {v}, expected the default')
        if op == 'set' and prev[0] == 'dyn' and prev[1] in states and toks[1] in leaf_data:
            if prev[1] == toks[1]:
                if o['res'] != 'ok' or cur[3].get(toks[1]) != toks[2]:
                    fail('C11', f'set_{toks[1]} in state {prev[1]}: result {o["res"]}, read back {cur[3].get(toks[1])}')
            else:
                sn = leaf_data[toks[1]]['snake']
                if o['res'] != f'errdyn:WS:{toks[1]}:{prev[1]}:set_{sn}_data' or cur != prev:
                    fail('C11', f'set_{toks[1]} in state {prev[1]}: result {o["res"]}')
        # data of a superstate: readable / settable from exactly the leaves beneath it
        sup_data = {sp['state']: sp for sp in info['storage'] if not sp['leaf']}
        if op == 'set' and prev[0] == 'dyn' and prev[1] in states and toks[1] in sup_data:
            beneath = (prev[1], toks[1]) in info['substates'] or [prev[1], toks[1]] in info['substates']
            if beneath:
                if o['res'] != 'ok' or cur[3].get(toks[1]) != toks[2]:
                    fail('C11', f'set_{toks[1]} (data of a superstate) in its leaf {prev[1]}: result {o["res"]}, read back {cur[3].get(toks[1])}')
            elif not o['res'].startswith('errdyn:WS:') or cur != prev:
                fail('C11', f'set_{toks[1]} (data of a superstate) outside it, in {prev[1]}: result {o["res"]}')
        if op == 'read' and prev[0] == 'dyn' and prev[1] in states and toks[1] in sup_data:
            beneath = (prev[1], toks[1]) in info['substates'] or [prev[1], toks[1]] in info['substates']
            if not beneath and o['res'] != 'val:-':
                fail('C11', f'read {toks[1]} (data of a superstate) outside it, in {prev[1]}, returned {o["res"]}')
            if o['res'] != 'val:' + prev[3].get(toks[1], '-'):
                fail('C11', f'read {toks[1]} returned {o["res"]} but the value was {prev[3].get(toks[1])}')
        if op == 'read' and prev[0] == 'dyn' and prev[1] in states and toks[1] in leaf_data:
            if (o['res'] != 'val:-') != (prev[1] == toks[1]):
                fail('C11', f'read {toks[1]} in state {prev[1]} returned {o["res"]}')
            if o['res'] != 'val:' + prev[3].get(toks[1], '-'):
                fail('C11', f'read {toks[1]} returned {o["res"]} but the value was {prev[3].get(toks[1])}')
        # ---- C10 conversions
        if op == 'into' and prev[0] == 'dyn' and toks[1] in states:
            if prev[1] == toks[1]:
                if o['res'] != 'ok' or cur[0] != 'typed' or cur[1] != toks[1]:
                    fail('C10', f'into_{toks[1]} in state {prev[1]} gave {o["res"]} / {cur}')
                else:
                    for st, sp in leaf_data.items():
                        if cur[3].get(sp['field'], '-') != prev[3].get(st, '-'):
                            fail('C10', f'into_{toks[1]} changed data of {st}')
            elif prev[1] != 'poisoned':
                if o['res'] != 'refused' or cur != prev:
                    fail('C10', f'into_{toks[1]} in state {prev[1]} gave {o["res"]} / {cur}')
        if op == 'todyn' and prev[0] == 'typed' and o['res'] != 'nosuch':
            if cur[0] != 'dyn' or cur[1] != prev[1]:
                fail('C10', f'into_dynamic of a machine in {prev[1]} reports {cur[1]}')
            else:
                for st, sp in leaf_data.items():
                    if cur[3].get(st, '-') != prev[3].get(sp['field'], '-'):
                        fail('C10', f'into_dynamic changed data of {st}')
                # data of an enclosing superstate is readable from every leaf beneath it: it survives the conversion too
                for sp in info['storage']:
                    if not sp['leaf'] and (cur[1], sp['state']) in info['substates']:
                        if cur[3].get(sp['state'], '-') != prev[3].get(sp['field'], '-'):
                            fail('C10', f'into_dynamic changed the data of superstate {sp["state"]} (machine in {cur[1]}): '
                                        f'{prev[3].get(sp["field"], "-")} before, {cur[3].get(sp["state"], "-")} after')
        if op == 'default' and o['res'] == 'unit':
            # Default::default() is new(Default::default()): initial state, its data defaulted, nothing else
            if cur[0] != 'dyn' or cur[1] != info.get('initial'):
                fail('C10', f'Default::default() yields a machine in {cur[1]}; new() starts in {info.get("initial")}')
            else:
                # (`new` fills the slot of the initial leaf only: never that of a superstate around it)
                for st in [sp['state'] for sp in info['storage']]:
                    want = '0' if st == cur[1] else '-'
                    if cur[3].get(st, '-') != want:
                        fail('C10', f'Default::default() differs from new(Default::default()): data of {st} reads '
                                    f'{cur[3].get(st, "-")}, new() gives {want}')
        if op == 'state' and prev[0] == 'dyn' and prev[1] in states:
            if o['res'] != 'str:' + prev[1]:
                fail('C01', f'current_state returned {o["res"]} in state {prev[1]}')
        prev = cur
    return out

# ---------------------------------------------------------------------------------------

# ---------------------------------------------------------------------------------------
# C09: the same script through the dynamic wrapper and through the typed methods

# state names that clash on the pinned tree with what the dynamic wrapper writes unqualified (DESIGN §8); `C` is F6
PRELUDE_LIKE = {'C', 'Ok', 'Err', 'Result', 'Default'}
# words the runtime harness itself writes by full path around the definition: a suspect with a state of that name may
# fail to build because of the *harness* (false alarm found on harmless H12); that such names compile is T4 advpos's job
HARNESS_WORDS = {'None', 'Some', 'Option'}

def scn_pair(rng, info, d, n_ops=10):
    """(dynamic ops, typed ops): newdyn + handles / newtyped + the typed methods of the same events"""
    hooks = T.hooks_used(d)
    conds = sorted(n for n, (k, _) in hooks.items() if k in ('guards', 'unless'))
    guards = sorted(n for n, (k, _) in hooks.items() if k == 'guards')
    fields = [x['field'] for x in info['storage']]
    c = rng.randint(1, 50)
    dyn, typed = [T.op_line(f'newdyn {c}')], [T.op_line(f'newtyped {c}')]
    for _ in range(n_ops):
        sigma = [g for g in guards if rng.random() < 0.8] + [x for x in conds if x not in guards and rng.random() < 0.15]
        script = [T.rand_entry(rng, conds, fields, 0.15) for _ in range(8)]
        script = [x if 'x=1' not in x else '-' for x in script]
        ev = rng.choice(info['events'])
        p_ = str(rng.randint(100, 199)) if ev['payload'] else '-'
        dyn.append(T.op_line(f'handle {ev["pascal"]} {p_}', sigma, script))
        typed.append(T.op_line(f'tcall {ev["method"]} {p_}', sigma, script))
    dyn.append(T.op_line('drop'))
    typed.append(T.op_line('drop'))
    return dyn, typed

def compare_pair(info, dyn_ops, dl, tl):
    """first step at which the wrapper and the typed method disagree (C09); None if they agree"""
    src = None
    for i, (a, b) in enumerate(zip(dl, tl)):
        oa, ob = parse_line(a), parse_line(b)
        if oa is None or ob is None:
            return None
        ca, cb = obs_state(oa['obs']), obs_state(ob['obs'])
        toks = dyn_ops[i].split(' ; ')[0].split()
        if toks[0] == 'handle':
            evs = [x for x in info['events'] if x['pascal'] == toks[1]]
            evn = evs[0]['name'] if evs else '?'
            rt, rd = ob['res'], oa['res']
            if rt == 'nosuch':
                want = f'errdyn:IT:{src}:{evn}'
            elif rt == 'ok' or rt.startswith('panic'):
                want = rt
            elif rt.startswith('errguard:'):
                _, g, e_, k = rt.split(':', 3)
                want = (f'errdyn:IT:{src}:{e_}' if k == 'I' else
                        f'errdyn:GF:{k[2:]}:{e_}' if k.startswith('G~') else f'errdyn:AF:{k[2:]}:{e_}')
            else:
                want = rt
            if rd != want:
                return i, f'in state {src}: the typed method returns {rt}, so handle should return {want}; it returned {rd}'
            ka = [(c['kind'], c['name'], c['state'], c['ctx'], c['ctxArg'], c['payload'], c['slots']) for c in oa['calls']]
            kb = [(c['kind'], c['name'], c['state'], c['ctx'], c['ctxArg'], c['payload'], c['slots']) for c in ob['calls']]
            if ka != kb:
                return i, f'in state {src}: hooks seen through handle {ka} differ from hooks of the typed method {kb}'
            if rt.startswith('panic'):
                return None
            if ca[1] != cb[1]:
                return i, f'after the call the wrapper is in {ca[1]}, the typed machine in {cb[1]}'
        src = cb[1]
        if ca[1] != cb[1]:
            return i, f'the wrapper is in {ca[1]}, the typed machine in {cb[1]}'
    return None

def _perm(names):
    """an order-reversing bijection of a set of names onto itself"""
    srt = sorted(set(names))
    return dict(zip(srt, reversed(srt)))

def rename_def(d, neutral=False):
    """the same definition with states, superstates, events and hooks consistently renamed: within each
    kind the names are permuted so that their lexicographic order is reversed; with `neutral`, states,
    superstates and events get plain fresh names instead (Nst0, Nsup0, nev0, ...)"""
    leaves, sups, events, hooks = [], [], [], {}
    for it in d:
        if it[0] == 'states':
            leaves = D._leaf_names(it[1]); sups = D._sup_names(it[1])
        if it[0] == 'events':
            events = [b[0] for b in it[1]]
    for n, (kind, payload) in T.hooks_used(d).items():
        hooks.setdefault(n.rstrip('0123456789'), []).append(n)
    m = {}
    if neutral:
        m.update({n: f'Nst{i}' for i, n in enumerate(leaves)})
        m.update({n: f'Nsup{i}' for i, n in enumerate(sups)})
        m.update({n: f'nev{i}' for i, n in enumerate(events)})
    else:
        m.update(_perm(leaves)); m.update(_perm(sups)); m.update(_perm(events))
    if neutral:
        m.update({n: f'nh{i}' for i, n in enumerate(sorted(T.hooks_used(d)))})
    else:
        for grp in hooks.values():
            m.update(_perm(grp))
    def r(x):
        return m.get(x, x)
    def rb(items):
        out = []
        for b in items:
            if b[0] in ('state', 'leaf'):
                out.append((b[0], r(b[1]), b[2]))
            elif b[0] == 'sup':
                out.append(('sup', r(b[1]), b[2], rb(b[3])))
            elif b[0] == 'initial':
                out.append(('initial', r(b[1])))
            else:
                out.append(b)
        return out
    td = []
    for it in d:
        if it[0] == 'initial':
            td.append(('initial', r(it[1])))
        elif it[0] == 'name' and neutral:
            td.append(('name', 'Nmachine'))
        elif it[0] == 'states':
            td.append(('states', rb(it[1])) + tuple(it[2:]))
        elif it[0] == 'events':
            blocks = []
            for (en, items) in it[1]:
                ni = []
                for e in items:
                    if e[0] == 'transition':
                        tr = []
                        for t in e[1]:
                            if t[0] == 'from':
                                tr.append(('from', [r(x) for x in t[1]], t[2] if len(t) > 2 else True))
                            elif t[0] == 'to':
                                tr.append(('to', r(t[1])))
                            elif t[0] in D.HOOKS:
                                tr.append((t[0], [r(x) for x in t[1]], t[2] if len(t) > 2 else True))
                            else:
                                tr.append(t)
                        ni.append(('transition', tr))
                    elif e[0] in D.HOOKS:
                        ni.append((e[0], [r(x) for x in e[1]], e[2] if len(e) > 2 else True))
                    else:
                        ni.append(e)
                blocks.append((r(en), ni))
            td.append(('events', blocks) + tuple(it[2:]))
        else:
            td.append(it)
    return td, m

def name_map(info_a, info_b, hook_map):
    """(forward, inverse): `forward` maps what occurs in *operation* lines of definition a (state names, event
    names / variants / methods, hook names) to the twin's; `inverse` maps what occurs in the twin's *observation*
    lines (also snake_case forms, field names, setter names) back to a's. Either is None when it would be
    ambiguous as a textual map (one token standing for two different things): such a twin is not compared —
    the comparison is textual and a difference would be the harness's."""
    fwd, inv = {}, {}
    ok = [True, True]
    def put(m, which, k, v):
        if k in m and m[k] != v:
            ok[which] = False
        m[k] = v
    for k, v in hook_map.items():
        put(fwd, 0, k, v); put(inv, 1, v, k)
    for x, y in zip(info_a['states'], info_b['states']):
        put(fwd, 0, x['name'], y['name'])
        put(inv, 1, y['name'], x['name']); put(inv, 1, y['snake'], x['snake'])
    for x, y in zip(info_a['storage'], info_b['storage']):
        put(fwd, 0, x['state'], y['state']); put(fwd, 0, x['field'], y['field'])     # `w=<field>~v` in scripts
        put(inv, 1, y['state'], x['state']); put(inv, 1, y['field'], x['field'])
        put(inv, 1, 'set_' + y['snake'] + '_data', 'set_' + x['snake'] + '_data')
    for x, y in zip(info_a['events'], info_b['events']):
        put(fwd, 0, x['name'], y['name']); put(fwd, 0, x['pascal'], y['pascal']); put(fwd, 0, x['method'], y['method'])
        put(inv, 1, y['name'], x['name']); put(inv, 1, y['pascal'], x['pascal']); put(inv, 1, y['method'], x['method'])
    return (fwd if ok[0] else None), (inv if ok[1] else None)

_IDENT = None
def map_tokens(line, m):
    import re
    global _IDENT
    if _IDENT is None:
        _IDENT = re.compile(r'[A-Za-z_][A-Za-z0-9_]*')
    return _IDENT.sub(lambda mo: m.get(mo.group(0), mo.group(0)), line)

_MISSING = None
def missing_typed(err):
    """(method, state) pairs of rustc's E0599 `no method named m found for struct def::M<.., def::State>`"""
    import re
    global _MISSING
    if _MISSING is None:
        _MISSING = re.compile(r"no method named `(\w+)` found for struct `(?:\w+::)*\w+<(?:\w+, )?(?:\w+::)*(\w+)>`")
    return set(_MISSING.findall(err))

def map_op_line(line, m):
    """an operation line `<op args> ; <sigma> ; <script>` with the names renamed: the arguments of the operation and
    the names in sigma, and inside script entries only the names (`a=G~<name>`, `w=<field>~<n>`) - never the keys
    `b=`, `x=`, `s=`, `a=`, `w=`, which a state or an event may well be called"""
    parts = line.split(' ; ')
    if len(parts) != 3:
        return map_tokens(line, m)
    head = parts[0].split(' ')
    head = head[:1] + [map_tokens(t, m) for t in head[1:]]
    sigma = map_tokens(parts[1], m)
    ents = []
    for ent in parts[2].split(' '):
        kvs = []
        for kv in ent.split(','):
            if '=' in kv:
                k, v = kv.split('=', 1)
                if k == 'a' and '~' in v:
                    t_, n_ = v.split('~', 1)
                    v = t_ + '~' + map_tokens(n_, m)
                elif k == 'w' and '~' in v:
                    f_, n_ = v.split('~', 1)
                    v = map_tokens(f_, m) + '~' + n_
                kvs.append(k + '=' + v)
            else:
                kvs.append(kv)
        ents.append(','.join(kvs))
    return ' ; '.join([' '.join(head), sigma, ' '.join(ents)])

def gen_defs(tier, seed):
    cfg = TIERS[tier]
    rng = random.Random(seed * 7919 + 13)
    crates = []
    for ci in range(cfg['crates']):
        feature = (ci == cfg['crates'] - 1)
        ds = []
        for k in range(cfg['per_crate']):
            r = k % 7
            if r == 5:
                combo = (ci * cfg['per_crate'] + k) // 7
                d = T.assign_def(rng, bool(combo & 1), bool(combo & 2), bool(combo & 4), dynamic=not feature)
                fam = 'assign'
            elif r == 4:
                d = T.hier_def(rng, rng.random() < 0.3, rng.random() < 0.3, dynamic=not feature)
                fam = 'hier'
            elif r == 6:
                d = T.t3_def(rng, T.T3Shape(p_data=0.9), force={'dynamic': not feature})
                fam = 'data'
            else:
                d = T.t3_def(rng, force={'dynamic': (not feature) and rng.random() < 0.9})
                fam = 'walk'
            base = {'id': f'c{ci}m{k}', 'feature': feature, 'def': d, 'family': fam, 'crate': ci, 'mod': k}
            ds.append(base)
            if any(it[0] == 'async' and it[1] for it in d):
                # the sync expansion of the same definition (C15)
                ds.append({'id': f'c{ci}m{k}s', 'feature': feature, 'def': [it for it in d if it[0] != 'async'], 'family': fam,
                           'crate': ci, 'mod': 1000 + k, 'twin_of': base['id'], 'twin_kind': 'sync'})
            def multi(dd):
                for it in dd:
                    if it[0] == 'events':
                        for (_, items) in it[1]:
                            lists = [e for e in items if e[0] in D.HOOKS] + [t for e in items if e[0] == 'transition' for t in e[1] if t[0] in D.HOOKS]
                            if any(len(set(l[1])) >= 2 for l in lists):
                                return True
                            ev_g = [n for e in items if e[0] == 'guards' for n in e[1]]
                            tr_g = [n for e in items if e[0] == 'transition' for t in e[1] if t[0] == 'guards' for n in t[1]]
                            if ev_g and tr_g and set(ev_g) != set(tr_g):
                                return True
                return False
            if k % 3 == 0 or fam == 'assign' or multi(d):
                # a consistently renamed twin (C18)
                td, mapping = rename_def(d)
                ds.append({'id': f'c{ci}m{k}r', 'feature': feature, 'def': td, 'family': fam, 'crate': ci, 'mod': 2000 + k,
                           'twin_of': base['id'], 'twin_kind': 'ren', 'hook_map': mapping})
        crates.append(ds)
    # deterministic: the four generated shapes (x context mode, alternating), every hook kind at both levels
    full = []
    for k, (asy, pay) in enumerate(((False, False), (False, True), (True, False), (True, True))):
        d = T.full_def(asy, pay, concrete=bool(k % 2), dynamic=True, ptype=('PayC' if k == 3 else 'Pay'))
        base = {'id': f'full{k}', 'feature': False, 'def': d, 'family': 'full', 'crate': len(crates), 'mod': 7000 + k}
        full.append(base)
        if asy:
            full.append({'id': f'full{k}s', 'feature': False, 'def': [it for it in d if it[0] != 'async'], 'family': 'full',
                         'crate': len(crates), 'mod': 7100 + k, 'twin_of': base['id'], 'twin_kind': 'sync'})
            # the same shape without state data: the harness's async callbacks then take `&self` (see module_code)
            dn = T.full_def(asy, pay, concrete=bool(k % 2), dynamic=True, ptype=('PayC' if k == 3 else 'Pay'), data=False)
            basen = {'id': f'full{k}n', 'feature': False, 'def': dn, 'family': 'full', 'crate': len(crates), 'mod': 7200 + k}
            full.append(basen)
            full.append({'id': f'full{k}ns', 'feature': False, 'def': [it for it in dn if it[0] != 'async'], 'family': 'full',
                         'crate': len(crates), 'mod': 7300 + k, 'twin_of': basen['id'], 'twin_kind': 'sync'})
    # the same definitions started in a data leaf nested two superstates deep (both carrying data): `new` and `Default`
    # must agree on every slot, the enclosing superstates' included (seeded change C10-f)
    for k, (asy, pay) in enumerate(((False, False), (True, True))):
        d = T.full_def(asy, pay, concrete=bool(k % 2), dynamic=True, initial='HalfOpen')
        full.append({'id': f'full{k}i', 'feature': False, 'def': d, 'family': 'full', 'crate': len(crates), 'mod': 7400 + k})
    # a machine with 36 states and 40 events, every edge driven
    full.append({'id': 'big0', 'feature': False, 'def': T.big_def(), 'family': 'full', 'crate': len(crates), 'mod': 7500})
    crates.append(full)
    return crates

def run(tier, seed, work, repo, suspects=None, strict_suspects=None):
    """suspects: definitions on which the token-level tie found the expansion to differ from the
    model's; they are compiled (with harness types) and driven edge by edge, so that a broken tie comes
    with a concrete failing input whenever the difference is behavioural"""
    cfg = TIERS[tier]
    crates = gen_defs(tier, seed)
    if suspects or strict_suspects:
        ds = []
        for k, (feature, d, orig_id) in enumerate(suspects or []):
            try:
                td = T.t3ify(d)
            except Exception:
                continue
            ds.append({'id': f'sus{k}', 'feature': bool(feature), 'def': td, 'family': 'suspect', 'crate': len(crates), 'mod': k,
                       'suspect': True, 'style_id': orig_id})
            try:
                rd, mapping = rename_def(td, neutral=True)
                ds.append({'id': f'sus{k}r', 'feature': bool(feature), 'def': rd, 'family': 'suspect', 'crate': len(crates),
                           'mod': 3000 + k, 'suspect': True, 'twin_of': f'sus{k}', 'twin_kind': 'ren', 'hook_map': mapping})
            except Exception:
                pass
        # definitions built here around identifiers (harness-compatible by construction): a compile failure counts
        for k, (feature, d, orig_id) in enumerate(strict_suspects or []):
            ds.append({'id': f'nsus{k}', 'feature': bool(feature), 'def': d, 'family': 'suspect', 'crate': len(crates),
                       'mod': 5000 + k, 'suspect': True, 'strict': True, 'style_id': orig_id})
        # one crate per feature setting
        for feat in (False, True):
            sub = [x for x in ds if x['feature'] == feat]
            if sub:
                for x in sub:
                    x['crate'] = len(crates)
                crates.append(sub)
    allds = [x for c in crates for x in c]
    infos = T.get_infos([(x['id'], x['feature'], x['def']) for x in allds])
    root = os.path.join(work, 't3')
    shutil.rmtree(root, ignore_errors=True)
    os.makedirs(root, exist_ok=True)
    result = {'machines': 0, 'scenarios': 0, 'ops': 0, 'model_diffs': [], 'oracle_failures': [], 'build_errors': [],
              'families': {}, 'samples': [], 'hooks_traced': 0, 'shapes': {}}
    for x in allds:
        x['info'] = infos.get(x['id'], {'err': 'no info'})
        # the separator style of the DSL text is drawn per machine (a suspect keeps the style it had in T1/T2)
        x['text'] = D.to_text(x['def'], random.Random(zlib.crc32(x.get('style_id', x['id']).encode())))
    def build_unit(name, ds, feature, target=None):
        """builds one harness crate; the binary is copied to bin<name> (units of one crate share the
        crate's target directory, so the dependencies are compiled once)"""
        mods = [(x['mod'], T.module_code(x['mod'], x['def'], x['text'], x['info'])) for x in ds]
        cdir = os.path.join(root, f'crate{name}')
        T.write_crate(cdir, mods, repo, feature)
        tdir = os.path.join(root, f'target{target or name}')
        ok, err = T.build_crate(cdir, tdir)
        if ok:
            shutil.copy(os.path.join(tdir, 'debug', 't3crate'), os.path.join(root, f'bin{name}'))
        return ok, err
    def build(ci):
        ds = [x for x in crates[ci] if 'err' not in x['info']]
        feature = crates[ci][0]['feature']
        ok, err = build_unit(str(ci), ds, feature)
        if ok:
            return [(str(ci), ds, None)]
        # a crate that does not build: isolate the machines that do not compile (each is a
        # well-formed definition the macro should have handled) and keep going with the others
        groups = {}
        for x in ds:
            groups.setdefault(x.get('twin_of') or x['id'], []).append(x)
        def attempt(glist, tag):
            """one crate with a binary per group; returns {group index: built?}, stderr"""
            names = [f'u{tag}_{k}' for k in range(len(glist))]
            cdir = os.path.join(root, f'crate{ci}{tag}')
            T.write_multi_crate(cdir, [(names[k], [(x['mod'], T.module_code(x['mod'], x['def'], x['text'], x['info'], x.get('skip_typed'))) for x in g])
                                       for k, g in enumerate(glist)], repo, feature)
            tdir = os.path.join(root, f'target{ci}')
            _, err = T.build_multi_crate(cdir, tdir)
            okk = {}
            for k, nm in enumerate(names):
                b = os.path.join(tdir, 'debug', nm)
                okk[k] = os.path.exists(b)
                if okk[k]:
                    shutil.copy(b, os.path.join(root, f'bin{ci}_{nm}'))
            return names, okk, err
        def errs_of(err, nm, full=False):
            keep = [blk for blk in err.split('\n\n') if f'src/bin/{nm}.rs' in blk]
            t = '\n\n'.join(keep) or err
            return t if full else t[-3000:]
        glist = list(groups.values())
        names, okk, err = attempt(glist, 'a')
        # an escalated suspect whose harness does not compile because a typed method the model's relation has is
        # not there (E0599 on `Machine<.., State>`): that is C02's failing input; the harness is rebuilt without
        # those calls so that the other oracles still get to drive the machine
        for rnd in range(2):
            again = []
            for k, g in enumerate(glist):
                if okk[k] or not all(x.get('suspect') and not x.get('strict') for x in g):
                    continue
                miss = missing_typed(errs_of(err, names[k], full=True))
                new = False
                for x in g:
                    have = {(e['src'], ev['method']) for e in x['info'].get('edges', []) for ev in x['info']['events'] if ev['name'] == e['event']}
                    mine = {(st, me) for (me, st) in miss if (st, me) in have}
                    if mine - set(x.get('skip_typed') or ()):
                        x['skip_typed'] = sorted(set(x.get('skip_typed') or ()) | mine)
                        x['skip_typed'] = [tuple(t) for t in x['skip_typed']]
                        new = True
                if new:
                    again.append(k)
            if not again:
                break
            names_m, okk_m, err_m = attempt([glist[k] for k in again], 'm%d' % rnd)
            for j, k in enumerate(again):
                if okk_m[j]:
                    okk[k] = True
                    names[k] = names_m[j]
                else:
                    err = err + '\n\n' + errs_of(err_m, names_m[j], full=True).replace(f'src/bin/{names_m[j]}.rs', f'src/bin/{names[k]}.rs')
        units = []
        retry = []
        for k, g in enumerate(glist):
            if okk[k]:
                units.append((f'{ci}_{names[k]}', g, None))
            elif len(g) > 1:
                # a twin that does not build must not hide its base
                retry.append(([x for x in g if not x.get('twin_of')], errs_of(err, names[k])))
            else:
                units.append((f'{ci}_{names[k]}', g, errs_of(err, names[k])))
        if retry:
            names2, okk2, err2 = attempt([g for g, _ in retry], 'b')
            still = []
            for k, (g, e1) in enumerate(retry):
                units.append((f'{ci}_{names2[k]}', g, None if okk2[k] else errs_of(err2, names2[k])))
                if not okk2[k]:
                    still.append((k, g))
            # a base that does not build although its neutrally renamed twin does: the harness is not the
            # reason, the identifiers are — a well-formed definition that does not compile (C14)
            tw = []
            for k, g in still:
                full = [gg for gg in glist if gg and gg[0] is g[0]]
                twins = [x for x in (full[0] if full else []) if x.get('twin_kind') == 'ren']
                if twins:
                    tw.append((g, twins[:1]))
            if tw:
                names3, okk3, err3 = attempt([t for _, t in tw], 'c')
                for k, (g, t) in enumerate(tw):
                    # (not when the definition uses a prelude-like identifier: those clashes exist on the pinned
                    #  tree, are allowed by C18 and lie outside C14's domain — DESIGN §8)
                    def prelude_like(x):
                        names = {st['name'] for st in x['info'].get('states', [])} | set(x['info'].get('superstates', []))
                        return bool(names & (PRELUDE_LIKE | HARNESS_WORDS))
                    if okk3[k] and all(x['info'].get('accepted', True) and not prelude_like(x) for x in g):
                        for x in g:
                            x['strict'] = True
                            x['twin_builds'] = True
        return units
    with ThreadPoolExecutor(min(8, len(crates))) as ex:
        built = [u for us in ex.map(build, range(len(crates))) for u in us]
    result['compile_failures'] = []
    rng = random.Random(seed * 31 + 5)
    for uname, uds, berr in built:
        if berr is not None and all(x.get('suspect') and not x.get('strict') for x in uds):
            result['suspects_not_built'] = result.get('suspects_not_built', 0) + len(uds)
            result.setdefault('suspect_build_errors', []).append({'dsl': uds[0]['text'][:600], 'stderr': berr[-1200:]})
            continue
        if berr is not None:
            for x in uds:
                result['compile_failures'].append({'dsl': x['text'], 'feature': x['feature'], 'prefix': D.to_prefix(x['def']),
                                                   'note': ('its consistently renamed twin compiles' if x.get('twin_builds') else ''),
                                                   'stderr': berr[-2500:]})
            result['build_errors'].append({'crate': uname, 'stderr': berr[-3000:], 'definitions': [x['text'] for x in uds][:3]})
            continue
        scns = []
        by_id = {x['id']: x for x in uds}
        for x in uds:
            if x.get('skip_typed') and not x.get('twin_of'):
                result['oracle_failures'].append({
                    'property': 'C02', 'op_index': 0, 'sid': x['id'], 'family': 'suspect', 'dsl': x['text'], 'feature': x['feature'],
                    'prefix': D.to_prefix(x['def']), 'ops': [], 'observed': 'rustc E0599',
                    'what': 'typed method missing although the declared relation has the edge: ' +
                            ', '.join(f'Machine<{st}>::{me}' for st, me in x['skip_typed'][:6])})
        for x in uds:
            info = x['info']
            if 'err' in info or x.get('twin_of'):
                continue
            result['machines'] += 1
            shape = f"async={info['async']},concrete={info['concrete']},payload={any(e['payload'] for e in info['events'])},dynamic={info['dynamic']}"
            result['shapes'][shape] = result['shapes'].get(shape, 0) + 1
            fams = []
            if x.get('suspect') or x['family'] in ('hier', 'full') or any(not sp['leaf'] for sp in info['storage']):
                for ops in T.scn_edges(info, x['def'], cap_edges=(64 if x['id'].startswith('big') else 10)):
                    fams.append(('edges', ops))
                if x.get('suspect'):
                    result['suspects_driven'] = result.get('suspects_driven', 0) + 1
            for k in range(cfg['walks']):
                fams.append(('walk', T.scn_walk(rng, info, x['def'])))
            if info['async']:
                for k in range(2):
                    fams.append(('susp', T.scn_susp(rng, info, x['def'])))
            if x['family'] == 'assign':
                for mode in (['dyn'] if info['dynamic'] else []) + ['typed']:
                    for ops in T.scn_assign(rng, info, x['def'], mode):
                        fams.append(('assign', ops))
            if info['dynamic'] and info['events']:
                for k in range(cfg['pairs']):
                    dops, tops = scn_pair(rng, info, x['def'])
                    fams.append(('pair', dops))
                    fams.append(('pairt', tops))
            ab = T.scn_abandon(rng, info, x['def'])
            rng.shuffle(ab)
            for ops in ab[:cfg['abandon_cap']]:
                fams.append(('abandon', ops))
            for k, (fam, ops) in enumerate(fams):
                scns.append({'sid': f"{x['id']}.{fam}{k}", 'family': fam, 'x': x, 'ops': ops})
        binary = os.path.join(root, f'bin{uname}')
        # the same scenarios on the twins: sync twin of an async machine (C15), renamed twin (C18)
        twin_scns = []
        for t in uds:
            if not t.get('twin_of') or 'err' in t['info'] or t['twin_of'] not in by_id:
                continue
            base = by_id[t['twin_of']]
            if t['twin_kind'] == 'ren':
                t['nm'], t['inv'] = name_map(base['info'], t['info'], t['hook_map'])
                if t['nm'] is None or t['inv'] is None:
                    result['twins_skipped_ambiguous_names'] = result.get('twins_skipped_ambiguous_names', 0) + 1
                    continue
            for sc in scns:
                if sc['x'] is not base or sc['family'] == 'abandon':
                    continue
                if any(o.split()[0] in ('habandon', 'tabandon', 'hnopoll', 'tnopoll') for o in sc['ops']):
                    continue
                ops = sc['ops'] if t['twin_kind'] == 'sync' else [map_op_line(o, t['nm']) for o in sc['ops']]
                twin_scns.append({'sid': sc['sid'] + '.' + t['twin_kind'], 'of': sc, 'twin': t, 'ops': ops})
        impl, rc, err = T.run_impl_scenarios(binary, [(s['sid'], s['x']['mod'], s['ops']) for s in scns] +
                                             [(s['sid'], s['twin']['mod'], s['ops']) for s in twin_scns])
        model = T.run_model_scenarios([(s['sid'], s['x']['feature'], s['x']['def'], s['ops']) for s in scns])
        if rc != 0:
            result['build_errors'].append({'crate': uname, 'stderr': 'harness binary failed: ' + err})
        for s in scns:
            il = impl.get(s['sid'], [])
            ml = model.get(s['sid'], [])
            result['scenarios'] += 1
            result['ops'] += len(s['ops'])
            result['families'][s['family']] = result['families'].get(s['family'], 0) + 1
            result['hooks_traced'] += sum(l.count('/') // 6 for l in il)
            rec = {'sid': s['sid'], 'family': s['family'], 'dsl': s['x']['text'], 'feature': s['x']['feature'],
                   'prefix': D.to_prefix(s['x']['def']), 'ops': s['ops'], 'impl': il, 'model': ml, 'info': s['x']['info']}
            ilc = [strip_overlaps(l) for l in il]
            if ilc != ml:
                il_full, il = il, ilc
                k = next((j for j, (a, b) in enumerate(zip(il, ml)) if a != b), min(len(il), len(ml)))
                result['model_diffs'].append({'sid': s['sid'], 'family': s['family'], 'dsl': rec['dsl'], 'feature': rec['feature'],
                                              'prefix': rec['prefix'], 'ops': s['ops'][:k + 1], 'op_index': k,
                                              'impl': il[k] if k < len(il) else '<missing>',
                                              'model': ml[k] if k < len(ml) else '<missing>'})
            for f in oracles(rec):
                f.update(sid=s['sid'], family=s['family'], dsl=rec['dsl'], feature=rec['feature'], prefix=rec['prefix'],
                         ops=s['ops'][:f['op_index'] + 1], observed=il[f['op_index']] if f['op_index'] < len(il) else '')
                result['oracle_failures'].append(f)
            if len(result['samples']) < 4 and s['family'] in ('assign', 'abandon', 'walk') and len(il) > 3:
                if not any(x['family'] == s['family'] for x in result['samples']):
                    result['samples'].append({'family': s['family'], 'dsl': rec['dsl'][:500], 'ops': s['ops'][:4], 'observed': il[:4]})
        for j, sc in enumerate(scns):
            if sc['family'] != 'pair' or j + 1 >= len(scns) or scns[j + 1]['family'] != 'pairt':
                continue
            dl, tl = impl.get(sc['sid'], []), impl.get(scns[j + 1]['sid'], [])
            result['pair_scenarios'] = result.get('pair_scenarios', 0) + 1
            bad = compare_pair(sc['x']['info'], sc['ops'], dl, tl)
            if bad:
                k, what = bad
                result['oracle_failures'].append({
                    'property': 'C09', 'op_index': k, 'what': 'dynamic and typestate modes disagree: ' + what, 'sid': sc['sid'],
                    'family': 'pair', 'dsl': sc['x']['text'], 'feature': sc['x']['feature'], 'prefix': D.to_prefix(sc['x']['def']),
                    'ops': sc['ops'][:k + 1], 'observed': dl[k] if k < len(dl) else '<missing>',
                    'typed_ops': scns[j + 1]['ops'][:k + 1], 'typed_observed': tl[k] if k < len(tl) else '<missing>'})
        for ts in twin_scns:
            a = impl.get(ts['of']['sid'], [])
            b = impl.get(ts['sid'], [])
            kind = ts['twin']['twin_kind']
            if kind == 'ren':
                b = [map_tokens(l, ts['twin']['inv']) for l in b]
            result['twin_scenarios'] = result.get('twin_scenarios', 0) + 1
            if a != b:
                k = next((j for j, (p, q) in enumerate(zip(a, b)) if p != q), min(len(a), len(b)))
                prop = 'C15' if kind == 'sync' else 'C18'
                what = ('the async machine and the sync expansion of the same definition disagree' if kind == 'sync' else
                        'the machine and its consistently renamed twin disagree (after mapping the names back)')
                result['oracle_failures'].append({
                    'property': prop, 'op_index': k, 'what': what, 'sid': ts['sid'], 'family': ts['of']['family'],
                    'dsl': ts['of']['x']['text'], 'feature': ts['of']['x']['feature'], 'prefix': D.to_prefix(ts['of']['x']['def']),
                    'ops': ts['of']['ops'][:k + 1], 'observed': a[k] if k < len(a) else '<missing>',
                    'twin_dsl': ts['twin']['text'], 'twin_kind': kind, 'twin_ops': ts['ops'][:k + 1],
                    'twin_prefix': D.to_prefix(ts['twin']['def']),
                    'twin_inv': ts['twin'].get('inv'),
                    'twin_observed': b[k] if k < len(b) else '<missing>'})
    shutil.rmtree(root, ignore_errors=True)
    # a C01 failure on a definition that uses superstates is a C07 failure too (the relation the machine
    # follows is not the one the hierarchy declares)
    extra = []
    for f in result['oracle_failures']:
        if f['property'] == 'C01' and 'superstate' in f['dsl']:
            g = dict(f)
            g['property'] = 'C07'
            extra.append(g)
    result['oracle_failures'] += extra
    result['n_model_diffs'] = len(result['model_diffs'])
    result['n_oracle_failures'] = len(result['oracle_failures'])
    result['model_diffs'] = sorted(result['model_diffs'], key=lambda d: (len(d['dsl']), len(d['ops'])))[:60]
    # keep the smallest failing input per (property, what-prefix)
    seen = {}
    for f in sorted(result['oracle_failures'], key=lambda d: (len(d['dsl']), len(d['ops']))):
        key = (f['property'], f['what'][:40])
        if key not in seen:
            seen[key] = f
    result['oracle_failures'] = list(seen.values())[:80]
    return result


def replay_one(payload, work, repo):
    """rebuild a one-machine crate from /repo's current tree and re-run the recorded operations"""
    import t12
    d = None
    # the prefix form is authoritative; rebuild the tree through the DSL text
    d = D.parse_text(payload['dsl'])
    feature = bool(payload.get('feature'))
    infos = T.get_infos([('r', feature, d)])
    info = infos['r']
    root = os.path.join(work, 't3replay')
    shutil.rmtree(root, ignore_errors=True)
    code = T.module_code(0, d, payload['dsl'], info)
    T.write_crate(os.path.join(root, 'crate'), [(0, code)], repo, feature)
    ok, err = T.build_crate(os.path.join(root, 'crate'), os.path.join(root, 'target'))
    pre_fails = []
    if not ok:
        # a typed method of the declared relation that rustc does not find: C02's failing input; go on without it
        have = {(e['src'], ev['method']) for e in info.get('edges', []) for ev in info['events'] if ev['name'] == e['event']}
        skip = sorted({(st, me) for (me, st) in missing_typed(err) if (st, me) in have})
        if skip:
            pre_fails.append({'property': 'C02', 'op_index': 0, 'observed': 'rustc E0599',
                              'what': 'typed method missing although the declared relation has the edge: ' +
                                      ', '.join(f'Machine<{st}>::{me}' for st, me in skip[:6])})
            code = T.module_code(0, d, payload['dsl'], info, skip)
            T.write_crate(os.path.join(root, 'crate'), [(0, code)], repo, feature)
            ok, err = T.build_crate(os.path.join(root, 'crate'), os.path.join(root, 'target'))
    if not ok:
        shutil.rmtree(root, ignore_errors=True)
        return {'build_error': err[-3000:], 'impl': [], 'model': None,
                'oracle_failures': pre_fails + [{'property': 'C14', 'what': 'does not compile'}]}
    scn = [('r', 0, payload['ops'])]
    if payload.get('typed_ops'):
        scn.append(('rt', 0, payload['typed_ops']))
    impl, rc, e2 = T.run_impl_scenarios(os.path.join(root, 'target', 'debug', 't3crate'), scn)
    model = T.run_model_scenarios([('r', feature, d, payload['ops'])])
    shutil.rmtree(root, ignore_errors=True)
    rec = {'ops': payload['ops'], 'impl': impl.get('r', []), 'model': model.get('r', []), 'info': info}
    fails = pre_fails + oracles(rec)
    if payload.get('typed_ops'):
        bad = compare_pair(info, payload['ops'], impl.get('r', []), impl.get('rt', []))
        if bad:
            fails.append({'property': 'C09', 'op_index': bad[0], 'what': 'dynamic and typestate modes disagree: ' + bad[1]})
    if payload.get('twin_dsl') and payload.get('twin_ops'):
        # the twin machine (sync expansion / renamed definition) on the same operations
        td = D.parse_text(payload['twin_dsl'])
        tinfo = T.get_infos([('t', feature, td)])['t']
        tcode = T.module_code(0, td, payload['twin_dsl'], tinfo)
        T.write_crate(os.path.join(root, 'crate'), [(0, tcode)], repo, feature)
        ok, err = T.build_crate(os.path.join(root, 'crate'), os.path.join(root, 'target'))
        if ok:
            timpl, _, _ = T.run_impl_scenarios(os.path.join(root, 'target', 'debug', 't3crate'), [('t', 0, payload['twin_ops'])])
            b = timpl.get('t', [])
            if payload.get('twin_kind') == 'ren' and payload.get('twin_inv'):
                b = [map_tokens(l, payload['twin_inv']) for l in b]
            a = impl.get('r', [])
            if a != b:
                k = next((j for j, (x, y) in enumerate(zip(a, b)) if x != y), min(len(a), len(b)))
                fails.append({'property': 'C15' if payload.get('twin_kind') == 'sync' else 'C18', 'op_index': k,
                              'what': 'the machine and its twin disagree', 'observed': a[k] if k < len(a) else '<missing>',
                              'twin_observed': b[k] if k < len(b) else '<missing>'})
        shutil.rmtree(root, ignore_errors=True)
    return {'impl': rec['impl'], 'model': rec['model'], 'oracle_failures': fails}
