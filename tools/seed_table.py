#!/usr/bin/env python3
"""Prints the detection matrix recorded in seeded/*/meta.json as a markdown table (pasted into DESIGN §12)."""
import json, os
rows = []
for sid in sorted(os.listdir('/verif/seeded')):
    f = f'/verif/seeded/{sid}/meta.json'
    if not os.path.exists(f):
        continue
    m = json.load(open(f))
    det = m.get('detected_by') or {}
    fi = sorted(p for p, v in det.items() if v == 'failing-input')
    nfi = sorted(p for p, v in det.items() if v != 'failing-input')
    tgt = m['property']
    rows.append((sid, tgt, det.get(tgt, 'NOT REPORTED'), ' '.join(fi) or '—', ' '.join(nfi) or '—'))
print('| seed | target | target check reports | failing input found by | broken tie only (no-failing-input-found) |')
print('|---|---|---|---|---|')
for r in rows:
    print('| ' + ' | '.join(r) + ' |')
print()
n = len(rows)
print(f'{n} seeds; target reports a concrete failing input: {sum(1 for r in rows if r[2] == "failing-input")}; '
      f'target reports the broken tie only: {sum(1 for r in rows if r[2] == "no-failing-input-found")}; '
      f'target silent: {sum(1 for r in rows if r[2] == "NOT REPORTED")}')
