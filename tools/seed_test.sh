#!/bin/sh
# usage: seed_test.sh <seed-id> <property>...   apply the seeded patch to /repo, run the checks, undo
ID=$1; shift
cd /repo && git status --short | grep -q . && { echo "/repo dirty"; exit 2; }
git -C /repo apply /verif/seeded/$ID/patch.diff || { echo "patch does not apply"; exit 2; }
cd /verif
for P in "$@"; do
  ./check $P quick 2>/dev/null | tail -1
done
git -C /repo checkout -- .
