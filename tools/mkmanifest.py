#!/usr/bin/env python3
"""Regenerate /verif/MANIFEST.json from checklib/props.py."""
import json, sys
sys.path.insert(0, '/verif/checklib')
from props import PROPS, TRUSTED_BASE

ALL = [json.loads(l)['id'] for l in open('/verif/properties.jsonl')]
TECH = ('Lean 4 theorems (kernel-checked, axioms audited) over a hand-written executable model of the macro pipeline and of '
        'the meaning of the generated code; model tied to /repo on every run by differential correspondence: token-exact '
        'comparison with the real expansion (T1/T2){extra}')
checks = []
for pid in ALL:
    if pid not in PROPS:
        continue
    cfg = PROPS[pid]
    extra = ''
    if cfg.get('t3'):
        extra += ', compiled machines driven with scripted hooks vs the model (T3: ' + ','.join(cfg['t3']) + ')'
    if cfg.get('t4'):
        extra += ', rustc probe crates (T4: ' + ','.join(cfg['t4']) + ')'
    if cfg.get('t5'):
        extra += ', exhaustive comparison with the real core functions (T5)'
    checks.append({
        'property_id': pid,
        'quick_cmd': f'./check {pid} quick',
        'thorough_cmd': f'./check {pid} thorough',
        'evidence_file': f'/verif/evidence/{pid}.json',
        'replay_cmd_template': f'./check {pid} --replay {{path}}',
        'engine': 'lean4-model+correspondence',
        'level_claimed': {'category': 'proof', 'text': cfg.get('level_text', cfg['title']), 'design_ref': cfg['design_ref']},
        'level_note': cfg.get('level_note', '') + ' Trusted base: ' + ' | '.join(TRUSTED_BASE),
        'technique': TECH.format(extra=extra),
    })
na = []
NA = json.load(open('/verif/checklib/not_applicable.json'))
for pid in ALL:
    if pid not in PROPS:
        na.append({'property_id': pid, 'reason': NA.get(pid, 'check not built yet (work in progress; planned in DESIGN.md §7)')})
m = {
    'version': 1,
    'setup_cmd': './setup.sh',
    'hooks': {
        'guard': 'state_machines_rs_verif',
        'enable': 'no hook is needed: the macro crate\'s sources are compiled unchanged into the harness via #[path] (smx/build.rs), '
                  'and runtime checks drive machines built by the real proc-macro from /repo\'s working tree',
        'baseline_off_cmd': 'cd /repo && cargo test --workspace --no-fail-fast --offline',
        'source_commits': [],
        'add_only': True,
    },
    'engines': [{'name': 'lean4-model+correspondence', 'path': '/verif/lean', 'serves_properties': [c['property_id'] for c in checks],
                 'kind_free_text': 'Lean 4.33 model + theorems (lean/SMV), smx harness over the real macro sources, Python generator and comparators'}],
    'checks': checks,
    'not_applicable': na,
    'notes': 'See DESIGN.md. Every check rebuilds smx from /repo\'s current working tree; results of the shared correspondence run are cached '
             'under .work/cache keyed by a hash of /repo\'s sources, /verif\'s machinery, seed and tier.',
}
json.dump(m, open('/verif/MANIFEST.json', 'w'), indent=1)
print('checks', len(checks), 'not_applicable', len(na))
