#!/usr/bin/env python3
"""For every seeded change under /verif/seeded: apply it to the repository, run every claimed check (quick),
record which checks report a violation (and whether with a concrete failing input), undo.

  seed_matrix.py [seed-ids...]                 works on /repo itself (apply, run, `git checkout -- .`)
  seed_matrix.py --sandbox DIR [seed-ids...]   works on copies DIR/verif and DIR/repo (made here, removed at the
                                               end), so /verif can be edited meanwhile; only seeded/*/meta.json
                                               is written back
"""
import json, os, shutil, subprocess, sys
args = sys.argv[1:]
sandbox = None
SET = 'seeded'
TARGET_ONLY = False
while args and args[0] in ('--sandbox', '--set', '--target-only'):
    if args[0] == '--target-only':
        TARGET_ONLY = True     # re-run only the check of the property the seed was aimed at; updates that one entry
        args = args[1:]
        continue
    if args[0] == '--sandbox':
        sandbox = args[1]
    else:
        SET = args[1]          # `harmless`: behaviour-preserving changes; every check is expected to stay green
    args = args[2:]
only = args
VERIF, REPO = '/verif', '/repo'
env = dict(os.environ)
if sandbox:
    shutil.rmtree(sandbox, ignore_errors=True)
    os.makedirs(sandbox)
    subprocess.run(['cp', '-a', '/verif', f'{sandbox}/verif'], check=True)
    subprocess.run(['rsync', '-a', '--exclude', 'target', '/repo/', f'{sandbox}/repo/'], check=True)
    shutil.rmtree(f'{sandbox}/verif/.work/cache', ignore_errors=True)
    VERIF, REPO = f'{sandbox}/verif', f'{sandbox}/repo'
    env['VERIF_REPO'] = REPO
sys.path.insert(0, f'{VERIF}/checklib')
from props import PROPS
try:
    for sid in sorted(os.listdir(f'/verif/{SET}')):
        if only and sid not in only:
            continue
        d = f'/verif/{SET}/{sid}'
        if not os.path.exists(f'{d}/patch.diff'):
            continue
        assert subprocess.run(['git', '-C', REPO, 'status', '--short'], capture_output=True, text=True).stdout.strip() == ''
        r = subprocess.run(['git', '-C', REPO, 'apply', f'{d}/patch.diff'])
        if r.returncode != 0:
            print(sid, 'patch does not apply', flush=True); continue
        det = {}
        try:
            tgt_ = json.load(open(f'{d}/meta.json')).get('property')
            for pid in ([tgt_] if TARGET_ONLY else sorted(PROPS)):
                r = subprocess.run(['python3', f'{VERIF}/checklib/main.py', pid, 'quick'], cwd=VERIF, capture_output=True, text=True, env=env)
                line = [l for l in r.stdout.split('\n') if l.startswith('VIOLATION') or l.startswith('OK')]
                line = line[-1] if line else r.stdout[-200:]
                if line.startswith('VIOLATION'):
                    det[pid] = 'no-failing-input-found' if line.endswith('no-failing-input-found') else 'failing-input'
        finally:
            subprocess.run(['git', '-C', REPO, 'checkout', '--', '.'])
        meta = json.load(open(f'{d}/meta.json'))
        if TARGET_ONLY:
            old = dict(meta.get('detected_by') or {})
            old.pop(tgt_, None)
            old.update(det)
            det = old
        meta['detected_by'] = det
        json.dump(meta, open(f'{d}/meta.json', 'w'), indent=1)
        print(sid, meta['property'], det, flush=True)
finally:
    if sandbox:
        shutil.rmtree(sandbox, ignore_errors=True)
