#!/usr/bin/env python3
"""For every seeded change under /verif/seeded: apply it to /repo, run every claimed check (quick),
record which checks report a violation (and whether with a concrete failing input), undo."""
import json, os, subprocess, sys
sys.path.insert(0, '/verif/checklib')
from props import PROPS
only = sys.argv[1:]
for sid in sorted(os.listdir('/verif/seeded')):
    if only and sid not in only:
        continue
    d = f'/verif/seeded/{sid}'
    if not os.path.exists(f'{d}/patch.diff'):
        continue
    assert subprocess.run(['git', '-C', '/repo', 'status', '--short'], capture_output=True, text=True).stdout.strip() == ''
    r = subprocess.run(['git', '-C', '/repo', 'apply', f'{d}/patch.diff'])
    if r.returncode != 0:
        print(sid, 'patch does not apply'); continue
    det = {}
    try:
        for pid in sorted(PROPS):
            r = subprocess.run(['./check', pid, 'quick'], cwd='/verif', capture_output=True, text=True)
            line = [l for l in r.stdout.split('\n') if l.startswith('VIOLATION') or l.startswith('OK')]
            line = line[-1] if line else r.stdout[-200:]
            if line.startswith('VIOLATION'):
                det[pid] = 'no-failing-input-found' if line.endswith('no-failing-input-found') else 'failing-input'
    finally:
        subprocess.run(['git', '-C', '/repo', 'checkout', '--', '.'])
    meta = json.load(open(f'{d}/meta.json'))
    meta['detected_by'] = det
    json.dump(meta, open(f'{d}/meta.json', 'w'), indent=1)
    print(sid, meta['property'], det)
