#!/bin/sh
# usage: harmless_keep.sh <worktree-name> <id>
# Stores a sub-agent's behaviour-preserving change (patch + its REFACTOR.md) under /verif/harmless/<id>/ after
# confirming that the pinned suite passes with it.
set -u
WT=/tmp/wt/$1; ID=$2
OUT=/verif/harmless/$ID
mkdir -p $OUT
cd $WT || exit 2
git diff -- state-machines-macro/src state-machines-core/src state-machines/src > $OUT/patch.diff
[ -s $OUT/patch.diff ] || { echo "empty patch"; exit 2; }
cp REFACTOR.md $OUT/REFACTOR.md 2>/dev/null
cargo test --workspace --no-fail-fast --offline 2>&1 | grep -E "^test result" | awk '{p+=$4; f+=$6} END {print "passed",p,"failed",f}' > $OUT/run_suite.txt
S=$(grep -c "failed 0" $OUT/run_suite.txt)
echo "suite_ok=$S ($(cat $OUT/run_suite.txt))"
cat > $OUT/meta.json <<EOM
{"seed_id": "$ID", "property": "none (behaviour-preserving)", "confirmed": {"existing_suite_passes_with_change": $S}}
EOM
