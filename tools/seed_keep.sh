#!/bin/sh
# usage: seed_keep.sh <worktree-name> <seed-id> <property>
# Confirms a sub-agent's seeded change in its scratch worktree (demo fails with the change,
# passes without, existing suite passes with it) and stores it under /verif/seeded/<seed-id>/.
set -u
WT=/tmp/wt/$1; ID=$2; PROP=$3
OUT=/verif/seeded/$ID
mkdir -p $OUT
cd $WT || exit 2
git diff -- state-machines-macro/src state-machines-core/src state-machines/src > $OUT/patch.diff
cp state-machines/tests/seeded_demo.rs $OUT/seeded_demo.rs 2>/dev/null
cp SEEDED.md $OUT/SEEDED.md 2>/dev/null
echo "== demo with change (must fail)"; cargo test -p state-machines --test seeded_demo --offline 2>&1 | grep -E "^test result" > $OUT/run_with.txt; cat $OUT/run_with.txt
W=$(grep -c "test result: FAILED" $OUT/run_with.txt)
echo "== existing suite with change (must pass)"; mv state-machines/tests/seeded_demo.rs /tmp/seeded_demo_$ID.rs
cargo test --workspace --no-fail-fast --offline 2>&1 | grep -E "^test result" | awk '{p+=$4; f+=$6} END {print "passed",p,"failed",f}' > $OUT/run_suite.txt; cat $OUT/run_suite.txt
mv /tmp/seeded_demo_$ID.rs state-machines/tests/seeded_demo.rs
echo "== demo without change (must pass)"; git stash -q
cargo test -p state-machines --test seeded_demo --offline 2>&1 | grep -E "^test result|FAILED" | head -5 > $OUT/run_without.txt; cat $OUT/run_without.txt
git stash pop -q
WO=$(grep -c "test result: ok" $OUT/run_without.txt)
S=$(grep -c "failed 0" $OUT/run_suite.txt)
echo "confirmed: fails_with=$W passes_without=$WO suite_ok=$S"
cat > $OUT/meta.json <<EOM
{"seed_id": "$ID", "property": "$PROP", "confirmed": {"demo_fails_with_change": $W, "demo_passes_without": $WO, "existing_suite_passes_with_change": $S},
 "ran": ["cargo test -p state-machines --test seeded_demo --offline (with change, without change)", "cargo test --workspace --no-fail-fast --offline (with change, demo excluded)"]}
EOM
