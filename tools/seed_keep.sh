#!/bin/sh
# usage: seed_keep.sh <worktree-name> <seed-id> <property>
# Confirms a sub-agent's seeded change in its scratch worktree (demo fails with the change,
# passes without, existing suite passes with it) and stores it under /verif/seeded/<seed-id>/.
# (No `git stash`: the stash is shared by all worktrees of a repository.)
set -u
WT=/tmp/wt/$1; ID=$2; PROP=$3
OUT=/verif/seeded/$ID
mkdir -p $OUT
cd $WT || exit 2
git diff -- state-machines-macro/src state-machines-core/src state-machines/src > $OUT/patch.diff
[ -s $OUT/patch.diff ] || { echo "empty patch"; exit 2; }
cp SEEDED.md $OUT/SEEDED.md 2>/dev/null
if [ -f demo.sh ]; then
  cp demo.sh $OUT/demo.sh
  run_demo() { sh demo.sh > $1 2>&1; echo $?; }
  DEMO="sh demo.sh"
else
  cp state-machines/tests/seeded_demo.rs $OUT/seeded_demo.rs
  run_demo() { cargo test -p state-machines --test seeded_demo --offline 2>&1 | grep -E "^test result" > $1; grep -q "test result: ok" $1 && echo 0 || echo 1; }
  DEMO="cargo test -p state-machines --test seeded_demo --offline"
fi
RW=$(run_demo $OUT/run_with.txt)
[ -f state-machines/tests/seeded_demo.rs ] && mv state-machines/tests/seeded_demo.rs /tmp/seeded_demo_$ID.rs
cargo test --workspace --no-fail-fast --offline 2>&1 | grep -E "^test result" | awk '{p+=$4; f+=$6} END {print "passed",p,"failed",f}' > $OUT/run_suite.txt
[ -f /tmp/seeded_demo_$ID.rs ] && mv /tmp/seeded_demo_$ID.rs state-machines/tests/seeded_demo.rs
git apply -R $OUT/patch.diff
RWO=$(run_demo $OUT/run_without.txt)
git apply $OUT/patch.diff
W=0; [ "$RW" != "0" ] && W=1
WO=0; [ "$RWO" = "0" ] && WO=1
S=$(grep -c "failed 0" $OUT/run_suite.txt)
echo "confirmed: fails_with=$W passes_without=$WO suite_ok=$S ($(cat $OUT/run_suite.txt))"
cat > $OUT/meta.json <<EOM
{"seed_id": "$ID", "property": "$PROP", "confirmed": {"demo_fails_with_change": $W, "demo_passes_without": $WO, "existing_suite_passes_with_change": $S},
 "ran": ["$DEMO (with change, without change)", "cargo test --workspace --no-fail-fast --offline (with change, demo excluded)"]}
EOM
