#!/usr/bin/env python3
"""apply a seeded patch to /repo, run the shared preparation (T1/T2/T3...), summarise, undo"""
import sys, subprocess, json, collections
sys.path.insert(0, '/verif/checklib')
import main as M
sid = sys.argv[1]
assert subprocess.run(['git', '-C', '/repo', 'status', '--short'], capture_output=True, text=True).stdout.strip() == '', '/repo dirty'
subprocess.run(['git', '-C', '/repo', 'apply', f'/verif/seeded/{sid}/patch.diff'], check=True)
try:
    prep = M.prepare('quick', 1)
    t = prep.get('t12') or {}
    print('T12 diffs', t.get('ndiffs'), collections.Counter(d['region'] for d in t.get('diffs', [])))
    t3 = prep.get('t3') or {}
    print('T3 build errors', len(t3.get('build_errors', [])), 'model diffs', t3.get('n_model_diffs'),
          collections.Counter(d['family'] for d in t3.get('model_diffs', [])))
    print('oracle', collections.Counter(f['property'] for f in t3.get('oracle_failures', [])))
    for f in t3.get('oracle_failures', [])[:4]:
        print('   ', f['property'], f['what'][:150])
    for k in ('t4', 't5'):
        if prep.get(k):
            print(k, {a: b for a, b in prep[k].items() if a.startswith('n_') or a == 'failures'} if isinstance(prep[k], dict) else prep[k])
    for e in prep.get('errors', []):
        print('ERR', e[:500])
finally:
    subprocess.run(['git', '-C', '/repo', 'checkout', '--', '.'], check=True)
