import SMV.IR
/-
  L2 — code generation. Mirrors codegen/typestate.rs, codegen/dynamic.rs, codegen/mod.rs
  with the same case splits as the Rust code: the four separately written branches
  (payload × async) of every hook kind each build their node independently.
-/
namespace SMV

/-! ### typestate.rs -/

/-- `generate_constructor`. -/
def genCtor (m : Machine) (state : Name) : Ctor :=
  { ctxTy := m.context,
    slots := m.storage.map fun spec =>
      if spec.stateName = state then { field := spec.field, init := some spec.ty }
      else { field := spec.field, init := none } }

/-- guard check (the `for guard in &edge.guards` loop body). -/
def genGuardCheck (isAsync : Bool) (edge : Edge) (g : Name) : Check :=
  if edge.payload.isSome then
    if isAsync then
      { callee := g, negated := true, passPayload := true, await := true, errGuard := g, errEvent := edge.event }
    else
      { callee := g, negated := true, passPayload := true, await := false, errGuard := g, errEvent := edge.event }
  else if isAsync then
    { callee := g, negated := true, passPayload := false, await := true, errGuard := g, errEvent := edge.event }
  else
    { callee := g, negated := true, passPayload := false, await := false, errGuard := g, errEvent := edge.event }

/-- unless check (the `for guard in &edge.unless` loop body). -/
def genUnlessCheck (isAsync : Bool) (edge : Edge) (g : Name) : Check :=
  if edge.payload.isSome then
    if isAsync then
      { callee := g, negated := false, passPayload := true, await := true, errGuard := g, errEvent := edge.event }
    else
      { callee := g, negated := false, passPayload := true, await := false, errGuard := g, errEvent := edge.event }
  else if isAsync then
    { callee := g, negated := false, passPayload := false, await := true, errGuard := g, errEvent := edge.event }
  else
    { callee := g, negated := false, passPayload := false, await := false, errGuard := g, errEvent := edge.event }

def genBeforeCall (isAsync : Bool) (edge : Edge) (cb : Name) : Call :=
  if edge.payload.isSome then
    if isAsync then { callee := cb, passPayload := true, await := true }
    else { callee := cb, passPayload := true, await := false }
  else if isAsync then { callee := cb, passPayload := false, await := true }
  else { callee := cb, passPayload := false, await := false }

def genAfterCall (isAsync : Bool) (edge : Edge) (cb : Name) : Call :=
  if edge.payload.isSome then
    if isAsync then { callee := cb, passPayload := true, await := true }
    else { callee := cb, passPayload := true, await := false }
  else if isAsync then { callee := cb, passPayload := false, await := true }
  else { callee := cb, passPayload := false, await := false }

def genAroundBefore (isAsync : Bool) (edge : Edge) (cb : Name) : Around :=
  if isAsync then { callee := cb, await := true, fallback := cb, errEvent := edge.event }
  else { callee := cb, await := false, fallback := cb, errEvent := edge.event }

def genAroundAfter (isAsync : Bool) (edge : Edge) (cb : Name) : Around :=
  if isAsync then { callee := cb, await := true, fallback := cb, errEvent := edge.event }
  else { callee := cb, await := false, fallback := cb, errEvent := edge.event }

/-- `storage_transfers`. -/
def genSlots (m : Machine) (target : Name) : List Slot :=
  m.storage.map fun spec =>
    if spec.stateName = target then { field := spec.field, init := some spec.ty }
    else { field := spec.field, init := none }

/-- `generate_transition_method`. -/
def genMethod (m : Machine) (edge : Edge) : Method :=
  let isAsync := m.asyncMode
  let hasAround := !edge.around.isEmpty
  { name := toSnake edge.event,
    isAsync := isAsync,
    payload := edge.payload,
    machine := m.name,
    concreteCtx := m.context.isSome,
    target := edge.target,
    hasAround := hasAround,
    aroundBefore := if hasAround then edge.around.map (genAroundBefore isAsync edge) else [],
    checks := edge.guards.map (genGuardCheck isAsync edge) ++ edge.unl.map (genUnlessCheck isAsync edge),
    before := edge.before.map (genBeforeCall isAsync edge),
    slots := genSlots m edge.target,
    after := edge.after.map (genAfterCall isAsync edge),
    aroundAfter := if hasAround then edge.around.map (genAroundAfter isAsync edge) else [] }

/-- one iteration of the `for state in &machine.states` loop of `generate_state_impls`. -/
def genStateImpl (m : Machine) (state : Name) : Item :=
  .stateImpl m.name m.context state
    (if state = m.initial then some (genCtor m state) else none)
    ((m.outgoing state).map (genMethod m))

/-- `generate_storage_accessors`: `__state_data_x` ↦ `state_data_x`, `state_data_x_mut`.
    (`trim_start_matches("__")` on a field that always starts with exactly `__state`.) -/
def trimUnderscores : Name → Name
  | Ch.us :: Ch.us :: rest => trimUnderscores rest
  | n => n

def genStorageAcc (spec : StorageSpec) : StorageAcc :=
  let acc := trimUnderscores spec.field
  { field := spec.field, ty := spec.ty, accessor := acc, accessorMut := acc ++ Name.lit "_mut" }

/-- `generate_state_specific_accessors`, one spec. -/
def genStateAccImpl (m : Machine) (spec : StorageSpec) : Item :=
  let snake := toSnake spec.stateName
  .stateAccImpl m.name m.context.isSome spec.stateName spec.field spec.ty
    (snake ++ Name.lit "_data") (snake ++ Name.lit "_data_mut")

/-- `generate_state_impls`. -/
def genStateImpls (m : Machine) : List Item :=
  m.states.map (genStateImpl m) ++
  (if m.storage.isEmpty then []
   else .storageImpl m.name m.context.isSome (m.storage.map genStorageAcc)
        :: m.storage.map (genStateAccImpl m))

/-- `generate_substate_impls`. -/
def genSubstateImpls (m : Machine) : List Item :=
  m.states.flatMap fun leaf =>
    match alookup leaf m.hierarchy.ancestors with
    | some ancs => ancs.map fun a => Item.substateImpl a leaf
    | none => []

/-- insertion sort on names by their text (canonical order for the superstate markers,
    whose real order is that of `HashMap::keys()`). -/
def nameLe (a b : Name) : Bool := Name.toString a ≤ Name.toString b

def insertName (x : Name) : List Name → List Name
  | [] => [x]
  | y :: ys => if nameLe x y then x :: y :: ys else y :: insertName x ys

def sortNames (l : List Name) : List Name := l.foldr insertName []

/-- `generate_state_markers` (superstate markers in canonical order). -/
def genMarkers (m : Machine) : List Item :=
  (m.states ++ sortNames m.hierarchy.allSuperstates).map Item.marker

/-- `generate_machine_struct`. -/
def genMachineStruct (m : Machine) : Item :=
  .machineStruct m.name m.context (m.storage.map fun s => (s.field, s.ty))

/-- `generate_typestate_machine`. The `superstate_transition_impls` are empty whenever no
    superstate name is also a key of the graph, i.e. whenever no superstate shares its
    name with a leaf (such definitions are refused by rustc, E0428; see `Machine.deadPathFree`). -/
def genTypestate (m : Machine) : Code :=
  genMarkers m ++ [genMachineStruct m] ++ genStateImpls m ++ genSubstateImpls m

def Machine.deadPathFree (m : Machine) : Bool :=
  m.hierarchy.allSuperstates.all fun s => (m.outgoing s).isEmpty

/-! ### dynamic.rs -/

def dynamicName (m : Machine) : Name := Name.lit "Dynamic" ++ m.name
def anyStateName (m : Machine) : Name := Name.lit "Any" ++ m.name ++ Name.lit "State"
def eventEnumName (m : Machine) : Name := m.name ++ Name.lit "Event"

/-- `generate_event_enum`. -/
def genEventEnum (m : Machine) : Item :=
  .eventEnum (eventEnumName m)
    (m.events.map fun ev => (toPascal ev.name, ev.payload))
    (m.events.map fun ev => (toPascal ev.name, ev.payload.isSome, ev.name))

/-- `generate_any_state_enum`. -/
def genAnyStateEnum (m : Machine) : Item :=
  .anyStateEnum (anyStateName m) m.name m.context.isSome
    (if m.context.isSome then m.states.map fun s => (s, s) else m.states.map fun s => (s, s))
    (m.states.map fun s => (s, s))

/-- one `handle` arm (the four-way `if event.payload.is_some() { if is_async …` split). -/
def genArm (isAsync : Bool) (ev : Event) (eventPascal eventMethod : Name) (source : Name)
    (edge : Edge) : Arm :=
  if ev.payload.isSome then
    if isAsync then
      { src := source, variant := eventPascal, bindsPayload := true, method := eventMethod,
        passPayload := true, await := true, okVariant := edge.target, errVariant := source, errFrom := source }
    else
      { src := source, variant := eventPascal, bindsPayload := true, method := eventMethod,
        passPayload := true, await := false, okVariant := edge.target, errVariant := source, errFrom := source }
  else if isAsync then
    { src := source, variant := eventPascal, bindsPayload := false, method := eventMethod,
      passPayload := false, await := true, okVariant := edge.target, errVariant := source, errFrom := source }
  else
    { src := source, variant := eventPascal, bindsPayload := false, method := eventMethod,
      passPayload := false, await := false, okVariant := edge.target, errVariant := source, errFrom := source }

/-- the `for event … for state … for edge … if edge.event == *event_snake` loops. -/
def genArms (m : Machine) : List Arm :=
  m.events.flatMap fun ev =>
    let eventPascal := toPascal ev.name
    let eventMethod := toSnake ev.name
    m.states.flatMap fun state =>
      ((m.outgoing state).filter fun edge => edge.event = ev.name).map
        (genArm m.asyncMode ev eventPascal eventMethod state)

def genDynAcc (m : Machine) (spec : StorageSpec) : Option DynAcc :=
  let snake := toSnake spec.stateName
  let reachable := m.hierarchy.expandState spec.stateName m.states
  if reachable.isEmpty then none
  else some
    { readName := snake ++ Name.lit "_data",
      writeName := snake ++ Name.lit "_data_mut",
      setName := Name.lit "set_" ++ snake ++ Name.lit "_data",
      ty := spec.ty, field := spec.field, stateStr := spec.stateName, reachable := reachable }

/-- `generate_dynamic_machine`. -/
def genDynamicMachine (m : Machine) : List Item :=
  [ .dynStruct (dynamicName m) (anyStateName m) m.context.isSome,
    .dynImpl (dynamicName m) (anyStateName m) (eventEnumName m) m.name m.context
      m.initial m.asyncMode (genArms m) (m.storage.filterMap (genDynAcc m)),
    .defaultImpl (dynamicName m) m.context ]

/-- `generate_conversions`. -/
def genConversions (m : Machine) : List Item :=
  (if m.context.isSome then
     m.states.map fun s => Item.intoDynamicImpl m.name (dynamicName m) (anyStateName m) true s s
   else
     m.states.map fun s => Item.intoDynamicImpl m.name (dynamicName m) (anyStateName m) false s s) ++
  [ .extractImpl (dynamicName m) (anyStateName m) m.name m.context.isSome
      (if m.context.isSome then
         m.states.map fun s => (Name.lit "into_" ++ toSnake s, s, s)
       else
         m.states.map fun s => (Name.lit "into_" ++ toSnake s, s, s)) ]

/-- `generate_dynamic_wrapper`. -/
def genDynamic (m : Machine) : Code :=
  [genEventEnum m, genAnyStateEnum m] ++ genDynamicMachine m ++ genConversions m

/-! ### mod.rs -/

/-- `StateMachine::expand`; `feature` is `cfg!(feature = "dynamic")`. -/
def Machine.expand (m : Machine) (feature : Bool) : Except Err Code :=
  match m.validate with
  | .error e => .error e
  | .ok () =>
    if m.dynamicMode || feature then .ok (genTypestate m ++ genDynamic m)
    else .ok (genTypestate m)

/-- The whole macro: parse, then expand. -/
def expandDef (d : Def) (feature : Bool) : Except Err Code :=
  match parseMachine d with
  | .error e => .error e
  | .ok m => m.expand feature

end SMV
