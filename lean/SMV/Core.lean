import SMV.Exec
/-
  state-machines-core and the abort helper macros of the facade crate, transcribed.
  (`GuardError`, `DynError`, `DynError.fromGuardError` are in SMV/Exec.lean.)
-/
namespace SMV.Core
open SMV

/-- `TransitionError<S>` with the state marker as a name -/
structure TransitionError where
  frm : Name
  event : Name
  kind : Kind
  deriving DecidableEq, Repr

/-- `TransitionError::invalid_transition` -/
def TransitionError.invalidTransition (frm event : Name) : TransitionError := ⟨frm, event, .invalidTransition⟩
/-- `TransitionError::guard_failed` -/
def TransitionError.guardFailed (frm event guard : Name) : TransitionError := ⟨frm, event, .guardFailed guard⟩

/-- `abort_guard!(ctx, guard)` (both arms build the same value from the guard's name) -/
def abortGuard (ctxFrom ctxEvent guard : Name) : TransitionError := TransitionError.guardFailed ctxFrom ctxEvent guard
/-- `abort_with!(ctx, kind)` -/
def abortWith (ctxFrom ctxEvent : Name) (kind : Kind) : TransitionError := ⟨ctxFrom, ctxEvent, kind⟩

/-- `DynamicError::{invalid_transition, guard_failed, action_failed, wrong_state}` -/
def dynInvalid (frm event : Name) : DynError := .invalidTransition (.name frm) (.name event)
def dynGuard (guard event : Name) : DynError := .guardFailed (.name guard) (.name event)
def dynAction (action event : Name) : DynError := .actionFailed (.name action) (.name event)
def dynWrong (expected actual operation : Name) : DynError := .wrongState (.name expected) (.name actual) (.name operation)

end SMV.Core
