import SMV.Syntax
/-
  L1 — elaboration. Mirrors, in the order the Rust code performs them:

    parser.rs      Parse for StateMachine, parse_states_section, parse_superstate_block,
                   parse_events, parse_transition, storage_field_ident,
                   build_transition_graph
    types.rs       Hierarchy::{register_superstate, register_leaf, expand_state,
                   is_superstate, initial_child, resolve_target, all_superstates},
                   TransitionGraph::{add_edge, outgoing}
    validation.rs  validate

  `HashMap`s are association lists, newest binding first: `insert` prepends, `get` finds
  the first match (so insert = overwrite), `keys` de-duplicates.
-/
namespace SMV

inductive Err where
  | unexpectedKey (k : Name)
  | missingName | missingInitial | missingStates
  | duplicateState
  | superNoChild
  | superBadInitial
  | transMissingFrom | transMissingTo
  | initialNotLeaf
  | initialNotMember
  | eventNotSnake (suggested name : Name)
  | eventNoTransition
  | transNoSource
  | superTargetNoInitial
  | targetUndeclared
  | sourceUndeclared
  | superNoLeaves
  deriving DecidableEq, Repr, Inhabited

def Err.msg : Err → String
  | .unexpectedKey k => s!"unexpected key `{Name.toString k}`"
  | .missingName => "missing `name` field"
  | .missingInitial => "missing `initial` field"
  | .missingStates => "missing `states` field"
  | .duplicateState => "duplicate state"
  | .superNoChild => "superstate must declare at least one child state"
  | .superBadInitial => "`initial` must reference a descendant state"
  | .transMissingFrom => "transition missing `from`"
  | .transMissingTo => "transition missing `to`"
  | .initialNotLeaf => "`initial` must reference a leaf state"
  | .initialNotMember => "`initial` must be a member of `states`"
  | .eventNotSnake s n =>
      s!"event names must be in snake_case (e.g., '{Name.toString s}' instead of '{Name.toString n}')"
  | .eventNoTransition => "event must declare at least one transition"
  | .transNoSource => "transition must declare at least one source state"
  | .superTargetNoInitial => "superstate target must declare an initial child"
  | .targetUndeclared => "target state not declared in `states`"
  | .sourceUndeclared => "source state not declared in `states` or superstates"
  | .superNoLeaves => "superstate does not resolve to any leaf states"

/-! ### types.rs -/

structure StorageSpec where
  stateName : Name
  field : Name
  ty : Ty
  deriving Repr, Inhabited, DecidableEq

structure Hierarchy where
  /-- `superstates: Vec<SuperstateInfo>` (never read by the generators). -/
  superstates : List (List Name × Name) := []
  lookup : List (Name × List Name) := []
  ancestors : List (Name × List Name) := []
  initialChildren : List (Name × Name) := []
  deriving Repr, Inhabited, DecidableEq

/-- `HashMap::get` on an association list with newest binding first. -/
def alookup {β : Type} (k : Name) : List (Name × β) → Option β
  | [] => none
  | (k', v) :: rest => if k' = k then some v else alookup k rest

structure Transition where
  sources : List Name
  target : Name
  guards : List Name := []
  unl : List Name := []
  before : List Name := []
  after : List Name := []
  around : List Name := []
  deriving Repr, Inhabited, DecidableEq

structure Event where
  name : Name
  payload : Option Ty := none
  transitions : List Transition := []
  guards : List Name := []
  unl : List Name := []
  before : List Name := []
  after : List Name := []
  around : List Name := []
  deriving Repr, Inhabited, DecidableEq

structure Edge where
  target : Name
  event : Name
  guards : List Name
  unl : List Name
  before : List Name
  after : List Name
  around : List Name
  payload : Option Ty
  deriving Repr, Inhabited, DecidableEq

structure Machine where
  name : Name
  initial : Name
  context : Option Ty
  states : List Name
  storage : List StorageSpec
  hierarchy : Hierarchy
  events : List Event
  asyncMode : Bool
  dynamicMode : Bool
  /-- `TransitionGraph.edges`, flattened: `(source leaf, edge)` in insertion order.
      The real `HashMap<String, Vec<_>>` is only ever read through `outgoing`. -/
  graph : List (Name × Edge)
  deriving Repr, Inhabited

namespace Hierarchy

def registerSuperstate (h : Hierarchy) (n : Name) (desc : List Name) (ini : Name) : Hierarchy :=
  { h with lookup := (n, desc) :: h.lookup,
           initialChildren := (n, ini) :: h.initialChildren,
           superstates := h.superstates ++ [(desc, ini)] }

def registerLeaf (h : Hierarchy) (leaf : Name) (anc : List Name) : Hierarchy :=
  if anc.isEmpty then h else { h with ancestors := (leaf, anc) :: h.ancestors }

def expandState (h : Hierarchy) (ident : Name) (leaves : List Name) : List Name :=
  match alookup ident h.lookup with
  | some d => d
  | none => if leaves.contains ident then [ident] else []

def isSuperstate (h : Hierarchy) (ident : Name) : Bool :=
  (alookup ident h.lookup).isSome

def initialChild (h : Hierarchy) (ident : Name) : Option Name :=
  match alookup ident h.initialChildren with
  | some i => some i
  | none => match alookup ident h.lookup with
    | some d => d.head?
    | none => none

def resolveTarget (h : Hierarchy) (ident : Name) : Option Name :=
  if h.isSuperstate ident then h.initialChild ident else some ident

/-- `lookup.keys()`: each key once. (Order is unspecified in Rust; consumers sort.) -/
def allSuperstates (h : Hierarchy) : List Name :=
  (h.lookup.map (·.1)).eraseDups

end Hierarchy

/-! ### parser.rs — states section -/

/-- `storage_field_ident`: `__state_data_<snake>`. -/
def storageFieldIdent (n : Name) : Name := Name.lit "__state_data_" ++ toSnake n

structure PS where
  hier : Hierarchy := {}
  leaves : List Name := []
  seen : List Name := []
  storage : List StorageSpec := []
  deriving Repr, Inhabited

def PS.pushStorage (st : PS) (n : Name) : Option Ty → PS
  | none => st
  | some ty => { st with storage := st.storage ++ [⟨n, storageFieldIdent n, ty⟩] }

mutual
/-- The `while !content.is_empty()` loop of `parse_superstate_block`; `anc` already
    contains the enclosing superstate (the push happened before the loop). -/
def parseItems (anc : List Name) (items : List BItem) (st : PS) (desc : List Name)
    (ini : Option Name) : Except Err (PS × List Name × Option Name) :=
  match items with
  | [] => .ok (st, desc, ini)
  | .state n data :: rest =>
    if st.seen.contains n then .error .duplicateState else
    let st := { st with seen := n :: st.seen }
    let st := { st with hier := st.hier.registerLeaf n anc, leaves := st.leaves ++ [n] }
    parseItems anc rest (st.pushStorage n data) (desc ++ [n]) ini
  | .sup n data body :: rest =>
    if st.seen.contains n then .error .duplicateState else
    let st := { st with seen := n :: st.seen }
    let st := st.pushStorage n data
    match parseSuper n anc body st with
    | .error e => .error e
    | .ok (st, d, i) =>
      parseItems anc rest { st with hier := st.hier.registerSuperstate n d i } (desc ++ d) ini
  | .initial n :: rest => parseItems anc rest st desc (some n)
  | .unknown k :: _ => .error (.unexpectedKey k)

/-- `parse_superstate_block`. -/
def parseSuper (n : Name) (anc : List Name) (body : List BItem) (st : PS) :
    Except Err (PS × List Name × Name) :=
  match parseItems (anc ++ [n]) body st [] none with
  | .error e => .error e
  | .ok (st, desc, ini) =>
    match desc with
    | [] => .error .superNoChild
    | d0 :: _ =>
      match ini with
      | some i => if desc.contains i then .ok (st, desc, i) else .error .superBadInitial
      | none => .ok (st, desc, d0)
end

/-- `parse_states_section`. -/
def parseStates : List TItem → PS → Except Err PS
  | [], st => .ok st
  | .sup n data body :: rest, st =>
    if st.seen.contains n then .error .duplicateState else
    let st := { st with seen := n :: st.seen }
    let st := st.pushStorage n data
    match parseSuper n [] body st with
    | .error e => .error e
    | .ok (st, d, i) => parseStates rest { st with hier := st.hier.registerSuperstate n d i }
  | .leaf n data :: rest, st =>
    if st.seen.contains n then .error .duplicateState else
    let st := { st with seen := n :: st.seen }
    let st := { st with hier := st.hier.registerLeaf n [], leaves := st.leaves ++ [n] }
    parseStates rest (st.pushStorage n data)

/-! ### parser.rs — events -/

structure TrAcc where
  sources : Option (List Name) := none
  target : Option Name := none
  guards : List Name := []
  unl : List Name := []
  before : List Name := []
  after : List Name := []
  around : List Name := []

def parseTransitionItems : List TrItem → TrAcc → Except Err TrAcc
  | [], a => .ok a
  | .from l :: rest, a => parseTransitionItems rest { a with sources := some l }
  | .to n :: rest, a => parseTransitionItems rest { a with target := some n }
  | .hooks .guards l :: rest, a => parseTransitionItems rest { a with guards := l }
  | .hooks .unl l :: rest, a => parseTransitionItems rest { a with unl := l }
  | .hooks .before l :: rest, a => parseTransitionItems rest { a with before := l }
  | .hooks .after l :: rest, a => parseTransitionItems rest { a with after := l }
  | .hooks .around l :: rest, a => parseTransitionItems rest { a with around := l }
  | .unknown k :: _, _ => .error (.unexpectedKey k)

/-- `parse_transition`. -/
def parseTransition (items : List TrItem) : Except Err Transition :=
  match parseTransitionItems items {} with
  | .error e => .error e
  | .ok a =>
    match a.sources with
    | none => .error .transMissingFrom
    | some s =>
      match a.target with
      | none => .error .transMissingTo
      | some t => .ok ⟨s, t, a.guards, a.unl, a.before, a.after, a.around⟩

def parseEventItems : List EvItem → Event → Except Err Event
  | [], e => .ok e
  | .transition items :: rest, e =>
    match parseTransition items with
    | .error err => .error err
    | .ok t => parseEventItems rest { e with transitions := e.transitions ++ [t] }
  | .hooks .guards l :: rest, e => parseEventItems rest { e with guards := l }
  | .hooks .unl l :: rest, e => parseEventItems rest { e with unl := l }
  | .hooks .before l :: rest, e => parseEventItems rest { e with before := l }
  | .hooks .after l :: rest, e => parseEventItems rest { e with after := l }
  | .hooks .around l :: rest, e => parseEventItems rest { e with around := l }
  | .payload ty :: rest, e => parseEventItems rest { e with payload := some ty }
  | .unknown k :: _, _ => .error (.unexpectedKey k)

/-- `parse_events`. -/
def parseEvents : List EvBlock → List Event → Except Err (List Event)
  | [], acc => .ok acc
  | b :: rest, acc =>
    match parseEventItems b.items { name := b.name } with
    | .error e => .error e
    | .ok ev => parseEvents rest (acc ++ [ev])

/-! ### parser.rs — top level -/

structure TopAcc where
  name : Option Name := none
  initial : Option Name := none
  context : Option Ty := none
  states : Option (List Name) := none
  events : Option (List Event) := none
  asyncMode : Bool := false
  dynamicMode : Bool := false
  storage : List StorageSpec := []
  hier : Hierarchy := {}

def parseTop : List TopItem → TopAcc → Except Err TopAcc
  | [], a => .ok a
  | .name n :: rest, a => parseTop rest { a with name := some n }
  | .initial n :: rest, a => parseTop rest { a with initial := some n }
  | .context t :: rest, a => parseTop rest { a with context := some t }
  | .async b :: rest, a => parseTop rest { a with asyncMode := b }
  | .dynamic b :: rest, a => parseTop rest { a with dynamicMode := b }
  | .legacy _ :: rest, a => parseTop rest a
  | .unknown k :: _, _ => .error (.unexpectedKey k)
  | .states items :: rest, a =>
    match parseStates items {} with
    | .error e => .error e
    | .ok st => parseTop rest { a with states := some st.leaves, hier := st.hier, storage := st.storage }
  | .events blocks :: rest, a =>
    match parseEvents blocks [] with
    | .error e => .error e
    | .ok evs => parseTop rest { a with events := some evs }

/-! ### build_transition_graph -/

def edgesOfSource (h : Hierarchy) (states : List Name) (ev : Event) (tr : Transition)
    (source : Name) : List (Name × Edge) :=
  let expanded := h.expandState source states
  let resolved := (h.resolveTarget tr.target).getD tr.target
  expanded.map fun actual =>
    (actual, { target := resolved, event := ev.name,
               guards := ev.guards ++ tr.guards, unl := ev.unl ++ tr.unl,
               before := ev.before ++ tr.before, after := ev.after ++ tr.after,
               around := ev.around ++ tr.around, payload := ev.payload })

def edgesOfTransition (h : Hierarchy) (states : List Name) (ev : Event) (tr : Transition) :
    List (Name × Edge) :=
  tr.sources.flatMap (edgesOfSource h states ev tr)

def edgesOfEvent (h : Hierarchy) (states : List Name) (ev : Event) : List (Name × Edge) :=
  ev.transitions.flatMap (edgesOfTransition h states ev)

def buildGraph (h : Hierarchy) (states : List Name) (events : List Event) : List (Name × Edge) :=
  events.flatMap (edgesOfEvent h states)

/-- `<StateMachine as Parse>::parse`. -/
def parseMachine (d : Def) : Except Err Machine :=
  match parseTop d {} with
  | .error e => .error e
  | .ok a =>
    match a.name with
    | none => .error .missingName
    | some name =>
      match a.initial with
      | none => .error .missingInitial
      | some initial =>
        match a.states with
        | none => .error .missingStates
        | some states =>
          let events := a.events.getD []
          .ok { name, initial, context := a.context, states, storage := a.storage,
                hierarchy := a.hier, events, asyncMode := a.asyncMode,
                dynamicMode := a.dynamicMode, graph := buildGraph a.hier states events }

/-- `TransitionGraph::outgoing`. -/
def Machine.outgoing (m : Machine) (s : Name) : List Edge :=
  (m.graph.filter (·.1 = s)).map (·.2)

/-! ### validation.rs -/

def firstDup : List Name → List Name → Bool
  | _, [] => false
  | seen, x :: xs => if seen.contains x then true else firstDup (x :: seen) xs

def validateSources (m : Machine) : List Name → Except Err Unit
  | [] => .ok ()
  | s :: rest =>
    let isLeaf := m.states.contains s
    let isSuper := m.hierarchy.isSuperstate s
    if !(isLeaf || isSuper) then .error .sourceUndeclared
    else if (m.hierarchy.expandState s m.states).isEmpty then .error .superNoLeaves
    else validateSources m rest

def validateTransition (m : Machine) (tr : Transition) : Except Err Unit :=
  if tr.sources.isEmpty then .error .transNoSource else
  let resolved : Except Err Name :=
    if m.hierarchy.isSuperstate tr.target then
      match m.hierarchy.resolveTarget tr.target with
      | some r => .ok r
      | none => .error .superTargetNoInitial
    else .ok tr.target
  match resolved with
  | .error e => .error e
  | .ok r =>
    if !m.states.contains r then .error .targetUndeclared
    else validateSources m tr.sources

def validateTransitions (m : Machine) : List Transition → Except Err Unit
  | [] => .ok ()
  | t :: rest =>
    match validateTransition m t with
    | .error e => .error e
    | .ok () => validateTransitions m rest

def validateEvent (m : Machine) (ev : Event) : Except Err Unit :=
  if !isSnake ev.name then .error (.eventNotSnake (toSnake ev.name) ev.name)
  else if ev.transitions.isEmpty then .error .eventNoTransition
  else validateTransitions m ev.transitions

def validateEvents (m : Machine) : List Event → Except Err Unit
  | [] => .ok ()
  | e :: rest =>
    match validateEvent m e with
    | .error err => .error err
    | .ok () => validateEvents m rest

/-- `StateMachine::validate`. -/
def Machine.validate (m : Machine) : Except Err Unit :=
  if m.hierarchy.isSuperstate m.initial then .error .initialNotLeaf
  else if !m.states.contains m.initial then .error .initialNotMember
  else if firstDup [] m.states then .error .duplicateState
  else validateEvents m m.events

end SMV
