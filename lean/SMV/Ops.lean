import SMV.Exec
/-
  The public API of a generated machine as an operation language, with its meaning in terms
  of SMV/Exec.lean, including the drop log. This is what T3 compares with compiled machines
  (the harness in /verif/rt implements the same operations against the real generated code)
  and what the history-level theorems (C01, C08, C10, C11, C16, C19) quantify over.
-/
namespace SMV

/-- what the test harness (or any caller) holds -/
inductive Holder where
  | typed (m : TM)
  | dyn (d : DM)
  | gone
  deriving DecidableEq, Repr, Inhabited

inductive Op where
  | newTyped (ctx : Nat)
  | newDyn (ctx : Nat)
  | dynDefault
  | handle (variant : Name) (payload : Option Nat)
  | handleAbandon (variant : Name) (payload : Option Nat) (point : Nat)   -- dropped while its hook #at is pending
  | handleNoPoll (variant : Name) (payload : Option Nat)               -- future created, dropped unpolled
  | currentState
  | read (state : Name)
  | write (state : Name) (v : Nat)
  | set (state : Name) (v : Nat)
  | into (state : Name)
  | toDyn
  | tcall (method : Name) (payload : Option Nat)
  | tcallAbandon (method : Name) (payload : Option Nat) (point : Nat)
  | tcallNoPoll (method : Name) (payload : Option Nat)
  | tdata (state : Name)
  | tdataMut (state : Name) (v : Nat)
  | topt (state : Name)
  | toptMut (state : Name) (v : Nat)
  | drop
  deriving DecidableEq, Repr, Inhabited

inductive Res where
  | unit
  | ok
  | errGuard (e : GuardError)
  | errDyn (e : DynError)
  | str (n : Name)
  | val (v : Option Nat)
  | panicked (p : PanicInfo)
  | abandoned
  | refused            -- `into_<s>()` returned `Err(self)`
  | noSuch             -- the operation does not exist on what is held (a compile error for a real caller)
  deriving DecidableEq, Repr, Inhabited

inductive Res.Drop where
  | ctx (id : Nat)
  | payload (id : Nat)
  deriving DecidableEq, Repr, Inhabited

structure StepOut where
  holder : Holder
  res : Res
  trace : Hist
  drops : List Res.Drop
  deriving Repr, Inhabited

def payDrop : Option Nat → List Res.Drop
  | some p => [.payload p]
  | none => []

/-- the storage field of a data state, as the generated accessors name it -/
def Code.storageOf (c : Code) (state : Name) : Option (Name × Name × Name) :=
  c.findSome? fun
    | .stateAccImpl _ _ s field _ dm dmm => if s = state then some (field, dm, dmm) else none
    | _ => none

def Code.storageAccs (c : Code) : List StorageAcc :=
  (c.filterMap fun
    | .storageImpl _ _ accs => some accs
    | _ => none).flatten

def Code.dynAcc (p : DynParts) (state : Name) : Option DynAcc :=
  p.accs.find? (·.stateStr = state)

/-- whether an event variant carries a payload (the `handle` caller must supply one) -/
def DynParts.variantHasPayload (p : DynParts) (v : Name) : Option Bool :=
  (p.eventNameArms.find? (·.1 = v)).map (·.2.1)

def runMethodOut (env : Env) (m : Method) (self : TM) (payload : Option Nat) (abandonAt : Option Nat) :
    Out MethodRes × Hist :=
  match abandonAt with
  | none => run env (methodProg m self payload) []
  | some n => runUpTo env n (methodProg m self payload) []

/-- One operation. `p` is `none` when the dynamic wrapper was not generated. -/
def step (env : Env) (c : Code) (p : Option DynParts) (hold : Holder) : Op → StepOut
  | .newTyped ctx =>
    -- `M::new(ctx)`; the initial state is the one whose impl carries the constructor
    let st := c.ctorState
    match st.bind fun s => c.newTyped s ctx with
    | some m => ⟨.typed m, .unit, [], []⟩
    | none => ⟨hold, .noSuch, [], []⟩
  | .newDyn ctx =>
    match p.bind fun p => dynNew c p ctx with
    | some d => ⟨.dyn d, .unit, [], []⟩
    | none => ⟨hold, .noSuch, [], []⟩
  | .dynDefault =>
    match p.bind fun p => dynNew c p 0 with
    | some d => ⟨.dyn d, .unit, [], []⟩
    | none => ⟨hold, .noSuch, [], []⟩
  | .handle v pay =>
    match p, hold with
    | some p, .dyn d =>
      match runHandle env c p d ⟨v, pay⟩ [] with
      | ((d', .done .ok), t) => ⟨.dyn d', .ok, t, payDrop pay⟩
      | ((d', .done (.err e)), t) => ⟨.dyn d', .errDyn e, t, payDrop pay⟩
      | ((d', .panicked pi), t) =>
        ⟨.dyn d', .panicked pi, t,
         payDrop pay ++ (match d.inner with | some (_, m) => [.ctx m.ctx] | none => [])⟩
      | ((d', .abandoned), t) => ⟨.dyn d', .abandoned, t, payDrop pay⟩
    | _, _ => ⟨hold, .noSuch, [], []⟩
  | .handleAbandon v pay n =>
    match p, hold with
    | some p, .dyn d =>
      match runHandleUpTo env n c p d ⟨v, pay⟩ [] with
      | ((d', .done .ok), t) => ⟨.dyn d', .ok, t, payDrop pay⟩
      | ((d', .done (.err e)), t) => ⟨.dyn d', .errDyn e, t, payDrop pay⟩
      | ((d', .panicked pi), t) =>
        ⟨.dyn d', .panicked pi, t,
         payDrop pay ++ (match d.inner with | some (_, m) => [.ctx m.ctx] | none => [])⟩
      | ((d', .abandoned), t) =>
        ⟨.dyn d', .abandoned, t,
         payDrop pay ++ (match d.inner with | some (_, m) => [.ctx m.ctx] | none => [])⟩
    | _, _ => ⟨hold, .noSuch, [], []⟩
  | .handleNoPoll _ pay =>
    match p, hold with
    | some _, .dyn d => ⟨.dyn d, .abandoned, [], payDrop pay⟩
    | _, _ => ⟨hold, .noSuch, [], []⟩
  | .currentState =>
    match p, hold with
    | some p, .dyn d =>
      match currentState p d with
      | some n => ⟨hold, .str n, [], []⟩
      | none => ⟨hold, .panicked .invalidState, [], []⟩
    | _, _ => ⟨hold, .noSuch, [], []⟩
  | .read s =>
    match p, hold with
    | some p, .dyn d =>
      match Code.dynAcc p s with
      | some a => ⟨hold, .val (dynRead a d), [], []⟩
      | none => ⟨hold, .noSuch, [], []⟩
    | _, _ => ⟨hold, .noSuch, [], []⟩
  | .write s v =>
    match p, hold with
    | some p, .dyn d =>
      match Code.dynAcc p s with
      | some a => ⟨.dyn (dynWrite a d v), .val (dynRead a d), [], []⟩
      | none => ⟨hold, .noSuch, [], []⟩
    | _, _ => ⟨hold, .noSuch, [], []⟩
  | .set s v =>
    match p, hold with
    | some p, .dyn d =>
      match Code.dynAcc p s with
      | some a =>
        match dynSet p a d v with
        | (d', none) => ⟨.dyn d', .ok, [], []⟩
        | (d', some e) => ⟨.dyn d', .errDyn e, [], []⟩
      | none => ⟨hold, .noSuch, [], []⟩
    | _, _ => ⟨hold, .noSuch, [], []⟩
  | .into s =>
    match p, hold with
    | some p, .dyn d =>
      match p.extract.find? (·.2.1 = s) with
      | some (_, _, variant) =>
        match dynExtract variant d with
        | .ok m => ⟨.typed m, .ok, [], []⟩
        | .error d' => ⟨.dyn d', .refused, [], []⟩
      | none => ⟨hold, .noSuch, [], []⟩
    | _, _ => ⟨hold, .noSuch, [], []⟩
  | .toDyn =>
    match p, hold with
    | some p, .typed m =>
      match intoDynamic p m with
      | some d => ⟨.dyn d, .unit, [], []⟩
      | none => ⟨hold, .noSuch, [], []⟩
    | _, _ => ⟨hold, .noSuch, [], []⟩
  | .tcall name pay =>
    match hold with
    | .typed m =>
      match c.findMethod m.state name with
      | none => ⟨hold, .noSuch, [], []⟩
      | some meth =>
        match run env (methodProg meth m (if meth.payload.isSome then pay else none)) [] with
        | (.done (.ok nm), t) => ⟨.typed nm, .ok, t, payDrop pay⟩
        | (.done (.err old e), t) => ⟨.typed old, .errGuard e, t, payDrop pay⟩
        | (.panicked pi, t) => ⟨.gone, .panicked pi, t, payDrop pay ++ [.ctx m.ctx]⟩
        | (.abandoned, t) => ⟨.gone, .abandoned, t, payDrop pay ++ [.ctx m.ctx]⟩
    | _ => ⟨hold, .noSuch, [], []⟩
  | .tcallAbandon name pay n =>
    match hold with
    | .typed m =>
      match c.findMethod m.state name with
      | none => ⟨hold, .noSuch, [], []⟩
      | some meth =>
        match runUpTo env n (methodProg meth m (if meth.payload.isSome then pay else none)) [] with
        | (.done (.ok nm), t) => ⟨.typed nm, .ok, t, payDrop pay⟩
        | (.done (.err old e), t) => ⟨.typed old, .errGuard e, t, payDrop pay⟩
        | (.panicked pi, t) => ⟨.gone, .panicked pi, t, payDrop pay ++ [.ctx m.ctx]⟩
        | (.abandoned, t) => ⟨.gone, .abandoned, t, payDrop pay ++ [.ctx m.ctx]⟩
    | _ => ⟨hold, .noSuch, [], []⟩
  | .tcallNoPoll name pay =>
    match hold with
    | .typed m =>
      match c.findMethod m.state name with
      | none => ⟨hold, .noSuch, [], []⟩
      | some _ => ⟨.gone, .abandoned, [], payDrop pay ++ [.ctx m.ctx]⟩
    | _ => ⟨hold, .noSuch, [], []⟩
  | .tdata s =>
    match hold with
    | .typed m =>
      if m.state = s then
        match c.storageOf s with
        | some (field, _, _) =>
          match typedData m field with
          | some v => ⟨hold, .val (some v), [], []⟩
          | none => ⟨.gone, .panicked .unwrapNone, [], [.ctx m.ctx]⟩
        | none => ⟨hold, .noSuch, [], []⟩
      else ⟨hold, .noSuch, [], []⟩
    | _ => ⟨hold, .noSuch, [], []⟩
  | .tdataMut s v =>
    match hold with
    | .typed m =>
      if m.state = s then
        match c.storageOf s with
        | some (field, _, _) =>
          match typedData m field with
          | some _ => ⟨.typed (m.write (some (field, v))), .unit, [], []⟩
          | none => ⟨.gone, .panicked .unwrapNone, [], [.ctx m.ctx]⟩
        | none => ⟨hold, .noSuch, [], []⟩
      else ⟨hold, .noSuch, [], []⟩
    | _ => ⟨hold, .noSuch, [], []⟩
  | .topt s =>
    match hold with
    | .typed m =>
      match c.storageOf s with
      | some (field, _, _) => ⟨hold, .val (m.slot field), [], []⟩
      | none => ⟨hold, .noSuch, [], []⟩
    | _ => ⟨hold, .noSuch, [], []⟩
  | .toptMut s v =>
    match hold with
    | .typed m =>
      match c.storageOf s with
      | some (field, _, _) => ⟨.typed (m.write (some (field, v))), .val (m.slot field), [], []⟩
      | none => ⟨hold, .noSuch, [], []⟩
    | _ => ⟨hold, .noSuch, [], []⟩
  | .drop =>
    match hold with
    | .typed m => ⟨.gone, .unit, [], [.ctx m.ctx]⟩
    | .dyn ⟨some (_, m)⟩ => ⟨.gone, .unit, [], [.ctx m.ctx]⟩
    | .dyn ⟨none⟩ => ⟨.gone, .unit, [], []⟩
    | .gone => ⟨.gone, .unit, [], []⟩

end SMV
