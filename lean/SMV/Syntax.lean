import SMV.Name
/-
  The input of the macro as a parsed key/value tree (tokenisation is syn's job).
  Mirrors what `Parse for StateMachine` (parser.rs) walks over.
-/
namespace SMV

/-- A user-supplied Rust type (`context:`, `payload:`, state data): an opaque list of
    already-flattened token texts. The model never looks inside. -/
abbrev Ty := List String

/-- Items inside a `superstate X { … }` block. -/
inductive BItem where
  | state (n : Name) (data : Option Ty)
  | sup (n : Name) (data : Option Ty) (body : List BItem)
  | initial (n : Name)
  | unknown (key : Name)
  deriving Repr, Inhabited

/-- Items at the top level of `states: [ … ]`. -/
inductive TItem where
  | leaf (n : Name) (data : Option Ty)
  | sup (n : Name) (data : Option Ty) (body : List BItem)
  deriving Repr, Inhabited

inductive HookKind where
  | guards | unl | before | after | around
  deriving DecidableEq, Repr, Inhabited

inductive TrItem where
  | from (l : List Name)
  | to (n : Name)
  | hooks (k : HookKind) (l : List Name)
  | unknown (key : Name)
  deriving Repr, Inhabited

inductive EvItem where
  | transition (items : List TrItem)
  | hooks (k : HookKind) (l : List Name)
  | payload (ty : Ty)
  | unknown (key : Name)
  deriving Repr, Inhabited

structure EvBlock where
  name : Name
  items : List EvItem
  deriving Repr, Inhabited

inductive TopItem where
  | name (n : Name)
  | initial (n : Name)
  | context (ty : Ty)
  | states (items : List TItem)
  | events (blocks : List EvBlock)
  | async (b : Bool)
  | dynamic (b : Bool)
  | legacy (key : Name)           -- `state:` / `action:` / `callbacks:`; parsed and ignored
  | unknown (key : Name)
  deriving Repr, Inhabited

abbrev Def := List TopItem

end SMV
