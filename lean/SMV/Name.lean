/-
  Identifiers over the ASCII identifier alphabet, and the three string functions of the
  macro crate that inspect identifier characters:

    codegen/utils.rs   to_snake_case, to_pascal_case
    validation.rs      is_snake_case

  Rust uses the Unicode predicates `char::is_uppercase` / `is_lowercase` /
  `to_lowercase` / `to_uppercase`; on the ASCII identifier alphabet they coincide with
  the functions below (modelling assumption, DESIGN §9: non-ASCII and raw identifiers
  are outside the model).
-/
namespace SMV

/-- One character of an ASCII identifier. -/
inductive Ch where
  | up (i : Fin 26)
  | lo (i : Fin 26)
  | dig (i : Fin 10)
  | us
  deriving DecidableEq, Repr, Inhabited

namespace Ch

def isUpper : Ch → Bool
  | up _ => true
  | _ => false

def isLower : Ch → Bool
  | lo _ => true
  | _ => false

def isDigit : Ch → Bool
  | dig _ => true
  | _ => false

def toLower : Ch → Ch
  | up i => lo i
  | c => c

def toUpper : Ch → Ch
  | lo i => up i
  | c => c

def toChar : Ch → Char
  | up i => Char.ofNat (65 + i.val)
  | lo i => Char.ofNat (97 + i.val)
  | dig i => Char.ofNat (48 + i.val)
  | us => '_'

def ofChar? (c : Char) : Option Ch :=
  let n := c.toNat
  if h : 65 ≤ n ∧ n < 91 then some (up ⟨n - 65, by omega⟩)
  else if h : 97 ≤ n ∧ n < 123 then some (lo ⟨n - 97, by omega⟩)
  else if h : 48 ≤ n ∧ n < 58 then some (dig ⟨n - 48, by omega⟩)
  else if n = 95 then some us
  else none

end Ch

abbrev Name := List Ch

namespace Name

def toString (n : Name) : String := String.ofList (n.map Ch.toChar)

def ofString? (s : String) : Option Name := s.toList.mapM Ch.ofChar?

/-- Total version for string literals written in the model itself (template idents).
    Characters outside the alphabet are dropped; every literal used is checked by
    `#guard` in `SMV/Consts.lean`. -/
def lit (s : String) : Name := s.toList.filterMap Ch.ofChar?

end Name

/-! ### `to_snake_case` (codegen/utils.rs) -/

/-- `prev` is the previous *input* character (`chars[i-1]`), `none` at `i = 0`. -/
def snakeGo : Option Ch → List Ch → List Ch
  | _, [] => []
  | prev, c :: rest =>
    if c.isUpper then
      let nextLower := match rest with
        | n :: _ => n.isLower
        | [] => false
      let ins := match prev with
        | none => false
        | some p =>
          -- i > 0 && !prev_is_underscore && (prev_is_lowercase || next_is_lowercase)
          --   && (!prev_is_upper || next_is_lowercase)
          (!(p == Ch.us)) && (p.isLower || nextLower) && (!p.isUpper || nextLower)
      (if ins then [Ch.us] else []) ++ c.toLower :: snakeGo (some c) rest
    else c :: snakeGo (some c) rest

def toSnake (n : Name) : Name := snakeGo none n

/-! ### `to_pascal_case` (codegen/utils.rs, and the identical closure in dynamic.rs) -/

/-- `s.split('_')`, each word with its first character upper-cased, concatenated.
    `start` = we are at the first character of a word. -/
def pascalGo : Bool → List Ch → List Ch
  | _, [] => []
  | _, Ch.us :: rest => pascalGo true rest
  | true, c :: rest => c.toUpper :: pascalGo false rest
  | false, c :: rest => c :: pascalGo false rest

def toPascal (n : Name) : Name := pascalGo true n

/-! ### `is_snake_case` (validation.rs) -/

def snakeLoop : Bool → List Ch → Bool
  | _, [] => true
  | prevUs, c :: rest =>
    if !c.isLower && !c.isDigit && !(c == Ch.us) then false
    else if c == Ch.us then
      if prevUs then false else snakeLoop true rest
    else snakeLoop false rest

def isSnake (n : Name) : Bool :=
  if n.isEmpty then false
  else if n.head? == some Ch.us || n.getLast? == some Ch.us then false
  else snakeLoop false n

end SMV
