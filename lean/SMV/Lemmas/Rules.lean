import SMV.Lemmas.Top
import SMV.Lemmas.DynRun
import SMV.Static
/-
  Helper lemmas for C13: inversion of `parseMachine`, `validateTransition`, and what the emitted impl
  block of a state contains.
-/
namespace SMV.C13
open SMV

theorem parseMachine_top (d : Def) (m : Machine) (h : parseMachine d = .ok m) :
    ∃ a, parseTop d {} = .ok a ∧ a.name = some m.name ∧ a.initial = some m.initial ∧ m.events = a.events.getD [] := by
  unfold parseMachine at h
  cases ht : parseTop d {} with
  | error e => rw [ht] at h; cases h
  | ok a =>
    rw [ht] at h
    simp only at h
    cases hn : a.name with
    | none => rw [hn] at h; cases h
    | some name =>
      rw [hn] at h
      simp only at h
      cases hi : a.initial with
      | none => rw [hi] at h; cases h
      | some ini =>
        rw [hi] at h
        simp only at h
        cases hst : a.states with
        | none => rw [hst] at h; cases h
        | some states =>
          rw [hst] at h
          simp only [Except.ok.injEq] at h
          subst h
          exact ⟨a, rfl, by simp [hn], by simp [hi], rfl⟩

theorem isSuperstate_iff {items : List TItem} {st : PS} (hp : parseStates items {} = .ok st) (x : Name) :
    st.hier.isSuperstate x = true ↔ x ∈ allSups items := by
  have sp := parseStates_spec items st hp
  simp only [Hierarchy.isSuperstate, sp.lookup, lookup_spec x _ sp.distinct.sups, Option.isSome_map]
  constructor
  · intro hf
    by_cases hn : x ∈ allSups items
    · exact hn
    · rw [findSup_none_Bs x _ hn] at hf
      simp at hf
  · exact findSup_some_Bs x _

theorem validateTransition_sources (m : Machine) (tr : Transition) (h : validateTransition m tr = .ok ()) :
    tr.sources ≠ [] ∧ validateSources m tr.sources = .ok () := by
  unfold validateTransition at h
  by_cases hemp : tr.sources.isEmpty = true
  · simp [hemp] at h
  · simp only [hemp, Bool.false_eq_true, ↓reduceIte] at h
    refine ⟨by intro he; simp [he] at hemp, ?_⟩
    by_cases hsup : m.hierarchy.isSuperstate tr.target = true
    · simp only [hsup, ↓reduceIte] at h
      cases hr : m.hierarchy.resolveTarget tr.target with
      | none => simp [hr] at h
      | some r =>
        simp only [hr] at h
        by_cases hc : r ∈ m.states
        · simpa [hc] using h
        · simp [hc] at h
    · simp only [hsup, Bool.false_eq_true, ↓reduceIte] at h
      by_cases hc : tr.target ∈ m.states
      · simpa [hc] using h
      · simp [hc] at h

/-- the methods generated for the edges out of a declared leaf `s` are among the inherent methods
    rustc sees on `M<_, s>` -/
theorem methodNames_sublist (m : Machine) (s : Name) (hs : s ∈ m.states) :
    ((m.outgoing s).map fun e => toSnake e.event).Sublist (Static.methodNames (genTypestate m) s) := by
  have hitem : genStateImpl m s ∈ genTypestate m := by
    simp only [genTypestate, genStateImpls, List.mem_append, List.mem_map]
    exact Or.inl (Or.inr (Or.inl ⟨s, hs, rfl⟩))
  have h1 : (Static.itemMethods s (genStateImpl m s)) ∈ (genTypestate m).map (Static.itemMethods s) :=
    List.mem_map.mpr ⟨_, hitem, rfl⟩
  have h2 := List.sublist_flatten_of_mem h1
  have h3 : ((m.outgoing s).map fun e => toSnake e.event).Sublist (Static.itemMethods s (genStateImpl m s)) := by
    simp only [genStateImpl, Static.itemMethods, ↓reduceIte, List.map_map]
    exact List.sublist_append_right _ _
  have h4 : ((genTypestate m).map (Static.itemMethods s)).flatten = Static.methodNames (genTypestate m) s := by
    simp [Static.methodNames, List.flatMap]
  rw [← h4]
  exact h3.trans h2

end SMV.C13
