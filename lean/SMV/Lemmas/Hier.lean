import SMV.Spec
/-
  Elab ⊑ Spec, step 1: the imperative walk of `parse_superstate_block` (mutable maps, ancestor
  stack, `seen` set) characterised equationally by functions of the forest.
-/
namespace SMV

mutual
/-- `lookup` registrations made while parsing an item, newest first -/
def regsB : BItem → List (Name × List Name)
  | .sup n _ b => (n, leavesBs b) :: regsBs b
  | _ => []
def regsBs : List BItem → List (Name × List Name)
  | [] => []
  | x :: xs => regsBs xs ++ regsB x
end

mutual
/-- `initial_children` registrations, newest first -/
def inisB : BItem → List (Name × Name)
  | .sup n _ b => (n, (initialOfBody b).getD []) :: inisBs b
  | _ => []
def inisBs : List BItem → List (Name × Name)
  | [] => []
  | x :: xs => inisBs xs ++ inisB x
end

mutual
/-- `ancestors` registrations (inside a block the ancestor chain is never empty), newest first -/
def ancB (anc : List Name) : BItem → List (Name × List Name)
  | .state n _ => [(n, anc)]
  | .sup n _ b => ancBs (anc ++ [n]) b
  | _ => []
def ancBs (anc : List Name) : List BItem → List (Name × List Name)
  | [] => []
  | x :: xs => ancBs anc xs ++ ancB anc x
end

mutual
/-- additions to `seen`, newest first -/
def seenB : BItem → List Name
  | .state n _ => [n]
  | .sup n _ b => seenBs b ++ [n]
  | _ => []
def seenBs : List BItem → List Name
  | [] => []
  | x :: xs => seenBs xs ++ seenB x
end

mutual
def noUnknownB : BItem → Bool
  | .unknown _ => false
  | .sup _ _ b => noUnknownBs b
  | _ => true
def noUnknownBs : List BItem → Bool
  | [] => true
  | x :: xs => noUnknownB x && noUnknownBs xs
end

mutual
/-- every superstate of the item has a leaf beneath it and, if it declares `initial:`, one that
    is a leaf beneath it -/
def supsOkB : BItem → Bool
  | .sup _ _ b =>
    !(leavesBs b).isEmpty &&
    (match declInit b none with
     | some i => (leavesBs b).contains i
     | none => true) && supsOkBs b
  | _ => true
def supsOkBs : List BItem → Bool
  | [] => true
  | x :: xs => supsOkB x && supsOkBs xs
end

structure Post1 (anc : List Name) (items : List BItem) (st : PS) (desc : List Name) (ini : Option Name)
    (st' : PS) (desc' : List Name) (ini' : Option Name) : Prop where
  desc : desc' = desc ++ leavesBs items
  leaves : st'.leaves = st.leaves ++ leavesBs items
  lookup : st'.hier.lookup = regsBs items ++ st.hier.lookup
  inis : st'.hier.initialChildren = inisBs items ++ st.hier.initialChildren
  ancs : st'.hier.ancestors = ancBs anc items ++ st.hier.ancestors
  ini : ini' = declInit items ini
  seen : st'.seen = seenBs items ++ st.seen
  nodup : st.seen.Nodup → st'.seen.Nodup
  noUnknown : noUnknownBs items = true
  supsOk : supsOkBs items = true

structure Post2 (n : Name) (anc : List Name) (body : List BItem) (st : PS) (st' : PS) (d : List Name) (i : Name) : Prop where
  desc : d = leavesBs body
  nonempty : d ≠ []
  leaves : st'.leaves = st.leaves ++ leavesBs body
  lookup : st'.hier.lookup = regsBs body ++ st.hier.lookup
  inis : st'.hier.initialChildren = inisBs body ++ st.hier.initialChildren
  ancs : st'.hier.ancestors = ancBs (anc ++ [n]) body ++ st.hier.ancestors
  ini : some i = initialOfBody body
  iniMem : i ∈ d
  seen : st'.seen = seenBs body ++ st.seen
  nodup : st.seen.Nodup → st'.seen.Nodup
  noUnknown : noUnknownBs body = true
  supsOk : supsOkBs body = true
  declOk : (match declInit body none with | some j => (leavesBs body).contains j | none => true) = true

theorem pushStorage_fields (st : PS) (n : Name) (d : Option Ty) :
    (st.pushStorage n d).hier = st.hier ∧ (st.pushStorage n d).leaves = st.leaves ∧
    (st.pushStorage n d).seen = st.seen := by
  cases d <;> simp [PS.pushStorage]

theorem registerLeaf_nonempty (h : Hierarchy) (leaf : Name) (anc : List Name) (hne : anc ≠ []) :
    h.registerLeaf leaf anc = { h with ancestors := (leaf, anc) :: h.ancestors } := by
  unfold Hierarchy.registerLeaf
  cases anc with
  | nil => exact absurd rfl hne
  | cons a as => simp

theorem declInit_append_none (items : List BItem) : ∀ acc, declInit items acc = (declInit items none).or acc := by
  induction items with
  | nil => intro acc; simp [declInit]
  | cons x xs ih =>
    intro acc
    cases x with
    | initial n => simp only [declInit]; rw [ih (some n)]; cases declInit xs none <;> simp
    | state n d => simp only [declInit]; exact ih acc
    | sup n d b => simp only [declInit]; exact ih acc
    | unknown k => simp only [declInit]; exact ih acc

theorem parse_char :
    (∀ anc items st desc ini, anc ≠ [] → ∀ st' desc' ini',
      parseItems anc items st desc ini = .ok (st', desc', ini') → Post1 anc items st desc ini st' desc' ini') ∧
    (∀ n anc body st st' d i,
      parseSuper n anc body st = .ok (st', d, i) → Post2 n anc body st st' d i) := by
  apply parseItems.mutual_induct
    (motive1 := fun anc items st desc ini => anc ≠ [] → ∀ st' desc' ini',
      parseItems anc items st desc ini = .ok (st', desc', ini') → Post1 anc items st desc ini st' desc' ini')
    (motive2 := fun n anc body st => ∀ st' d i,
      parseSuper n anc body st = .ok (st', d, i) → Post2 n anc body st st' d i)
  -- []
  · intro anc st desc ini _ st' desc' ini' h
    simp only [parseItems, Except.ok.injEq, Prod.mk.injEq] at h
    obtain ⟨rfl, rfl, rfl⟩ := h
    exact ⟨by simp [leavesBs], by simp [leavesBs], by simp [regsBs], by simp [inisBs], by simp [ancBs],
           by simp [declInit], by simp [seenBs], id, rfl, rfl⟩
  -- state, duplicate
  · intro anc st desc ini n data rest hdup _ st' desc' ini' h
    simp only [parseItems, hdup, ↓reduceIte] at h
    cases h
  -- state, fresh
  · intro anc st desc ini n data rest hfresh s1 s2 ih hanc st' desc' ini' h
    simp only [s2, s1] at ih
    rw [parseItems, if_neg hfresh] at h
    have := ih hanc _ _ _ h
    obtain ⟨h1, h2, h3⟩ := pushStorage_fields
      { hier := st.hier.registerLeaf n anc, leaves := st.leaves ++ [n], seen := n :: st.seen, storage := st.storage } n data
    refine ⟨?_, ?_, ?_, ?_, ?_, ?_, ?_, ?_, ?_, ?_⟩
    · rw [this.desc]; simp [leavesBs, leavesB]
    · rw [this.leaves, h2]; simp [leavesBs, leavesB]
    · rw [this.lookup, h1, registerLeaf_nonempty _ _ _ hanc]; simp [regsBs, regsB]
    · rw [this.inis, h1, registerLeaf_nonempty _ _ _ hanc]; simp [inisBs, inisB]
    · rw [this.ancs, h1, registerLeaf_nonempty _ _ _ hanc]; simp [ancBs, ancB]
    · rw [this.ini]; simp [declInit]
    · rw [this.seen, h3]; simp [seenBs, seenB]
    · intro hn
      apply this.nodup
      rw [h3]
      refine List.nodup_cons.mpr ⟨?_, hn⟩
      simpa using hfresh
    · simp [noUnknownBs, noUnknownB, this.noUnknown]
    · simp [supsOkBs, supsOkB, this.supsOk]
  -- sup, duplicate
  · intro anc st desc ini n data body rest hdup _ st' desc' ini' h
    simp only [parseItems, hdup, ↓reduceIte] at h
    cases h
  -- sup, inner error
  · intro anc st desc ini n data body rest hfresh s1 s2 e he _ _ st' desc' ini' h
    simp only [s2, s1] at he
    rw [parseItems, if_neg hfresh] at h
    simp only at h
    rw [he] at h
    cases h
  -- sup, inner ok
  · intro anc st desc ini n data body rest hfresh s1 s2 st3 d i hs ih2 ih1 hanc st' desc' ini' h
    simp only [s2, s1] at hs ih2
    rw [parseItems, if_neg hfresh] at h
    simp only at h
    rw [hs] at h
    simp only at h
    have p1 := ih1 hanc _ _ _ h
    have p2 := ih2 _ _ _ hs
    obtain ⟨h1, h2, h3⟩ := pushStorage_fields
      { hier := st.hier, leaves := st.leaves, seen := n :: st.seen, storage := st.storage } n data
    refine ⟨?_, ?_, ?_, ?_, ?_, ?_, ?_, ?_, ?_, ?_⟩
    · rw [p1.desc, p2.desc]; simp [leavesBs, leavesB]
    · rw [p1.leaves]; simp only; rw [p2.leaves, h2]; simp [leavesBs, leavesB]
    · rw [p1.lookup]; simp only [Hierarchy.registerSuperstate]; rw [p2.lookup, h1, p2.desc]; simp [regsBs, regsB]
    · rw [p1.inis]; simp only [Hierarchy.registerSuperstate]; rw [p2.inis, h1]
      simp only [inisBs, inisB, ← p2.ini, Option.getD_some]; simp
    · rw [p1.ancs]; simp only [Hierarchy.registerSuperstate]; rw [p2.ancs, h1]; simp [ancBs, ancB]
    · rw [p1.ini]; simp [declInit]
    · rw [p1.seen]; simp only; rw [p2.seen, h3]; simp [seenBs, seenB]
    · intro hn
      apply p1.nodup
      simp only
      apply p2.nodup
      rw [h3]
      refine List.nodup_cons.mpr ⟨?_, hn⟩
      simpa using hfresh
    · simp [noUnknownBs, noUnknownB, p1.noUnknown, p2.noUnknown]
    · simp only [supsOkBs, supsOkB, p1.supsOk, p2.supsOk, Bool.and_true]
      have hne : (leavesBs body).isEmpty = false := by
        rw [← p2.desc]; cases hd : d with
        | nil => exact absurd hd p2.nonempty
        | cons _ _ => rfl
      simp only [hne, Bool.not_false, Bool.true_and]
      exact p2.declOk
  -- initial
  · intro anc st desc ini n rest ih hanc st' desc' ini' h
    simp only [parseItems] at h
    have := ih hanc _ _ _ h
    exact ⟨by rw [this.desc]; simp [leavesBs, leavesB], by rw [this.leaves]; simp [leavesBs, leavesB],
           by rw [this.lookup]; simp [regsBs, regsB], by rw [this.inis]; simp [inisBs, inisB],
           by rw [this.ancs]; simp [ancBs, ancB], by rw [this.ini]; simp [declInit],
           by rw [this.seen]; simp [seenBs, seenB], this.nodup,
           by simp [noUnknownBs, noUnknownB, this.noUnknown], by simp [supsOkBs, supsOkB, this.supsOk]⟩
  -- unknown
  · intro anc st desc ini k tail _ st' desc' ini' h
    simp [parseItems] at h
  -- parseSuper: inner error
  · intro n anc body st e he _ st' d i h
    simp [parseSuper, he] at h
  -- parseSuper: no child
  · intro n anc body st st1 ini he _ st' d i h
    simp [parseSuper, he] at h
  -- parseSuper: declared initial, member
  · intro n anc body st st1 d0 tail i hi he ih st' d i' h
    simp only [parseSuper, he, hi, ↓reduceIte, Except.ok.injEq, Prod.mk.injEq] at h
    obtain ⟨rfl, rfl, rfl⟩ := h
    have p := ih (by simp) _ _ _ he
    have hd : d0 :: tail = leavesBs body := by simpa using p.desc
    have hini : declInit body none = some i := by simpa using p.ini.symm
    exact ⟨hd, by simp, p.leaves, p.lookup, p.inis, p.ancs, by simp [initialOfBody, hini], by simpa using hi,
           p.seen, p.nodup, p.noUnknown, p.supsOk, by rw [hini, ← hd]; exact hi⟩
  -- parseSuper: declared initial, not a member
  · intro n anc body st st1 d0 tail i hi he _ st' d i' h
    simp only [parseSuper, he, hi] at h
    cases h
  -- parseSuper: default initial
  · intro n anc body st st1 d0 tail he ih st' d i' h
    simp only [parseSuper, he, Except.ok.injEq, Prod.mk.injEq] at h
    obtain ⟨rfl, rfl, rfl⟩ := h
    have p := ih (by simp) _ _ _ he
    have hd : d0 :: tail = leavesBs body := by simpa using p.desc
    have hini : declInit body none = none := by simpa using p.ini.symm
    exact ⟨hd, by simp, p.leaves, p.lookup, p.inis, p.ancs, by simp [initialOfBody, hini, ← hd], by simp,
           p.seen, p.nodup, p.noUnknown, p.supsOk, by rw [hini]⟩

end SMV
