import SMV.Lemmas.Phases
/-
  Inversion of `evalMethod`: what must have happened, phase by phase, for a generated
  method to return `Ok`, to return `Err`, or to panic. Plus the facts about `genMethod`
  that say the separately written (payload × async) branches agree.
-/
namespace SMV

theorem evalMethod_ok_inv {env : Env} {m : Method} {self : TM} {payload : Option Nat} {h h' : Hist}
    {nm : TM} (he : evalMethod env m self payload h = (.done (.ok nm), h')) :
    ∃ h1 h2 self' h3 h4,
      evalAB env self (if m.hasAround then m.aroundBefore else []) h = (.cont (), h1) ∧
      evalChecks env self payload m.checks h1 = (.cont (), h2) ∧
      evalCalls env .before m.isAsync payload m.before self h2 = (.cont self', h3) ∧
      evalCalls env .after m.isAsync payload m.after (construct m self') h3 = (.cont nm, h4) ∧
      evalAA env nm (if m.hasAround then m.aroundAfter else []) h4 = (.cont (), h') := by
  unfold evalMethod evalTail at he
  split at he
  · rename_i r h1 e1
    obtain ⟨n, _, _, _, hs⟩ := evalAB_shape env self (if m.hasAround then m.aroundBefore else []) h
    rcases hs r (by rw [e1]) with ⟨p, rfl⟩ | ⟨a, k, _, _, rfl⟩ <;> simp at he
  · rename_i h1 e1
    split at he
    · rename_i r h2 e2
      obtain ⟨n, _, _, _, hs⟩ := evalChecks_shape env self payload m.checks h1
      rcases hs r (by rw [e2]) with ⟨p, rfl⟩ | ⟨c, _, _, rfl⟩ <;> simp at he
    · rename_i h2 e2
      split at he
      · rename_i r h3 e3
        obtain ⟨t, _, _, _, hs⟩ := evalCalls_shape env .before m.isAsync payload m.before self h2
        obtain ⟨p, rfl⟩ := hs r (by rw [e3])
        simp at he
      · rename_i self' h3 e3
        split at he
        · rename_i r h4 e4
          obtain ⟨t, _, _, _, hs⟩ := evalCalls_shape env .after m.isAsync payload m.after (construct m self') h3
          obtain ⟨p, rfl⟩ := hs r (by rw [e4])
          simp at he
        · rename_i nm' h4 e4
          split at he
          · rename_i r h5 e5
            obtain ⟨n, _, _, _, hs⟩ := evalAA_shape env nm' (if m.hasAround then m.aroundAfter else []) h4
            obtain ⟨p, rfl⟩ := hs r (by rw [e5])
            simp at he
          · rename_i h5 e5
            simp at he
            obtain ⟨rfl, rfl⟩ := he
            exact ⟨h1, h2, self', h3, h4, e1, e2, e3, e4, e5⟩

theorem evalMethod_err_inv {env : Env} {m : Method} {self : TM} {payload : Option Nat} {h h' : Hist}
    {m' : TM} {ge : GuardError} (he : evalMethod env m self payload h = (.done (.err m' ge), h')) :
    evalAB env self (if m.hasAround then m.aroundBefore else []) h = (.stop (.done (.err m' ge)), h') ∨
    ∃ h1, evalAB env self (if m.hasAround then m.aroundBefore else []) h = (.cont (), h1) ∧
      evalChecks env self payload m.checks h1 = (.stop (.done (.err m' ge)), h') := by
  unfold evalMethod evalTail at he
  split at he
  · rename_i r h1 e1
    simp at he
    obtain ⟨rfl, rfl⟩ := he
    exact Or.inl e1
  · rename_i h1 e1
    split at he
    · rename_i r h2 e2
      simp at he
      obtain ⟨rfl, rfl⟩ := he
      exact Or.inr ⟨h1, e1, e2⟩
    · rename_i h2 e2
      split at he
      · rename_i r h3 e3
        obtain ⟨t, _, _, _, hs⟩ := evalCalls_shape env .before m.isAsync payload m.before self h2
        obtain ⟨p, rfl⟩ := hs r (by rw [e3])
        simp at he
      · rename_i self' h3 e3
        split at he
        · rename_i r h4 e4
          obtain ⟨t, _, _, _, hs⟩ := evalCalls_shape env .after m.isAsync payload m.after (construct m self') h3
          obtain ⟨p, rfl⟩ := hs r (by rw [e4])
          simp at he
        · rename_i nm' h4 e4
          split at he
          · rename_i r h5 e5
            obtain ⟨n, _, _, _, hs⟩ := evalAA_shape env nm' (if m.hasAround then m.aroundAfter else []) h4
            obtain ⟨p, rfl⟩ := hs r (by rw [e5])
            simp at he
          · simp at he

/-- a generated method never yields `abandoned` under `run` (only `runUpTo` does) -/
theorem evalMethod_not_abandoned {env : Env} {m : Method} {self : TM} {payload : Option Nat} {h h' : Hist} :
    evalMethod env m self payload h ≠ (.abandoned, h') := by
  intro he
  unfold evalMethod evalTail at he
  split at he
  · rename_i r h1 e1
    obtain ⟨n, _, _, _, hs⟩ := evalAB_shape env self (if m.hasAround then m.aroundBefore else []) h
    rcases hs r (by rw [e1]) with ⟨p, rfl⟩ | ⟨a, k, _, _, rfl⟩ <;> simp at he
  · rename_i h1 e1
    split at he
    · rename_i r h2 e2
      obtain ⟨n, _, _, _, hs⟩ := evalChecks_shape env self payload m.checks h1
      rcases hs r (by rw [e2]) with ⟨p, rfl⟩ | ⟨c, _, _, rfl⟩ <;> simp at he
    · rename_i h2 e2
      split at he
      · rename_i r h3 e3
        obtain ⟨t, _, _, _, hs⟩ := evalCalls_shape env .before m.isAsync payload m.before self h2
        obtain ⟨p, rfl⟩ := hs r (by rw [e3])
        simp at he
      · rename_i self' h3 e3
        split at he
        · rename_i r h4 e4
          obtain ⟨t, _, _, _, hs⟩ := evalCalls_shape env .after m.isAsync payload m.after (construct m self') h3
          obtain ⟨p, rfl⟩ := hs r (by rw [e4])
          simp at he
        · rename_i nm' h4 e4
          split at he
          · rename_i r h5 e5
            obtain ⟨n, _, _, _, hs⟩ := evalAA_shape env nm' (if m.hasAround then m.aroundAfter else []) h4
            obtain ⟨p, rfl⟩ := hs r (by rw [e5])
            simp at he
          · simp at he

/-! ### facts about `genMethod`: the four separately written branches agree -/

theorem genGuardCheck_eq (a : Bool) (e : Edge) :
    genGuardCheck a e = fun g => ⟨g, true, e.payload.isSome, a, g, e.event⟩ := by
  funext g; cases hp : e.payload.isSome <;> cases a <;> simp [genGuardCheck, hp]

theorem genUnlessCheck_eq (a : Bool) (e : Edge) :
    genUnlessCheck a e = fun g => ⟨g, false, e.payload.isSome, a, g, e.event⟩ := by
  funext g; cases hp : e.payload.isSome <;> cases a <;> simp [genUnlessCheck, hp]

theorem genBeforeCall_eq (a : Bool) (e : Edge) :
    genBeforeCall a e = fun cb => ⟨cb, e.payload.isSome, a⟩ := by
  funext g; cases hp : e.payload.isSome <;> cases a <;> simp [genBeforeCall, hp]

theorem genAfterCall_eq (a : Bool) (e : Edge) :
    genAfterCall a e = fun cb => ⟨cb, e.payload.isSome, a⟩ := by
  funext g; cases hp : e.payload.isSome <;> cases a <;> simp [genAfterCall, hp]

theorem genAroundBefore_eq (a : Bool) (e : Edge) :
    genAroundBefore a e = fun cb => ⟨cb, a, cb, e.event⟩ := by
  funext g; cases a <;> simp [genAroundBefore]

theorem genAroundAfter_eq (a : Bool) (e : Edge) :
    genAroundAfter a e = fun cb => ⟨cb, a, cb, e.event⟩ := by
  funext g; cases a <;> simp [genAroundAfter]

theorem genMethod_checks (m : Machine) (e : Edge) :
    (genMethod m e).checks =
      e.guards.map (fun g => ⟨g, true, e.payload.isSome, m.asyncMode, g, e.event⟩) ++
      e.unl.map (fun g => ⟨g, false, e.payload.isSome, m.asyncMode, g, e.event⟩) := by
  simp [genMethod, genGuardCheck_eq, genUnlessCheck_eq]

theorem genMethod_before (m : Machine) (e : Edge) :
    (genMethod m e).before = e.before.map fun cb => ⟨cb, e.payload.isSome, m.asyncMode⟩ := by
  simp [genMethod, genBeforeCall_eq]

theorem genMethod_after (m : Machine) (e : Edge) :
    (genMethod m e).after = e.after.map fun cb => ⟨cb, e.payload.isSome, m.asyncMode⟩ := by
  simp [genMethod, genAfterCall_eq]

theorem genMethod_aroundBefore (m : Machine) (e : Edge) :
    (if (genMethod m e).hasAround then (genMethod m e).aroundBefore else []) =
      e.around.map fun cb => ⟨cb, m.asyncMode, cb, e.event⟩ := by
  cases he : e.around <;> simp [genMethod, genAroundBefore_eq, he]

theorem genMethod_aroundAfter (m : Machine) (e : Edge) :
    (if (genMethod m e).hasAround then (genMethod m e).aroundAfter else []) =
      e.around.map fun cb => ⟨cb, m.asyncMode, cb, e.event⟩ := by
  cases he : e.around <;> simp [genMethod, genAroundAfter_eq, he]

@[simp] theorem genMethod_isAsync (m : Machine) (e : Edge) : (genMethod m e).isAsync = m.asyncMode := rfl
@[simp] theorem genMethod_target (m : Machine) (e : Edge) : (genMethod m e).target = e.target := rfl
@[simp] theorem genMethod_name (m : Machine) (e : Edge) : (genMethod m e).name = toSnake e.event := rfl
@[simp] theorem genMethod_slots (m : Machine) (e : Edge) : (genMethod m e).slots = genSlots m e.target := rfl

end SMV
