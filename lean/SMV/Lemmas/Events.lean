import SMV.Lemmas.Hier3
/-
  Inversion of the event / transition parsers: what a successful parse says about the tree.
-/
namespace SMV

def TrItem.isUnknown : TrItem → Bool
  | .unknown _ => true
  | _ => false

def EvItem.isUnknown : EvItem → Bool
  | .unknown _ => true
  | _ => false

def TopItem.isUnknown : TopItem → Bool
  | .unknown _ => true
  | _ => false

/-- last `from:` of a transition block -/
def lastFrom : List TrItem → Option (List Name) → Option (List Name)
  | [], acc => acc
  | .from l :: rest, _ => lastFrom rest (some l)
  | _ :: rest, acc => lastFrom rest acc

/-- last `to:` of a transition block -/
def lastTo : List TrItem → Option Name → Option Name
  | [], acc => acc
  | .to n :: rest, _ => lastTo rest (some n)
  | _ :: rest, acc => lastTo rest acc

theorem parseTransitionItems_spec : ∀ (items : List TrItem) (a a' : TrAcc),
    parseTransitionItems items a = .ok a' →
      (∀ x ∈ items, x.isUnknown = false) ∧ a'.sources = lastFrom items a.sources ∧ a'.target = lastTo items a.target := by
  intro items
  induction items with
  | nil =>
    intro a a' h
    simp only [parseTransitionItems, Except.ok.injEq] at h
    subst h
    exact ⟨by simp, rfl, rfl⟩
  | cons x xs ih =>
    intro a a' h
    cases x with
    | unknown k => simp [parseTransitionItems] at h
    | «from» l =>
      simp only [parseTransitionItems] at h
      obtain ⟨h1, h2, h3⟩ := ih _ _ h
      exact ⟨by intro y hy; simp at hy; rcases hy with rfl | hy; rfl; exact h1 y hy, by simpa [lastFrom] using h2,
             by simpa [lastTo] using h3⟩
    | to n =>
      simp only [parseTransitionItems] at h
      obtain ⟨h1, h2, h3⟩ := ih _ _ h
      exact ⟨by intro y hy; simp at hy; rcases hy with rfl | hy; rfl; exact h1 y hy, by simpa [lastFrom] using h2,
             by simpa [lastTo] using h3⟩
    | hooks k l =>
      cases k <;>
      · simp only [parseTransitionItems] at h
        obtain ⟨h1, h2, h3⟩ := ih _ _ h
        exact ⟨by intro y hy; simp at hy; rcases hy with rfl | hy; rfl; exact h1 y hy, by simpa [lastFrom] using h2,
               by simpa [lastTo] using h3⟩

/-- **A transition block parses only if it has no unknown key and has both `from` and `to`**; its sources
    and target are the last ones written. -/
theorem parseTransition_spec (items : List TrItem) (t : Transition) (h : parseTransition items = .ok t) :
    (∀ x ∈ items, x.isUnknown = false) ∧ lastFrom items none = some t.sources ∧ lastTo items none = some t.target := by
  unfold parseTransition at h
  cases hp : parseTransitionItems items {} with
  | error e => rw [hp] at h; cases h
  | ok a =>
    rw [hp] at h
    simp only at h
    obtain ⟨h1, h2, h3⟩ := parseTransitionItems_spec items {} a hp
    cases hs : a.sources with
    | none => rw [hs] at h; cases h
    | some s =>
      rw [hs] at h
      simp only at h
      cases ht : a.target with
      | none => rw [ht] at h; cases h
      | some tg =>
        rw [ht] at h
        simp only [Except.ok.injEq] at h
        subst h
        exact ⟨h1, by rw [← h2, hs], by rw [← h3, ht]⟩

/-- the transition blocks of an event block, in order -/
def trBlocks : List EvItem → List (List TrItem)
  | [] => []
  | .transition items :: rest => items :: trBlocks rest
  | _ :: rest => trBlocks rest

/-- all transition blocks parse -/
def parseTrs : List (List TrItem) → Option (List Transition)
  | [] => some []
  | tb :: rest =>
    match parseTransition tb with
    | .ok t => (parseTrs rest).map (t :: ·)
    | .error _ => none

theorem parseEventItems_spec : ∀ (items : List EvItem) (e e' : Event),
    parseEventItems items e = .ok e' →
      (∀ x ∈ items, x.isUnknown = false) ∧ e'.name = e.name ∧
      ∃ ts, parseTrs (trBlocks items) = some ts ∧ e'.transitions = e.transitions ++ ts := by
  intro items
  induction items with
  | nil =>
    intro e e' h
    simp only [parseEventItems, Except.ok.injEq] at h
    subst h
    exact ⟨by simp, rfl, [], rfl, by simp⟩
  | cons x xs ih =>
    intro e e' h
    cases x with
    | unknown k => simp [parseEventItems] at h
    | payload ty =>
      simp only [parseEventItems] at h
      obtain ⟨h1, h2, ts, h3, h4⟩ := ih _ _ h
      exact ⟨by intro y hy; simp at hy; rcases hy with rfl | hy; rfl; exact h1 y hy, h2, ts, by simpa [trBlocks] using h3, h4⟩
    | hooks k l =>
      cases k <;>
      · simp only [parseEventItems] at h
        obtain ⟨h1, h2, ts, h3, h4⟩ := ih _ _ h
        exact ⟨by intro y hy; simp at hy; rcases hy with rfl | hy; rfl; exact h1 y hy, h2, ts, by simpa [trBlocks] using h3, h4⟩
    | transition tb =>
      simp only [parseEventItems] at h
      cases hp : parseTransition tb with
      | error err => rw [hp] at h; cases h
      | ok t =>
        rw [hp] at h
        simp only at h
        obtain ⟨h1, h2, ts, h3, h4⟩ := ih _ _ h
        refine ⟨by intro y hy; simp at hy; rcases hy with rfl | hy; rfl; exact h1 y hy, h2, t :: ts, ?_, ?_⟩
        · simp [trBlocks, parseTrs, hp, h3]
        · rw [h4]; simp

/-- an event block parses to an event with the block's name whose transitions are its transition
    blocks, in order -/
theorem parseEvents_spec : ∀ (blocks : List EvBlock) (acc evs : List Event),
    parseEvents blocks acc = .ok evs →
      ∃ new, evs = acc ++ new ∧ new.length = blocks.length ∧
        ∀ i (hi : i < blocks.length) (hj : i < new.length),
          (∀ x ∈ blocks[i].items, x.isUnknown = false) ∧ new[i].name = blocks[i].name ∧
          parseTrs (trBlocks blocks[i].items) = some new[i].transitions := by
  intro blocks
  induction blocks with
  | nil =>
    intro acc evs h
    simp only [parseEvents, Except.ok.injEq] at h
    subst h
    exact ⟨[], by simp, rfl, by intro i hi; simp at hi⟩
  | cons b rest ih =>
    intro acc evs h
    simp only [parseEvents] at h
    cases hp : parseEventItems b.items { name := b.name } with
    | error e => rw [hp] at h; cases h
    | ok ev =>
      rw [hp] at h
      simp only at h
      obtain ⟨new, h1, h2, h3⟩ := ih _ _ h
      obtain ⟨g1, g2, ts, g3, g4⟩ := parseEventItems_spec b.items _ ev hp
      refine ⟨ev :: new, by rw [h1]; simp, by simp [h2], ?_⟩
      intro i hi hj
      cases i with
      | zero =>
        simp only [List.getElem_cons_zero]
        refine ⟨g1, g2, ?_⟩
        rw [g3, g4]; simp
      | succ k =>
        simp only [List.getElem_cons_succ]
        exact h3 k (by simpa using hi) (by simpa using hj)

end SMV
