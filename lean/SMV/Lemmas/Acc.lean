import SMV.Lemmas.Ctx
import SMV.Props.C10
import SMV.Props.C19
/-
  Definitions and helper lemmas for C16: the context a holder carries, the per-operation accounting
  predicate, histories of operations.
-/
namespace SMV.C16
open SMV

/-- what the holder's machine carries as context, if it holds one -/
def Holder.ctx? : Holder → Option Nat
  | .typed m => some m.ctx
  | .dyn ⟨some (_, m)⟩ => some m.ctx
  | _ => none

def isCtxDrop : Res.Drop → Bool
  | .ctx _ => true
  | _ => false

def Op.creates : Op → Bool
  | .newTyped _ | .newDyn _ | .dynDefault => true
  | _ => false

@[simp] theorem payDrop_noctx (p : Option Nat) : (payDrop p).filter isCtxDrop = [] := by
  cases p <;> simp [payDrop, isCtxDrop]

/-- what one operation does to the context: kept in the holder and not dropped, or gone from the holder
    and dropped exactly once; never duplicated, never lost, never appearing from nowhere -/
def CtxStep (hold : Holder) (o : StepOut) : Prop :=
  match Holder.ctx? hold with
  | some k => (Holder.ctx? o.holder = some k ∧ o.drops.filter isCtxDrop = []) ∨
              (Holder.ctx? o.holder = none ∧ o.drops.filter isCtxDrop = [.ctx k])
  | none => Holder.ctx? o.holder = none ∧ o.drops.filter isCtxDrop = []

theorem ctxStep_same (hold : Holder) (res : Res) (t : Hist) (d : List Res.Drop) (hd : d.filter isCtxDrop = []) :
    CtxStep hold ⟨hold, res, t, d⟩ := by
  unfold CtxStep
  cases h : Holder.ctx? hold with
  | none => exact ⟨rfl, hd⟩
  | some k => exact Or.inl ⟨rfl, hd⟩

theorem runUpTo_done {α : Type} (env : Env) : ∀ (p : Prog α) (n : Nat) (h h' : Hist) (a : α),
    runUpTo env n p h = (.done a, h') → run env p h = (.done a, h') := by
  intro p
  induction p with
  | ret a => intro n h h' b hr; cases n <;> simpa [runUpTo, run] using hr
  | panic pi => intro n h h' b hr; cases n <;> simp [runUpTo] at hr
  | call c k ih =>
    intro n h h' b hr
    cases n with
    | zero => simp [runUpTo] at hr
    | succ n =>
      simp only [runUpTo, run] at hr ⊢
      cases hv : (env h c).val <;> simp only [hv] at hr ⊢
      case panic => simp at hr
      all_goals exact ih _ n _ _ _ hr

theorem runUpTo_method_done (env : Env) (meth : Method) (m : TM) (pay : Option Nat) (k : Nat) (t : Hist) (r : MethodRes)
    (h : runUpTo env k (methodProg meth m pay) [] = (.done r, t)) : run env (methodProg meth m pay) [] = (.done r, t) :=
  runUpTo_done env _ k [] t r h

theorem run_not_abandoned {α : Type} (env : Env) : ∀ (p : Prog α) (h h' : Hist), run env p h ≠ (.abandoned, h') := by
  intro p
  induction p with
  | ret a => intro h h' hr; simp [run] at hr
  | panic pi => intro h h' hr; simp [run] at hr
  | call c k ih =>
    intro h h' hr
    simp only [run] at hr
    cases hv : (env h c).val <;> simp only [hv] at hr
    case panic => simp at hr
    all_goals exact ih _ _ _ hr

theorem ctx_dynWrite (a : DynAcc) (d : DM) (v : Nat) : Holder.ctx? (.dyn (dynWrite a d v)) = Holder.ctx? (.dyn d) := by
  obtain ⟨inner⟩ := d
  cases inner with
  | none => rfl
  | some x =>
    obtain ⟨tag, m⟩ := x
    simp only [dynWrite]
    split <;> simp [Holder.ctx?]

theorem ctx_dynSet (p : DynParts) (a : DynAcc) (d : DM) (v : Nat) :
    Holder.ctx? (.dyn (dynSet p a d v).1) = Holder.ctx? (.dyn d) := by
  obtain ⟨inner⟩ := d
  cases inner with
  | none => rfl
  | some x =>
    obtain ⟨tag, m⟩ := x
    simp only [dynSet]
    split <;> simp [Holder.ctx?]

theorem ctxStep_keep (hold hold' : Holder) (res : Res) (t : Hist) (d : List Res.Drop)
    (hc : Holder.ctx? hold' = Holder.ctx? hold) (hd : d.filter isCtxDrop = []) :
    CtxStep hold ⟨hold', res, t, d⟩ := by
  unfold CtxStep
  cases h : Holder.ctx? hold with
  | none => exact ⟨by rw [hc, h], hd⟩
  | some k => exact Or.inl ⟨by rw [hc, h], hd⟩

theorem handleProg_done_ctx (env : Env) (c : Code) (p : DynParts) (tag : Name) (tm : TM) (ev : EventVal) (h h' : Hist)
    (d' : DM) (r : HandleRes) (hrun : run env (handleProg c p tag tm ev) h = (.done (d', r), h')) :
    ∃ tag' tm', d'.inner = some (tag', tm') ∧ tm'.ctx = tm.ctx := by
  unfold handleProg at hrun
  cases hfa : p.arms.find? (fun a => a.src = tag ∧ a.variant = ev.variant) with
  | none =>
    simp only [hfa, run] at hrun
    simp at hrun
    obtain ⟨⟨rfl, _⟩, _⟩ := hrun
    exact ⟨tag, tm, rfl, rfl⟩
  | some a =>
    simp only [hfa] at hrun
    cases hfm : c.findMethod ((alookup a.src p.anyVariants).getD []) a.method with
    | none => simp [hfm, run] at hrun
    | some meth =>
      simp only [hfm] at hrun
      rw [run_mapRet] at hrun
      rcases hr : run env (methodProg meth tm (if a.passPayload then ev.payload else none)) h with ⟨o, h2⟩
      rw [hr] at hrun
      cases o with
      | done mr =>
        cases mr with
        | ok nm =>
          simp at hrun
          obtain ⟨⟨rfl, _⟩, _⟩ := hrun
          exact ⟨_, nm, rfl, (method_ok_ctx meth env tm _ h h2 nm hr).1⟩
        | err old ge =>
          simp at hrun
          obtain ⟨⟨rfl, _⟩, _⟩ := hrun
          exact ⟨_, old, rfl, by rw [method_err_same meth env tm _ h h2 old ge hr]⟩
      | panicked pi => simp at hrun
      | abandoned => simp at hrun

/-- a history of operations, each under its own hook environment; returns what the caller holds in the
    end and the concatenated drop log -/
def runOps (c : Code) (p : Option DynParts) : Holder → List (Env × Op) → Holder × List Res.Drop
  | hold, [] => (hold, [])
  | hold, (env, op) :: rest =>
    let o := step env c p hold op
    let (final, drops) := runOps c p o.holder rest
    (final, o.drops ++ drops)

end SMV.C16
