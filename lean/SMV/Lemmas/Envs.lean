import SMV.Lemmas.Inversion
/-
  Classes of hook environments used by the property statements, and what the phase
  evaluators do under them.
-/
namespace SMV

/-- every condition answers according to a truth assignment of condition names, whatever
    the history and whatever else it observes -/
def CondsAnswer (env : Env) (σ : Name → Bool) : Prop :=
  ∀ h c, c.kind = .cond → (env h c).val = .bool (σ c.name)

/-- every hook that is not a condition lets the transition through -/
def Permissive (env : Env) : Prop :=
  ∀ h c, (c.kind = .aroundBefore → (env h c).val = .proceed) ∧
         (c.kind = .aroundAfter → (env h c).val = .proceed) ∧
         (c.kind = .before → (env h c).val = .unit) ∧
         (c.kind = .after → (env h c).val = .unit)

/-- responses have the type rustc demands of the user's hook signatures; a hook may panic -/
def WellTyped (env : Env) : Prop :=
  ∀ h c, (env h c).val = .panic ∨
    (c.kind = .cond → ∃ b, (env h c).val = .bool b) ∧
    (c.kind = .aroundBefore ∨ c.kind = .aroundAfter → (env h c).val = .proceed ∨ ∃ k, (env h c).val = .abort k) ∧
    (c.kind = .before ∨ c.kind = .after → (env h c).val = .unit)

def Check.blockedBy (c : Check) (σ : Name → Bool) : Bool := if c.negated then !σ c.callee else σ c.callee

theorem allPass_of_sigma {env : Env} {σ : Name → Bool} (hc : CondsAnswer env σ) (self : TM) (payload : Option Nat) :
    ∀ (cs : List Check) (h : Hist), (∀ c ∈ cs, c.blockedBy σ = false) → AllPass env self payload cs h := by
  intro cs
  induction cs with
  | nil => intro h _; trivial
  | cons c rest ih =>
    intro h hall
    refine ⟨⟨σ c.callee, hc h _ rfl, ?_⟩, ih _ fun d hd => hall d (by simp [hd])⟩
    have := hall c (by simp)
    simpa [Check.blockedBy] using this

theorem sigma_of_allPass {env : Env} {σ : Name → Bool} (hc : CondsAnswer env σ) (self : TM) (payload : Option Nat) :
    ∀ (cs : List Check) (h : Hist), AllPass env self payload cs h → ∀ c ∈ cs, c.blockedBy σ = false := by
  intro cs
  induction cs with
  | nil => intro h _ c hc; simp at hc
  | cons c rest ih =>
    intro h ⟨⟨b, hb, hp⟩, hrest⟩ d hd
    simp at hd
    rcases hd with rfl | hd
    · have := hc h (condCall self payload d) rfl
      rw [this] at hb
      simp [condCall] at hb
      subst hb
      simpa [Check.blockedBy] using hp
    · exact ih _ hrest d hd

theorem blocksAt_of_sigma {env : Env} {σ : Name → Bool} (hc : CondsAnswer env σ) (self : TM) (payload : Option Nat)
    (c : Check) (h : Hist) (hb : c.blockedBy σ = true) : c.blocksAt env self payload h :=
  ⟨σ c.callee, hc h _ rfl, by simpa [Check.blockedBy] using hb⟩

theorem allProceed_of_permissive {env : Env} (hp : Permissive env) (self : TM) :
    ∀ (as : List Around) (h : Hist), AllProceed env self as h := by
  intro as
  induction as with
  | nil => intro h; trivial
  | cons a rest ih => intro h; exact ⟨(hp h _).1 rfl, ih _⟩

theorem evalCalls_cont_of_unit {env : Env} (kind : HK) (hk : ∀ h c, c.kind = kind → (env h c).val = .unit)
    (isAsync : Bool) (payload : Option Nat) :
    ∀ (cs : List Call) (recv : TM) (h : Hist),
      ∃ recv' h', evalCalls env kind isAsync payload cs recv h = (.cont recv', h') := by
  intro cs
  induction cs with
  | nil => intro recv h; exact ⟨recv, h, rfl⟩
  | cons c rest ih =>
    intro recv h
    simp only [evalCalls]
    split
    · exact ih recv h
    · rw [hk h _ rfl]
      exact ih _ _

theorem evalAA_cont_of_proceed {env : Env} (hk : ∀ h c, c.kind = .aroundAfter → (env h c).val = .proceed)
    (nm : TM) : ∀ (as : List Around) (h : Hist), ∃ h', evalAA env nm as h = (.cont (), h') := by
  intro as
  induction as with
  | nil => intro h; exact ⟨h, rfl⟩
  | cons a rest ih =>
    intro h
    simp only [evalAA]
    rw [hk h _ rfl]
    exact ih _

end SMV
