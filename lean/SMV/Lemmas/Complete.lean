import SMV.Lemmas.Hier3
import SMV.Lemmas.Top
/-
  Completeness of the parser: the conditions under which each parsing function succeeds (the converse of the
  inversion lemmas in Hier.lean / Events.lean / Top.lean). `parse_complete` goes through the same mutual
  induction as `parse_char`.
-/
namespace SMV
open SMV

/-- what a block must satisfy for the parser to accept it: new names distinct from each other and from those
    seen so far, no unknown key, every superstate with a leaf beneath it and a declared `initial:` among them -/
def BlockOk (items : List BItem) (seen : List Name) : Prop :=
  (seenBs items ++ seen).Nodup ∧ noUnknownBs items = true ∧ supsOkBs items = true

theorem parse_complete :
    (∀ anc items st desc ini, anc ≠ [] → BlockOk items st.seen →
      ∃ r, parseItems anc items st desc ini = .ok r) ∧
    (∀ n anc body st, BlockOk body st.seen → (leavesBs body).isEmpty = false →
      (match declInit body none with | some j => (leavesBs body).contains j | none => true) = true →
      ∃ r, parseSuper n anc body st = .ok r) := by
  apply parseItems.mutual_induct
    (motive1 := fun anc items st desc ini => anc ≠ [] → BlockOk items st.seen →
      ∃ r, parseItems anc items st desc ini = .ok r)
    (motive2 := fun n anc body st => BlockOk body st.seen → (leavesBs body).isEmpty = false →
      (match declInit body none with | some j => (leavesBs body).contains j | none => true) = true →
      ∃ r, parseSuper n anc body st = .ok r)
  -- []
  · intro anc st desc ini _ _
    exact ⟨(st, desc, ini), by simp [parseItems]⟩
  -- state, duplicate: impossible
  · intro anc st desc ini n data rest hdup _ ⟨hnd, _, _⟩
    exfalso
    simp only [seenBs, seenB, List.append_assoc, List.singleton_append] at hnd
    have := (List.nodup_append.mp hnd).2.1
    exact (List.nodup_cons.mp this).1 (by simpa using hdup)
  -- state, fresh
  · intro anc st desc ini n data rest hfresh s1 s2 ih hanc ⟨hnd, hu, hs⟩
    simp only [s2, s1] at ih
    obtain ⟨_, _, h3⟩ := pushStorage_fields
      { hier := st.hier.registerLeaf n anc, leaves := st.leaves ++ [n], seen := n :: st.seen, storage := st.storage } n data
    have hok : BlockOk rest (PS.pushStorage
        { hier := st.hier.registerLeaf n anc, leaves := st.leaves ++ [n], seen := n :: st.seen, storage := st.storage } n data).seen := by
      rw [h3]
      refine ⟨?_, ?_, ?_⟩
      · simpa [seenBs, seenB] using hnd
      · simp only [noUnknownBs, noUnknownB, Bool.true_and] at hu; exact hu
      · simp only [supsOkBs, supsOkB, Bool.true_and] at hs; exact hs
    obtain ⟨r, hr⟩ := ih hanc hok
    exact ⟨r, by rw [parseItems, if_neg hfresh]; exact hr⟩
  -- sup, duplicate: impossible
  · intro anc st desc ini n data body rest hdup _ ⟨hnd, _, _⟩
    exfalso
    simp only [seenBs, seenB, List.append_assoc, List.singleton_append] at hnd
    have h1 := (List.nodup_append.mp hnd).2.1
    have h2 := (List.nodup_append.mp h1).2.1
    exact (List.nodup_cons.mp h2).1 (by simpa using hdup)
  -- sup, inner error: impossible
  · intro anc st desc ini n data body rest hfresh s1 s2 e he ih2 hanc ⟨hnd, hu, hs⟩
    exfalso
    simp only [s2, s1] at he ih2
    obtain ⟨_, _, h3⟩ := pushStorage_fields
      { hier := st.hier, leaves := st.leaves, seen := n :: st.seen, storage := st.storage } n data
    simp only [supsOkBs, supsOkB, Bool.and_eq_true, Bool.not_eq_true'] at hs
    simp only [noUnknownBs, noUnknownB, Bool.and_eq_true] at hu
    have hok : BlockOk body (PS.pushStorage
        { hier := st.hier, leaves := st.leaves, seen := n :: st.seen, storage := st.storage } n data).seen := by
      rw [h3]
      refine ⟨?_, hu.1, hs.1.2⟩
      simp only [seenBs, seenB, List.append_assoc, List.singleton_append] at hnd
      exact (List.nodup_append.mp hnd).2.1
    obtain ⟨r, hr⟩ := ih2 hok hs.1.1.1 hs.1.1.2
    rw [he] at hr
    cases hr
  -- sup, inner ok
  · intro anc st desc ini n data body rest hfresh s1 s2 st3 d i hsup _ ih1 hanc ⟨hnd, hu, hs⟩
    simp only [s2, s1] at hsup
    obtain ⟨_, _, h3⟩ := pushStorage_fields
      { hier := st.hier, leaves := st.leaves, seen := n :: st.seen, storage := st.storage } n data
    have p2 := parse_char.2 _ _ _ _ _ _ _ hsup
    simp only [supsOkBs, supsOkB, Bool.and_eq_true] at hs
    simp only [noUnknownBs, noUnknownB, Bool.and_eq_true] at hu
    have hok : BlockOk rest ({ st3 with hier := st3.hier.registerSuperstate n d i } : PS).seen := by
      refine ⟨?_, hu.2, hs.2⟩
      simp only
      rw [p2.seen, h3]
      simpa [seenBs, seenB] using hnd
    obtain ⟨r, hr⟩ := ih1 hanc hok
    refine ⟨r, ?_⟩
    rw [parseItems, if_neg hfresh]
    simp only
    rw [hsup]
    exact hr
  -- initial
  · intro anc st desc ini n rest ih hanc ⟨hnd, hu, hs⟩
    have hok : BlockOk rest st.seen := by
      refine ⟨by simpa [seenBs, seenB] using hnd, ?_, ?_⟩
      · simp only [noUnknownBs, noUnknownB, Bool.true_and] at hu; exact hu
      · simp only [supsOkBs, supsOkB, Bool.true_and] at hs; exact hs
    obtain ⟨r, hr⟩ := ih hanc hok
    exact ⟨r, by simp only [parseItems]; exact hr⟩
  -- unknown: impossible
  · intro anc st desc ini k tail _ ⟨_, hu, _⟩
    simp [noUnknownBs, noUnknownB] at hu
  -- parseSuper: inner error: impossible
  · intro n anc body st e he ih hok _ _
    exfalso
    obtain ⟨r, hr⟩ := ih (by simp) hok
    rw [he] at hr
    cases hr
  -- parseSuper: no child: impossible
  · intro n anc body st st1 ini he _ hok hne _
    exfalso
    have p := parse_char.1 _ _ _ _ _ (by simp) _ _ _ he
    have : leavesBs body = [] := by simpa using p.desc.symm
    simp [this] at hne
  -- parseSuper: declared initial, member
  · intro n anc body st st1 d0 tail i hi he _ _ _ _
    exact ⟨(st1, d0 :: tail, i), by simp only [parseSuper, he, hi, ↓reduceIte]⟩
  -- parseSuper: declared initial, not a member: impossible
  · intro n anc body st st1 d0 tail i hi he _ hok _ hdecl
    exfalso
    have p := parse_char.1 _ _ _ _ _ (by simp) _ _ _ he
    have hd : d0 :: tail = leavesBs body := by simpa using p.desc
    have hini : declInit body none = some i := by simpa using p.ini.symm
    rw [hini, ← hd] at hdecl
    exact hi hdecl
  -- parseSuper: default initial
  · intro n anc body st st1 d0 tail he _ _ _ _
    exact ⟨(st1, d0 :: tail, d0), by simp only [parseSuper, he]⟩



theorem parseStates_complete : ∀ (items : List TItem) (st : PS), BlockOk (items.map TItem.toB) st.seen →
    ∃ st', parseStates items st = .ok st' := by
  intro items
  induction items with
  | nil => intro st _; exact ⟨st, by simp [parseStates]⟩
  | cons x xs ih =>
    intro st ⟨hnd, hu, hs⟩
    cases x with
    | leaf n data =>
      simp only [List.map_cons, TItem.toB, seenBs, seenB, List.append_assoc, List.singleton_append] at hnd
      have hfresh : ¬ st.seen.contains n = true := by
        intro hc
        exact (List.nodup_cons.mp (List.nodup_append.mp hnd).2.1).1 (by simpa using hc)
      obtain ⟨_, _, h3⟩ := pushStorage_fields
        { hier := st.hier.registerLeaf n [], leaves := st.leaves ++ [n], seen := n :: st.seen, storage := st.storage } n data
      have hok : BlockOk (xs.map TItem.toB) (PS.pushStorage
          { hier := st.hier.registerLeaf n [], leaves := st.leaves ++ [n], seen := n :: st.seen, storage := st.storage } n data).seen := by
        rw [h3]
        refine ⟨hnd, ?_, ?_⟩
        · simp only [List.map_cons, TItem.toB, noUnknownBs, noUnknownB, Bool.true_and] at hu; exact hu
        · simp only [List.map_cons, TItem.toB, supsOkBs, supsOkB, Bool.true_and] at hs; exact hs
      obtain ⟨st', hr⟩ := ih _ hok
      exact ⟨st', by rw [parseStates, if_neg hfresh]; exact hr⟩
    | sup n data body =>
      simp only [List.map_cons, TItem.toB, seenBs, seenB, List.append_assoc, List.singleton_append] at hnd
      have hfresh : ¬ st.seen.contains n = true := by
        intro hc
        have h1 := (List.nodup_append.mp hnd).2.1
        exact (List.nodup_cons.mp (List.nodup_append.mp h1).2.1).1 (by simpa using hc)
      obtain ⟨_, _, h3⟩ := pushStorage_fields
        { hier := st.hier, leaves := st.leaves, seen := n :: st.seen, storage := st.storage } n data
      simp only [List.map_cons, TItem.toB, supsOkBs, supsOkB, Bool.and_eq_true, Bool.not_eq_true'] at hs
      simp only [List.map_cons, TItem.toB, noUnknownBs, noUnknownB, Bool.and_eq_true] at hu
      have hokb : BlockOk body (PS.pushStorage
          { hier := st.hier, leaves := st.leaves, seen := n :: st.seen, storage := st.storage } n data).seen := by
        rw [h3]
        exact ⟨(List.nodup_append.mp hnd).2.1, hu.1, hs.1.2⟩
      obtain ⟨⟨st3, d, i⟩, hsup⟩ := parse_complete.2 n [] body _ hokb hs.1.1.1 hs.1.1.2
      have p2 := parse_char.2 _ _ _ _ _ _ _ hsup
      have hok : BlockOk (xs.map TItem.toB) ({ st3 with hier := st3.hier.registerSuperstate n d i } : PS).seen := by
        refine ⟨?_, hu.2, hs.2⟩
        simp only
        rw [p2.seen, h3]
        simpa using hnd
      obtain ⟨st', hr⟩ := ih _ hok
      refine ⟨st', ?_⟩
      rw [parseStates, if_neg hfresh]
      simp only
      rw [hsup]
      exact hr

/-- **The states section of a definition that satisfies the rules is accepted** (R2, R3, R5, R6 as C13 states them). -/
theorem states_accepted (items : List TItem) (hd : NamesDistinct (items.map TItem.toB))
    (hu : noUnknownBs (items.map TItem.toB) = true) (hs : supsOkBs (items.map TItem.toB) = true) :
    ∃ st, parseStates items {} = .ok st := by
  apply parseStates_complete items {}
  refine ⟨?_, hu, hs⟩
  have : (leavesBs (items.map TItem.toB) ++ supsBs (items.map TItem.toB)).Nodup := by
    rw [List.nodup_append]
    exact ⟨hd.leaves, hd.sups, fun a ha b hb hab => hd.disjoint a ha (hab ▸ hb)⟩
  have hp := ((seenBs_perm (items.map TItem.toB)).trans (namesBs_perm (items.map TItem.toB))).nodup_iff.mpr this
  simpa using hp


/-! ### completeness of the event and top-level parsers -/

theorem parseTransitionItems_complete : ∀ (items : List TrItem) (a : TrAcc),
    (∀ x ∈ items, x.isUnknown = false) →
    ∃ a', parseTransitionItems items a = .ok a' ∧ a'.sources = lastFrom items a.sources ∧ a'.target = lastTo items a.target := by
  intro items
  induction items with
  | nil => intro a _; exact ⟨a, rfl, rfl, rfl⟩
  | cons x xs ih =>
    intro a hu
    have hxs : ∀ y ∈ xs, y.isUnknown = false := fun y hy => hu y (List.mem_cons_of_mem _ hy)
    cases x with
    | «from» l => obtain ⟨a', h1, h2, h3⟩ := ih { a with sources := some l } hxs; exact ⟨a', by simpa [parseTransitionItems] using h1, by simpa [lastFrom] using h2, by simpa [lastTo] using h3⟩
    | to n => obtain ⟨a', h1, h2, h3⟩ := ih { a with target := some n } hxs; exact ⟨a', by simpa [parseTransitionItems] using h1, by simpa [lastFrom] using h2, by simpa [lastTo] using h3⟩
    | hooks k l =>
      cases k with
      | guards => obtain ⟨a', h1, h2, h3⟩ := ih { a with guards := l } hxs; exact ⟨a', by simpa [parseTransitionItems] using h1, by simpa [lastFrom] using h2, by simpa [lastTo] using h3⟩
      | unl => obtain ⟨a', h1, h2, h3⟩ := ih { a with unl := l } hxs; exact ⟨a', by simpa [parseTransitionItems] using h1, by simpa [lastFrom] using h2, by simpa [lastTo] using h3⟩
      | before => obtain ⟨a', h1, h2, h3⟩ := ih { a with before := l } hxs; exact ⟨a', by simpa [parseTransitionItems] using h1, by simpa [lastFrom] using h2, by simpa [lastTo] using h3⟩
      | after => obtain ⟨a', h1, h2, h3⟩ := ih { a with after := l } hxs; exact ⟨a', by simpa [parseTransitionItems] using h1, by simpa [lastFrom] using h2, by simpa [lastTo] using h3⟩
      | around => obtain ⟨a', h1, h2, h3⟩ := ih { a with around := l } hxs; exact ⟨a', by simpa [parseTransitionItems] using h1, by simpa [lastFrom] using h2, by simpa [lastTo] using h3⟩
    | unknown k => have := hu (.unknown k) List.mem_cons_self; simp [TrItem.isUnknown] at this

/-- **a transition block with no unknown key, a `from` and a `to` parses** -/
theorem parseTransition_complete (items : List TrItem) (hu : ∀ x ∈ items, x.isUnknown = false)
    (hf : (lastFrom items none).isSome) (ht : (lastTo items none).isSome) :
    ∃ t, parseTransition items = .ok t := by
  obtain ⟨a, h1, h2, h3⟩ := parseTransitionItems_complete items {} hu
  unfold parseTransition
  rw [h1]
  simp only
  have h2' : a.sources = lastFrom items none := h2
  have h3' : a.target = lastTo items none := h3
  obtain ⟨s, hs⟩ := Option.isSome_iff_exists.mp hf
  obtain ⟨t, htt⟩ := Option.isSome_iff_exists.mp ht
  rw [h2', hs, h3', htt]
  exact ⟨_, rfl⟩

/-- the shape rule of one transition block (R9) -/
def TrBlockOk (tb : List TrItem) : Prop :=
  (∀ x ∈ tb, x.isUnknown = false) ∧ (lastFrom tb none).isSome ∧ (lastTo tb none).isSome

theorem parseEventItems_complete : ∀ (items : List EvItem) (e : Event),
    (∀ x ∈ items, x.isUnknown = false) → (∀ tb ∈ trBlocks items, TrBlockOk tb) →
    ∃ e', parseEventItems items e = .ok e' := by
  intro items
  induction items with
  | nil => intro e _ _; exact ⟨e, rfl⟩
  | cons x xs ih =>
    intro e hu ht
    have hxs : ∀ y ∈ xs, y.isUnknown = false := fun y hy => hu y (List.mem_cons_of_mem _ hy)
    cases x with
    | transition tb =>
      have htb : TrBlockOk tb := ht tb (by simp [trBlocks])
      obtain ⟨t, hpt⟩ := parseTransition_complete tb htb.1 htb.2.1 htb.2.2
      obtain ⟨e', he⟩ := ih { e with transitions := e.transitions ++ [t] } hxs (fun b hb => ht b (by simp [trBlocks, hb]))
      exact ⟨e', by simp only [parseEventItems, hpt]; exact he⟩
    | hooks k l =>
      have ht' : ∀ tb ∈ trBlocks xs, TrBlockOk tb := fun b hb => ht b (by simpa [trBlocks] using hb)
      cases k with
      | guards => obtain ⟨e', he⟩ := ih { e with guards := l } hxs ht'; exact ⟨e', by simpa [parseEventItems] using he⟩
      | unl => obtain ⟨e', he⟩ := ih { e with unl := l } hxs ht'; exact ⟨e', by simpa [parseEventItems] using he⟩
      | before => obtain ⟨e', he⟩ := ih { e with before := l } hxs ht'; exact ⟨e', by simpa [parseEventItems] using he⟩
      | after => obtain ⟨e', he⟩ := ih { e with after := l } hxs ht'; exact ⟨e', by simpa [parseEventItems] using he⟩
      | around => obtain ⟨e', he⟩ := ih { e with around := l } hxs ht'; exact ⟨e', by simpa [parseEventItems] using he⟩
    | payload ty =>
      have ht' : ∀ tb ∈ trBlocks xs, TrBlockOk tb := fun b hb => ht b (by simpa [trBlocks] using hb)
      obtain ⟨e', he⟩ := ih { e with payload := some ty } hxs ht'; exact ⟨e', by simpa [parseEventItems] using he⟩
    | unknown k => have := hu (.unknown k) List.mem_cons_self; simp [EvItem.isUnknown] at this

/-- the shape rules of an events section (R2 inside events, R9) -/
def EventsOk (blocks : List EvBlock) : Prop :=
  ∀ b ∈ blocks, (∀ x ∈ b.items, x.isUnknown = false) ∧ ∀ tb ∈ trBlocks b.items, TrBlockOk tb

theorem parseEvents_complete : ∀ (blocks : List EvBlock) (acc : List Event), EventsOk blocks →
    ∃ evs, parseEvents blocks acc = .ok evs := by
  intro blocks
  induction blocks with
  | nil => intro acc _; exact ⟨acc, rfl⟩
  | cons b rest ih =>
    intro acc hok
    obtain ⟨h1, h2⟩ := hok b List.mem_cons_self
    obtain ⟨ev, hev⟩ := parseEventItems_complete b.items { name := b.name } h1 h2
    obtain ⟨evs, hr⟩ := ih (acc ++ [ev]) (fun b' hb' => hok b' (List.mem_cons_of_mem _ hb'))
    exact ⟨evs, by simp only [parseEvents, hev]; exact hr⟩



theorem parseTop_complete : ∀ (d : Def) (a : TopAcc), (∀ x ∈ d, x.isUnknown = false) →
    (∀ items, TopItem.states items ∈ d → ∃ st, parseStates items {} = .ok st) →
    (∀ blocks, TopItem.events blocks ∈ d → ∃ evs, parseEvents blocks [] = .ok evs) →
    ∃ a', parseTop d a = .ok a' := by
  intro d
  induction d with
  | nil => intro a _ _ _; exact ⟨a, rfl⟩
  | cons x xs ih =>
    intro a hu hs he
    have hu' : ∀ y ∈ xs, y.isUnknown = false := fun y hy => hu y (List.mem_cons_of_mem _ hy)
    have hs' : ∀ items, TopItem.states items ∈ xs → ∃ st, parseStates items {} = .ok st :=
      fun i hi => hs i (List.mem_cons_of_mem _ hi)
    have he' : ∀ blocks, TopItem.events blocks ∈ xs → ∃ evs, parseEvents blocks [] = .ok evs :=
      fun b hb => he b (List.mem_cons_of_mem _ hb)
    cases x with
    | name n => simp only [parseTop]; exact ih _ hu' hs' he'
    | initial n => simp only [parseTop]; exact ih _ hu' hs' he'
    | context t => simp only [parseTop]; exact ih _ hu' hs' he'
    | async b => simp only [parseTop]; exact ih _ hu' hs' he'
    | dynamic b => simp only [parseTop]; exact ih _ hu' hs' he'
    | legacy k => simp only [parseTop]; exact ih _ hu' hs' he'
    | unknown k => have := hu (.unknown k) List.mem_cons_self; simp [TopItem.isUnknown] at this
    | states items =>
      obtain ⟨st, hst⟩ := hs items List.mem_cons_self
      simp only [parseTop, hst]
      exact ih _ hu' hs' he'
    | events blocks =>
      obtain ⟨evs, hev⟩ := he blocks List.mem_cons_self
      simp only [parseTop, hev]
      exact ih _ hu' hs' he'

end SMV
