import SMV.Lemmas.Slots
/-
  Facts about *any* emitted method (not only those `genMethod` builds): where the context goes and
  what every hook sees of it.
-/
namespace SMV

theorem method_err_same (meth : Method) (env : Env) (self : TM) (payload : Option Nat) (h h' : Hist)
    (old : TM) (ge : GuardError) (hrun : run env (methodProg meth self payload) h = (.done (.err old ge), h')) :
    old = self := by
  rw [run_method] at hrun
  rcases evalMethod_err_inv hrun with hAB | ⟨h1, hAB, hC⟩
  · obtain ⟨n, _, _, _, hs⟩ := evalAB_shape env self (if meth.hasAround then meth.aroundBefore else []) h
    rw [hAB] at hs
    rcases hs _ rfl with ⟨p, hp⟩ | ⟨a, k, _, _, he⟩
    · simp at hp
    · simp at he; exact he.1
  · obtain ⟨n, _, _, _, hs⟩ := evalChecks_shape env self payload meth.checks h1
    rw [hC] at hs
    rcases hs _ rfl with ⟨p, hp⟩ | ⟨c, _, _, he⟩
    · simp at hp
    · simp at he; exact he.1

theorem method_ok_ctx (meth : Method) (env : Env) (self : TM) (payload : Option Nat) (h h' : Hist)
    (nm : TM) (hrun : run env (methodProg meth self payload) h = (.done (.ok nm), h')) :
    nm.ctx = self.ctx ∧ nm.state = meth.target := by
  rw [run_method] at hrun
  obtain ⟨h1, h2, self', h3, h4, _, _, e3, e4, e5⟩ := evalMethod_ok_inv hrun
  obtain ⟨_, _, _, _, _, _, _, _, _, hok⟩ := evalTail_shape env meth self payload h2
  have htail : evalTail env meth self payload h2 = (.done (.ok nm), h') := by
    unfold evalTail
    rw [e3]; simp only
    rw [e4]; simp only
    rw [e5]
  rw [htail] at hok
  obtain ⟨hst, hctx, _⟩ := hok nm rfl
  exact ⟨hctx, hst⟩

/-- whatever happens, every hook a method invokes sees the receiver's own context, and every
    condition is handed exactly that context -/
theorem method_trace_ctx (meth : Method) (env : Env) (self : TM) (payload : Option Nat) (h : Hist) :
    ∃ t, (run env (methodProg meth self payload) h).2 = h ++ t ∧
      ∀ c ∈ t, c.ctx = self.ctx ∧ (c.kind = .cond → c.ctxArg = some self.ctx) := by
  rw [run_method]
  unfold evalMethod
  obtain ⟨n1, _, ht1, _, _⟩ := evalAB_shape env self (if meth.hasAround then meth.aroundBefore else []) h
  rcases hAB : evalAB env self (if meth.hasAround then meth.aroundBefore else []) h with ⟨ph1, h1⟩
  rw [hAB] at ht1
  simp only at ht1
  have hk1 : ∀ c ∈ List.map (abCall self) (List.take n1 (if meth.hasAround then meth.aroundBefore else [])),
      c.ctx = self.ctx ∧ (c.kind = .cond → c.ctxArg = some self.ctx) := by
    intro c hc
    obtain ⟨a, _, rfl⟩ := List.mem_map.mp hc
    exact ⟨rfl, fun hk => by simp [abCall] at hk⟩
  cases ph1 with
  | stop r => exact ⟨_, ht1, hk1⟩
  | cont u =>
    simp only
    obtain ⟨n2, _, ht2, _, _⟩ := evalChecks_shape env self payload meth.checks h1
    rcases hC : evalChecks env self payload meth.checks h1 with ⟨ph2, h2⟩
    rw [hC] at ht2
    simp only at ht2
    have hk2 : ∀ c ∈ List.map (condCall self payload) (List.take n2 meth.checks),
        c.ctx = self.ctx ∧ (c.kind = .cond → c.ctxArg = some self.ctx) := by
      intro c hc
      obtain ⟨a, _, rfl⟩ := List.mem_map.mp hc
      exact ⟨rfl, fun _ => rfl⟩
    cases ph2 with
    | stop r =>
      refine ⟨List.map (abCall self) (List.take n1 (if meth.hasAround then meth.aroundBefore else [])) ++
        List.map (condCall self payload) (List.take n2 meth.checks), by rw [ht2, ht1, List.append_assoc], ?_⟩
      intro c hc
      rcases List.mem_append.mp hc with hc | hc
      · exact hk1 c hc
      · exact hk2 c hc
    | cont u2 =>
      simp only
      obtain ⟨tB, tA, tAA, ht, hkB, hkA, hkAA, _⟩ := evalTail_shape env meth self payload h2
      refine ⟨List.map (abCall self) (List.take n1 (if meth.hasAround then meth.aroundBefore else [])) ++
        List.map (condCall self payload) (List.take n2 meth.checks) ++ tB ++ tA ++ tAA,
        by rw [ht, ht2, ht1]; simp only [List.append_assoc], ?_⟩
      intro c hc
      simp only [List.mem_append] at hc
      rcases hc with (((hc | hc) | hc) | hc) | hc
      · exact hk1 c hc
      · exact hk2 c hc
      · exact ⟨(hkB c hc).2.2, fun hk => by simp [(hkB c hc).1] at hk⟩
      · exact ⟨(hkA c hc).2.2, fun hk => by simp [(hkA c hc).1] at hk⟩
      · exact ⟨(hkAA c hc).2.2, fun hk => by simp [(hkAA c hc).1] at hk⟩

end SMV
