import SMV.Lemmas.Hier3
/-
  Equivariance of the front end under an injective renaming of state and superstate names:
  the parser and the transition-graph builder look at those names only through equality.
-/
namespace SMV

variable (ρ : Name → Name)

def renB : BItem → BItem
  | .state n d => .state (ρ n) d
  | .sup n d b => .sup (ρ n) d (renBs b)
  | .initial n => .initial (ρ n)
  | .unknown k => .unknown k
where renBs : List BItem → List BItem
  | [] => []
  | x :: xs => renB x :: renBs xs

def renT : TItem → TItem
  | .leaf n d => .leaf (ρ n) d
  | .sup n d b => .sup (ρ n) d (renB.renBs ρ b)

def renH (h : Hierarchy) : Hierarchy :=
  { superstates := h.superstates.map fun x => (x.1.map ρ, ρ x.2),
    lookup := h.lookup.map fun x => (ρ x.1, x.2.map ρ),
    ancestors := h.ancestors.map fun x => (ρ x.1, x.2.map ρ),
    initialChildren := h.initialChildren.map fun x => (ρ x.1, ρ x.2) }

/-- storage specs are renamed by renaming the owning state; the field name is recomputed from it,
    exactly as `storage_field_ident` does -/
def renS (sp : StorageSpec) : StorageSpec := ⟨ρ sp.stateName, storageFieldIdent (ρ sp.stateName), sp.ty⟩

def renPS (st : PS) : PS :=
  { hier := renH ρ st.hier, leaves := st.leaves.map ρ, seen := st.seen.map ρ, storage := st.storage.map (renS ρ) }

theorem contains_map_inj (hρ : Function.Injective ρ) (l : List Name) (n : Name) :
    (l.map ρ).contains (ρ n) = l.contains n := by
  induction l with
  | nil => rfl
  | cons x xs ih =>
    simp only [List.map_cons, List.contains_cons, ih]
    by_cases h : n = x
    · subst h; simp
    · have h2 : ρ n ≠ ρ x := fun h' => h (hρ h')
      have e1 : (n == x) = false := by simpa using h
      have e2 : (ρ n == ρ x) = false := by simpa using h2
      rw [e1, e2]

theorem pushStorage_ren (st : PS) (n : Name) (d : Option Ty) :
    (renPS ρ st).pushStorage (ρ n) d = renPS ρ (st.pushStorage n d) := by
  cases d with
  | none => rfl
  | some t => simp [PS.pushStorage, renPS, renS]

theorem mkPS_ren (st : PS) (n : Name) (d : Option Ty) :
    PS.pushStorage ⟨(renPS ρ st).hier, (renPS ρ st).leaves, ρ n :: (renPS ρ st).seen, (renPS ρ st).storage⟩ (ρ n) d =
      renPS ρ (PS.pushStorage ⟨st.hier, st.leaves, n :: st.seen, st.storage⟩ n d) := by
  rw [← pushStorage_ren]; rfl

theorem registerLeaf_ren (h : Hierarchy) (n : Name) (anc : List Name) :
    (renH ρ h).registerLeaf (ρ n) (anc.map ρ) = renH ρ (h.registerLeaf n anc) := by
  unfold Hierarchy.registerLeaf
  cases anc <;> simp [renH]

theorem registerSuperstate_ren (h : Hierarchy) (n : Name) (d : List Name) (i : Name) :
    (renH ρ h).registerSuperstate (ρ n) (d.map ρ) (ρ i) = renH ρ (h.registerSuperstate n d i) := by
  simp [Hierarchy.registerSuperstate, renH]

def renRes1 : Except Err (PS × List Name × Option Name) → Except Err (PS × List Name × Option Name)
  | .error e => .error e
  | .ok (st, d, i) => .ok (renPS ρ st, d.map ρ, i.map ρ)

def renRes2 : Except Err (PS × List Name × Name) → Except Err (PS × List Name × Name)
  | .error e => .error e
  | .ok (st, d, i) => .ok (renPS ρ st, d.map ρ, ρ i)

/-- **The block parser commutes with injective renaming.** -/
theorem parse_ren (hρ : Function.Injective ρ) :
    (∀ anc items st desc ini,
      parseItems (anc.map ρ) (renB.renBs ρ items) (renPS ρ st) (desc.map ρ) (ini.map ρ) =
        renRes1 ρ (parseItems anc items st desc ini)) ∧
    (∀ n anc body st,
      parseSuper (ρ n) (anc.map ρ) (renB.renBs ρ body) (renPS ρ st) = renRes2 ρ (parseSuper n anc body st)) := by
  apply parseItems.mutual_induct
    (motive1 := fun anc items st desc ini =>
      parseItems (anc.map ρ) (renB.renBs ρ items) (renPS ρ st) (desc.map ρ) (ini.map ρ) =
        renRes1 ρ (parseItems anc items st desc ini))
    (motive2 := fun n anc body st =>
      parseSuper (ρ n) (anc.map ρ) (renB.renBs ρ body) (renPS ρ st) = renRes2 ρ (parseSuper n anc body st))
  · intro anc st desc ini
    simp [renB.renBs, parseItems, renRes1]
  · intro anc st desc ini n data rest hdup
    have hd' : (renPS ρ st).seen.contains (ρ n) = true := by
      simp only [renPS]; rw [contains_map_inj ρ hρ]; exact hdup
    rw [renB.renBs, renB, parseItems, if_pos hd', parseItems, if_pos hdup]
    rfl
  · intro anc st desc ini n data rest hfresh s1 s2 ih
    simp only [s2, s1] at ih
    have hf' : ¬ (renPS ρ st).seen.contains (ρ n) = true := by
      simp only [renPS]; rw [contains_map_inj ρ hρ]; exact hfresh
    rw [renB.renBs, renB, parseItems, if_neg hf', parseItems, if_neg hfresh]
    simp only
    rw [← ih]
    congr 1
    · rw [← pushStorage_ren]
      congr 1
      simp only [renPS, List.map_cons, List.map_append, List.map_nil]
      rw [← registerLeaf_ren]
    · simp
  · intro anc st desc ini n data body rest hdup
    have hd' : (renPS ρ st).seen.contains (ρ n) = true := by
      simp only [renPS]; rw [contains_map_inj ρ hρ]; exact hdup
    rw [renB.renBs, renB, parseItems, if_pos hd', parseItems, if_pos hdup]
    rfl
  · intro anc st desc ini n data body rest hfresh s1 s2 e he ih2
    simp only [s2, s1] at he ih2
    have hf' : ¬ (renPS ρ st).seen.contains (ρ n) = true := by
      simp only [renPS]; rw [contains_map_inj ρ hρ]; exact hfresh
    rw [renB.renBs, renB, parseItems, if_neg hf', parseItems, if_neg hfresh]
    simp only
    rw [mkPS_ren, ih2, he]
    rfl
  · intro anc st desc ini n data body rest hfresh s1 s2 st3 d i hs ih2 ih1
    simp only [s2, s1] at hs ih2
    have hf' : ¬ (renPS ρ st).seen.contains (ρ n) = true := by
      simp only [renPS]; rw [contains_map_inj ρ hρ]; exact hfresh
    rw [renB.renBs, renB, parseItems, if_neg hf', parseItems, if_neg hfresh]
    simp only
    rw [mkPS_ren, ih2, hs]
    simp only [renRes2]
    rw [← ih1]
    congr 1
    · simp only [renPS]
      rw [← registerSuperstate_ren]
    · simp
  · intro anc st desc ini n rest ih
    rw [renB.renBs, renB, parseItems, parseItems]
    exact ih
  · intro anc st desc ini k tail
    rw [renB.renBs, renB, parseItems, parseItems]
    rfl
  · intro n anc body st e he ih
    have : anc.map ρ ++ [ρ n] = (anc ++ [n]).map ρ := by simp
    rw [parseSuper, this]
    have ih' := ih
    simp only [List.map_nil, Option.map_none] at ih'
    rw [ih', he, parseSuper, he]
    rfl
  · intro n anc body st st1 ini he ih
    have : anc.map ρ ++ [ρ n] = (anc ++ [n]).map ρ := by simp
    rw [parseSuper, this]
    have ih' := ih
    simp only [List.map_nil, Option.map_none] at ih'
    rw [ih', he, parseSuper, he]
    rfl
  · intro n anc body st st1 d0 tail i hi he ih
    have : anc.map ρ ++ [ρ n] = (anc ++ [n]).map ρ := by simp
    rw [parseSuper, this]
    have ih' := ih
    simp only [List.map_nil, Option.map_none] at ih'
    rw [ih', he, parseSuper, he]
    simp only [renRes1, List.map_cons, Option.map_some]
    have hc : (ρ d0 :: tail.map ρ).contains (ρ i) = true := by
      have := contains_map_inj ρ hρ (d0 :: tail) i
      simp only [List.map_cons] at this
      rw [this]; exact hi
    rw [if_pos hc, if_pos hi]
    rfl
  · intro n anc body st st1 d0 tail i hi he ih
    have : anc.map ρ ++ [ρ n] = (anc ++ [n]).map ρ := by simp
    rw [parseSuper, this]
    have ih' := ih
    simp only [List.map_nil, Option.map_none] at ih'
    rw [ih', he, parseSuper, he]
    simp only [renRes1, List.map_cons, Option.map_some]
    have hc : ¬ (ρ d0 :: tail.map ρ).contains (ρ i) = true := by
      have := contains_map_inj ρ hρ (d0 :: tail) i
      simp only [List.map_cons] at this
      rw [this]; exact hi
    rw [if_neg hc, if_neg hi]
    rfl
  · intro n anc body st st1 d0 tail he ih
    have : anc.map ρ ++ [ρ n] = (anc ++ [n]).map ρ := by simp
    rw [parseSuper, this]
    have ih' := ih
    simp only [List.map_nil, Option.map_none] at ih'
    rw [ih', he, parseSuper, he]
    rfl

/-! ### the transition graph -/

theorem alookup_ren {β γ : Type} (hρ : Function.Injective ρ) (f : β → γ) (k : Name) :
    ∀ (l : List (Name × β)), alookup (ρ k) (l.map fun x => (ρ x.1, f x.2)) = (alookup k l).map f := by
  intro l
  induction l with
  | nil => rfl
  | cons x xs ih =>
    obtain ⟨a, b⟩ := x
    simp only [List.map_cons, alookup]
    by_cases h : a = k
    · simp [h]
    · have : ρ a ≠ ρ k := fun h' => h (hρ h')
      simp [h, this, ih]

theorem expandState_ren (hρ : Function.Injective ρ) (h : Hierarchy) (x : Name) (leaves : List Name) :
    (renH ρ h).expandState (ρ x) (leaves.map ρ) = (h.expandState x leaves).map ρ := by
  have e1 : alookup (ρ x) (renH ρ h).lookup = (alookup x h.lookup).map (List.map ρ) :=
    alookup_ren ρ hρ (List.map ρ) x h.lookup
  unfold Hierarchy.expandState
  rw [e1]
  cases alookup x h.lookup with
  | some d => rfl
  | none =>
    simp only [Option.map_none]
    rw [contains_map_inj ρ hρ]
    split <;> simp

theorem resolveTarget_ren (hρ : Function.Injective ρ) (h : Hierarchy) (x : Name) :
    (renH ρ h).resolveTarget (ρ x) = (h.resolveTarget x).map ρ := by
  have e1 : alookup (ρ x) (renH ρ h).lookup = (alookup x h.lookup).map (List.map ρ) :=
    alookup_ren ρ hρ (List.map ρ) x h.lookup
  have e2 : alookup (ρ x) (renH ρ h).initialChildren = (alookup x h.initialChildren).map ρ :=
    alookup_ren ρ hρ ρ x h.initialChildren
  unfold Hierarchy.resolveTarget Hierarchy.isSuperstate Hierarchy.initialChild
  rw [e1, e2]
  cases h1 : alookup x h.lookup with
  | none => simp
  | some d =>
    simp only [Option.map_some, Option.isSome_some, ↓reduceIte]
    cases h2 : alookup x h.initialChildren with
    | some i => simp
    | none => cases d <;> simp

def renTr (t : Transition) : Transition := { t with sources := t.sources.map ρ, target := ρ t.target }
def renEv (e : Event) : Event := { e with transitions := e.transitions.map (renTr ρ) }
def renEdge (e : Edge) : Edge := { e with target := ρ e.target }

/-- **The transition graph of the renamed definition is the renamed transition graph.** -/
theorem buildGraph_ren (hρ : Function.Injective ρ) (h : Hierarchy) (states : List Name) (events : List Event) :
    buildGraph (renH ρ h) (states.map ρ) (events.map (renEv ρ)) =
      (buildGraph h states events).map fun (s, e) => (ρ s, renEdge ρ e) := by
  simp only [buildGraph, edgesOfEvent, edgesOfTransition, edgesOfSource, List.flatMap_map, List.map_flatMap,
    renEv, renTr, List.map_map]
  congr 1
  funext ev
  congr 1
  funext tr
  congr 1
  funext src
  rw [expandState_ren ρ hρ, resolveTarget_ren ρ hρ]
  simp only [List.map_map]
  congr 1
  funext actual
  cases h.resolveTarget tr.target <;> simp [renEdge, Function.comp]

end SMV
