import SMV.Lemmas.Dyn
/-
  `handle` of the generated wrapper, characterised in terms of the machine's transition
  graph: the first matching arm is the one of the edge `δ_M(s, e)`, the method it calls is
  the method generated for that edge, and without such an edge the catch-all refuses.
-/
namespace SMV

/-! ### `to_snake_case` is the identity on snake_case names -/

theorem snakeGo_id : ∀ (n : Name) (p : Option Ch), (∀ c ∈ n, c.isUpper = false) → snakeGo p n = n := by
  intro n
  induction n with
  | nil => intro p _; rfl
  | cons c rest ih =>
    intro p h
    have hc : c.isUpper = false := h c (by simp)
    simp only [snakeGo, hc, Bool.false_eq_true, ↓reduceIte]
    rw [ih (some c) (fun d hd => h d (by simp [hd]))]

theorem snakeLoop_noUpper : ∀ (n : Name) (b : Bool), snakeLoop b n = true → ∀ c ∈ n, c.isUpper = false := by
  intro n
  induction n with
  | nil => intro b _ c hc; simp at hc
  | cons x rest ih =>
    intro b h c hc
    simp only [snakeLoop] at h
    split at h
    · simp at h
    · rename_i hx
      have hxu : x.isUpper = false := by
        cases x <;> simp_all [Ch.isUpper, Ch.isLower, Ch.isDigit]
      simp at hc
      rcases hc with rfl | hc
      · exact hxu
      · split at h
        · split at h
          · simp at h
          · exact ih _ h c hc
        · exact ih _ h c hc

theorem toSnake_of_isSnake (n : Name) (h : isSnake n = true) : toSnake n = n := by
  unfold isSnake at h
  split at h
  · simp at h
  · split at h
    · simp at h
    · exact snakeGo_id n none (snakeLoop_noUpper n false h)

/-! ### the transition function of a machine -/

/-- `δ_M(s, e)`: the first edge out of `s` for event `e` (the only one for a well-formed definition) -/
def Machine.delta (m : Machine) (s e : Name) : Option Edge := (m.outgoing s).find? (·.event = e)

/-- every event of the machine is snake_case (what `validate` enforces) -/
def Machine.EventsSnake (m : Machine) : Prop := ∀ ev ∈ m.events, isSnake ev.name = true

/-- events are told apart by the PascalCase images of their names (side condition N1 of
    DESIGN §4.3: event names and their PascalCase images pairwise distinct) -/
def Machine.PascalInj (m : Machine) : Prop :=
  ∀ ev ∈ m.events, ∀ ev' ∈ m.events, toPascal ev.name = toPascal ev'.name → ev = ev'

theorem validateEvents_snake (m : Machine) : ∀ (evs : List Event), validateEvents m evs = .ok () →
    ∀ ev ∈ evs, isSnake ev.name = true := by
  intro evs
  induction evs with
  | nil => intro _ ev hev; simp at hev
  | cons e rest ih =>
    intro h ev hev
    simp only [validateEvents] at h
    split at h
    · simp at h
    · rename_i hve
      simp at hev
      rcases hev with rfl | hev
      · unfold validateEvent at hve
        split at hve
        · simp at hve
        · rename_i hs; simpa using hs
      · exact ih h ev hev

theorem validate_eventsSnake (m : Machine) (hv : m.validate = .ok ()) : m.EventsSnake := by
  unfold Machine.validate at hv
  split at hv
  · simp at hv
  · split at hv
    · simp at hv
    · split at hv
      · simp at hv
      · exact validateEvents_snake m m.events hv

/-! ### every edge of the graph comes from a declared event -/

theorem graph_event_mem (m : Machine) (hm : m.graph = buildGraph m.hierarchy m.states m.events) :
    ∀ se ∈ m.graph, ∃ ev ∈ m.events, se.2.event = ev.name ∧ se.2.payload = ev.payload := by
  intro se hse
  rw [hm] at hse
  simp only [buildGraph, edgesOfEvent, edgesOfTransition, edgesOfSource, List.mem_flatMap, List.mem_map] at hse
  obtain ⟨ev, hev, tr, _, src, _, actual, _, rfl⟩ := hse
  exact ⟨ev, hev, rfl, rfl⟩

/-! ### the first matching arm -/

theorem findSome?_single {α β : Type} [DecidableEq α] (f : α → Option β) (l : List α) (s : α)
    (hs : s ∈ l) (hn : ∀ x ∈ l, x ≠ s → f x = none) : l.findSome? f = f s := by
  induction l with
  | nil => simp at hs
  | cons x xs ih =>
    simp only [List.findSome?_cons]
    by_cases hx : x = s
    · subst hx
      cases hfx : f x with
      | some v => rfl
      | none =>
        simp only
        by_cases hmem : x ∈ xs
        · rw [ih hmem (fun y hy => hn y (by simp [hy]))]; exact hfx
        · rw [List.findSome?_eq_none_iff.mpr]
          intro y hy
          exact hn y (by simp [hy]) (fun h => hmem (h ▸ hy))
    · rw [hn x (by simp) hx]
      simp at hs
      rcases hs with rfl | hs
      · exact absurd rfl hx
      · exact ih hs (fun y hy => hn y (by simp [hy]))

/-- the arm generated for an edge out of `s` under event `ev` -/
def armOf (m : Machine) (s : Name) (ev : Event) (edge : Edge) : Arm :=
  { src := s, variant := toPascal ev.name, bindsPayload := ev.payload.isSome, method := toSnake ev.name,
    passPayload := ev.payload.isSome, await := m.asyncMode, okVariant := edge.target, errVariant := s,
    errFrom := s }

theorem genArm_eq (a : Bool) (ev : Event) (s : Name) (edge : Edge) (asyncMode : Bool) (m : Machine)
    (ha : m.asyncMode = asyncMode) (hA : a = asyncMode) :
    genArm a ev (toPascal ev.name) (toSnake ev.name) s edge = armOf m s ev edge := by
  subst hA; subst ha
  cases hp : ev.payload.isSome <;> cases hm : m.asyncMode <;> simp [genArm, armOf, hp, hm]

/-- arms of one (event, state) pair -/
def armsOf (m : Machine) (ev : Event) (st : Name) : List Arm :=
  ((m.outgoing st).filter fun edge => edge.event = ev.name).map (armOf m st ev)

theorem genArms_eq (m : Machine) :
    genArms m = m.events.flatMap fun ev => m.states.flatMap fun st => armsOf m ev st := by
  unfold genArms armsOf
  simp only
  congr 1
  funext ev
  congr 1
  funext st
  congr 1
  funext edge
  exact genArm_eq m.asyncMode ev st edge m.asyncMode m rfl rfl

theorem find?_ext {α : Type} (p q : α → Bool) (l : List α) (h : ∀ x ∈ l, p x = q x) : l.find? p = l.find? q := by
  induction l with
  | nil => rfl
  | cons x xs ih =>
    simp only [List.find?_cons, h x (by simp)]
    rw [ih (fun y hy => h y (by simp [hy]))]

/-- the arm `handle` selects for `(s, e)` is the one generated for the edge `δ_M(s, e)` -/
theorem find_arm (m : Machine) (hp : m.PascalInj) (s : Name) (hs : s ∈ m.states) (ev : Event) (hev : ev ∈ m.events) :
    (genArms m).find? (fun a => a.src = s ∧ a.variant = toPascal ev.name) =
      (m.delta s ev.name).map (armOf m s ev) := by
  rw [genArms_eq, List.find?_flatMap]
  rw [findSome?_single _ m.events ev hev]
  · rw [List.find?_flatMap, findSome?_single _ m.states s hs]
    · unfold armsOf
      rw [List.find?_map, List.find?_filter]
      simp only [Machine.delta]
      congr 1
      apply find?_ext
      intro edge _
      simp [armOf]
    · intro st _ hst
      unfold armsOf
      rw [List.find?_map, Option.map_eq_none_iff, List.find?_eq_none]
      intro edge _
      simp [armOf, hst]
  · intro ev' hev' hne
    rw [List.find?_flatMap, List.findSome?_eq_none_iff]
    intro st _
    unfold armsOf
    rw [List.find?_map, Option.map_eq_none_iff, List.find?_eq_none]
    intro edge _ hdec
    have hdec' := of_decide_eq_true hdec
    exact hne (hp ev hev ev' hev' hdec'.2.symm).symm

end SMV

namespace SMV

/-- the graph is the one `build_transition_graph` computes from the machine's own events -/
def Machine.GraphBuilt (m : Machine) : Prop := m.graph = buildGraph m.hierarchy m.states m.events

theorem parseMachine_graphBuilt (d : Def) (m : Machine) (h : parseMachine d = .ok m) : m.GraphBuilt := by
  unfold parseMachine at h
  split at h
  · simp at h
  · split at h
    · simp at h
    · split at h
      · simp at h
      · split at h
        · simp at h
        · simp at h
          subst h
          rfl

theorem alookup_map_self (s : Name) : ∀ (l : List Name), s ∈ l → alookup s (l.map fun x => (x, x)) = some s := by
  intro l
  induction l with
  | nil => intro h; simp at h
  | cons x xs ih =>
    intro h
    simp only [List.map_cons, alookup]
    by_cases hx : x = s
    · simp [hx]
    · simp only [hx, ↓reduceIte]
      simp at h
      rcases h with rfl | h
      · exact absurd rfl hx
      · exact ih h

theorem outgoing_mem_graph (m : Machine) (s : Name) (edge : Edge) (h : edge ∈ m.outgoing s) : (s, edge) ∈ m.graph := by
  simp only [Machine.outgoing, List.mem_map, List.mem_filter] at h
  obtain ⟨⟨s', e'⟩, ⟨hm, hs⟩, rfl⟩ := h
  simp at hs
  subst hs
  exact hm

/-- what `handle` does with the outcome of the typed method of an edge out of `s` -/
def wrapRes (s : Name) (edge : Edge) : MethodRes → DM × HandleRes
  | .ok nm => (⟨some (edge.target, nm)⟩, .ok)
  | .err old e => (⟨some (s, old)⟩, .err (armError s e))

theorem eventName_parts (m : Machine) (hp : m.PascalInj) (ev : Event) (hev : ev ∈ m.events) :
    (partsOf m).eventName (toPascal ev.name) = ev.name := by
  unfold DynParts.eventName partsOf
  simp only
  rw [List.find?_map]
  have : List.find? ((fun x : Name × Bool × Name => decide (x.1 = toPascal ev.name)) ∘
      fun ev => (toPascal ev.name, ev.payload.isSome, ev.name)) m.events = some ev := by
    have hall : ∀ (evs : List Event), (∀ e ∈ evs, e ∈ m.events) → ev ∈ evs →
        List.find? ((fun x : Name × Bool × Name => decide (x.1 = toPascal ev.name)) ∘
          fun ev => (toPascal ev.name, ev.payload.isSome, ev.name)) evs = some ev := by
      intro evs
      induction evs with
      | nil => intro _ h; simp at h
      | cons e rest ih =>
        intro hsub hmem
        simp only [List.find?_cons, Function.comp]
        by_cases hpe : toPascal e.name = toPascal ev.name
        · have : e = ev := (hp ev hev e (hsub e (by simp)) hpe.symm).symm
          simp [hpe, this]
        · simp only [hpe, decide_false]
          simp at hmem
          rcases hmem with rfl | hmem
          · exact absurd rfl hpe
          · exact ih (fun x hx => hsub x (by simp [hx])) hmem
    exact hall m.events (fun _ h => h) hev
  rw [this]
  rfl

/-- **`handle`, characterised.** For a validated machine, a declared state `s` and a declared event:
    if `δ_M(s, e)` is an edge, `handle` runs exactly the typed method generated for that edge on the
    wrapped machine and wraps its outcome; otherwise it refuses with `InvalidTransition { from: s, event: e }`
    without running any hook and puts the machine back. -/
theorem handleProg_eq (m : Machine) (hv : m.validate = .ok ()) (hg : m.GraphBuilt) (hp : m.PascalInj)
    (s : Name) (hs : s ∈ m.states) (ev : Event) (hev : ev ∈ m.events) (tm : TM) (pay : Option Nat) :
    handleProg m.code (partsOf m) s tm ⟨toPascal ev.name, pay⟩ =
      match m.delta s ev.name with
      | some edge =>
        (methodProg (genMethod m edge) tm (if ev.payload.isSome then pay else none)).mapRet (wrapRes s edge)
      | none => .ret (⟨some (s, tm)⟩, .err (.invalidTransition (.name s) (.name ev.name))) := by
  have hsn := validate_eventsSnake m hv
  have hnd := validate_states_nodup m hv
  unfold handleProg
  have harms : (partsOf m).arms = genArms m := rfl
  rw [harms]
  have hfa := find_arm m hp s hs ev hev
  simp only at hfa ⊢
  rw [hfa]
  cases hd : m.delta s ev.name with
  | none =>
    simp only [Option.map_none]
    rw [eventName_parts m hp ev hev]
    have : (partsOf m).stateName s = s := by
      simp [DynParts.stateName, partsOf, alookup_map_self s m.states hs]
    rw [this]
  | some edge =>
    simp only [Option.map_some]
    have hav : (alookup (armOf m s ev edge).src (partsOf m).anyVariants).getD [] = s := by
      simp [armOf, partsOf, alookup_map_self s m.states hs]
    rw [hav]
    have hmeth : (armOf m s ev edge).method = ev.name := by
      simp [armOf, toSnake_of_isSnake _ (hsn ev hev)]
    rw [hmeth, findMethod_code m hnd s hs, List.find?_map]
    have hfind : List.find? ((fun x : Method => decide (x.name = ev.name)) ∘ genMethod m) (m.outgoing s) = some edge := by
      have : List.find? ((fun x : Method => decide (x.name = ev.name)) ∘ genMethod m) (m.outgoing s) =
          List.find? (fun e => decide (e.event = ev.name)) (m.outgoing s) := by
        apply find?_ext
        intro e he
        obtain ⟨ev', hev', hn, _⟩ := graph_event_mem m hg (s, e) (outgoing_mem_graph m s e he)
        simp only [Function.comp, genMethod_name]
        simp only at hn
        have hts : toSnake e.event = e.event := by rw [hn]; exact toSnake_of_isSnake _ (hsn ev' hev')
        simp [hts]
      rw [this]
      exact hd
    rw [hfind]
    simp only [Option.map_some]
    have hpp : (armOf m s ev edge).passPayload = ev.payload.isSome := rfl
    rw [hpp]
    congr 1

end SMV
