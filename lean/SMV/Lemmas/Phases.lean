import SMV.Lemmas.Method
/-
  Per-phase facts about the evaluators of SMV/Lemmas/Method.lean, for every environment.
-/
namespace SMV

/-- everything a hook call record contains except the slots it saw -/
structure Sig where
  kind : HK
  name : Name
  state : Name
  ctx : Nat
  ctxArg : Option Nat
  payload : Option Nat
  deriving DecidableEq, Repr

def HookCall.sig (c : HookCall) : Sig := ⟨c.kind, c.name, c.state, c.ctx, c.ctxArg, c.payload⟩

@[simp] theorem TM.write_state (m : TM) (w : Option (Name × Nat)) : (m.write w).state = m.state := by
  cases w with
  | none => rfl
  | some p => rfl
@[simp] theorem TM.write_ctx (m : TM) (w : Option (Name × Nat)) : (m.write w).ctx = m.ctx := by
  cases w with
  | none => rfl
  | some p => rfl

/-! ### conditions -/

/-- the condition passes at history `h`: it answers, and the answer does not block -/
def Check.passesAt (env : Env) (self : TM) (payload : Option Nat) (c : Check) (h : Hist) : Prop :=
  ∃ b, (env h (condCall self payload c)).val = .bool b ∧ (if c.negated then !b else b) = false

def Check.blocksAt (env : Env) (self : TM) (payload : Option Nat) (c : Check) (h : Hist) : Prop :=
  ∃ b, (env h (condCall self payload c)).val = .bool b ∧ (if c.negated then !b else b) = true

/-- all conditions pass, each consulted at the history extended by its predecessors -/
def AllPass (env : Env) (self : TM) (payload : Option Nat) : List Check → Hist → Prop
  | [], _ => True
  | c :: rest, h => c.passesAt env self payload h ∧ AllPass env self payload rest (h ++ [condCall self payload c])

theorem evalChecks_pass (env : Env) (self : TM) (payload : Option Nat) :
    ∀ (cs : List Check) (h : Hist), AllPass env self payload cs h →
      evalChecks env self payload cs h = (.cont (), h ++ cs.map (condCall self payload)) := by
  intro cs
  induction cs with
  | nil => intro h _; simp [evalChecks]
  | cons c rest ih =>
    intro h hp
    obtain ⟨⟨b, hb, hpass⟩, hrest⟩ := hp
    simp only [evalChecks, hb, hpass]
    simp [ih _ hrest]

theorem evalChecks_block (env : Env) (self : TM) (payload : Option Nat) (c : Check) (post : List Check) :
    ∀ (pre : List Check) (h : Hist), AllPass env self payload pre h →
      c.blocksAt env self payload (h ++ pre.map (condCall self payload)) →
      evalChecks env self payload (pre ++ c :: post) h =
        (.stop (.done (.err self (GuardError.new c.errGuard c.errEvent))),
         h ++ (pre ++ [c]).map (condCall self payload)) := by
  intro pre
  induction pre with
  | nil =>
    intro h _ hb
    obtain ⟨b, hb, hblk⟩ := hb
    simp at hb
    simp [evalChecks, hb, hblk]
  | cons d rest ih =>
    intro h hp hb
    obtain ⟨⟨b, hdb, hpass⟩, hrest⟩ := hp
    simp only [List.cons_append, evalChecks, hdb, hpass]
    have := ih (h ++ [condCall self payload d]) hrest (by simpa using hb)
    simp [this]

/-- converse direction: the phase continues only if every condition passed -/
theorem evalChecks_cont (env : Env) (self : TM) (payload : Option Nat) :
    ∀ (cs : List Check) (h h' : Hist), evalChecks env self payload cs h = (.cont (), h') →
      AllPass env self payload cs h := by
  intro cs
  induction cs with
  | nil => intro h h' _; trivial
  | cons c rest ih =>
    intro h h' he
    simp only [evalChecks] at he
    cases hv : (env h (condCall self payload c)).val <;> simp only [hv] at he
    case bool b =>
      by_cases hb : (if c.negated then !b else b) = true
      · simp [hb] at he
      · simp only [hb] at he
        exact ⟨⟨b, hv, by simpa using hb⟩, ih _ _ he⟩
    all_goals simp at he

/-- whatever the environment does, the phase only ever consults conditions, in order, on the
    unchanged receiver; and it can only stop with the receiver handed back or a panic -/
theorem evalChecks_shape (env : Env) (self : TM) (payload : Option Nat) :
    ∀ (cs : List Check) (h : Hist),
      ∃ n, n ≤ cs.length ∧
        (evalChecks env self payload cs h).2 = h ++ (cs.take n).map (condCall self payload) ∧
        (∀ s, (evalChecks env self payload cs h).1 = .cont s → n = cs.length) ∧
        (∀ r, (evalChecks env self payload cs h).1 = .stop r →
          (∃ p, r = .panicked p) ∨
          (∃ c, cs[n - 1]? = some c ∧ 0 < n ∧
            r = .done (.err self (GuardError.new c.errGuard c.errEvent)))) := by
  intro cs
  induction cs with
  | nil => intro h; exact ⟨0, by simp [evalChecks]⟩
  | cons c rest ih =>
    intro h
    simp only [evalChecks]
    cases hv : (env h (condCall self payload c)).val
    case bool b =>
      by_cases hb : (if c.negated then !b else b) = true
      · refine ⟨1, by simp, by simp [hb], by simp [hb], ?_⟩
        intro r hr
        simp [hb] at hr
        exact Or.inr ⟨c, by simp, by omega, hr.symm⟩
      · obtain ⟨n, hn, ht, hc, hs⟩ := ih (h ++ [condCall self payload c])
        refine ⟨n + 1, by simpa using hn, by simp [hb, ht], ?_, ?_⟩
        · intro s hs'
          simp [hb] at hs'
          simp [hc s hs']
        · intro r hr
          simp [hb] at hr
          rcases hs r hr with hp | ⟨c', hc', hpos, he⟩
          · exact Or.inl hp
          · refine Or.inr ⟨c', ?_, by omega, he⟩
            rw [show n + 1 - 1 = (n - 1) + 1 by omega]
            simpa using hc'
    all_goals
      refine ⟨1, by simp, by simp, by simp, ?_⟩
      intro r hr
      simp at hr
      exact Or.inl ⟨_, hr.symm⟩

/-! ### around callbacks, Before stage -/

def Around.proceedsAt (env : Env) (self : TM) (a : Around) (h : Hist) : Prop :=
  (env h (abCall self a)).val = .proceed

def AllProceed (env : Env) (self : TM) : List Around → Hist → Prop
  | [], _ => True
  | a :: rest, h => a.proceedsAt env self h ∧ AllProceed env self rest (h ++ [abCall self a])

theorem evalAB_proceed (env : Env) (self : TM) :
    ∀ (as : List Around) (h : Hist), AllProceed env self as h →
      evalAB env self as h = (.cont (), h ++ as.map (abCall self)) := by
  intro as
  induction as with
  | nil => intro h _; simp [evalAB]
  | cons a rest ih =>
    intro h ⟨ha, hrest⟩
    simp only [evalAB, Around.proceedsAt] at *
    simp [ha, ih _ hrest]

theorem evalAB_abort (env : Env) (self : TM) (a : Around) (post : List Around) (k : Kind) :
    ∀ (pre : List Around) (h : Hist), AllProceed env self pre h →
      (env (h ++ pre.map (abCall self)) (abCall self a)).val = .abort k →
      evalAB env self (pre ++ a :: post) h =
        (.stop (.done (.err self (GuardError.withKind (callbackName k a.fallback) a.errEvent k))),
         h ++ (pre ++ [a]).map (abCall self)) := by
  intro pre
  induction pre with
  | nil => intro h _ hb; simp at hb; simp [evalAB, hb]
  | cons d rest ih =>
    intro h ⟨hd, hrest⟩ hb
    simp only [Around.proceedsAt] at hd
    simp only [List.cons_append, evalAB, hd]
    have := ih (h ++ [abCall self d]) hrest (by simpa using hb)
    simp [this]

theorem evalAB_cont (env : Env) (self : TM) :
    ∀ (as : List Around) (h h' : Hist), evalAB env self as h = (.cont (), h') →
      AllProceed env self as h := by
  intro as
  induction as with
  | nil => intro h h' _; trivial
  | cons a rest ih =>
    intro h h' he
    simp only [evalAB] at he
    cases hv : (env h (abCall self a)).val <;> simp [hv] at he
    exact ⟨hv, ih _ _ he⟩

theorem evalAB_shape (env : Env) (self : TM) :
    ∀ (as : List Around) (h : Hist),
      ∃ n, n ≤ as.length ∧
        (evalAB env self as h).2 = h ++ (as.take n).map (abCall self) ∧
        (∀ s, (evalAB env self as h).1 = .cont s → n = as.length) ∧
        (∀ r, (evalAB env self as h).1 = .stop r →
          (∃ p, r = .panicked p) ∨
          (∃ a k, as[n - 1]? = some a ∧ 0 < n ∧
            r = .done (.err self (GuardError.withKind (callbackName k a.fallback) a.errEvent k)))) := by
  intro as
  induction as with
  | nil => intro h; exact ⟨0, by simp [evalAB]⟩
  | cons a rest ih =>
    intro h
    simp only [evalAB]
    cases hv : (env h (abCall self a)).val
    case proceed =>
      obtain ⟨n, hn, ht, hc, hs⟩ := ih (h ++ [abCall self a])
      refine ⟨n + 1, by simpa using hn, by simp [ht], ?_, ?_⟩
      · intro s hs'
        simp [hc s hs']
      · intro r hr
        rcases hs r hr with hp | ⟨a', k, ha', hpos, he⟩
        · exact Or.inl hp
        · refine Or.inr ⟨a', k, ?_, by omega, he⟩
          rw [show n + 1 - 1 = (n - 1) + 1 by omega]
          simpa using ha'
    case abort k =>
      refine ⟨1, by simp, by simp, by simp, ?_⟩
      intro r hr
      simp at hr
      exact Or.inr ⟨a, k, by simp, by omega, hr.symm⟩
    all_goals
      refine ⟨1, by simp, by simp, by simp, ?_⟩
      intro r hr
      simp at hr
      exact Or.inl ⟨_, hr.symm⟩

/-! ### before / after callbacks -/

/-- the calls the phase makes when nothing stops it, up to the slots seen -/
def callSigs (kind : HK) (isAsync : Bool) (recv : TM) (payload : Option Nat) (cs : List Call) : List Sig :=
  (cs.filter fun c => !(isAsync && !c.await)).map fun c => (cbCall kind recv payload c).sig

theorem callSigs_skip (kind : HK) (isAsync : Bool) (recv : TM) (payload : Option Nat) (c : Call)
    (rest : List Call) (hs : (isAsync && !c.await) = true) :
    callSigs kind isAsync recv payload (c :: rest) = callSigs kind isAsync recv payload rest := by
  unfold callSigs
  rw [List.filter_cons]
  simp [hs]

theorem callSigs_keep (kind : HK) (isAsync : Bool) (recv : TM) (payload : Option Nat) (c : Call)
    (rest : List Call) (hs : ¬ (isAsync && !c.await) = true) :
    callSigs kind isAsync recv payload (c :: rest) =
      (cbCall kind recv payload c).sig :: callSigs kind isAsync recv payload rest := by
  unfold callSigs
  rw [List.filter_cons]
  simp [hs]

theorem callSigs_write (kind : HK) (isAsync : Bool) (recv : TM) (payload : Option Nat) (w : Option (Name × Nat))
    (cs : List Call) :
    callSigs kind isAsync (recv.write w) payload cs = callSigs kind isAsync recv payload cs := by
  simp [callSigs, cbCall, HookCall.sig]

theorem evalCalls_shape (env : Env) (kind : HK) (isAsync : Bool) (payload : Option Nat) :
    ∀ (cs : List Call) (recv : TM) (h : Hist),
      ∃ t, (evalCalls env kind isAsync payload cs recv h).2 = h ++ t ∧
        (∀ c ∈ t, c.kind = kind ∧ c.state = recv.state ∧ c.ctx = recv.ctx) ∧
        (∀ recv', (evalCalls env kind isAsync payload cs recv h).1 = .cont recv' →
          recv'.state = recv.state ∧ recv'.ctx = recv.ctx ∧
          t.map HookCall.sig = callSigs kind isAsync recv payload cs) ∧
        (∀ r, (evalCalls env kind isAsync payload cs recv h).1 = .stop r → ∃ p, r = .panicked p) := by
  intro cs
  induction cs with
  | nil => intro recv h; exact ⟨[], by simp [evalCalls, callSigs]⟩
  | cons c rest ih =>
    intro recv h
    simp only [evalCalls]
    by_cases hs : (isAsync && !c.await) = true
    · simp only [hs, ↓reduceIte]
      obtain ⟨t, ht, hk, hc, hst⟩ := ih recv h
      refine ⟨t, ht, hk, ?_, hst⟩
      intro recv' hr
      obtain ⟨h1, h2, h3⟩ := hc recv' hr
      exact ⟨h1, h2, by rw [callSigs_skip _ _ _ _ _ _ hs]; exact h3⟩
    · simp only [hs]
      cases hv : (env h (cbCall kind recv payload c)).val
      case unit =>
        obtain ⟨t, ht, hk, hc, hst⟩ := ih (recv.write (env h (cbCall kind recv payload c)).write)
          (h ++ [cbCall kind recv payload c])
        refine ⟨cbCall kind recv payload c :: t, by simp [ht], ?_, ?_, ?_⟩
        · intro x hx
          simp at hx
          rcases hx with rfl | hx
          · simp [cbCall]
          · simpa using hk x hx
        · intro recv' hr
          simp at hr
          obtain ⟨h1, h2, h3⟩ := hc recv' hr
          simp only [TM.write_state, TM.write_ctx] at h1 h2
          refine ⟨h1, h2, ?_⟩
          rw [callSigs_keep _ _ _ _ _ _ hs, callSigs_write] at *
          simp [h3]
        · intro r hr
          simp at hr
          exact hst r hr
      all_goals
        refine ⟨[cbCall kind recv payload c], by simp, ?_, by simp, ?_⟩
        · intro x hx; simp at hx; subst hx; simp [cbCall]
        · intro r hr
          simp at hr
          exact ⟨_, hr.symm⟩

/-! ### around callbacks, AfterSuccess stage -/

theorem evalAA_shape (env : Env) (nm : TM) :
    ∀ (as : List Around) (h : Hist),
      ∃ n, n ≤ as.length ∧
        (evalAA env nm as h).2 = h ++ (as.take n).map (aaCall nm) ∧
        (∀ s, (evalAA env nm as h).1 = .cont s → n = as.length) ∧
        (∀ r, (evalAA env nm as h).1 = .stop r → ∃ p, r = .panicked p) := by
  intro as
  induction as with
  | nil => intro h; exact ⟨0, by simp [evalAA]⟩
  | cons a rest ih =>
    intro h
    simp only [evalAA]
    cases hv : (env h (aaCall nm a)).val
    case proceed =>
      obtain ⟨n, hn, ht, hc, hs⟩ := ih (h ++ [aaCall nm a])
      exact ⟨n + 1, by simpa using hn, by simp [ht], fun s hs' => by simp [hc s hs'], hs⟩
    all_goals
      refine ⟨1, by simp, by simp, by simp, ?_⟩
      intro r hr
      simp at hr
      exact ⟨_, hr.symm⟩

theorem evalAA_abort (env : Env) (nm : TM) (a : Around) (post : List Around) (k : Kind) :
    ∀ (pre : List Around) (h : Hist),
      (∀ p1 d p2, pre = p1 ++ d :: p2 → (env (h ++ p1.map (aaCall nm)) (aaCall nm d)).val = .proceed) →
      (env (h ++ pre.map (aaCall nm)) (aaCall nm a)).val = .abort k →
      evalAA env nm (pre ++ a :: post) h =
        (.stop (.panicked (.afterSuccessAbort (callbackName k a.fallback) a.errEvent)),
         h ++ (pre ++ [a]).map (aaCall nm)) := by
  intro pre
  induction pre with
  | nil => intro h _ hb; simp at hb; simp [evalAA, hb]
  | cons d rest ih =>
    intro h hp hb
    have hd := hp [] d rest rfl
    simp at hd
    simp only [List.cons_append, evalAA, hd]
    have := ih (h ++ [aaCall nm d])
      (by intro p1 d' p2 he; have := hp (d :: p1) d' p2 (by simp [he]); simpa using this)
      (by simpa using hb)
    simp [this]

end SMV

namespace SMV

theorem callSigs_congr (kind : HK) (isAsync : Bool) (r1 r2 : TM) (payload : Option Nat) (cs : List Call)
    (hs : r1.state = r2.state) (hc : r1.ctx = r2.ctx) :
    callSigs kind isAsync r1 payload cs = callSigs kind isAsync r2 payload cs := by
  simp [callSigs, cbCall, HookCall.sig, hs, hc]

/-- the arounds a method runs -/
def Method.arounds (m : Method) : List Around := if m.hasAround then m.aroundAfter else []

/-- Everything about the part of a method after its conditions, for every environment. -/
theorem evalTail_shape (env : Env) (m : Method) (self : TM) (payload : Option Nat) (h2 : Hist) :
    ∃ tB tA tAA, (evalTail env m self payload h2).2 = h2 ++ tB ++ tA ++ tAA ∧
      (∀ c ∈ tB, c.kind = .before ∧ c.state = self.state ∧ c.ctx = self.ctx) ∧
      (∀ c ∈ tA, c.kind = .after ∧ c.state = m.target ∧ c.ctx = self.ctx) ∧
      (∀ c ∈ tAA, c.kind = .aroundAfter ∧ c.state = m.target ∧ c.ctx = self.ctx) ∧
      (∀ m' ge, (evalTail env m self payload h2).1 ≠ .done (.err m' ge)) ∧
      (evalTail env m self payload h2).1 ≠ .abandoned ∧
      (∀ nm, (evalTail env m self payload h2).1 = .done (.ok nm) →
        nm.state = m.target ∧ nm.ctx = self.ctx ∧
        tB.map HookCall.sig = callSigs .before m.isAsync self payload m.before ∧
        tA.map HookCall.sig = callSigs .after m.isAsync (construct m self) payload m.after ∧
        tAA = m.arounds.map (aaCall nm)) := by
  unfold evalTail
  rcases hB : evalCalls env .before m.isAsync payload m.before self h2 with ⟨phB, h3⟩
  have shB := evalCalls_shape env .before m.isAsync payload m.before self h2
  rw [hB] at shB
  obtain ⟨tB, htB, hkB, hcB, hsB⟩ := shB
  simp only at htB hcB hsB ⊢
  subst htB
  cases phB with
  | stop r =>
    obtain ⟨p, rfl⟩ := hsB r rfl
    exact ⟨tB, [], [], by simp, hkB, by simp, by simp, by simp, by simp, by simp⟩
  | cont self' =>
    obtain ⟨hst, hctx, hsigB⟩ := hcB self' rfl
    simp only
    rcases hA : evalCalls env .after m.isAsync payload m.after (construct m self') (h2 ++ tB) with ⟨phA, h4⟩
    have shA := evalCalls_shape env .after m.isAsync payload m.after (construct m self') (h2 ++ tB)
    rw [hA] at shA
    obtain ⟨tA, htA, hkA, hcA, hsA⟩ := shA
    simp only at htA hcA hsA ⊢
    subst htA
    have hkA' : ∀ c ∈ tA, c.kind = .after ∧ c.state = m.target ∧ c.ctx = self.ctx := by
      intro c hc
      obtain ⟨a, b, d⟩ := hkA c hc
      exact ⟨a, by simpa [construct] using b, by simpa [construct, hctx] using d⟩
    cases phA with
    | stop r =>
      obtain ⟨p, rfl⟩ := hsA r rfl
      exact ⟨tB, tA, [], by simp, hkB, hkA', by simp, by simp, by simp, by simp⟩
    | cont nm =>
      obtain ⟨hnst, hnctx, hsigA⟩ := hcA nm rfl
      simp only
      rcases hAA : evalAA env nm (if m.hasAround then m.aroundAfter else []) (h2 ++ tB ++ tA) with ⟨phAA, h5⟩
      have shAA := evalAA_shape env nm (if m.hasAround then m.aroundAfter else []) (h2 ++ tB ++ tA)
      rw [hAA] at shAA
      obtain ⟨n, hn, htAA, hcAA, hsAA⟩ := shAA
      simp only at htAA hcAA hsAA ⊢
      subst htAA
      have hkAA : ∀ c ∈ (List.take n (if m.hasAround then m.aroundAfter else [])).map (aaCall nm),
          c.kind = .aroundAfter ∧ c.state = m.target ∧ c.ctx = self.ctx := by
        intro c hc
        obtain ⟨a, _, rfl⟩ := List.mem_map.mp hc
        exact ⟨rfl, by simpa [aaCall, construct] using hnst, by simpa [aaCall, construct, hctx] using hnctx⟩
      cases phAA with
      | stop r =>
        obtain ⟨p, rfl⟩ := hsAA r rfl
        exact ⟨tB, tA, _, rfl, hkB, hkA', hkAA, by simp, by simp, by simp⟩
      | cont u =>
        have hnlen := hcAA u rfl
        refine ⟨tB, tA, _, rfl, hkB, hkA', hkAA, by simp, by simp, ?_⟩
        intro nm' hnm
        simp at hnm
        subst hnm
        refine ⟨by simpa [construct] using hnst, by simpa [construct, hctx] using hnctx, hsigB, ?_, ?_⟩
        · rw [hsigA]
          exact callSigs_congr _ _ _ _ _ _ (by simp [construct]) (by simp [construct, hctx])
        · simp [Method.arounds, hnlen]

end SMV

namespace SMV

def AllProceedAfter (env : Env) (nm : TM) : List Around → Hist → Prop
  | [], _ => True
  | a :: rest, h => (env h (aaCall nm a)).val = .proceed ∧ AllProceedAfter env nm rest (h ++ [aaCall nm a])

theorem evalAA_cont (env : Env) (nm : TM) :
    ∀ (as : List Around) (h h' : Hist), evalAA env nm as h = (.cont (), h') →
      AllProceedAfter env nm as h := by
  intro as
  induction as with
  | nil => intro h h' _; trivial
  | cons a rest ih =>
    intro h h' he
    simp only [evalAA] at he
    cases hv : (env h (aaCall nm a)).val <;> simp [hv] at he
    exact ⟨hv, ih _ _ he⟩

end SMV
