import SMV.Lemmas.Hier2
/-
  Elab ⊑ Spec, step 3: the top level of `states: [...]` and the whole definition.
-/
namespace SMV

/-- `ancestors` registrations of the top level: top-level leaves register nothing -/
def ancTs : List TItem → List (Name × List Name)
  | [] => []
  | .leaf _ _ :: xs => ancTs xs
  | .sup n _ b :: xs => ancTs xs ++ ancBs [n] b

structure PostT (items : List TItem) (st st' : PS) : Prop where
  leaves : st'.leaves = st.leaves ++ leavesBs (items.map TItem.toB)
  lookup : st'.hier.lookup = regsBs (items.map TItem.toB) ++ st.hier.lookup
  inis : st'.hier.initialChildren = inisBs (items.map TItem.toB) ++ st.hier.initialChildren
  ancs : st'.hier.ancestors = ancTs items ++ st.hier.ancestors
  seen : st'.seen = seenBs (items.map TItem.toB) ++ st.seen
  nodup : st.seen.Nodup → st'.seen.Nodup
  noUnknown : noUnknownBs (items.map TItem.toB) = true
  supsOk : supsOkBs (items.map TItem.toB) = true

theorem parseStates_char : ∀ (items : List TItem) (st st' : PS), parseStates items st = .ok st' → PostT items st st' := by
  intro items
  induction items with
  | nil =>
    intro st st' h
    simp only [parseStates, Except.ok.injEq] at h
    subst h
    exact ⟨by simp [leavesBs], by simp [regsBs], by simp [inisBs], by simp [ancTs], by simp [seenBs], id, rfl, rfl⟩
  | cons x xs ih =>
    intro st st' h
    cases x with
    | leaf n data =>
      by_cases hdup : st.seen.contains n = true
      · rw [parseStates, if_pos hdup] at h; cases h
      · rw [parseStates, if_neg hdup] at h
        have p := ih _ _ h
        obtain ⟨h1, h2, h3⟩ := pushStorage_fields
          { hier := st.hier.registerLeaf n [], leaves := st.leaves ++ [n], seen := n :: st.seen, storage := st.storage } n data
        have hreg : st.hier.registerLeaf n [] = st.hier := by simp [Hierarchy.registerLeaf]
        refine ⟨?_, ?_, ?_, ?_, ?_, ?_, ?_, ?_⟩
        · rw [p.leaves, h2]; simp [leavesBs, leavesB, TItem.toB]
        · rw [p.lookup, h1, hreg]; simp [regsBs, regsB, TItem.toB]
        · rw [p.inis, h1, hreg]; simp [inisBs, inisB, TItem.toB]
        · rw [p.ancs, h1, hreg]; simp [ancTs]
        · rw [p.seen, h3]; simp [seenBs, seenB, TItem.toB]
        · intro hn
          apply p.nodup
          rw [h3]
          exact List.nodup_cons.mpr ⟨by simpa using hdup, hn⟩
        · simp [noUnknownBs, noUnknownB, TItem.toB, p.noUnknown]
        · simp [supsOkBs, supsOkB, TItem.toB, p.supsOk]
    | sup n data body =>
      by_cases hdup : st.seen.contains n = true
      · rw [parseStates, if_pos hdup] at h; cases h
      · rw [parseStates, if_neg hdup] at h
        simp only at h
        obtain ⟨h1, h2, h3⟩ := pushStorage_fields
          { hier := st.hier, leaves := st.leaves, seen := n :: st.seen, storage := st.storage } n data
        cases hs : parseSuper n [] body
            (({ hier := st.hier, leaves := st.leaves, seen := n :: st.seen, storage := st.storage } : PS).pushStorage n data) with
        | error e => rw [hs] at h; cases h
        | ok r =>
          obtain ⟨st3, d, i⟩ := r
          rw [hs] at h
          simp only at h
          have p2 := parse_char.2 n [] body _ st3 d i hs
          have p := ih _ _ h
          refine ⟨?_, ?_, ?_, ?_, ?_, ?_, ?_, ?_⟩
          · rw [p.leaves]; simp only; rw [p2.leaves, h2]; simp [leavesBs, leavesB, TItem.toB]
          · rw [p.lookup]; simp only [Hierarchy.registerSuperstate]; rw [p2.lookup, h1, p2.desc]
            simp [regsBs, regsB, TItem.toB]
          · rw [p.inis]; simp only [Hierarchy.registerSuperstate]; rw [p2.inis, h1]
            simp only [List.map_cons, inisBs, inisB, TItem.toB, ← p2.ini, Option.getD_some]; simp
          · rw [p.ancs]; simp only [Hierarchy.registerSuperstate]; rw [p2.ancs, h1]; simp [ancTs]
          · rw [p.seen]; simp only; rw [p2.seen, h3]; simp [seenBs, seenB, TItem.toB]
          · intro hn
            apply p.nodup
            simp only
            apply p2.nodup
            rw [h3]
            exact List.nodup_cons.mpr ⟨by simpa using hdup, hn⟩
          · simp [noUnknownBs, noUnknownB, TItem.toB, p.noUnknown, p2.noUnknown]
          · simp only [List.map_cons, supsOkBs, supsOkB, TItem.toB, p.supsOk, p2.supsOk, Bool.and_true]
            have hne : (leavesBs body).isEmpty = false := by
              rw [← p2.desc]; cases hd : d with
              | nil => exact absurd hd p2.nonempty
              | cons _ _ => rfl
            simp only [hne, Bool.not_false, Bool.true_and]
            exact p2.declOk

/-- a successful parse of the states section from scratch -/
structure StatesParsed (items : List TItem) (st : PS) : Prop where
  leaves : st.leaves = allLeaves items
  lookup : st.hier.lookup = regsBs (items.map TItem.toB)
  inis : st.hier.initialChildren = inisBs (items.map TItem.toB)
  ancs : st.hier.ancestors = ancTs items
  distinct : NamesDistinct (items.map TItem.toB)
  noUnknown : noUnknownBs (items.map TItem.toB) = true
  supsOk : supsOkBs (items.map TItem.toB) = true

theorem parseStates_spec (items : List TItem) (st : PS) (h : parseStates items {} = .ok st) : StatesParsed items st := by
  have p := parseStates_char items {} st h
  refine ⟨by simpa [allLeaves] using p.leaves, by simpa using p.lookup, by simpa using p.inis, by simpa using p.ancs,
    ?_, p.noUnknown, p.supsOk⟩
  have hn := p.nodup (by simp)
  rw [p.seen] at hn
  exact namesDistinct_of_seen _ _ hn

/-! ### top level: ancestors -/

theorem ancTs_spec (l : Name) : ∀ (items : List TItem), (leavesBs (items.map TItem.toB)).Nodup →
    (alookup l (ancTs items)).getD [] = (ancestorsBs l [] (items.map TItem.toB)).getD [] := by
  intro items
  induction items with
  | nil => intro _; simp [ancTs, alookup, ancestorsBs]
  | cons x xs ih =>
    intro hn
    simp only [List.map_cons, leavesBs, List.nodup_append] at hn
    obtain ⟨hx, hxs, hdisj⟩ := hn
    cases x with
    | leaf n d =>
      simp only [ancTs, List.map_cons, TItem.toB, ancestorsBs, ancestorsB]
      by_cases hnl : n = l
      · subst hnl
        have hnot : n ∉ leavesBs (xs.map TItem.toB) := fun h' => (hdisj n (by simp [TItem.toB, leavesB]) n h') rfl
        have h1 : alookup n (ancTs xs) = none := by
          clear ih hx hxs hdisj
          induction xs with
          | nil => simp [ancTs, alookup]
          | cons y ys ihy =>
            simp only [List.map_cons, leavesBs, List.mem_append, not_or] at hnot
            cases y with
            | leaf m d' => simp only [ancTs]; exact ihy hnot.2
            | sup m d' b =>
              simp only [ancTs, alookup_append, ihy hnot.2]
              have := anc_none_Bs n [m] b (by simpa [TItem.toB, leavesB] using hnot.1)
              simp [this]
        simp [h1]
      · simp only [hnl, ↓reduceIte]
        exact ih hxs
    | sup n d b =>
      simp only [ancTs, List.map_cons, TItem.toB, ancestorsBs, ancestorsB, alookup_append, List.nil_append]
      simp only [TItem.toB, leavesB] at hx hdisj
      rw [anc_spec_Bs l [n] b hx]
      by_cases hl : l ∈ leavesBs b
      · have hnot : l ∉ leavesBs (xs.map TItem.toB) := fun h' => (hdisj l hl l h') rfl
        have h1 : alookup l (ancTs xs) = none := by
          clear ih hxs hdisj hx hl
          induction xs with
          | nil => simp [ancTs, alookup]
          | cons y ys ihy =>
            simp only [List.map_cons, leavesBs, List.mem_append, not_or] at hnot
            cases y with
            | leaf m d' => simp only [ancTs]; exact ihy hnot.2
            | sup m d' b' =>
              simp only [ancTs, alookup_append, ihy hnot.2]
              have := anc_none_Bs l [m] b' (by simpa [TItem.toB, leavesB] using hnot.1)
              simp [this]
        rw [h1, ancestors_none_Bs l [] _ hnot]
        simp only [List.nil_append, Option.none_or]
        cases ancestorsBs l [n] b <;> simp
      · rw [ancestors_none_Bs l [n] b hl]
        simp only [List.nil_append, Option.or_none]
        exact ih hxs

/-! ### the definition as a whole -/

/-- the `states:` section in effect: the last one written -/
def lastStates : Def → Option (List TItem) → Option (List TItem)
  | [], acc => acc
  | .states items :: rest, _ => lastStates rest (some items)
  | _ :: rest, acc => lastStates rest acc

theorem parseTop_states : ∀ (d : Def) (a a' : TopAcc) (acc : Option (List TItem)),
    parseTop d a = .ok a' →
    (match acc with
     | some items => ∃ st, parseStates items {} = .ok st ∧ a.states = some st.leaves ∧ a.hier = st.hier ∧ a.storage = st.storage
     | none => a.states = none ∧ a.hier = {} ∧ a.storage = []) →
    (match lastStates d acc with
     | some items => ∃ st, parseStates items {} = .ok st ∧ a'.states = some st.leaves ∧ a'.hier = st.hier ∧ a'.storage = st.storage
     | none => a'.states = none ∧ a'.hier = {} ∧ a'.storage = []) := by
  intro d
  induction d with
  | nil =>
    intro a a' acc h hacc
    simp only [parseTop, Except.ok.injEq] at h
    subst h
    simpa [lastStates] using hacc
  | cons x xs ih =>
    intro a a' acc h hacc
    cases x with
    | states items =>
      simp only [parseTop] at h
      cases hp : parseStates items {} with
      | error e => rw [hp] at h; cases h
      | ok st =>
        rw [hp] at h
        simp only at h
        simp only [lastStates]
        exact ih _ _ (some items) h ⟨st, hp, rfl, rfl, rfl⟩
    | events blocks =>
      simp only [parseTop] at h
      cases hp : parseEvents blocks [] with
      | error e => rw [hp] at h; cases h
      | ok evs =>
        rw [hp] at h
        simp only at h
        simp only [lastStates]
        exact ih _ _ acc h (by cases acc <;> simpa using hacc)
    | unknown k => simp [parseTop] at h
    | name n => simp only [parseTop, lastStates] at h ⊢; exact ih _ _ acc h (by cases acc <;> simpa using hacc)
    | initial n => simp only [parseTop, lastStates] at h ⊢; exact ih _ _ acc h (by cases acc <;> simpa using hacc)
    | context t => simp only [parseTop, lastStates] at h ⊢; exact ih _ _ acc h (by cases acc <;> simpa using hacc)
    | async b => simp only [parseTop, lastStates] at h ⊢; exact ih _ _ acc h (by cases acc <;> simpa using hacc)
    | dynamic b => simp only [parseTop, lastStates] at h ⊢; exact ih _ _ acc h (by cases acc <;> simpa using hacc)
    | legacy k => simp only [parseTop, lastStates] at h ⊢; exact ih _ _ acc h (by cases acc <;> simpa using hacc)

/-- **What a parsed machine knows about its states is what the (last) `states:` section says.** -/
theorem parseMachine_states (d : Def) (m : Machine) (h : parseMachine d = .ok m) :
    ∃ items st, lastStates d none = some items ∧ parseStates items {} = .ok st ∧
      m.states = st.leaves ∧ m.hierarchy = st.hier ∧ m.storage = st.storage := by
  unfold parseMachine at h
  cases ht : parseTop d {} with
  | error e => rw [ht] at h; cases h
  | ok a =>
    rw [ht] at h
    simp only at h
    have hs := parseTop_states d {} a none ht ⟨rfl, rfl, rfl⟩
    cases hn : a.name with
    | none => rw [hn] at h; cases h
    | some name =>
      rw [hn] at h
      simp only at h
      cases hi : a.initial with
      | none => rw [hi] at h; cases h
      | some ini =>
        rw [hi] at h
        simp only at h
        cases hst : a.states with
        | none => rw [hst] at h; cases h
        | some states =>
          rw [hst] at h
          simp only [Except.ok.injEq] at h
          subst h
          cases hl : lastStates d none with
          | none => rw [hl] at hs; simp [hst] at hs
          | some items =>
            rw [hl] at hs
            obtain ⟨st, hp, h1, h2, h3⟩ := hs
            rw [hst] at h1
            exact ⟨items, st, rfl, hp, Option.some.inj h1, h2, h3⟩

mutual
theorem supsOk_find_B (P : Name) : ∀ (x : BItem) (b : List BItem), supsOkB x = true → findSupB P x = some b →
    leavesBs b ≠ [] ∧ (match declInit b none with | some i => i ∈ leavesBs b | none => True)
  | .state _ _, _, _, h => by simp [findSupB] at h
  | .initial _, _, _, h => by simp [findSupB] at h
  | .unknown _, _, _, h => by simp [findSupB] at h
  | .sup n _ body, b, hok, h => by
      simp only [supsOkB, Bool.and_eq_true, Bool.not_eq_eq_eq_not, Bool.not_true] at hok
      simp only [findSupB] at h
      by_cases hn : n = P
      · simp only [hn, ↓reduceIte, Option.some.injEq] at h
        subst h
        refine ⟨by intro he; simp [he] at hok, ?_⟩
        have := hok.1.2
        cases hd : declInit body none with
        | none => trivial
        | some i => simp only [hd] at this ⊢; simpa using this
      · simp only [hn, ↓reduceIte] at h
        exact supsOk_find_Bs P body b hok.2 h
theorem supsOk_find_Bs (P : Name) : ∀ (xs : List BItem) (b : List BItem), supsOkBs xs = true → findSupBs P xs = some b →
    leavesBs b ≠ [] ∧ (match declInit b none with | some i => i ∈ leavesBs b | none => True)
  | [], _, _, h => by simp [findSupBs] at h
  | x :: xs, b, hok, h => by
      simp only [supsOkBs, Bool.and_eq_true] at hok
      simp only [findSupBs] at h
      cases hx : findSupB P x with
      | some b' =>
        simp only [hx, Option.some.injEq] at h
        subst h
        exact supsOk_find_B P x b' hok.1 hx
      | none =>
        simp only [hx] at h
        exact supsOk_find_Bs P xs b hok.2 h
end


end SMV
