import SMV.Lemmas.DynRun
/-
  Data slots: what the constructor, the construction step of a method, in-place writes and the
  dynamic setter do to `Option` slots.
-/
namespace SMV

/-- storage field names are pairwise distinct (side condition N2: snake_case images of the names of
    data-carrying states pairwise distinct; otherwise the struct has a duplicate field, E0124) -/
def Machine.FieldsNodup (m : Machine) : Prop := (m.storage.map (·.field)).Nodup

theorem alookup_storage {β : Type} (f : StorageSpec → β) :
    ∀ (l : List StorageSpec), (l.map (·.field)).Nodup → ∀ spec ∈ l,
      alookup spec.field (l.map fun sp => (sp.field, f sp)) = some (f spec) := by
  intro l
  induction l with
  | nil => intro _ spec h; cases h
  | cons x xs ih =>
    intro hn spec hmem
    simp only [List.map_cons, List.nodup_cons] at hn
    simp only [List.map_cons, alookup]
    rcases List.mem_cons.mp hmem with rfl | hmem
    · simp
    · have hne : x.field ≠ spec.field := by
        intro heq
        exact hn.1 (heq ▸ List.mem_map.mpr ⟨spec, hmem, rfl⟩)
      simp only [hne, ↓reduceIte]
      exact ih hn.2 spec hmem

/-- slot `field` is present exactly when the machine is in the state that owns it -/
def SlotInv (m : Machine) (tm : TM) : Prop :=
  ∀ spec ∈ m.storage, (tm.slot spec.field).isSome = decide (spec.stateName = tm.state)

theorem slot_construct (m : Machine) (hf : m.FieldsNodup) (e : Edge) (self : TM) (spec : StorageSpec)
    (hs : spec ∈ m.storage) :
    (construct (genMethod m e) self).slot spec.field = if spec.stateName = e.target then some 0 else none := by
  unfold TM.slot construct
  simp only [genMethod_slots, genSlots, List.map_map]
  have := alookup_storage (fun sp : StorageSpec => if sp.stateName = e.target then some (0 : Nat) else none)
    m.storage hf spec hs
  have hfun : ((fun s : Slot => (s.field, Option.map (fun _ => (0 : Nat)) s.init)) ∘ fun spec : StorageSpec =>
      if spec.stateName = e.target then ({ field := spec.field, init := some spec.ty } : Slot)
      else { field := spec.field, init := none }) =
      fun sp => (sp.field, if sp.stateName = e.target then some 0 else none) := by
    funext sp
    simp only [Function.comp]
    split <;> simp
  rw [hfun, this]

theorem construct_inv (m : Machine) (hf : m.FieldsNodup) (e : Edge) (self : TM) :
    SlotInv m (construct (genMethod m e) self) := by
  intro spec hs
  rw [slot_construct m hf e self spec hs]
  simp only [construct, genMethod_target]
  split <;> simp_all

theorem slot_new (m : Machine) (hf : m.FieldsNodup) (ctx : Nat) (spec : StorageSpec) (hs : spec ∈ m.storage) :
    (⟨m.initial, ctx, (genCtor m m.initial).slots.map fun s => (s.field, s.init.map fun _ => 0)⟩ : TM).slot spec.field =
      if spec.stateName = m.initial then some 0 else none := by
  unfold TM.slot
  simp only [genCtor, List.map_map]
  have := alookup_storage (fun sp : StorageSpec => if sp.stateName = m.initial then some (0 : Nat) else none)
    m.storage hf spec hs
  have hfun : ((fun s : Slot => (s.field, Option.map (fun _ => (0 : Nat)) s.init)) ∘ fun spec : StorageSpec =>
      if spec.stateName = m.initial then ({ field := spec.field, init := some spec.ty } : Slot)
      else { field := spec.field, init := none }) =
      fun sp => (sp.field, if sp.stateName = m.initial then some 0 else none) := by
    funext sp
    simp only [Function.comp]
    split <;> simp
  rw [hfun, this]

/-! ### in-place writes keep presence -/

theorem alookup_writeSlots (field : Name) (v : Nat) (f : Name) : ∀ (l : List (Name × Option Nat)),
    (match alookup f (writeSlots field v l) with | some x => x.isSome | none => false) =
    (match alookup f l with | some x => x.isSome | none => false) := by
  intro l
  induction l with
  | nil => rfl
  | cons x xs ih =>
    obtain ⟨g, y⟩ := x
    simp only [writeSlots]
    by_cases hg : g = field
    · simp only [hg, ↓reduceIte, alookup]
      by_cases hf : field = f
      · simp [hf]
      · simp [hf]
    · simp only [hg, ↓reduceIte, alookup]
      by_cases hf : g = f
      · simp [hf]
      · simp only [hf, ↓reduceIte]; exact ih

theorem slot_write_isSome (tm : TM) (w : Option (Name × Nat)) (f : Name) :
    ((tm.write w).slot f).isSome = (tm.slot f).isSome := by
  cases w with
  | none => rfl
  | some p =>
    obtain ⟨field, v⟩ := p
    simp only [TM.write, TM.slot]
    have := alookup_writeSlots field v f tm.slots
    revert this
    cases alookup f (writeSlots field v tm.slots) <;> cases alookup f tm.slots <;> simp

theorem write_inv (m : Machine) (tm : TM) (w : Option (Name × Nat)) (h : SlotInv m tm) : SlotInv m (tm.write w) := by
  intro spec hs
  rw [slot_write_isSome, TM.write_state]
  exact h spec hs

theorem evalCalls_inv (m : Machine) (env : Env) (kind : HK) (isAsync : Bool) (payload : Option Nat) :
    ∀ (cs : List Call) (recv : TM) (h : Hist) (recv' : TM) (h' : Hist),
      evalCalls env kind isAsync payload cs recv h = (.cont recv', h') → SlotInv m recv → SlotInv m recv' := by
  intro cs
  induction cs with
  | nil =>
    intro recv h recv' h' he hinv
    simp only [evalCalls, Prod.mk.injEq, Phase.cont.injEq] at he
    rw [← he.1]; exact hinv
  | cons c rest ih =>
    intro recv h recv' h' he hinv
    simp only [evalCalls] at he
    split at he
    · exact ih recv h recv' h' he hinv
    · cases hv : (env h (cbCall kind recv payload c)).val <;> simp only [hv] at he
      case unit => exact ih _ _ recv' h' he (write_inv m recv _ hinv)
      all_goals simp at he

/-- **Every successful transition re-establishes the slot invariant**: whatever the hooks did, the
    machine returned by `Ok` has exactly the slot of its own state present. -/
theorem method_ok_inv (m : Machine) (hf : m.FieldsNodup) (e : Edge) (env : Env) (self : TM) (payload : Option Nat)
    (h h' : Hist) (nm : TM)
    (hrun : run env (methodProg (genMethod m e) self payload) h = (.done (.ok nm), h')) : SlotInv m nm := by
  rw [run_method] at hrun
  obtain ⟨h1, h2, self', h3, h4, _, _, _, e4, _⟩ := evalMethod_ok_inv hrun
  exact evalCalls_inv m env .after _ payload _ _ _ nm h4 e4 (construct_inv m hf e self')

/-! ### the dynamic setter -/

theorem alookup_setSlots_same (field : Name) (v : Nat) : ∀ (l : List (Name × Option Nat)),
    (alookup field l).isSome → alookup field (setSlots field v l) = some (some v) := by
  intro l
  induction l with
  | nil => intro h; simp [alookup] at h
  | cons x xs ih =>
    obtain ⟨g, y⟩ := x
    intro h
    simp only [setSlots]
    by_cases hg : g = field
    · simp [hg, alookup]
    · simp only [hg, ↓reduceIte, alookup] at h ⊢
      exact ih h

theorem alookup_setSlots_other (field : Name) (v : Nat) (f : Name) (hne : f ≠ field) : ∀ (l : List (Name × Option Nat)),
    alookup f (setSlots field v l) = alookup f l := by
  intro l
  induction l with
  | nil => rfl
  | cons x xs ih =>
    obtain ⟨g, y⟩ := x
    simp only [setSlots]
    by_cases hg : g = field
    · simp only [hg, ↓reduceIte, alookup]
      have : ¬ field = f := fun h => hne h.symm
      simp [this]
    · simp only [hg, ↓reduceIte, alookup]
      by_cases hf : g = f
      · simp [hf]
      · simp only [hf, ↓reduceIte]; exact ih

end SMV
