import SMV.Exec
/-
  Closed forms for the execution of a generated transition method: each phase of
  `methodProg` is characterised by a first-order evaluation function over its list
  (no continuations), for every hook environment.
-/
namespace SMV

/-- result of one phase: continue (with a possibly updated receiver) or stop -/
inductive Phase (σ : Type) where
  | cont (s : σ)
  | stop (r : Out MethodRes)

/-! ### hook-call records -/

def abCall (self : TM) (a : Around) : HookCall :=
  ⟨.aroundBefore, a.callee, self.state, self.ctx, self.slots, none, none⟩

def aaCall (nm : TM) (a : Around) : HookCall :=
  ⟨.aroundAfter, a.callee, nm.state, nm.ctx, nm.slots, none, none⟩

def condCall (self : TM) (payload : Option Nat) (c : Check) : HookCall :=
  ⟨.cond, c.callee, self.state, self.ctx, self.slots, some self.ctx,
   if c.passPayload then payload else none⟩

def cbCall (kind : HK) (recv : TM) (payload : Option Nat) (c : Call) : HookCall :=
  ⟨kind, c.callee, recv.state, recv.ctx, recv.slots, none, if c.passPayload then payload else none⟩

/-! ### phase evaluators -/

def evalAB (env : Env) (self : TM) : List Around → Hist → Phase Unit × Hist
  | [], h => (.cont (), h)
  | a :: rest, h =>
    match (env h (abCall self a)).val with
    | .panic => (.stop (.panicked .hook), h ++ [abCall self a])
    | .proceed => evalAB env self rest (h ++ [abCall self a])
    | .abort kind =>
      (.stop (.done (.err self (GuardError.withKind (callbackName kind a.fallback) a.errEvent kind))),
       h ++ [abCall self a])
    | _ => (.stop (.panicked .illTyped), h ++ [abCall self a])

def evalChecks (env : Env) (self : TM) (payload : Option Nat) : List Check → Hist → Phase Unit × Hist
  | [], h => (.cont (), h)
  | c :: rest, h =>
    match (env h (condCall self payload c)).val with
    | .panic => (.stop (.panicked .hook), h ++ [condCall self payload c])
    | .bool b =>
      if (if c.negated then !b else b) then
        (.stop (.done (.err self (GuardError.new c.errGuard c.errEvent))), h ++ [condCall self payload c])
      else evalChecks env self payload rest (h ++ [condCall self payload c])
    | _ => (.stop (.panicked .illTyped), h ++ [condCall self payload c])

def evalCalls (env : Env) (kind : HK) (isAsync : Bool) (payload : Option Nat) :
    List Call → TM → Hist → Phase TM × Hist
  | [], recv, h => (.cont recv, h)
  | c :: rest, recv, h =>
    if isAsync && !c.await then evalCalls env kind isAsync payload rest recv h
    else
      match (env h (cbCall kind recv payload c)).val with
      | .panic => (.stop (.panicked .hook), h ++ [cbCall kind recv payload c])
      | .unit =>
        evalCalls env kind isAsync payload rest (recv.write (env h (cbCall kind recv payload c)).write)
          (h ++ [cbCall kind recv payload c])
      | _ => (.stop (.panicked .illTyped), h ++ [cbCall kind recv payload c])

def evalAA (env : Env) (nm : TM) : List Around → Hist → Phase Unit × Hist
  | [], h => (.cont (), h)
  | a :: rest, h =>
    match (env h (aaCall nm a)).val with
    | .panic => (.stop (.panicked .hook), h ++ [aaCall nm a])
    | .proceed => evalAA env nm rest (h ++ [aaCall nm a])
    | .abort kind =>
      (.stop (.panicked (.afterSuccessAbort (callbackName kind a.fallback) a.errEvent)), h ++ [aaCall nm a])
    | _ => (.stop (.panicked .illTyped), h ++ [aaCall nm a])

/-! ### `run` of each phase program -/

theorem run_aroundBefore (env : Env) (self : TM) (k : Prog MethodRes) :
    ∀ (as : List Around) (h : Hist),
      run env (aroundBeforeProg self as k) h =
        match evalAB env self as h with
        | (.cont (), h') => run env k h'
        | (.stop r, h') => (r, h') := by
  intro as
  induction as with
  | nil => intro h; simp [aroundBeforeProg, evalAB]
  | cons a rest ih =>
    intro h
    simp only [aroundBeforeProg, run, evalAB, abCall]
    cases hv : (env h ⟨.aroundBefore, a.callee, self.state, self.ctx, self.slots, none, none⟩).val <;>
      simp [run, ih]

theorem run_checks (env : Env) (self : TM) (payload : Option Nat) (k : Prog MethodRes) :
    ∀ (cs : List Check) (h : Hist),
      run env (checksProg self payload cs k) h =
        match evalChecks env self payload cs h with
        | (.cont (), h') => run env k h'
        | (.stop r, h') => (r, h') := by
  intro cs
  induction cs with
  | nil => intro h; simp [checksProg, evalChecks]
  | cons c rest ih =>
    intro h
    simp only [checksProg, run, evalChecks, condCall]
    cases hv : (env h ⟨.cond, c.callee, self.state, self.ctx, self.slots, some self.ctx,
        if c.passPayload then payload else none⟩).val
    case bool b =>
      by_cases hb : (if c.negated then !b else b) = true <;> simp [hb, run, ih]
    all_goals simp [run]

theorem run_calls (env : Env) (kind : HK) (isAsync : Bool) (payload : Option Nat)
    (k : TM → Prog MethodRes) :
    ∀ (cs : List Call) (recv : TM) (h : Hist),
      run env (callsProg kind isAsync recv payload cs k) h =
        match evalCalls env kind isAsync payload cs recv h with
        | (.cont recv', h') => run env (k recv') h'
        | (.stop r, h') => (r, h') := by
  intro cs
  induction cs with
  | nil => intro recv h; simp [callsProg, evalCalls]
  | cons c rest ih =>
    intro recv h
    simp only [callsProg, evalCalls]
    split
    · exact ih recv h
    · simp only [run, cbCall]
      cases hv : (env h ⟨kind, c.callee, recv.state, recv.ctx, recv.slots, none,
          if c.passPayload then payload else none⟩).val <;> simp [run, ih]

theorem run_aroundAfter (env : Env) (nm : TM) (k : Prog MethodRes) :
    ∀ (as : List Around) (h : Hist),
      run env (aroundAfterProg nm as k) h =
        match evalAA env nm as h with
        | (.cont (), h') => run env k h'
        | (.stop r, h') => (r, h') := by
  intro as
  induction as with
  | nil => intro h; simp [aroundAfterProg, evalAA]
  | cons a rest ih =>
    intro h
    simp only [aroundAfterProg, run, evalAA, aaCall]
    cases hv : (env h ⟨.aroundAfter, a.callee, nm.state, nm.ctx, nm.slots, none, none⟩).val <;>
      simp [run, ih]

/-! ### the whole method -/

/-- the part of a generated method after the conditions: before-callbacks, construction,
    after-callbacks, AfterSuccess stage -/
def evalTail (env : Env) (m : Method) (self : TM) (payload : Option Nat) (h2 : Hist) :
    Out MethodRes × Hist :=
  match evalCalls env .before m.isAsync payload m.before self h2 with
  | (.stop r, h3) => (r, h3)
  | (.cont self', h3) =>
    match evalCalls env .after m.isAsync payload m.after (construct m self') h3 with
    | (.stop r, h4) => (r, h4)
    | (.cont nm, h4) =>
      match evalAA env nm (if m.hasAround then m.aroundAfter else []) h4 with
      | (.stop r, h5) => (r, h5)
      | (.cont (), h5) => (.done (.ok nm), h5)

/-- first-order evaluation of a generated method -/
def evalMethod (env : Env) (m : Method) (self : TM) (payload : Option Nat) (h : Hist) :
    Out MethodRes × Hist :=
  match evalAB env self (if m.hasAround then m.aroundBefore else []) h with
  | (.stop r, h1) => (r, h1)
  | (.cont (), h1) =>
    match evalChecks env self payload m.checks h1 with
    | (.stop r, h2) => (r, h2)
    | (.cont (), h2) => evalTail env m self payload h2

theorem run_method (env : Env) (m : Method) (self : TM) (payload : Option Nat) (h : Hist) :
    run env (methodProg m self payload) h = evalMethod env m self payload h := by
  unfold methodProg evalMethod evalTail
  rw [run_aroundBefore]
  split
  · rename_i h1 heq
    simp only [heq]
    rw [run_checks]
    split
    · rename_i h2 heq2
      simp only [heq2]
      rw [run_calls]
      split
      · rename_i s3 h3 heq3
        simp only [heq3]
        rw [run_calls]
        split
        · rename_i nm h4 heq4
          simp only [heq4]
          rw [run_aroundAfter]
          split
          · rename_i h5 heq5
            simp [heq5, run]
          · rename_i r h5 heq5
            simp [heq5]
        · rename_i r h4 heq4
          simp [heq4]
      · rename_i r h3 heq3
        simp [heq3]
    · rename_i r h2 heq2
      simp [heq2]
  · rename_i r h1 heq
    simp [heq]

end SMV
