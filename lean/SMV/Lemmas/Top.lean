import SMV.Lemmas.Events
/-
  Inversion of the top-level parser.
-/
namespace SMV

def lastName : Def → Option Name → Option Name
  | [], acc => acc
  | .name n :: rest, _ => lastName rest (some n)
  | _ :: rest, acc => lastName rest acc

def lastInitial : Def → Option Name → Option Name
  | [], acc => acc
  | .initial n :: rest, _ => lastInitial rest (some n)
  | _ :: rest, acc => lastInitial rest acc

def lastEvents : Def → Option (List EvBlock) → Option (List EvBlock)
  | [], acc => acc
  | .events b :: rest, _ => lastEvents rest (some b)
  | _ :: rest, acc => lastEvents rest acc

/-- a successful top-level parse: no unknown key, every `states:` and every `events:` section
    (also ones that a later section overrides) parses on its own, and the fields are the last ones
    written -/
theorem parseTop_spec : ∀ (d : Def) (a a' : TopAcc) (evs0 : Option (List EvBlock)),
    parseTop d a = .ok a' →
    (match evs0 with
     | some b => ∃ evs, parseEvents b [] = .ok evs ∧ a.events = some evs
     | none => a.events = none) →
      (∀ x ∈ d, x.isUnknown = false) ∧
      (∀ items, TopItem.states items ∈ d → ∃ st, parseStates items {} = .ok st) ∧
      (∀ blocks, TopItem.events blocks ∈ d → ∃ evs, parseEvents blocks [] = .ok evs) ∧
      a'.name = lastName d a.name ∧ a'.initial = lastInitial d a.initial ∧
      (match lastEvents d evs0 with
       | some b => ∃ evs, parseEvents b [] = .ok evs ∧ a'.events = some evs
       | none => a'.events = none) := by
  intro d
  induction d with
  | nil =>
    intro a a' evs0 h hev
    simp only [parseTop, Except.ok.injEq] at h
    subst h
    exact ⟨by simp, by simp, by simp, rfl, rfl, by simpa [lastEvents] using hev⟩
  | cons x xs ih =>
    intro a a' evs0 h hev
    have step : ∀ (a1 : TopAcc) (e1 : Option (List EvBlock)), parseTop xs a1 = .ok a' →
        (match e1 with
         | some b => ∃ evs, parseEvents b [] = .ok evs ∧ a1.events = some evs
         | none => a1.events = none) →
        x.isUnknown = false →
        (∀ items, x = TopItem.states items → ∃ st, parseStates items {} = .ok st) →
        (∀ blocks, x = TopItem.events blocks → ∃ evs, parseEvents blocks [] = .ok evs) →
        (∀ x' ∈ x :: xs, x'.isUnknown = false) ∧
        (∀ items, TopItem.states items ∈ x :: xs → ∃ st, parseStates items {} = .ok st) ∧
        (∀ blocks, TopItem.events blocks ∈ x :: xs → ∃ evs, parseEvents blocks [] = .ok evs) ∧
        a'.name = lastName xs a1.name ∧ a'.initial = lastInitial xs a1.initial ∧
        (match lastEvents xs e1 with
         | some b => ∃ evs, parseEvents b [] = .ok evs ∧ a'.events = some evs
         | none => a'.events = none) := by
      intro a1 e1 h1 he1 hu hs he
      obtain ⟨g1, g2, g3, g4, g5, g6⟩ := ih a1 a' e1 h1 he1
      refine ⟨?_, ?_, ?_, g4, g5, g6⟩
      · intro y hy; simp at hy; rcases hy with rfl | hy; exact hu; exact g1 y hy
      · intro items hi; simp at hi; rcases hi with hi | hi; exact hs items hi.symm; exact g2 items hi
      · intro blocks hb; simp at hb; rcases hb with hb | hb; exact he blocks hb.symm; exact g3 blocks hb
    cases x with
    | unknown k => simp [parseTop] at h
    | name n =>
      simp only [parseTop] at h
      have := step _ evs0 h (by cases evs0 <;> simpa using hev) rfl (by intro _ hh; cases hh) (by intro _ hh; cases hh)
      simpa [lastName, lastInitial, lastEvents] using this
    | initial n =>
      simp only [parseTop] at h
      have := step _ evs0 h (by cases evs0 <;> simpa using hev) rfl (by intro _ hh; cases hh) (by intro _ hh; cases hh)
      simpa [lastName, lastInitial, lastEvents] using this
    | context t =>
      simp only [parseTop] at h
      have := step _ evs0 h (by cases evs0 <;> simpa using hev) rfl (by intro _ hh; cases hh) (by intro _ hh; cases hh)
      simpa [lastName, lastInitial, lastEvents] using this
    | async b =>
      simp only [parseTop] at h
      have := step _ evs0 h (by cases evs0 <;> simpa using hev) rfl (by intro _ hh; cases hh) (by intro _ hh; cases hh)
      simpa [lastName, lastInitial, lastEvents] using this
    | dynamic b =>
      simp only [parseTop] at h
      have := step _ evs0 h (by cases evs0 <;> simpa using hev) rfl (by intro _ hh; cases hh) (by intro _ hh; cases hh)
      simpa [lastName, lastInitial, lastEvents] using this
    | legacy k =>
      simp only [parseTop] at h
      have := step _ evs0 h (by cases evs0 <;> simpa using hev) rfl (by intro _ hh; cases hh) (by intro _ hh; cases hh)
      simpa [lastName, lastInitial, lastEvents] using this
    | states items =>
      simp only [parseTop] at h
      cases hp : parseStates items {} with
      | error e => rw [hp] at h; cases h
      | ok st =>
        rw [hp] at h
        simp only at h
        have := step _ evs0 h (by cases evs0 <;> simpa using hev) rfl
          (by intro i hh; cases hh; exact ⟨st, hp⟩) (by intro _ hh; cases hh)
        simpa [lastName, lastInitial, lastEvents] using this
    | events blocks =>
      simp only [parseTop] at h
      cases hp : parseEvents blocks [] with
      | error e => rw [hp] at h; cases h
      | ok evs =>
        rw [hp] at h
        simp only at h
        have := step _ (some blocks) h ⟨evs, hp, rfl⟩ rfl (by intro _ hh; cases hh)
          (by intro b hh; cases hh; exact ⟨evs, hp⟩)
        simpa [lastName, lastInitial, lastEvents] using this

end SMV
