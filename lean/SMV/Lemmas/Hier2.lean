import SMV.Lemmas.Hier
/-
  Elab ⊑ Spec, step 2: reading the maps. Distinctness of names (which a successful parse
  guarantees, through `seen`) is used only here.
-/
namespace SMV

theorem alookup_append {β : Type} (k : Name) (a b : List (Name × β)) :
    alookup k (a ++ b) = (alookup k a).or (alookup k b) := by
  induction a with
  | nil => simp [alookup]
  | cons x xs ih =>
    obtain ⟨k', v⟩ := x
    simp only [List.cons_append, alookup]
    split <;> simp_all

/-! ### names met by the parser -/

mutual
theorem seenB_perm : ∀ x : BItem, (seenB x).Perm (namesB x)
  | .state _ _ => by simp [seenB, namesB]
  | .initial _ => by simp [seenB, namesB]
  | .unknown _ => by simp [seenB, namesB]
  | .sup n _ b => by
      simp only [seenB, namesB]
      exact (List.perm_append_comm).trans (List.Perm.cons n (seenBs_perm b))
theorem seenBs_perm : ∀ xs : List BItem, (seenBs xs).Perm (namesBs xs)
  | [] => by simp [seenBs, namesBs]
  | x :: xs => by
      simp only [seenBs, namesBs]
      exact (List.perm_append_comm).trans (List.Perm.append (seenB_perm x) (seenBs_perm xs))
end

mutual
theorem namesB_perm : ∀ x : BItem, (namesB x).Perm (leavesB x ++ supsB x)
  | .state _ _ => by simp [namesB, leavesB, supsB]
  | .initial _ => by simp [namesB, leavesB, supsB]
  | .unknown _ => by simp [namesB, leavesB, supsB]
  | .sup n _ b => by
      simp only [namesB, leavesB, supsB]
      exact (List.Perm.cons n (namesBs_perm b)).trans (List.perm_middle.symm)
theorem namesBs_perm : ∀ xs : List BItem, (namesBs xs).Perm (leavesBs xs ++ supsBs xs)
  | [] => by simp [namesBs, leavesBs, supsBs]
  | x :: xs => by
      simp only [namesBs, leavesBs, supsBs]
      have h1 := namesB_perm x
      have h2 := namesBs_perm xs
      refine (List.Perm.append h1 h2).trans ?_
      -- (lx ++ sx) ++ (lxs ++ sxs) ~ (lx ++ lxs) ++ (sx ++ sxs)
      simp only [List.append_assoc]
      refine List.Perm.append_left _ ?_
      rw [← List.append_assoc, ← List.append_assoc]
      exact List.Perm.append_right _ List.perm_append_comm
end

/-- names are pairwise distinct: leaves among themselves, superstates among themselves, and no
    superstate is named like a leaf -/
structure NamesDistinct (items : List BItem) : Prop where
  leaves : (leavesBs items).Nodup
  sups : (supsBs items).Nodup
  disjoint : ∀ x ∈ leavesBs items, x ∉ supsBs items

theorem namesDistinct_of_seen (items : List BItem) (seen0 : List Name) (h : (seenBs items ++ seen0).Nodup) :
    NamesDistinct items := by
  have h1 : (seenBs items).Nodup := (List.nodup_append.mp h).1
  have h2 : (leavesBs items ++ supsBs items).Nodup :=
    ((seenBs_perm items).trans (namesBs_perm items)).nodup_iff.mp h1
  have h3 := List.nodup_append.mp h2
  exact ⟨h3.1, h3.2.1, fun x hx hs => (h3.2.2 x hx x hs) rfl⟩

/-! ### `lookup` -/

mutual
theorem alookup_regs_none_B (P : Name) : ∀ x : BItem, P ∉ supsB x → alookup P (regsB x) = none
  | .state _ _, _ => by simp [regsB, alookup]
  | .initial _, _ => by simp [regsB, alookup]
  | .unknown _, _ => by simp [regsB, alookup]
  | .sup n _ b, h => by
      simp [supsB] at h
      simp [regsB, alookup, Ne.symm h.1, alookup_regs_none_Bs P b h.2]
theorem alookup_regs_none_Bs (P : Name) : ∀ xs : List BItem, P ∉ supsBs xs → alookup P (regsBs xs) = none
  | [], _ => by simp [regsBs, alookup]
  | x :: xs, h => by
      simp [supsBs] at h
      simp [regsBs, alookup_append, alookup_regs_none_Bs P xs h.2, alookup_regs_none_B P x h.1]
end

mutual
theorem findSup_none_B (P : Name) : ∀ x : BItem, P ∉ supsB x → findSupB P x = none
  | .state _ _, _ => by simp [findSupB]
  | .initial _, _ => by simp [findSupB]
  | .unknown _, _ => by simp [findSupB]
  | .sup n _ b, h => by
      simp [supsB] at h
      simp [findSupB, Ne.symm h.1, findSup_none_Bs P b h.2]
theorem findSup_none_Bs (P : Name) : ∀ xs : List BItem, P ∉ supsBs xs → findSupBs P xs = none
  | [], _ => by simp [findSupBs]
  | x :: xs, h => by
      simp [supsBs] at h
      simp [findSupBs, findSup_none_B P x h.1, findSup_none_Bs P xs h.2]
end

mutual
theorem findSup_some_B (P : Name) : ∀ x : BItem, P ∈ supsB x → (findSupB P x).isSome
  | .state _ _, h => by simp [supsB] at h
  | .initial _, h => by simp [supsB] at h
  | .unknown _, h => by simp [supsB] at h
  | .sup n _ b, h => by
      simp [supsB] at h
      by_cases hn : n = P
      · simp [findSupB, hn]
      · simp only [findSupB, hn, ↓reduceIte]
        rcases h with h | h
        · exact absurd h.symm hn
        · exact findSup_some_Bs P b h
theorem findSup_some_Bs (P : Name) : ∀ xs : List BItem, P ∈ supsBs xs → (findSupBs P xs).isSome
  | [], h => by simp [supsBs] at h
  | x :: xs, h => by
      simp [supsBs] at h
      simp only [findSupBs]
      cases hx : findSupB P x with
      | some b => simp
      | none =>
        simp only
        rcases h with h | h
        · have := findSup_some_B P x h; simp [hx] at this
        · exact findSup_some_Bs P xs h
end

/-! generic form: a map registered as `(n, f body)` at each superstate reads back `f` of the body
    of the superstate with that name -/
mutual
def gregsB {β : Type} (f : List BItem → β) : BItem → List (Name × β)
  | .sup n _ b => (n, f b) :: gregsBs f b
  | _ => []
def gregsBs {β : Type} (f : List BItem → β) : List BItem → List (Name × β)
  | [] => []
  | x :: xs => gregsBs f xs ++ gregsB f x
end

mutual
theorem gregs_none_B {β : Type} (f : List BItem → β) (P : Name) : ∀ x : BItem, P ∉ supsB x → alookup P (gregsB f x) = none
  | .state _ _, _ => by simp [gregsB, alookup]
  | .initial _, _ => by simp [gregsB, alookup]
  | .unknown _, _ => by simp [gregsB, alookup]
  | .sup n _ b, h => by
      simp [supsB] at h
      simp [gregsB, alookup, Ne.symm h.1, gregs_none_Bs f P b h.2]
theorem gregs_none_Bs {β : Type} (f : List BItem → β) (P : Name) : ∀ xs : List BItem, P ∉ supsBs xs → alookup P (gregsBs f xs) = none
  | [], _ => by simp [gregsBs, alookup]
  | x :: xs, h => by
      simp [supsBs] at h
      simp [gregsBs, alookup_append, gregs_none_Bs f P xs h.2, gregs_none_B f P x h.1]
end

mutual
theorem gregs_spec_B {β : Type} (f : List BItem → β) (P : Name) : ∀ x : BItem, (supsB x).Nodup →
    alookup P (gregsB f x) = (findSupB P x).map f
  | .state _ _, _ => by simp [gregsB, alookup, findSupB]
  | .initial _, _ => by simp [gregsB, alookup, findSupB]
  | .unknown _, _ => by simp [gregsB, alookup, findSupB]
  | .sup n _ b, h => by
      simp [supsB] at h
      by_cases hn : n = P
      · simp [gregsB, alookup, findSupB, hn]
      · simp [gregsB, alookup, findSupB, hn, gregs_spec_Bs f P b h.2]
theorem gregs_spec_Bs {β : Type} (f : List BItem → β) (P : Name) : ∀ xs : List BItem, (supsBs xs).Nodup →
    alookup P (gregsBs f xs) = (findSupBs P xs).map f
  | [], _ => by simp [gregsBs, alookup, findSupBs]
  | x :: xs, h => by
      simp only [supsBs, List.nodup_append] at h
      obtain ⟨hx, hxs, hdisj⟩ := h
      simp only [gregsBs, alookup_append, findSupBs]
      rw [gregs_spec_Bs f P xs hxs, gregs_spec_B f P x hx]
      by_cases hP : P ∈ supsB x
      · have : P ∉ supsBs xs := fun h' => (hdisj P hP P h') rfl
        rw [findSup_none_Bs P xs this]
        cases findSupB P x <;> simp
      · rw [findSup_none_B P x hP]
        cases findSupBs P xs <;> simp
end

mutual
theorem regs_eq_gregs_B : ∀ x : BItem, regsB x = gregsB leavesBs x
  | .state _ _ => rfl
  | .initial _ => rfl
  | .unknown _ => rfl
  | .sup n _ b => by simp [regsB, gregsB, regs_eq_gregs_Bs b]
theorem regs_eq_gregs_Bs : ∀ xs : List BItem, regsBs xs = gregsBs leavesBs xs
  | [] => rfl
  | x :: xs => by simp [regsBs, gregsBs, regs_eq_gregs_B x, regs_eq_gregs_Bs xs]
end

mutual
theorem inis_eq_gregs_B : ∀ x : BItem, inisB x = gregsB (fun b => (initialOfBody b).getD []) x
  | .state _ _ => rfl
  | .initial _ => rfl
  | .unknown _ => rfl
  | .sup n _ b => by simp [inisB, gregsB, inis_eq_gregs_Bs b]
theorem inis_eq_gregs_Bs : ∀ xs : List BItem, inisBs xs = gregsBs (fun b => (initialOfBody b).getD []) xs
  | [] => rfl
  | x :: xs => by simp [inisBs, gregsBs, inis_eq_gregs_B x, inis_eq_gregs_Bs xs]
end

theorem lookup_spec (P : Name) (items : List BItem) (h : (supsBs items).Nodup) :
    alookup P (regsBs items) = (findSupBs P items).map leavesBs := by
  rw [regs_eq_gregs_Bs]; exact gregs_spec_Bs leavesBs P items h

theorem inis_spec (P : Name) (items : List BItem) (h : (supsBs items).Nodup) :
    alookup P (inisBs items) = (findSupBs P items).map fun b => (initialOfBody b).getD [] := by
  rw [inis_eq_gregs_Bs]; exact gregs_spec_Bs _ P items h

/-! ### `ancestors` -/

mutual
theorem anc_none_B (l : Name) (anc : List Name) : ∀ x : BItem, l ∉ leavesB x → alookup l (ancB anc x) = none
  | .state n _, h => by simp [leavesB] at h; simp [ancB, alookup, Ne.symm h]
  | .initial _, _ => by simp [ancB, alookup]
  | .unknown _, _ => by simp [ancB, alookup]
  | .sup n _ b, h => by
      simp [leavesB] at h
      simp [ancB, anc_none_Bs l (anc ++ [n]) b h]
theorem anc_none_Bs (l : Name) (anc : List Name) : ∀ xs : List BItem, l ∉ leavesBs xs → alookup l (ancBs anc xs) = none
  | [], _ => by simp [ancBs, alookup]
  | x :: xs, h => by
      simp [leavesBs] at h
      simp [ancBs, alookup_append, anc_none_Bs l anc xs h.2, anc_none_B l anc x h.1]
end

mutual
theorem ancestors_none_B (l : Name) (anc : List Name) : ∀ x : BItem, l ∉ leavesB x → ancestorsB l anc x = none
  | .state n _, h => by simp [leavesB] at h; simp [ancestorsB, Ne.symm h]
  | .initial _, _ => by simp [ancestorsB]
  | .unknown _, _ => by simp [ancestorsB]
  | .sup n _ b, h => by
      simp [leavesB] at h
      simp [ancestorsB, ancestors_none_Bs l (anc ++ [n]) b h]
theorem ancestors_none_Bs (l : Name) (anc : List Name) : ∀ xs : List BItem, l ∉ leavesBs xs → ancestorsBs l anc xs = none
  | [], _ => by simp [ancestorsBs]
  | x :: xs, h => by
      simp [leavesBs] at h
      simp [ancestorsBs, ancestors_none_B l anc x h.1, ancestors_none_Bs l anc xs h.2]
end

mutual
theorem anc_spec_B (l : Name) (anc : List Name) : ∀ x : BItem, (leavesB x).Nodup →
    alookup l (ancB anc x) = ancestorsB l anc x
  | .state n _, _ => by
      by_cases hn : n = l <;> simp [ancB, alookup, ancestorsB, hn]
  | .initial _, _ => by simp [ancB, alookup, ancestorsB]
  | .unknown _, _ => by simp [ancB, alookup, ancestorsB]
  | .sup n _ b, h => by
      simp only [leavesB] at h
      simp [ancB, ancestorsB, anc_spec_Bs l (anc ++ [n]) b h]
theorem anc_spec_Bs (l : Name) (anc : List Name) : ∀ xs : List BItem, (leavesBs xs).Nodup →
    alookup l (ancBs anc xs) = ancestorsBs l anc xs
  | [], _ => by simp [ancBs, alookup, ancestorsBs]
  | x :: xs, h => by
      simp only [leavesBs, List.nodup_append] at h
      obtain ⟨hx, hxs, hdisj⟩ := h
      simp only [ancBs, alookup_append, ancestorsBs]
      rw [anc_spec_Bs l anc xs hxs, anc_spec_B l anc x hx]
      by_cases hl : l ∈ leavesB x
      · have : l ∉ leavesBs xs := fun h' => (hdisj l hl l h') rfl
        rw [ancestors_none_Bs l anc xs this]
        cases ancestorsB l anc x <;> simp
      · rw [ancestors_none_B l anc x hl]
        cases ancestorsBs l anc xs <;> simp
end

end SMV
