import SMV.Lemmas.Envs
/-
  What the emitted code of a machine looks like to the lookups of SMV/Exec.lean
  (`dynParts`, `findMethod`, `findCtor`), as functions of the machine.
-/
namespace SMV

/-- the whole expansion with the dynamic wrapper -/
def Machine.code (m : Machine) : Code := genTypestate m ++ genDynamic m

def partsOf (m : Machine) : DynParts :=
  { anyVariants := m.states.map fun s => (s, s),
    stateNameArms := m.states.map fun s => (s, s),
    eventNameArms := m.events.map fun ev => (toPascal ev.name, ev.payload.isSome, ev.name),
    initialVariant := m.initial,
    isAsync := m.asyncMode,
    arms := genArms m,
    accs := m.storage.filterMap (genDynAcc m),
    extract := m.states.map fun s => (Name.lit "into_" ++ toSnake s, s, s),
    intoDyn := m.states.map fun s => (s, s) }

def Item.isTypestate : Item → Bool
  | .marker _ | .machineStruct _ _ _ | .stateImpl _ _ _ _ _ | .storageImpl _ _ _
  | .stateAccImpl _ _ _ _ _ _ _ | .substateImpl _ _ => true
  | _ => false

theorem storagePart_isTypestate (m : Machine) :
    ∀ x ∈ (if m.storage.isEmpty then []
           else Item.storageImpl m.name m.context.isSome (m.storage.map genStorageAcc)
                :: m.storage.map (genStateAccImpl m)), x.isTypestate = true ∧ ∀ s, x.stateImpl? s = none := by
  intro x hx
  split at hx
  · simp at hx
  · simp only [List.mem_cons, List.mem_map] at hx
    rcases hx with rfl | ⟨_, _, rfl⟩
    · exact ⟨rfl, fun _ => rfl⟩
    · exact ⟨rfl, fun _ => rfl⟩

theorem substates_isTypestate (m : Machine) :
    ∀ x ∈ genSubstateImpls m, x.isTypestate = true ∧ ∀ s, x.stateImpl? s = none := by
  intro x hx
  simp only [genSubstateImpls, List.mem_flatMap] at hx
  obtain ⟨leaf, _, hx⟩ := hx
  split at hx
  · obtain ⟨_, _, rfl⟩ := List.mem_map.mp hx
    exact ⟨rfl, fun _ => rfl⟩
  · simp at hx

theorem genTypestate_isTypestate (m : Machine) : ∀ x ∈ genTypestate m, x.isTypestate = true := by
  intro x hx
  simp only [genTypestate, genMarkers, genStateImpls, List.mem_append, List.mem_map,
    List.mem_cons, List.not_mem_nil, or_false] at hx
  rcases hx with ((⟨_, _, rfl⟩ | rfl) | (⟨_, _, rfl⟩ | hx)) | hx
  · rfl
  · rfl
  · rfl
  · exact (storagePart_isTypestate m x hx).1
  · exact (substates_isTypestate m x hx).1

theorem findSome?_typestate {β : Type} (m : Machine) (f : Item → Option β)
    (hf : ∀ x, x.isTypestate = true → f x = none) : (genTypestate m).findSome? f = none := by
  rw [List.findSome?_eq_none_iff]
  intro x hx
  exact hf x (genTypestate_isTypestate m x hx)

theorem filterMap_typestate {β : Type} (m : Machine) (f : Item → Option β)
    (hf : ∀ x, x.isTypestate = true → f x = none) : (genTypestate m).filterMap f = [] := by
  rw [List.filterMap_eq_nil_iff]
  intro x hx
  exact hf x (genTypestate_isTypestate m x hx)

theorem genDynamic_eq (m : Machine) :
    genDynamic m =
      [genEventEnum m, genAnyStateEnum m, .dynStruct (dynamicName m) (anyStateName m) m.context.isSome,
       .dynImpl (dynamicName m) (anyStateName m) (eventEnumName m) m.name m.context
         m.initial m.asyncMode (genArms m) (m.storage.filterMap (genDynAcc m)),
       .defaultImpl (dynamicName m) m.context] ++
      (m.states.map fun s => Item.intoDynamicImpl m.name (dynamicName m) (anyStateName m) m.context.isSome s s) ++
      [.extractImpl (dynamicName m) (anyStateName m) m.name m.context.isSome
        (m.states.map fun s => (Name.lit "into_" ++ toSnake s, s, s))] := by
  cases hc : m.context.isSome <;> simp [genDynamic, genDynamicMachine, genConversions, hc]

theorem dynParts_code (m : Machine) : m.code.dynParts = some (partsOf m) := by
  unfold Code.dynParts Machine.code
  simp only [List.findSome?_append, List.filterMap_append]
  rw [findSome?_typestate m Item.anyStateEnum? (by intro x hx; cases x <;> simp_all [Item.isTypestate, Item.anyStateEnum?]),
      findSome?_typestate m Item.eventEnum? (by intro x hx; cases x <;> simp_all [Item.isTypestate, Item.eventEnum?]),
      findSome?_typestate m Item.dynImpl? (by intro x hx; cases x <;> simp_all [Item.isTypestate, Item.dynImpl?]),
      findSome?_typestate m Item.extractImpl? (by intro x hx; cases x <;> simp_all [Item.isTypestate, Item.extractImpl?]),
      filterMap_typestate m Item.intoDyn? (by intro x hx; cases x <;> simp_all [Item.isTypestate, Item.intoDyn?])]
  rw [genDynamic_eq]
  have hex : ∀ b : Bool, List.findSome? Item.extractImpl?
      (m.states.map fun s => Item.intoDynamicImpl m.name (dynamicName m) (anyStateName m) b s s) = none := by
    intro b
    rw [List.findSome?_eq_none_iff]; intro x hx; obtain ⟨_, _, rfl⟩ := List.mem_map.mp hx; rfl
  have hid : ∀ b : Bool, List.filterMap Item.intoDyn?
      (m.states.map fun s => Item.intoDynamicImpl m.name (dynamicName m) (anyStateName m) b s s) =
      m.states.map fun s => (s, s) := by
    intro b
    rw [List.filterMap_map]
    induction m.states with
    | nil => rfl
    | cons s rest ih => simp [Item.intoDyn?, ih]
  cases hc : m.context.isSome <;>
    simp [genEventEnum, genAnyStateEnum, partsOf, hc, Item.anyStateEnum?, Item.eventEnum?, Item.dynImpl?,
      Item.extractImpl?, Item.intoDyn?, List.findSome?_cons, List.findSome?_append, hex, hid, List.filterMap_append,
      List.filterMap_cons]

/-! ### method lookup -/

theorem filterMap_none {α β : Type} (f : α → Option β) (l : List α) (h : ∀ x ∈ l, f x = none) :
    l.filterMap f = [] := by
  rw [List.filterMap_eq_nil_iff]; exact h

theorem stateImpls_typestate (m : Machine) (state : Name) :
    (genTypestate m).stateImpls state =
      (m.states.filter (· = state)).map fun s =>
        ((if s = m.initial then some (genCtor m s) else none), (m.outgoing s).map (genMethod m)) := by
  unfold Code.stateImpls genTypestate genStateImpls
  simp only [List.filterMap_append]
  rw [filterMap_none _ (genMarkers m) (by
        intro x hx; simp only [genMarkers, List.mem_map] at hx; obtain ⟨_, _, rfl⟩ := hx; rfl),
      filterMap_none _ [genMachineStruct m] (by intro x hx; simp at hx; subst hx; rfl),
      filterMap_none _ (if m.storage.isEmpty then [] else _) (fun x hx => (storagePart_isTypestate m x hx).2 state),
      filterMap_none _ (genSubstateImpls m) (fun x hx => (substates_isTypestate m x hx).2 state)]
  simp only [List.nil_append, List.append_nil]
  induction m.states with
  | nil => rfl
  | cons s rest ih =>
    simp only [List.map_cons, List.filterMap_cons, List.filter_cons]
    by_cases hs : s = state
    · simp [genStateImpl, Item.stateImpl?, hs, ih]
    · simp [genStateImpl, Item.stateImpl?, hs, ih]

theorem stateImpls_code (m : Machine) (state : Name) :
    m.code.stateImpls state = (genTypestate m).stateImpls state := by
  unfold Machine.code Code.stateImpls
  rw [List.filterMap_append, filterMap_none _ (genDynamic m), List.append_nil]
  intro x hx
  rw [genDynamic_eq] at hx
  simp only [List.mem_append, List.mem_cons, List.mem_map, List.not_mem_nil, or_false] at hx
  rcases hx with ((rfl | rfl | rfl | rfl | rfl) | ⟨_, _, rfl⟩) | rfl <;> rfl

/-- with pairwise distinct leaf names, the impl block of a declared state is the one generated for it -/
theorem filter_eq_of_nodup {l : List Name} (hn : l.Nodup) {s : Name} (hs : s ∈ l) : l.filter (· = s) = [s] := by
  induction l with
  | nil => simp at hs
  | cons x xs ih =>
    simp only [List.nodup_cons] at hn
    simp only [List.filter_cons]
    by_cases hx : x = s
    · subst hx
      simp only [decide_true, ↓reduceIte]
      congr
      rw [List.filter_eq_nil_iff]
      intro y hy
      simp
      intro h; subst h; exact hn.1 hy
    · simp only [hx, decide_false]
      simp at hs
      rcases hs with rfl | hs
      · exact absurd rfl hx
      · simpa using ih hn.2 hs

theorem findMethod_code (m : Machine) (hn : m.states.Nodup) (s : Name) (hs : s ∈ m.states) (name : Name) :
    m.code.findMethod s name = ((m.outgoing s).map (genMethod m)).find? (·.name = name) := by
  unfold Code.findMethod
  rw [stateImpls_code, stateImpls_typestate, filter_eq_of_nodup hn hs]
  simp

theorem findMethod_typestate (m : Machine) (hn : m.states.Nodup) (s : Name) (hs : s ∈ m.states) (name : Name) :
    (genTypestate m).findMethod s name = ((m.outgoing s).map (genMethod m)).find? (·.name = name) := by
  unfold Code.findMethod
  rw [stateImpls_typestate, filter_eq_of_nodup hn hs]
  simp

theorem findCtor_code (m : Machine) (hn : m.states.Nodup) (s : Name) (hs : s ∈ m.states) :
    m.code.findCtor s = if s = m.initial then some (genCtor m s) else none := by
  unfold Code.findCtor
  rw [stateImpls_code, stateImpls_typestate, filter_eq_of_nodup hn hs]
  split <;> simp_all

/-! ### the constructor -/

theorem ctorState_code (m : Machine) (hi : m.initial ∈ m.states) : m.code.ctorState = some m.initial := by
  unfold Code.ctorState Machine.code genTypestate genStateImpls
  simp only [List.findSome?_append]
  have h1 : (genMarkers m).findSome? Item.ctorState? = none := by
    rw [List.findSome?_eq_none_iff]; intro x hx
    simp only [genMarkers, List.mem_map] at hx; obtain ⟨_, _, rfl⟩ := hx; rfl
  have h2 : [genMachineStruct m].findSome? Item.ctorState? = none := by simp [genMachineStruct, Item.ctorState?]
  have h3 : (m.states.map (genStateImpl m)).findSome? Item.ctorState? = some m.initial := by
    rw [List.findSome?_map]
    generalize m.states = l at hi
    induction l with
    | nil => cases hi
    | cons x xs ih =>
      simp only [List.findSome?_cons, Function.comp, genStateImpl]
      by_cases hx : x = m.initial
      · simp [hx, Item.ctorState?]
      · simp only [hx, ↓reduceIte, Item.ctorState?]
        rcases List.mem_cons.mp hi with h | h
        · exact absurd h.symm hx
        · exact ih h
  rw [h1, h2, h3]
  simp


/-! ### validation facts -/

theorem nodup_of_firstDup : ∀ (l seen : List Name), firstDup seen l = false →
    l.Nodup ∧ ∀ x ∈ l, x ∉ seen := by
  intro l
  induction l with
  | nil => intro seen _; simp
  | cons x xs ih =>
    intro seen h
    simp only [firstDup] at h
    split at h
    · simp at h
    · rename_i hx
      obtain ⟨hn, hs⟩ := ih (x :: seen) h
      simp at hx
      refine ⟨List.nodup_cons.mpr ⟨fun hmem => ?_, hn⟩, ?_⟩
      · exact (hs x hmem) (by simp)
      · intro y hy
        simp at hy
        rcases hy with rfl | hy
        · exact hx
        · intro hys; exact hs y hy (by simp [hys])

theorem validate_states_nodup (m : Machine) (hv : m.validate = .ok ()) : m.states.Nodup := by
  unfold Machine.validate at hv
  split at hv
  · simp at hv
  · split at hv
    · simp at hv
    · split at hv
      · simp at hv
      · rename_i h
        simp at h
        exact (nodup_of_firstDup m.states [] h).1

theorem validate_initial_mem (m : Machine) (hv : m.validate = .ok ()) : m.initial ∈ m.states := by
  unfold Machine.validate at hv
  split at hv
  · simp at hv
  · split at hv
    · simp at hv
    · rename_i h
      simpa using h

end SMV
