import SMV.Lemmas.Handle
import SMV.Props.C04
import SMV.Props.C05
/-
  `runHandle` on a validated machine, step by step: the wrapper's invariant and what each
  outcome of a dispatch means for the wrapper.
-/
namespace SMV

theorem run_mapRet {α β : Type} (env : Env) (f : α → β) : ∀ (p : Prog α) (h : Hist),
    run env (p.mapRet f) h =
      match run env p h with
      | (.done a, h') => (.done (f a), h')
      | (.panicked pi, h') => (.panicked pi, h')
      | (.abandoned, h') => (.abandoned, h') := by
  intro p
  induction p with
  | ret a => intro h; rfl
  | panic pi => intro h; rfl
  | call c k ih =>
    intro h
    simp only [Prog.mapRet, run]
    cases hv : (env h c).val <;> simp [ih]

theorem runUpTo_mapRet {α β : Type} (env : Env) (f : α → β) : ∀ (p : Prog α) (n : Nat) (h : Hist),
    runUpTo env n (p.mapRet f) h =
      match runUpTo env n p h with
      | (.done a, h') => (.done (f a), h')
      | (.panicked pi, h') => (.panicked pi, h')
      | (.abandoned, h') => (.abandoned, h') := by
  intro p
  induction p with
  | ret a => intro n h; cases n <;> rfl
  | panic pi => intro n h; cases n <;> rfl
  | call c k ih =>
    intro n h
    cases n with
    | zero => rfl
    | succ n =>
      simp only [Prog.mapRet, runUpTo]
      cases hv : (env h c).val <;> simp [ih]

/-- the wrapper holds a typed machine whose type-level state is the variant's, and that is a
    declared leaf -/
def DynInv (m : Machine) (d : DM) : Prop :=
  ∃ s tm, d.inner = some (s, tm) ∧ tm.state = s ∧ s ∈ m.states

/-- the name `current_state()` reports -/
def DM.stateName (d : DM) : Option Name := d.inner.map (·.1)

theorem currentState_parts (m : Machine) (d : DM) (s : Name) (tm : TM) (hd : d.inner = some (s, tm))
    (hs : s ∈ m.states) : currentState (partsOf m) d = some s := by
  simp [currentState, hd, DynParts.stateName, partsOf, alookup_map_self s m.states hs]

/-! ### targets of edges are declared leaves -/

theorem validateTransitions_mem (m : Machine) : ∀ (trs : List Transition), validateTransitions m trs = .ok () →
    ∀ tr ∈ trs, validateTransition m tr = .ok () := by
  intro trs
  induction trs with
  | nil => intro _ tr h; simp at h
  | cons t rest ih =>
    intro h tr htr
    simp only [validateTransitions] at h
    split at h
    · simp at h
    · rename_i ht
      simp at htr
      rcases htr with rfl | htr
      · exact ht
      · exact ih h tr htr

theorem validateEvents_mem (m : Machine) : ∀ (evs : List Event), validateEvents m evs = .ok () →
    ∀ ev ∈ evs, validateEvent m ev = .ok () := by
  intro evs
  induction evs with
  | nil => intro _ ev h; simp at h
  | cons e rest ih =>
    intro h ev hev
    simp only [validateEvents] at h
    split at h
    · simp at h
    · rename_i he
      simp at hev
      rcases hev with rfl | hev
      · exact he
      · exact ih h ev hev

theorem validate_events (m : Machine) (hv : m.validate = .ok ()) : validateEvents m m.events = .ok () := by
  unfold Machine.validate at hv
  split at hv
  · simp at hv
  · split at hv
    · simp at hv
    · split at hv
      · simp at hv
      · exact hv

theorem validateTransition_target (m : Machine) (tr : Transition) (h : validateTransition m tr = .ok ()) :
    (m.hierarchy.resolveTarget tr.target).getD tr.target ∈ m.states := by
  unfold validateTransition at h
  split at h
  · simp at h
  · by_cases hsup : m.hierarchy.isSuperstate tr.target = true
    · simp only [hsup, ↓reduceIte] at h
      cases hr : m.hierarchy.resolveTarget tr.target with
      | none => simp [hr] at h
      | some r =>
        simp only [hr] at h
        split at h
        · simp at h
        · rename_i hc
          simpa using hc
    · simp only [hsup] at h
      simp only [Bool.false_eq_true, ↓reduceIte] at h
      split at h
      · simp at h
      · rename_i hc
        simp [Hierarchy.resolveTarget, hsup]
        simpa using hc

theorem edge_target_mem (m : Machine) (hv : m.validate = .ok ()) (hg : m.GraphBuilt) :
    ∀ se ∈ m.graph, se.2.target ∈ m.states := by
  intro se hse
  rw [hg] at hse
  simp only [buildGraph, edgesOfEvent, edgesOfTransition, edgesOfSource, List.mem_flatMap, List.mem_map] at hse
  obtain ⟨ev, hev, tr, htr, src, _, actual, _, rfl⟩ := hse
  have h1 := validateEvents_mem m m.events (validate_events m hv) ev hev
  unfold validateEvent at h1
  split at h1
  · simp at h1
  · split at h1
    · simp at h1
    · exact validateTransition_target m tr (validateTransitions_mem m ev.transitions h1 tr htr)

theorem delta_target_mem (m : Machine) (hv : m.validate = .ok ()) (hg : m.GraphBuilt) (s e : Name) (edge : Edge)
    (hd : m.delta s e = some edge) : edge.target ∈ m.states := by
  have hmem := List.mem_of_find?_eq_some hd
  exact edge_target_mem m hv hg (s, edge) (outgoing_mem_graph m s edge hmem)

/-! ### one dispatch -/

/-- **One `handle`, all outcomes.** -/
theorem runHandle_step (m : Machine) (hv : m.validate = .ok ()) (hg : m.GraphBuilt) (hp : m.PascalInj)
    (env : Env) (s : Name) (tm : TM) (hst : tm.state = s) (hs : s ∈ m.states)
    (ev : Event) (hev : ev ∈ m.events) (pay : Option Nat) (h : Hist) :
    match m.delta s ev.name with
    | none =>
      runHandle env m.code (partsOf m) ⟨some (s, tm)⟩ ⟨toPascal ev.name, pay⟩ h =
        ((⟨some (s, tm)⟩, .done (.err (.invalidTransition (.name s) (.name ev.name)))), h)
    | some edge =>
      match run env (methodProg (genMethod m edge) tm (if ev.payload.isSome then pay else none)) h with
      | (.done (.ok nm), h') =>
        runHandle env m.code (partsOf m) ⟨some (s, tm)⟩ ⟨toPascal ev.name, pay⟩ h =
          ((⟨some (edge.target, nm)⟩, .done .ok), h') ∧ nm.state = edge.target ∧ edge.target ∈ m.states
      | (.done (.err old ge), h') =>
        runHandle env m.code (partsOf m) ⟨some (s, tm)⟩ ⟨toPascal ev.name, pay⟩ h =
          ((⟨some (s, tm)⟩, .done (.err (armError s ge))), h') ∧ old = tm
      | (.panicked pi, h') =>
        runHandle env m.code (partsOf m) ⟨some (s, tm)⟩ ⟨toPascal ev.name, pay⟩ h = ((⟨none⟩, .panicked pi), h')
      | (.abandoned, _) => False := by
  have heq := handleProg_eq m hv hg hp s hs ev hev tm pay
  cases hd : m.delta s ev.name with
  | none =>
    simp only [hd] at heq
    simp only [runHandle, heq, run]
  | some edge =>
    simp only [hd] at heq
    simp only
    rcases hr : run env (methodProg (genMethod m edge) tm (if ev.payload.isSome then pay else none)) h with ⟨o, h'⟩
    cases o with
    | done r =>
      cases r with
      | ok nm =>
        simp only
        obtain ⟨_, _, _, hnst, _⟩ := C04.success_trace m edge env tm _ h h' nm hr
        refine ⟨?_, hnst, delta_target_mem m hv hg s ev.name edge hd⟩
        simp only [runHandle, heq, run_mapRet, hr, wrapRes]
      | err old ge =>
        simp only
        obtain ⟨hsame, _⟩ := C05.refusal_identity m edge env tm _ h h' old ge hr
        refine ⟨?_, hsame⟩
        simp only [runHandle, heq, run_mapRet, hr, wrapRes, hsame]
    | panicked pi =>
      simp only [runHandle, heq, run_mapRet, hr]
    | abandoned =>
      simp only
      rw [run_method] at hr
      exact evalMethod_not_abandoned hr

end SMV
