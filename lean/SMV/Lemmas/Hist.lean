import SMV.Props.C08
import SMV.Props.C10
import SMV.Props.C16
import SMV.Props.C11
import SMV.Props.C01
/-
  Definitions and helper lemmas for C08 along histories: the holder invariant, what `handle`, the
  setter and the lookups of the emitted code do to it.
-/


namespace SMV.C08
open SMV

/-- the invariant of whatever the caller holds: a machine whose type-level state is a declared leaf (and,
    in the wrapper, the variant's), with exactly that state's data slot present -/
def HolderInv (m : Machine) : Holder → Prop
  | .typed tm => SlotInv m tm ∧ tm.state ∈ m.states
  | .dyn ⟨some (tag, tm)⟩ => SlotInv m tm ∧ tm.state = tag ∧ tag ∈ m.states
  | _ => True

theorem findMethod_code_mem (m : Machine) (hn : m.states.Nodup) (s : Name) (hs : s ∈ m.states) (name : Name) (meth : Method)
    (h : m.code.findMethod s name = some meth) : ∃ edge ∈ m.outgoing s, meth = genMethod m edge := by
  rw [findMethod_code m hn s hs, List.find?_map] at h
  cases hf : List.find? ((fun x : Method => decide (x.name = name)) ∘ genMethod m) (m.outgoing s) with
  | none => simp [hf] at h
  | some edge =>
    simp only [hf, Option.map_some, Option.some.injEq] at h
    exact ⟨edge, List.mem_of_find?_eq_some hf, h.symm⟩

theorem method_result_inv (m : Machine) (hv : m.validate = .ok ()) (hg : m.GraphBuilt) (hf : m.FieldsNodup)
    (s : Name) (edge : Edge) (he : edge ∈ m.outgoing s) (env : Env) (tm : TM) (pay : Option Nat) (t : Hist) (nm : TM)
    (hr : run env (methodProg (genMethod m edge) tm pay) [] = (.done (.ok nm), t)) :
    SlotInv m nm ∧ nm.state = edge.target ∧ edge.target ∈ m.states :=
  ⟨method_ok_inv m hf edge env tm pay [] t nm hr, (method_ok_ctx _ env tm pay [] t nm hr).2,
   edge_target_mem m hv hg (s, edge) (outgoing_mem_graph m s edge he)⟩

theorem arm_mem (m : Machine) (a : Arm) (ha : a ∈ genArms m) :
    ∃ st ∈ m.states, ∃ ev ∈ m.events, ∃ edge ∈ m.outgoing st, a = armOf m st ev edge := by
  rw [genArms_eq] at ha
  simp only [List.mem_flatMap, armsOf, List.mem_map, List.mem_filter] at ha
  obtain ⟨ev, hev, st, hst, edge, ⟨he, _⟩, rfl⟩ := ha
  exact ⟨st, hst, ev, hev, edge, he, rfl⟩

theorem setSlots_isSome (field : Name) (v : Nat) (f : Name) : ∀ (l : List (Name × Option Nat)),
    (alookup field l).isSome →
    (match alookup f (setSlots field v l) with | some x => x.isSome | none => false) =
    (if f = field then true else (match alookup f l with | some x => x.isSome | none => false)) := by
  intro l
  induction l with
  | nil => intro h; simp [alookup] at h
  | cons x xs ih =>
    obtain ⟨g, y⟩ := x
    intro h
    simp only [setSlots]
    by_cases hg : g = field
    · subst hg
      simp only [↓reduceIte, alookup]
      by_cases hf : g = f
      · subst hf; simp
      · have : ¬ f = g := fun h' => hf h'.symm
        simp [hf, this]
    · simp only [hg, ↓reduceIte, alookup] at h ⊢
      by_cases hf : g = f
      · subst hf
        have : ¬ g = field := hg
        simp [this]
      · simp only [hf, ↓reduceIte]
        exact ih h

end SMV.C08

namespace SMV.C08
open SMV

theorem slot_setSlots (m : Machine) (tm : TM) (spec : StorageSpec) (v : Nat)
    (hinv : SlotInv m tm) (hs : spec ∈ m.storage) (hst : tm.state = spec.stateName) :
    SlotInv m { tm with slots := setSlots spec.field v tm.slots } := by
  have hspec := hinv spec hs
  simp only [hst, decide_true] at hspec
  have hpresent : (alookup spec.field tm.slots).isSome := by
    unfold TM.slot at hspec
    cases h : alookup spec.field tm.slots with
    | none => simp [h] at hspec
    | some x => rfl
  intro sp hsp
  have h2 := hinv sp hsp
  by_cases hf : sp.field = spec.field
  · have hnew : ({ tm with slots := setSlots spec.field v tm.slots } : TM).slot sp.field = some v := by
      unfold TM.slot
      rw [hf, alookup_setSlots_same spec.field v tm.slots hpresent]
    rw [hnew]
    rw [hf, hspec] at h2
    simpa using h2.symm
  · have hnew : ({ tm with slots := setSlots spec.field v tm.slots } : TM).slot sp.field = tm.slot sp.field := by
      unfold TM.slot
      rw [alookup_setSlots_other spec.field v sp.field hf]
    rw [hnew]
    exact h2

end SMV.C08

namespace SMV.C08
open SMV

/-- data is declared on leaf states only (the property speaks of leaves; data on a superstate is
    reachable from every leaf beneath it and is outside this invariant) -/
def LeafDataOnly (m : Machine) : Prop :=
  ∀ spec ∈ m.storage, spec.stateName ∈ m.states ∧ m.hierarchy.isSuperstate spec.stateName = false

theorem find_arm_undeclared (m : Machine) (tag v : Name) (h : ∀ ev ∈ m.events, toPascal ev.name ≠ v) :
    (genArms m).find? (fun a => a.src = tag ∧ a.variant = v) = none := by
  rw [List.find?_eq_none]
  intro a ha
  obtain ⟨st, _, ev, hev, edge, _, rfl⟩ := arm_mem m a ha
  intro hdec
  have := of_decide_eq_true hdec
  exact h ev hev this.2

theorem handle_done_inv (m : Machine) (hv : m.validate = .ok ()) (hg : m.GraphBuilt) (hp : m.PascalInj)
    (hf : m.FieldsNodup) (env : Env) (tag : Name) (tm : TM) (hinv : HolderInv m (.dyn ⟨some (tag, tm)⟩))
    (v : Name) (pay : Option Nat) (d' : DM) (r : HandleRes) (t : Hist)
    (hrun : run env (handleProg m.code (partsOf m) tag tm ⟨v, pay⟩) [] = (.done (d', r), t)) :
    HolderInv m (.dyn d') := by
  obtain ⟨hsl, hst, hs⟩ := hinv
  by_cases hdecl : ∃ ev ∈ m.events, toPascal ev.name = v
  · obtain ⟨ev, hev, rfl⟩ := hdecl
    have hstep := runHandle_step m hv hg hp env tag tm hst hs ev hev pay []
    have hrh : runHandle env m.code (partsOf m) ⟨some (tag, tm)⟩ ⟨toPascal ev.name, pay⟩ [] = ((d', .done r), t) := by
      simp only [runHandle, hrun]
    cases hd : m.delta tag ev.name with
    | none =>
      simp only [hd] at hstep
      rw [hstep] at hrh
      simp only [Prod.mk.injEq, Out.done.injEq] at hrh
      obtain ⟨⟨rfl, _⟩, _⟩ := hrh
      exact ⟨hsl, hst, hs⟩
    | some edge =>
      simp only [hd] at hstep
      rcases hr : run env (methodProg (genMethod m edge) tm (if ev.payload.isSome then pay else none)) [] with ⟨o, t2⟩
      rw [hr] at hstep
      cases o with
      | done mr =>
        cases mr with
        | ok nm =>
          simp only at hstep
          obtain ⟨he, hnst, htm⟩ := hstep
          rw [he] at hrh
          simp only [Prod.mk.injEq, Out.done.injEq] at hrh
          obtain ⟨⟨rfl, _⟩, _⟩ := hrh
          exact ⟨method_ok_inv m hf edge env tm _ [] t2 nm hr, hnst, htm⟩
        | err old ge =>
          simp only at hstep
          rw [hstep.1] at hrh
          simp only [Prod.mk.injEq, Out.done.injEq] at hrh
          obtain ⟨⟨rfl, _⟩, _⟩ := hrh
          exact ⟨hsl, hst, hs⟩
      | panicked pi =>
        simp only at hstep
        rw [hstep] at hrh
        simp at hrh
      | abandoned => exact hstep.elim
  · have hnone := find_arm_undeclared m tag v (fun ev hev h => hdecl ⟨ev, hev, h⟩)
    unfold handleProg at hrun
    have harms : (partsOf m).arms = genArms m := rfl
    rw [harms] at hrun
    simp only at hnone hrun
    rw [hnone] at hrun
    simp only [run, Prod.mk.injEq, Out.done.injEq] at hrun
    obtain ⟨⟨rfl, _⟩, _⟩ := hrun
    exact ⟨hsl, hst, hs⟩

end SMV.C08

namespace SMV.C08
open SMV

theorem dynAcc_spec (m : Machine) (hl : LeafDataOnly m) (s : Name) (a : DynAcc)
    (ha : Code.dynAcc (partsOf m) s = some a) :
    ∃ spec ∈ m.storage, a.field = spec.field ∧ a.reachable = [spec.stateName] ∧ spec.stateName = s := by
  simp only [Code.dynAcc, partsOf] at ha
  have hmem := List.mem_of_find?_eq_some ha
  have hs : a.stateStr = s := by simpa using List.find?_some ha
  obtain ⟨spec, hspec, hgen⟩ := List.mem_filterMap.mp hmem
  obtain ⟨hleaf, hns⟩ := hl spec hspec
  rw [C11.leaf_acc m spec hleaf hns] at hgen
  simp only [Option.some.injEq] at hgen
  subst hgen
  exact ⟨spec, hspec, rfl, rfl, hs⟩

end SMV.C08
