import SMV.Render
/-
  Line protocol of the model driver (not part of any proof): reads one definition per
  line in the prefix format written by /verif/gen, prints the model's front-end dump (T1)
  and the model's rendering of the expansion (T2).
-/
namespace SMV.Driver
open SMV

abbrev P := StateM (List String)

def next : P String := do
  match (← get) with
  | [] => pure ""
  | x :: xs => set xs; pure x

def nat : P Nat := do pure ((← next).toNat?.getD 0)
def bool : P Bool := do pure ((← next) == "1")
def name : P Name := do pure (((← next) |> Name.ofString?).getD [])

partial def many {α} (p : P α) : P (List α) := do
  let n ← nat
  let rec go (k : Nat) (acc : Array α) : P (List α) := do
    if k == 0 then pure acc.toList else go (k - 1) (acc.push (← p))
  go n #[]

def ty : P Ty := many next

def optTy : P (Option Ty) := do
  if (← bool) then pure (some (← ty)) else pure none

def hookKind? : String → Option HookKind
  | "guards" => some .guards | "unl" => some .unl | "before" => some .before
  | "after" => some .after | "around" => some .around | _ => none

partial def bitem : P BItem := do
  match (← next) with
  | "state" => do let n ← name; let d ← optTy; pure (.state n d)
  | "sup" => do let n ← name; let d ← optTy; let b ← many bitem; pure (.sup n d b)
  | "initial" => do pure (.initial (← name))
  | _ => do pure (.unknown (← name))

def titem : P TItem := do
  match (← next) with
  | "leaf" => do let n ← name; let d ← optTy; pure (.leaf n d)
  | _ => do let n ← name; let d ← optTy; let b ← many bitem; pure (.sup n d b)

def tritem : P TrItem := do
  let k ← next
  match k with
  | "from" => do pure (.from (← many name))
  | "to" => do pure (.to (← name))
  | "unknown" => do pure (.unknown (← name))
  | _ => match hookKind? k with
    | some hk => do pure (.hooks hk (← many name))
    | none => pure (.unknown [])

def evitem : P EvItem := do
  let k ← next
  match k with
  | "transition" => do pure (.transition (← many tritem))
  | "payload" => do pure (.payload (← ty))
  | "unknown" => do pure (.unknown (← name))
  | _ => match hookKind? k with
    | some hk => do pure (.hooks hk (← many name))
    | none => pure (.unknown [])

def evblock : P EvBlock := do
  let n ← name
  let items ← many evitem
  pure ⟨n, items⟩

def topitem : P TopItem := do
  match (← next) with
  | "name" => do pure (.name (← name))
  | "initial" => do pure (.initial (← name))
  | "context" => do pure (.context (← ty))
  | "async" => do pure (.async (← bool))
  | "dynamic" => do pure (.dynamic (← bool))
  | "legacy" => do pure (.legacy (← name))
  | "states" => do pure (.states (← many titem))
  | "events" => do pure (.events (← many evblock))
  | _ => do pure (.unknown (← name))

def parseDef : P Def := many topitem

/-! ### printing -/

def ns (l : List Name) : String := ",".intercalate (l.map Name.toString)
def tys (t : Ty) : String := " ".intercalate ((tyToks "" t).map (·.text))
def otys : Option Ty → String
  | some t => tys t
  | none => "-"

def sortedKeys {β} (l : List (Name × β)) : List Name := sortNames ((l.map (·.1)).eraseDups)

def dumpMachine (m : Machine) : List String :=
  [ s!"name {Name.toString m.name}",
    s!"initial {Name.toString m.initial}",
    s!"context {otys m.context}",
    s!"async {m.asyncMode} dynamic {m.dynamicMode}",
    s!"states {ns m.states}" ] ++
  m.storage.map (fun s => s!"storage {Name.toString s.stateName} {Name.toString s.field} {tys s.ty}") ++
  (sortedKeys m.hierarchy.lookup).map (fun k =>
    s!"lookup {Name.toString k}={ns ((alookup k m.hierarchy.lookup).getD [])}") ++
  (sortedKeys m.hierarchy.ancestors).map (fun k =>
    s!"ancestors {Name.toString k}={ns ((alookup k m.hierarchy.ancestors).getD [])}") ++
  (sortedKeys m.hierarchy.initialChildren).map (fun k =>
    s!"initial_child {Name.toString k}={Name.toString ((alookup k m.hierarchy.initialChildren).getD [])}") ++
  m.hierarchy.superstates.map (fun s => s!"superstate {ns s.1} init={Name.toString s.2}") ++
  m.events.flatMap (fun e =>
    [s!"event {Name.toString e.name} p={otys e.payload} g={ns e.guards} u={ns e.unl} b={ns e.before} a={ns e.after} ar={ns e.around}"] ++
    e.transitions.map (fun t =>
      s!"  transition from={ns t.sources} to={Name.toString t.target} g={ns t.guards} u={ns t.unl} b={ns t.before} a={ns t.after} ar={ns t.around}")) ++
  (sortedKeys m.graph).flatMap (fun k =>
    (m.outgoing k).map fun e =>
      s!"edge {Name.toString k} -> {Name.toString e.target} ev={Name.toString e.event} p={otys e.payload} g={ns e.guards} u={ns e.unl} b={ns e.before} a={ns e.after} ar={ns e.around}")

/-- run-length encoding of the region tags: `MK:12` -/
def rle (l : List String) : List String :=
  let rec go : List String → String → Nat → List String → List String
    | [], cur, n, acc => (if n == 0 then acc else (s!"{cur}:{n}") :: acc).reverse
    | x :: xs, cur, n, acc =>
      if x == cur then go xs cur (n + 1) acc
      else go xs x 1 (if n == 0 then acc else (s!"{cur}:{n}") :: acc)
  go l "" 0 []

def processDef (id : String) (feature : Bool) (d : Def) : List String :=
  [s!"#DEF {id}"] ++
  (match parseMachine d with
   | .error e => [s!"PARSE ERR {e.msg}"]
   | .ok m =>
     dumpMachine m ++
     (match m.validate with
      | .error e => [s!"VALIDATE ERR {e.msg}"]
      | .ok () =>
        ["VALIDATE OK"] ++
        (if m.deadPathFree then
          match m.expand feature with
          | .error e => [s!"EXPAND ERR {e.msg}"]
          | .ok code =>
            let toks := render code
            ["T\t" ++ "\t".intercalate (toks.map (·.text)), "R\t" ++ "\t".intercalate (rle (toks.map (·.region)))]
         else ["DEADPATH"]))) ++
  ["#END"]

def processLine (line : String) : List String :=
  let toks := (line.trimAscii.toString.splitOn " ").filter (· ≠ "")
  match toks with
  | id :: f :: rest =>
    let (d, _) := parseDef.run rest
    processDef id (f == "1") d
  | _ => []

end SMV.Driver
