import SMV.Render
import SMV.Ops
import SMV.Core
import SMV.Static
/-
  Line protocol of the model driver (not part of any proof): reads one definition per
  line in the prefix format written by /verif/gen, prints the model's front-end dump (T1)
  and the model's rendering of the expansion (T2).
-/
namespace SMV.Driver
open SMV

abbrev P := StateM (List String)

def next : P String := do
  match (← get) with
  | [] => pure ""
  | x :: xs => set xs; pure x

def nat : P Nat := do pure ((← next).toNat?.getD 0)
def bool : P Bool := do pure ((← next) == "1")
def name : P Name := do pure (((← next) |> Name.ofString?).getD [])

partial def many {α} (p : P α) : P (List α) := do
  let n ← nat
  let rec go (k : Nat) (acc : Array α) : P (List α) := do
    if k == 0 then pure acc.toList else go (k - 1) (acc.push (← p))
  go n #[]

def ty : P Ty := many next

def optTy : P (Option Ty) := do
  if (← bool) then pure (some (← ty)) else pure none

def hookKind? : String → Option HookKind
  | "guards" => some .guards | "unl" => some .unl | "before" => some .before
  | "after" => some .after | "around" => some .around | _ => none

partial def bitem : P BItem := do
  match (← next) with
  | "state" => do let n ← name; let d ← optTy; pure (.state n d)
  | "sup" => do let n ← name; let d ← optTy; let b ← many bitem; pure (.sup n d b)
  | "initial" => do pure (.initial (← name))
  | _ => do pure (.unknown (← name))

def titem : P TItem := do
  match (← next) with
  | "leaf" => do let n ← name; let d ← optTy; pure (.leaf n d)
  | _ => do let n ← name; let d ← optTy; let b ← many bitem; pure (.sup n d b)

def tritem : P TrItem := do
  let k ← next
  match k with
  | "from" => do pure (.from (← many name))
  | "to" => do pure (.to (← name))
  | "unknown" => do pure (.unknown (← name))
  | _ => match hookKind? k with
    | some hk => do pure (.hooks hk (← many name))
    | none => pure (.unknown [])

def evitem : P EvItem := do
  let k ← next
  match k with
  | "transition" => do pure (.transition (← many tritem))
  | "payload" => do pure (.payload (← ty))
  | "unknown" => do pure (.unknown (← name))
  | _ => match hookKind? k with
    | some hk => do pure (.hooks hk (← many name))
    | none => pure (.unknown [])

def evblock : P EvBlock := do
  let n ← name
  let items ← many evitem
  pure ⟨n, items⟩

def topitem : P TopItem := do
  match (← next) with
  | "name" => do pure (.name (← name))
  | "initial" => do pure (.initial (← name))
  | "context" => do pure (.context (← ty))
  | "async" => do pure (.async (← bool))
  | "dynamic" => do pure (.dynamic (← bool))
  | "legacy" => do pure (.legacy (← name))
  | "states" => do pure (.states (← many titem))
  | "events" => do pure (.events (← many evblock))
  | _ => do pure (.unknown (← name))

def parseDef : P Def := many topitem

/-! ### printing -/

def ns (l : List Name) : String := ",".intercalate (l.map Name.toString)
def tys (t : Ty) : String := " ".intercalate ((tyToks "" t).map (·.text))
def otys : Option Ty → String
  | some t => tys t
  | none => "-"

def sortedKeys {β} (l : List (Name × β)) : List Name := sortNames ((l.map (·.1)).eraseDups)

def dumpMachine (m : Machine) : List String :=
  [ s!"name {Name.toString m.name}",
    s!"initial {Name.toString m.initial}",
    s!"context {otys m.context}",
    s!"async {m.asyncMode} dynamic {m.dynamicMode}",
    s!"states {ns m.states}" ] ++
  m.storage.map (fun s => s!"storage {Name.toString s.stateName} {Name.toString s.field} {tys s.ty}") ++
  (sortedKeys m.hierarchy.lookup).map (fun k =>
    s!"lookup {Name.toString k}={ns ((alookup k m.hierarchy.lookup).getD [])}") ++
  (sortedKeys m.hierarchy.ancestors).map (fun k =>
    s!"ancestors {Name.toString k}={ns ((alookup k m.hierarchy.ancestors).getD [])}") ++
  (sortedKeys m.hierarchy.initialChildren).map (fun k =>
    s!"initial_child {Name.toString k}={Name.toString ((alookup k m.hierarchy.initialChildren).getD [])}") ++
  m.hierarchy.superstates.map (fun s => s!"superstate {ns s.1} init={Name.toString s.2}") ++
  m.events.flatMap (fun e =>
    [s!"event {Name.toString e.name} p={otys e.payload} g={ns e.guards} u={ns e.unl} b={ns e.before} a={ns e.after} ar={ns e.around}"] ++
    e.transitions.map (fun t =>
      s!"  transition from={ns t.sources} to={Name.toString t.target} g={ns t.guards} u={ns t.unl} b={ns t.before} a={ns t.after} ar={ns t.around}")) ++
  (sortedKeys m.graph).flatMap (fun k =>
    (m.outgoing k).map fun e =>
      s!"edge {Name.toString k} -> {Name.toString e.target} ev={Name.toString e.event} p={otys e.payload} g={ns e.guards} u={ns e.unl} b={ns e.before} a={ns e.after} ar={ns e.around}")

/-- run-length encoding of the region tags: `MK:12` -/
def rle (l : List String) : List String :=
  let rec go : List String → String → Nat → List String → List String
    | [], cur, n, acc => (if n == 0 then acc else (s!"{cur}:{n}") :: acc).reverse
    | x :: xs, cur, n, acc =>
      if x == cur then go xs cur (n + 1) acc
      else go xs x 1 (if n == 0 then acc else (s!"{cur}:{n}") :: acc)
  go l "" 0 []

def processDef (id : String) (feature : Bool) (d : Def) : List String :=
  [s!"#DEF {id}"] ++
  (match parseMachine d with
   | .error e => [s!"PARSE ERR {e.msg}"]
   | .ok m =>
     dumpMachine m ++
     (match m.validate with
      | .error e => [s!"VALIDATE ERR {e.msg}"]
      | .ok () =>
        ["VALIDATE OK"] ++
        (if m.deadPathFree then
          match m.expand feature with
          | .error e => [s!"EXPAND ERR {e.msg}"]
          | .ok code =>
            let toks := render code
            ["T\t" ++ "\t".intercalate (toks.map (·.text)), "R\t" ++ "\t".intercalate (rle (toks.map (·.region)))]
         else ["DEADPATH"]))) ++
  ["#END"]

def processLine (line : String) : List String :=
  let toks := (line.trimAscii.toString.splitOn " ").filter (· ≠ "")
  match toks with
  | id :: f :: rest =>
    let (d, _) := parseDef.run rest
    processDef id (f == "1") d
  | _ => []

end SMV.Driver

/-! ### T3: scenarios — operations with scripted hook environments -/
namespace SMV.Driver
open SMV

structure SEntry where
  b : Option Bool := none
  a : Option Kind := none
  x : Bool := false
  w : Option (Name × Nat) := none
  deriving Inhabited

def parseName (s : String) : Name := (Name.ofString? s).getD []

def parseKind (s : String) : Option Kind :=
  match s.splitOn "~" with
  | ["I"] => some .invalidTransition
  | ["G", n] => some (.guardFailed (parseName n))
  | ["A", n] => some (.actionFailed (parseName n))
  | _ => none

def parseEntry (s : String) : SEntry :=
  if s == "-" then {} else
  (s.splitOn ",").foldl (fun e kv =>
    match kv.splitOn "=" with
    | ["b", v] => { e with b := some (v == "1") }
    | ["a", v] => { e with a := parseKind v }
    | ["x", v] => { e with x := v == "1" }
    | ["w", v] =>
      match v.splitOn "~" with
      | [f, n] => { e with w := some (parseName f, n.toNat?.getD 0) }
      | _ => e
    | _ => e) {}

/-- the scripted environment: the response of the hook invoked at position `h.length` -/
def envOf (script : Array SEntry) (sigma : List Name) : Env := fun h c =>
  let e := script.getD h.length {}
  if e.x then ⟨.panic, none⟩ else
  match c.kind with
  | .cond => ⟨.bool ((e.b).getD (sigma.contains c.name)), none⟩
  | .before | .after => ⟨.unit, e.w⟩
  | .aroundBefore | .aroundAfter =>
    match e.a with
    | some k => ⟨.abort k, none⟩
    | none => ⟨.proceed, none⟩

def optNat (s : String) : Option Nat := if s == "-" then none else s.toNat?

def parseOp (toks : List String) : Option Op :=
  match toks with
  | ["newtyped", c] => some (.newTyped (c.toNat?.getD 0))
  | ["newdyn", c] => some (.newDyn (c.toNat?.getD 0))
  | ["default"] => some .dynDefault
  | ["handle", v, p] => some (.handle (parseName v) (optNat p))
  | ["habandon", v, p, n] => some (.handleAbandon (parseName v) (optNat p) (n.toNat?.getD 0))
  | ["hnopoll", v, p] => some (.handleNoPoll (parseName v) (optNat p))
  | ["state"] => some .currentState
  | ["read", s] => some (.read (parseName s))
  | ["write", s, v] => some (.write (parseName s) (v.toNat?.getD 0))
  | ["set", s, v] => some (.set (parseName s) (v.toNat?.getD 0))
  | ["into", s] => some (.into (parseName s))
  | ["todyn"] => some .toDyn
  | ["tcall", m, p] => some (.tcall (parseName m) (optNat p))
  | ["tabandon", m, p, n] => some (.tcallAbandon (parseName m) (optNat p) (n.toNat?.getD 0))
  | ["tnopoll", m, p] => some (.tcallNoPoll (parseName m) (optNat p))
  | ["tdata", s] => some (.tdata (parseName s))
  | ["tdatamut", s, v] => some (.tdataMut (parseName s) (v.toNat?.getD 0))
  | ["topt", s] => some (.topt (parseName s))
  | ["toptmut", s, v] => some (.toptMut (parseName s) (v.toNat?.getD 0))
  | ["drop"] => some .drop
  | _ => none

def kindText : Kind → String
  | .invalidTransition => "I"
  | .guardFailed g => s!"G~{Name.toString g}"
  | .actionFailed a => s!"A~{Name.toString a}"

def sstr : SStr → String
  | .name n => Name.toString n
  | .extracted => "<extracted>"

def dynErrText : DynError → String
  | .invalidTransition f e => s!"IT:{sstr f}:{sstr e}"
  | .guardFailed g e => s!"GF:{sstr g}:{sstr e}"
  | .actionFailed a e => s!"AF:{sstr a}:{sstr e}"
  | .wrongState x a o => s!"WS:{sstr x}:{sstr a}:{sstr o}"

def panicText : PanicInfo → String
  | .hook => "hook"
  | .afterSuccessAbort cb ev => s!"after:{Name.toString cb}:{Name.toString ev}"
  | .invalidState => "invalid"
  | .unwrapNone => "unwrap"
  | .illTyped => "illtyped"

def onat : Option Nat → String
  | some n => toString n
  | none => "-"

def resText : Res → String
  | .unit => "unit"
  | .ok => "ok"
  | .errGuard e => s!"errguard:{Name.toString e.guard}:{Name.toString e.event}:{kindText e.kind}"
  | .errDyn e => s!"errdyn:{dynErrText e}"
  | .str n => s!"str:{Name.toString n}"
  | .val v => s!"val:{onat v}"
  | .panicked p => s!"panic:{panicText p}"
  | .abandoned => "abandoned"
  | .refused => "refused"
  | .noSuch => "nosuch"

def hkText : HK → String
  | .cond => "cond" | .before => "before" | .after => "after"
  | .aroundBefore => "ab" | .aroundAfter => "aa"

def slotsText (l : List (Name × Option Nat)) : String :=
  ";".intercalate (l.map fun (f, v) => s!"{Name.toString f}={onat v}")

def callText (c : HookCall) : String :=
  s!"{hkText c.kind}/{Name.toString c.name}/{Name.toString c.state}/{c.ctx}/{onat c.ctxArg}/{onat c.payload}/{slotsText c.slots}"

def dropText : Res.Drop → String
  | .ctx i => s!"ctx:{i}"
  | .payload i => s!"pay:{i}"

def insertStr (x : String) : List String → List String
  | [] => [x]
  | y :: ys => if x ≤ y then x :: y :: ys else y :: insertStr x ys

def obsText (p : Option DynParts) : Holder → String
  | .gone => "gone"
  | .typed m => s!"typed:{Name.toString m.state}:{m.ctx}:{slotsText m.slots}"
  | .dyn d =>
    match p with
    | none => "dyn:?"
    | some p =>
      let st := match currentState p d with
        | some n => Name.toString n
        | none => "poisoned"
      let reads := p.accs.map fun a => s!"{Name.toString a.stateStr}={onat (dynRead a d)}"
      s!"dyn:{st}:{";".intercalate reads}"

def stepLine (o : StepOut) (p : Option DynParts) : String :=
  let drops := (o.drops.map dropText).foldr insertStr []
  s!"{resText o.res} | {" ".intercalate (o.trace.map callText)} | {" ".intercalate drops} | {obsText p o.holder}"

/-- machine facts the harness generator needs (names are computed here, never in Python) -/
def infoLines (m : Machine) (feature : Bool) : List String :=
  [ s!"machine {Name.toString m.name} async={m.asyncMode} concrete={m.context.isSome} dynamic={m.dynamicMode || feature}",
    s!"dynname {Name.toString (dynamicName m)} eventenum {Name.toString (eventEnumName m)}",
    s!"initial {Name.toString m.initial}",
    -- do rustc's duplicate-name rules (Static.lean) accept the expansion? (false: a derived-name collision)
    s!"static accepted={Static.accepted (if m.dynamicMode || feature then genTypestate m ++ genDynamic m else genTypestate m)}" ] ++
  m.states.map (fun s => s!"state {Name.toString s} snake={Name.toString (toSnake s)}") ++
  (sortNames m.hierarchy.allSuperstates).map (fun s => s!"superstate {Name.toString s}") ++
  m.storage.map (fun s => s!"storage {Name.toString s.stateName} field={Name.toString s.field} opt={Name.toString (trimUnderscores s.field)} snake={Name.toString (toSnake s.stateName)} leaf={m.states.contains s.stateName}") ++
  m.events.map (fun e => s!"event {Name.toString e.name} pascal={Name.toString (toPascal e.name)} method={Name.toString (toSnake e.name)} payload={e.payload.isSome}") ++
  m.graph.map (fun (s, e) => s!"edge {Name.toString s} {Name.toString e.event} {Name.toString e.target} g={ns e.guards} u={ns e.unl} b={ns e.before} a={ns e.after} ar={ns e.around}") ++
  m.states.flatMap (fun leaf => ((alookup leaf m.hierarchy.ancestors).getD []).map fun a => s!"substate {Name.toString leaf} {Name.toString a}")

structure ScnState where
  code : Code := []
  parts : Option DynParts := none
  hold : Holder := .gone
  ok : Bool := false

def startScenario (rest : List String) : ScnState × List String :=
  match rest with
  | id :: f :: toks =>
    let (d, _) := parseDef.run toks
    match parseMachine d with
    | .error e => ({}, [s!"#SCN {id}", s!"ERR {e.msg}"])
    | .ok m =>
      match m.expand (f == "1") with
      | .error e => ({}, [s!"#SCN {id}", s!"ERR {e.msg}"])
      | .ok code => ({ code := code, parts := code.dynParts, hold := .gone, ok := true }, [s!"#SCN {id}"])
  | _ => ({}, ["#SCN ?"])

def opLine (st : ScnState) (line : String) : ScnState × String :=
  if !st.ok then (st, "skip") else
  match line.splitOn " ; " with
  | [opS, sigS, scriptS] =>
    let toks := (opS.splitOn " ").filter (· ≠ "")
    match parseOp toks with
    | none => (st, "badop")
    | some op =>
      let sigma := if sigS.trimAscii.toString == "-" then [] else
        ((sigS.trimAscii.toString.splitOn ",").filter (· ≠ "")).map parseName
      let script := (((scriptS.trimAscii.toString.splitOn " ").filter (· ≠ "")).map parseEntry).toArray
      let o := step (envOf script sigma) st.code st.parts st.hold op
      ({ st with hold := o.holder }, stepLine o st.parts)
  | _ => (st, "badline")

def infoOf (rest : List String) : List String :=
  match rest with
  | id :: f :: toks =>
    let (d, _) := parseDef.run toks
    match parseMachine d with
    | .error e => [s!"#INFO {id}", s!"ERR {e.msg}", "#END"]
    | .ok m =>
      match m.validate with
      | .error e => [s!"#INFO {id}", s!"ERR {e.msg}", "#END"]
      | .ok () => [s!"#INFO {id}"] ++ infoLines m (f == "1") ++ ["#END"]
  | _ => []

end SMV.Driver

/-! ### T5: the core error algebra as a table -/
namespace SMV.Driver
open SMV

def guardErrText (e : GuardError) : String :=
  s!"{Name.toString e.guard}:{Name.toString e.event}:{kindText e.kind}"

def teText (t : Core.TransitionError) : String := s!"{Name.toString t.event}:{kindText t.kind}"

def coreTable : List String :=
  let names := [Name.lit "alpha", Name.lit "b_2", Name.lit "zz", Name.lit "r_rate", Name.lit "R2r"]
  let N := Name.toString
  (names.flatMap fun g => names.flatMap fun e =>
    [s!"new {N g} {N e} -> {guardErrText (GuardError.new g e)}"] ++
    (names.flatMap fun kn =>
      [Kind.invalidTransition, .guardFailed kn, .actionFailed kn].flatMap fun k =>
        [s!"with_kind {N g} {N e} {kindText k} -> {guardErrText (GuardError.withKind g e k)}",
         s!"from_guard_error {N g} {N e} {kindText k} -> {dynErrText (DynError.fromGuardError (GuardError.withKind g e k))}"]) ++
    [s!"te_guard_failed {N e} {N g} -> {teText (Core.TransitionError.guardFailed [] e g)}",
     s!"te_invalid {N e} -> {teText (Core.TransitionError.invalidTransition [] e)}",
     s!"abort_guard_expr {N e} {N g} -> abort:{teText (Core.abortGuard [] e g)}"] ++
    ([Kind.invalidTransition, .guardFailed g, .actionFailed g].map fun k =>
      s!"abort_with {N e} {kindText k} -> abort:{teText (Core.abortWith [] e k)}") ++
    [s!"dyn_invalid {N g} {N e} -> {dynErrText (Core.dynInvalid g e)}",
     s!"dyn_guard {N g} {N e} -> {dynErrText (Core.dynGuard g e)}",
     s!"dyn_action {N g} {N e} -> {dynErrText (Core.dynAction g e)}"] ++
    (names.map fun o => s!"dyn_wrong {N g} {N e} {N o} -> {dynErrText (Core.dynWrong g e o)}")) ++
  (["zz", "alpha", "r", "rr", "ready", "r_2", "x_r", "R", "Rr", "_r", "a9"].map fun g =>
    s!"abort_guard_ident alpha {g} -> abort:{teText (Core.abortGuard [] (Name.lit "alpha") (Name.lit g))}") ++
  (["zz", "rate_limit", "require_badge"].map fun g =>
    s!"abort_guard_ident r_rate {g} -> abort:{teText (Core.abortGuard [] (Name.lit "r_rate") (Name.lit g))}")

end SMV.Driver
