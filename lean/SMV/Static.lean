import SMV.Exec
/-
  `Static` — the rustc rules the properties rely on, over the emitted code (DESIGN §4.4).
  Every *rejection* rule below is a real rustc rule (E0428 duplicate item, E0124 duplicate field,
  E0592 duplicate inherent method on overlapping self types, E0119 conflicting trait impls), so `¬ accepted ⇒ rustc rejects` is
  sound; the converse is not claimed (rustc's acceptance is established by T4 probe crates).
  The lookup functions model inherent-method resolution on `M<_, s>` for callers outside the
  generated code. Modelled, validated by T4; not proved.
-/
namespace SMV.Static
open SMV

/-- inherent methods (and associated functions) available on the type `M<_, state>`:
    from its own `impl` blocks and from the blanket `impl<C, S>` blocks -/
def itemMethods (state : Name) : Item → List Name
  | .stateImpl _ _ s ctor ms =>
    if s = state then (if ctor.isSome then [Name.lit "new"] else []) ++ ms.map (·.name) else []
  | .storageImpl _ _ accs => accs.flatMap fun a => [a.accessor, a.accessorMut]
  | .stateAccImpl _ _ s _ _ dm dmm => if s = state then [dm, dmm] else []
  | .intoDynamicImpl _ _ _ _ s _ => if s = state then [Name.lit "into_dynamic"] else []
  | _ => []

def methodNames (c : Code) (state : Name) : List Name := c.flatMap (itemMethods state)

def hasMethod (c : Code) (state name : Name) : Bool := (methodNames c state).contains name

/-- names in the type namespace of the module the macro is invoked in -/
def itemTypeNames : Item → List Name
  | .marker n => [n]
  | .machineStruct n _ _ => [n]
  | .eventEnum n _ _ => [n]
  | .anyStateEnum n _ _ _ _ => [n]
  | .dynStruct n _ _ => [n]
  | _ => []

def typeNames (c : Code) : List Name := c.flatMap itemTypeNames

def itemMarkerNames : Item → List Name
  | .marker n => [n]
  | _ => []

def markerNames (c : Code) : List Name := c.flatMap itemMarkerNames

def itemStructFields : Item → List Name
  | .machineStruct _ _ fs => [Name.lit "ctx", Name.lit "_state"] ++ fs.map (·.1)
  | _ => []

def structFields (c : Code) : List Name := c.flatMap itemStructFields

def itemEventVariants : Item → List Name
  | .eventEnum _ vs _ => vs.map (·.1)
  | _ => []

def eventVariants (c : Code) : List Name := c.flatMap itemEventVariants

def itemAnyVariants : Item → List Name
  | .anyStateEnum _ _ _ vs _ => vs.map (·.1)
  | _ => []

def anyVariants (c : Code) : List Name := c.flatMap itemAnyVariants

def itemSubstatePairs : Item → List (Name × Name)
  | .substateImpl a l => [(a, l)]
  | _ => []

def substatePairs (c : Code) : List (Name × Name) := c.flatMap itemSubstatePairs

/-- inherent methods of `Dynamic<M>` (both of its impl blocks) -/
def itemDynMethods : Item → List Name
  | .dynImpl _ _ _ _ _ _ _ _ accs =>
    [Name.lit "new", Name.lit "handle", Name.lit "current_state"] ++
      accs.flatMap fun a => [a.readName, a.writeName, a.setName]
  | .extractImpl _ _ _ _ ms => ms.map (·.1)
  | _ => []

def dynMethods (c : Code) : List Name := c.flatMap itemDynMethods

def isDynImpl : Item → Bool
  | .dynImpl .. => true
  | _ => false

def hasDynamic (c : Code) : Bool := c.any isDynImpl

/-- the conjunction of the rejection rules -/
def accepted (c : Code) : Bool :=
  decide (typeNames c).Nodup &&                                            -- E0428
  decide (structFields c).Nodup &&                                         -- E0124
  (markerNames c).all (fun s => decide (methodNames c s).Nodup) &&          -- E0592
  decide (eventVariants c).Nodup && decide (anyVariants c).Nodup &&        -- E0428 (variants)
  decide (substatePairs c).Nodup &&                                        -- E0119
  decide (dynMethods c).Nodup                                              -- E0592

end SMV.Static
