import SMV.Elab
/-
  L0 — the specification side of the hierarchy: what the state forest *means*, by plain
  structural recursion over the tree, with no maps, no accumulation and no mutable state.
  These are the notions the properties talk about (leaves beneath a superstate, its initial
  leaf, the superstates enclosing a leaf).
-/
namespace SMV

mutual
/-- leaves nested anywhere in an item, document order -/
def leavesB : BItem → List Name
  | .state n _ => [n]
  | .sup _ _ b => leavesBs b
  | .initial _ => []
  | .unknown _ => []
def leavesBs : List BItem → List Name
  | [] => []
  | x :: xs => leavesB x ++ leavesBs xs
end

mutual
/-- superstate names declared in an item (outer before inner, document order) -/
def supsB : BItem → List Name
  | .state _ _ => []
  | .sup n _ b => n :: supsBs b
  | .initial _ => []
  | .unknown _ => []
def supsBs : List BItem → List Name
  | [] => []
  | x :: xs => supsB x ++ supsBs xs
end

mutual
/-- every declared name, in the order the parser meets them -/
def namesB : BItem → List Name
  | .state n _ => [n]
  | .sup n _ b => n :: namesBs b
  | .initial _ => []
  | .unknown _ => []
def namesBs : List BItem → List Name
  | [] => []
  | x :: xs => namesB x ++ namesBs xs
end

/-- the declared `initial:` of a block: the last one written wins -/
def declInit : List BItem → Option Name → Option Name
  | [], acc => acc
  | .initial n :: xs, _ => declInit xs (some n)
  | _ :: xs, acc => declInit xs acc

/-- the initial leaf of a block: its declared `initial:`, else its first leaf in document order -/
def initialOfBody (body : List BItem) : Option Name :=
  match declInit body none with
  | some i => some i
  | none => (leavesBs body).head?

mutual
/-- the body of the superstate named `P` (first match in document order) -/
def findSupB (P : Name) : BItem → Option (List BItem)
  | .state _ _ => none
  | .sup n _ b => if n = P then some b else findSupBs P b
  | .initial _ => none
  | .unknown _ => none
def findSupBs (P : Name) : List BItem → Option (List BItem)
  | [] => none
  | x :: xs =>
    match findSupB P x with
    | some b => some b
    | none => findSupBs P xs
end

mutual
/-- the chain of superstates enclosing leaf `l`, outermost first, given the chain `anc` down to here -/
def ancestorsB (l : Name) (anc : List Name) : BItem → Option (List Name)
  | .state n _ => if n = l then some anc else none
  | .sup n _ b => ancestorsBs l (anc ++ [n]) b
  | .initial _ => none
  | .unknown _ => none
def ancestorsBs (l : Name) (anc : List Name) : List BItem → Option (List Name)
  | [] => none
  | x :: xs =>
    match ancestorsB l anc x with
    | some a => some a
    | none => ancestorsBs l anc xs
end

/-- the top level of `states: [...]` seen as block items -/
def TItem.toB : TItem → BItem
  | .leaf n d => .state n d
  | .sup n d b => .sup n d b

/-- **leaves beneath superstate `P`** -/
def leavesUnder (items : List TItem) (P : Name) : Option (List Name) :=
  (findSupBs P (items.map TItem.toB)).map leavesBs

/-- **initial leaf of superstate `P`** -/
def initialLeaf (items : List TItem) (P : Name) : Option Name :=
  (findSupBs P (items.map TItem.toB)).bind initialOfBody

/-- **superstates that contain leaf `l`**, outermost first -/
def ancestorsOf (items : List TItem) (l : Name) : List Name :=
  (ancestorsBs l [] (items.map TItem.toB)).getD []

def allLeaves (items : List TItem) : List Name := leavesBs (items.map TItem.toB)
def allSups (items : List TItem) : List Name := supsBs (items.map TItem.toB)

end SMV
