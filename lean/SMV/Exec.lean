import SMV.Codegen
/-
  L3 — the meaning of what the macro emits. Each IR fragment contributes one clause; the
  clause is the *trusted reading* of the corresponding Rust fragment (DESIGN §9) and is
  validated against compiled machines by T3, never proved.

  Values: context and payload are opaque ids (`Nat`); state data values are `Nat` with
  `Default::default() = 0`. Hooks are an environment: an arbitrary function of the history
  so far and of what the hook can observe through its arguments and `&self`.
-/
namespace SMV

/-- `TransitionErrorKind` -/
inductive Kind where
  | invalidTransition
  | guardFailed (guard : Name)
  | actionFailed (action : Name)
  deriving DecidableEq, Repr, Inhabited

/-- `GuardError` -/
structure GuardError where
  guard : Name
  event : Name
  kind : Kind
  deriving DecidableEq, Repr, Inhabited

/-- `GuardError::new` -/
def GuardError.new (guard event : Name) : GuardError := ⟨guard, event, .guardFailed guard⟩
/-- `GuardError::with_kind` -/
def GuardError.withKind (guard event : Name) (kind : Kind) : GuardError := ⟨guard, event, kind⟩

/-- A `&'static str` occurring in a `DynamicError`: a declared name, the empty string, or
    the literal `"<extracted>"`. -/
inductive SStr where
  | name (n : Name)
  | extracted
  deriving DecidableEq, Repr, Inhabited

/-- `DynamicError` -/
inductive DynError where
  | invalidTransition (frm : SStr) (event : SStr)
  | guardFailed (guard event : SStr)
  | actionFailed (action event : SStr)
  | wrongState (expected actual operation : SStr)
  deriving DecidableEq, Repr, Inhabited

/-- `DynamicError::from_guard_error` (state-machines-core) -/
def DynError.fromGuardError (e : GuardError) : DynError :=
  match e.kind with
  | .guardFailed g => .guardFailed (.name g) (.name e.event)
  | .actionFailed a => .actionFailed (.name a) (.name e.event)
  | .invalidTransition => .invalidTransition (.name []) (.name e.event)

/-- A typed machine value `M<C, S>`: its type-level state, its context, its `Option` slots
    (one per storage field, in declaration order). -/
structure TM where
  state : Name
  ctx : Nat
  slots : List (Name × Option Nat)
  deriving DecidableEq, Repr, Inhabited

def TM.slot (m : TM) (field : Name) : Option Nat :=
  match alookup field m.slots with
  | some v => v
  | none => none

/-- in-place write through `Option<&mut T>`: only an existing value can be overwritten -/
def writeSlots (field : Name) (v : Nat) : List (Name × Option Nat) → List (Name × Option Nat)
  | [] => []
  | (f, x) :: rest =>
    if f = field then (f, x.map fun _ => v) :: rest else (f, x) :: writeSlots field v rest

def TM.write (m : TM) : Option (Name × Nat) → TM
  | none => m
  | some (f, v) => { m with slots := writeSlots f v m.slots }

/-- direct assignment `machine.field = Some(v)` -/
def setSlots (field : Name) (v : Nat) : List (Name × Option Nat) → List (Name × Option Nat)
  | [] => []
  | (f, x) :: rest =>
    if f = field then (f, some v) :: rest else (f, x) :: setSlots field v rest

inductive HK where
  | cond | before | after | aroundBefore | aroundAfter
  deriving DecidableEq, Repr, Inhabited

/-- What a hook invocation can observe. -/
structure HookCall where
  kind : HK
  name : Name
  /-- the type-level state `S` of the receiver -/
  state : Name
  /-- the receiver's context and slots (through `&self`) -/
  ctx : Nat
  slots : List (Name × Option Nat)
  /-- `&self.ctx` passed as an argument (guards) -/
  ctxArg : Option Nat
  /-- `&payload` passed as an argument -/
  payload : Option Nat
  deriving DecidableEq, Repr, Inhabited

inductive RespVal where
  | bool (b : Bool)
  | unit
  | proceed
  | abort (k : Kind)
  | panic
  deriving DecidableEq, Repr, Inhabited

/-- A hook's response: its return value and at most one in-place data write it performed
    through the public `_mut` accessors (ignored for guards, which receive `&self`). -/
structure Resp where
  val : RespVal
  write : Option (Name × Nat) := none
  deriving DecidableEq, Repr, Inhabited

abbrev Hist := List HookCall
abbrev Env := Hist → HookCall → Resp

inductive PanicInfo where
  | hook                                   -- a user hook panicked
  | afterSuccessAbort (callback event : Name)  -- the generated `panic!` of the AfterSuccess arm
  | invalidState                           -- `.expect("dynamic machine in invalid state")`
  | unwrapNone                             -- `.unwrap()` of an empty slot
  | illTyped                               -- a response no well-typed hook can give
  deriving DecidableEq, Repr, Inhabited

/-- Programs: one term, several interpreters. -/
inductive Prog (α : Type) where
  | ret (a : α)
  | call (c : HookCall) (k : Resp → Prog α)
  | panic (p : PanicInfo)

def Prog.mapRet {α β : Type} (f : α → β) : Prog α → Prog β
  | .ret a => .ret (f a)
  | .panic p => .panic p
  | .call c k => .call c fun r => (k r).mapRet f

inductive Out (α : Type) where
  | done (a : α)
  | panicked (p : PanicInfo)
  | abandoned
  deriving Repr

/-- synchronous execution -/
def run (env : Env) : Prog α → Hist → Out α × Hist
  | .ret a, h => (.done a, h)
  | .panic p, h => (.panicked p, h)
  | .call c k, h =>
    match (env h c).val with
    | .panic => (.panicked .hook, h ++ [c])
    | _ => run env (k (env h c)) (h ++ [c])

/-- execution abandoned when the `(n+1)`-th hook call has been entered and never returns
    (a panic inside that hook is `run` with a panicking environment; this is the dropped
    future whose last poll ended inside that hook) -/
def runUpTo (env : Env) : Nat → Prog α → Hist → Out α × Hist
  | _, .ret a, h => (.done a, h)
  | _, .panic p, h => (.panicked p, h)
  | 0, .call c _, h => (.abandoned, h ++ [c])
  | n + 1, .call c k, h =>
    match (env h c).val with
    | .panic => (.panicked .hook, h ++ [c])
    | _ => runUpTo env n (k (env h c)) (h ++ [c])

/-- asynchronous execution: the i-th awaited hook is `Pending` `sched[i]` times before it
    completes; re-polling does not call the hook again. Returns the number of polls too. -/
def runAsync (env : Env) : List Nat → Prog α → Hist → Nat → (Out α × Hist) × Nat
  | _, .ret a, h, p => ((.done a, h), p)
  | _, .panic pi, h, p => ((.panicked pi, h), p)
  | s, .call c k, h, p =>
    match (env h c).val with
    | .panic => ((.panicked .hook, h ++ [c]), p + s.headD 0)
    | _ => runAsync env s.tail (k (env h c)) (h ++ [c]) (p + s.headD 0)

/-! ### transition methods -/

inductive MethodRes where
  | ok (m : TM)
  | err (m : TM) (e : GuardError)
  deriving DecidableEq, Repr, Inhabited

/-- the `callback_name` match of both around arms -/
def callbackName (k : Kind) (fallback : Name) : Name :=
  match k with
  | .guardFailed g => g
  | .actionFailed a => a
  | .invalidTransition => fallback

/-- around callbacks, Before stage, on `self`. (Around callbacks are modelled as taking
    `&self`: a write they report is ignored — DESIGN §9.) -/
def aroundBeforeProg (self : TM) : List Around → Prog MethodRes → Prog MethodRes
  | [], k => k
  | a :: rest, k =>
    .call ⟨.aroundBefore, a.callee, self.state, self.ctx, self.slots, none, none⟩ fun r =>
      match r.val with
      | .proceed => aroundBeforeProg self rest k
      | .abort kind =>
        .ret (.err self (GuardError.withKind (callbackName kind a.fallback) a.errEvent kind))
      | _ => .panic .illTyped

def checksProg (self : TM) (payload : Option Nat) : List Check → Prog MethodRes → Prog MethodRes
  | [], k => k
  | c :: rest, k =>
    .call ⟨.cond, c.callee, self.state, self.ctx, self.slots, some self.ctx,
           if c.passPayload then payload else none⟩ fun r =>
      match r.val with
      | .bool b =>
        -- `if !call {return Err}` (negated) / `if call {return Err}`
        if (if c.negated then !b else b) then .ret (.err self (GuardError.new c.errGuard c.errEvent))
        else checksProg self payload rest k
      | _ => .panic .illTyped

/-- before / after calls on a receiver; `isAsync ∧ ¬await` is a future created and dropped
    unpolled: the hook body never runs -/
def callsProg (kind : HK) (isAsync : Bool) (recv : TM) (payload : Option Nat) :
    List Call → (TM → Prog MethodRes) → Prog MethodRes
  | [], k => k recv
  | c :: rest, k =>
    if isAsync && !c.await then callsProg kind isAsync recv payload rest k
    else
      .call ⟨kind, c.callee, recv.state, recv.ctx, recv.slots, none,
             if c.passPayload then payload else none⟩ fun r =>
        match r.val with
        | .unit => callsProg kind isAsync (recv.write r.write) payload rest k
        | _ => .panic .illTyped

def aroundAfterProg (nm : TM) : List Around → Prog MethodRes → Prog MethodRes
  | [], k => k
  | a :: rest, k =>
    .call ⟨.aroundAfter, a.callee, nm.state, nm.ctx, nm.slots, none, none⟩ fun r =>
      match r.val with
      | .proceed => aroundAfterProg nm rest k
      | .abort kind => .panic (.afterSuccessAbort (callbackName kind a.fallback) a.errEvent)
      | _ => .panic .illTyped

/-- `let mut new_machine = M { ctx: self.ctx, _state: PhantomData, slots… }` -/
def construct (m : Method) (self : TM) : TM :=
  { state := m.target, ctx := self.ctx,
    slots := m.slots.map fun s => (s.field, s.init.map fun _ => 0) }

/-- the body of a generated transition method, called on `self` with `payload` -/
def methodProg (m : Method) (self : TM) (payload : Option Nat) : Prog MethodRes :=
  aroundBeforeProg self (if m.hasAround then m.aroundBefore else []) <|
    checksProg self payload m.checks <|
      callsProg .before m.isAsync self payload m.before fun self =>
        callsProg .after m.isAsync (construct m self) payload m.after fun nm =>
          aroundAfterProg nm (if m.hasAround then m.aroundAfter else []) (.ret (.ok nm))

/-! ### looking things up in the emitted code (rustc's name resolution, restricted to what
    the generated code and its callers use) -/

def Item.stateImpl? (state : Name) : Item → Option (Option Ctor × List Method)
  | .stateImpl _ _ s ctor ms => if s = state then some (ctor, ms) else none
  | _ => none

def Code.stateImpls (c : Code) (state : Name) : List (Option Ctor × List Method) :=
  c.filterMap (Item.stateImpl? state)

/-- inherent method `name` on `M<_, state>` (first match; uniqueness is `Static`'s business) -/
def Code.findMethod (c : Code) (state name : Name) : Option Method :=
  ((c.stateImpls state).flatMap (·.2)).find? (·.name = name)

def Item.ctorState? : Item → Option Name
  | .stateImpl _ _ s (some _) _ => some s
  | _ => none

/-- the state whose impl block carries the constructor: the type `M::new(ctx)` is inferred at -/
def Code.ctorState (c : Code) : Option Name := c.findSome? Item.ctorState?

def Code.findCtor (c : Code) (state : Name) : Option Ctor :=
  ((c.stateImpls state).filterMap (·.1)).head?

/-- `M::new(ctx)` at type `M<_, state>` -/
def Code.newTyped (c : Code) (state : Name) (ctx : Nat) : Option TM :=
  (c.findCtor state).map fun ct =>
    { state := state, ctx := ctx, slots := ct.slots.map fun s => (s.field, s.init.map fun _ => 0) }

/-! ### the dynamic wrapper -/

/-- `Dynamic<M>`: `inner: Option<AnyState>`; a value of `AnyState` is a variant tag and the
    typed machine it wraps -/
structure DM where
  inner : Option (Name × TM)
  deriving DecidableEq, Repr, Inhabited

/-- a value of the generated event enum: variant name and payload id -/
structure EventVal where
  variant : Name
  payload : Option Nat
  deriving DecidableEq, Repr, Inhabited

structure DynParts where
  anyVariants : List (Name × Name)       -- variant ↦ type-level state of the wrapped machine
  stateNameArms : List (Name × Name)     -- AnyState::name()
  eventNameArms : List (Name × Bool × Name)  -- Event::name()
  initialVariant : Name
  isAsync : Bool
  arms : List Arm
  accs : List DynAcc
  extract : List (Name × Name × Name)
  intoDyn : List (Name × Name)           -- typed state ↦ variant
  deriving Repr, Inhabited

def Item.anyStateEnum? : Item → Option (List (Name × Name) × List (Name × Name))
  | .anyStateEnum _ _ _ vs arms => some (vs, arms)
  | _ => none

def Item.eventEnum? : Item → Option (List (Name × Bool × Name))
  | .eventEnum _ _ arms => some arms
  | _ => none

def Item.dynImpl? : Item → Option (Name × Bool × List Arm × List DynAcc)
  | .dynImpl _ _ _ _ _ iv isAsync arms accs => some (iv, isAsync, arms, accs)
  | _ => none

def Item.extractImpl? : Item → Option (List (Name × Name × Name))
  | .extractImpl _ _ _ _ ms => some ms
  | _ => none

def Item.intoDyn? : Item → Option (Name × Name)
  | .intoDynamicImpl _ _ _ _ s v => some (s, v)
  | _ => none

def Code.dynParts (c : Code) : Option DynParts :=
  match c.findSome? Item.anyStateEnum?, c.findSome? Item.eventEnum?, c.findSome? Item.dynImpl?,
        c.findSome? Item.extractImpl? with
  | some (vs, sarms), some earms, some (iv, isAsync, arms, accs), some ms =>
    some { anyVariants := vs, stateNameArms := sarms, eventNameArms := earms, initialVariant := iv,
           isAsync := isAsync, arms := arms, accs := accs, extract := ms,
           intoDyn := c.filterMap Item.intoDyn? }
  | _, _, _, _ => none

/-- `AnyState::name()` -/
def DynParts.stateName (p : DynParts) (tag : Name) : Name := (alookup tag p.stateNameArms).getD []

/-- `Event::name()` -/
def DynParts.eventName (p : DynParts) (variant : Name) : Name :=
  match p.eventNameArms.find? (·.1 = variant) with
  | some a => a.2.2
  | none => []

inductive HandleRes where
  | ok
  | err (e : DynError)
  deriving DecidableEq, Repr, Inhabited

/-- `Dynamic<M>::new(ctx)` -/
def dynNew (c : Code) (p : DynParts) (ctx : Nat) : Option DM :=
  match alookup p.initialVariant p.anyVariants with
  | none => none
  | some st => (c.newTyped st ctx).map fun tm => ⟨some (p.initialVariant, tm)⟩

/-- the error arm of a `handle` arm: `from_guard_error`, with the state filled in when the
    abort carried none -/
def armError (errFrom : Name) (e : GuardError) : DynError :=
  match DynError.fromGuardError e with
  | .invalidTransition _ ev => .invalidTransition (.name errFrom) ev
  | other => other

/-- The body of `handle` after `self.inner.take()` returned `Some((tag, m))`: the first
    matching arm, else the catch-all. Result: what is written back to `self.inner` and what
    is returned. -/
def handleProg (c : Code) (p : DynParts) (tag : Name) (m : TM) (ev : EventVal) :
    Prog (DM × HandleRes) :=
  match p.arms.find? (fun a => a.src = tag ∧ a.variant = ev.variant) with
  | some a =>
    match c.findMethod ((alookup a.src p.anyVariants).getD []) a.method with
    | none => .panic .illTyped
    | some meth =>
      (methodProg meth m (if a.passPayload then ev.payload else none)).mapRet fun
        | .ok nm => (⟨some (a.okVariant, nm)⟩, .ok)
        | .err old e => (⟨some (a.errVariant, old)⟩, .err (armError a.errFrom e))
  | none =>
    .ret (⟨some (tag, m)⟩,
          .err (.invalidTransition (.name (p.stateName tag)) (.name (p.eventName ev.variant))))

/-- `handle(&mut self, event)`: outcome and the wrapper as the caller finds it afterwards.
    While the method runs `self.inner` is `None`; a panic or an abandoned future leaves it so. -/
def runHandle (env : Env) (c : Code) (p : DynParts) (d : DM) (ev : EventVal) (h : Hist) :
    (DM × Out HandleRes) × Hist :=
  match d.inner with
  | none => ((d, .panicked .invalidState), h)
  | some (tag, m) =>
    match run env (handleProg c p tag m ev) h with
    | (.done (d', r), h') => ((d', .done r), h')
    | (.panicked pi, h') => ((⟨none⟩, .panicked pi), h')
    | (.abandoned, h') => ((⟨none⟩, .abandoned), h')

/-- `handle` abandoned at its `(n+1)`-th hook call -/
def runHandleUpTo (env : Env) (n : Nat) (c : Code) (p : DynParts) (d : DM) (ev : EventVal) (h : Hist) :
    (DM × Out HandleRes) × Hist :=
  match d.inner with
  | none => ((d, .panicked .invalidState), h)
  | some (tag, m) =>
    match runUpTo env n (handleProg c p tag m ev) h with
    | (.done (d', r), h') => ((d', .done r), h')
    | (.panicked pi, h') => ((⟨none⟩, .panicked pi), h')
    | (.abandoned, h') => ((⟨none⟩, .abandoned), h')

/-- `current_state()`: `none` = the `.expect` panic -/
def currentState (p : DynParts) (d : DM) : Option Name :=
  d.inner.map fun (tag, _) => p.stateName tag

/-- `<x>_data()` on the wrapper -/
def dynRead (a : DynAcc) (d : DM) : Option Nat :=
  match d.inner with
  | none => none
  | some (tag, m) => if a.reachable.contains tag then m.slot a.field else none

/-- `*d.<x>_data_mut()? = v` -/
def dynWrite (a : DynAcc) (d : DM) (v : Nat) : DM :=
  match d.inner with
  | none => d
  | some (tag, m) =>
    if a.reachable.contains tag then ⟨some (tag, m.write (some (a.field, v)))⟩ else d

/-- `set_<x>_data(v)` -/
def dynSet (p : DynParts) (a : DynAcc) (d : DM) (v : Nat) : DM × Option DynError :=
  match d.inner with
  | none => (d, some (.wrongState (.name a.stateStr) .extracted (.name a.setName)))
  | some (tag, m) =>
    if a.reachable.contains tag then
      (⟨some (tag, { m with slots := setSlots a.field v m.slots })⟩, none)
    else (d, some (.wrongState (.name a.stateStr) (.name (p.stateName tag)) (.name a.setName)))

/-- `into_<s>()`: `Ok(typed)` or `Err(self)` -/
def dynExtract (variant : Name) (d : DM) : Except DM TM :=
  match d.inner with
  | some (tag, m) => if tag = variant then .ok m else .error d
  | none => .error d

/-- `into_dynamic()` on a typed machine -/
def intoDynamic (p : DynParts) (m : TM) : Option DM :=
  (alookup m.state p.intoDyn).map fun v => ⟨some (v, m)⟩

/-- typed `<x>_data()`: `self.field.as_ref().unwrap()`; `none` = panic -/
def typedData (m : TM) (field : Name) : Option Nat := m.slot field

end SMV
