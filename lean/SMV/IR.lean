import SMV.Elab
/-
  L2 — the structured form of what the macro emits. One constructor per `quote!`
  template of codegen/typestate.rs and codegen/dynamic.rs; every interpolated variable
  and every choice the Rust code makes while filling a template is an explicit field,
  so that `render` (SMV/Render.lean) can print the exact token sequence and `Exec`
  (SMV/Exec.lean) can give the fragment its meaning, both from the same value.
-/
namespace SMV

/-- A guard / unless check:
    `if [!] self.#callee(&self.ctx [, &payload]) [.await] { return Err((self, GuardError::new(stringify!(#errGuard), stringify!(#errEvent)))); }` -/
structure Check where
  callee : Name
  negated : Bool          -- `!` in front of the call (guards)
  passPayload : Bool
  await : Bool
  errGuard : Name
  errEvent : Name
  deriving Repr, Inhabited, DecidableEq

/-- A before / after call: `<recv>.#callee([&payload]) [.await];` -/
structure Call where
  callee : Name
  passPayload : Bool
  await : Bool
  deriving Repr, Inhabited, DecidableEq

/-- One around-callback invocation (either stage). -/
structure Around where
  callee : Name
  await : Bool
  fallback : Name         -- `stringify!(#callback)` in the InvalidTransition arm
  errEvent : Name
  deriving Repr, Inhabited, DecidableEq

/-- One field initialiser of the `new_machine` / `Self` struct literal. -/
structure Slot where
  field : Name
  /-- `some ty` ⇒ `Some(<ty as Default>::default())`; `none` ⇒ `None`. -/
  init : Option Ty
  deriving Repr, Inhabited, DecidableEq

structure Method where
  name : Name
  isAsync : Bool
  payload : Option Ty
  machine : Name
  /-- `true` ⇒ return type `M<#target>`; `false` ⇒ `M<C, #target>`. -/
  concreteCtx : Bool
  target : Name
  /-- the `if has_around` split of the final `quote!` -/
  hasAround : Bool
  aroundBefore : List Around
  checks : List Check
  before : List Call
  slots : List Slot
  after : List Call
  aroundAfter : List Around
  deriving Repr, Inhabited, DecidableEq

structure Ctor where
  /-- parameter type: `none` ⇒ `C` -/
  ctxTy : Option Ty
  slots : List Slot
  deriving Repr, Inhabited, DecidableEq

/-- `state_data_x()` / `state_data_x_mut()` pair of the blanket `impl<C, S>`. -/
structure StorageAcc where
  field : Name
  ty : Ty
  accessor : Name
  accessorMut : Name
  deriving Repr, Inhabited, DecidableEq

/-- One `(AnyState::src(m), Event::Variant[(payload)]) => …` arm of `handle`. -/
structure Arm where
  src : Name
  variant : Name
  bindsPayload : Bool
  method : Name
  passPayload : Bool
  await : Bool
  okVariant : Name
  errVariant : Name
  /-- the state name an InvalidTransition abort is reported with (`#source_str`) -/
  errFrom : Name
  deriving Repr, Inhabited, DecidableEq

/-- The three dynamic accessors generated for one storage spec. -/
structure DynAcc where
  readName : Name
  writeName : Name
  setName : Name
  ty : Ty
  field : Name
  stateStr : Name
  /-- `expand_state(state_name)`: the AnyState variants in which the slot is reachable -/
  reachable : List Name
  deriving Repr, Inhabited, DecidableEq

inductive Item where
  | marker (n : Name)
  | machineStruct (name : Name) (ctx : Option Ty) (fields : List (Name × Ty))
  | stateImpl (machine : Name) (ctx : Option Ty) (state : Name) (ctor : Option Ctor)
      (methods : List Method)
  | storageImpl (machine : Name) (concreteCtx : Bool) (accs : List StorageAcc)
  | stateAccImpl (machine : Name) (concreteCtx : Bool) (state field : Name) (ty : Ty)
      (dataMethod dataMutMethod : Name)
  | substateImpl (ancestor leaf : Name)
  | eventEnum (enumName : Name) (variants : List (Name × Option Ty))
      (arms : List (Name × Bool × Name))
  | anyStateEnum (anyName machine : Name) (concreteCtx : Bool)
      (variants : List (Name × Name)) (nameArms : List (Name × Name))
  | dynStruct (dynName anyName : Name) (concreteCtx : Bool)
  | dynImpl (dynName anyName eventEnum machine : Name) (ctx : Option Ty)
      (initialVariant : Name) (isAsync : Bool) (arms : List Arm) (accs : List DynAcc)
  | defaultImpl (dynName : Name) (ctx : Option Ty)
  | intoDynamicImpl (machine dynName anyName : Name) (concreteCtx : Bool)
      (state variant : Name)
  | extractImpl (dynName anyName machine : Name) (concreteCtx : Bool)
      (methods : List (Name × Name × Name))   -- (method name, return-type state, matched variant)
  deriving Repr, Inhabited

abbrev Code := List Item

end SMV
