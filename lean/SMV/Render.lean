import SMV.Codegen
/-
  L2 — rendering: IR ↦ the exact token sequence `proc_macro2` yields for the
  corresponding `quote!` template (groups flattened to their delimiter tokens, every
  punctuation character its own token, doc attributes omitted, string literals by value).
  Every token carries the *region* of the template it comes from (DESIGN §4.4).
-/
namespace SMV

structure Tok where
  region : String
  text : String
  deriving Repr, Inhabited, DecidableEq

/-- fixed template text: space-separated token texts -/
def w (r : String) (s : String) : List Tok :=
  ((s.splitOn " ").filter (· ≠ "")).flatMap fun t =>
    -- multi-character punctuation (`::`, `->`, `=>`) is one token per character
    if t.length > 1 && t.toList.all (fun c => !c.isAlphanum && c != '_' && c != '"') then
      t.toList.map fun c => ⟨r, String.singleton c⟩
    else [⟨r, t⟩]

def nm (r : String) (n : Name) : List Tok := [⟨r, Name.toString n⟩]

/-- a string literal whose value is a name -/
def strLit (r : String) (n : Name) : List Tok := [⟨r, "\"" ++ Name.toString n ++ "\""⟩]

/-- a user type; a lifetime atom `'a` is two tokens -/
def tyToks (r : String) (t : Ty) : List Tok :=
  t.flatMap fun a =>
    if a.startsWith "'" && a.length > 1 then [⟨r, "'"⟩, ⟨r, (a.drop 1).toString⟩]
    else if a.length > 1 && a.toList.all (fun c => !c.isAlphanum && c != '_' && c != '"') then
      a.toList.map fun c => ⟨r, String.singleton c⟩
    else [⟨r, a⟩]

def corePath : String := ":: state_machines :: core"

/-! ### typestate.rs -/

def renderMarker (n : Name) : List Tok :=
  w "MK" "# [ derive ( Debug , Clone , Copy , PartialEq , Eq , Hash ) ] pub struct" ++ nm "MK" n ++ w "MK" ";"

def renderMachineStruct (name : Name) (ctx : Option Ty) (fields : List (Name × Ty)) : List Tok :=
  w "ST" "# [ derive ( Debug ) ] pub struct" ++ nm "ST" name ++
  (match ctx with
   | some _ => w "ST" "< S >"
   | none => w "ST" "< C , S >") ++
  w "ST" "{ ctx :" ++
  (match ctx with
   | some c => tyToks "ST" c
   | none => w "ST" "C") ++
  w "ST" ", _state : :: core :: marker :: PhantomData < S > ," ++
  fields.flatMap (fun f => nm "ST" f.1 ++ w "ST" ": :: core :: option :: Option <" ++ tyToks "ST" f.2 ++ w "ST" "> ,") ++
  w "ST" "}"

def renderSlot (r : String) (s : Slot) : List Tok :=
  nm r s.field ++
  (match s.init with
   | some ty => w r ": :: core :: option :: Option :: Some ( <" ++ tyToks r ty ++
                w r "as :: core :: default :: Default > :: default ( ) )"
   | none => w r ": :: core :: option :: Option :: None") ++
  w r ","

def renderCtor (c : Ctor) : List Tok :=
  w "CT" "pub fn new ( ctx :" ++
  (match c.ctxTy with
   | some t => tyToks "CT" t
   | none => w "CT" "C") ++
  w "CT" ") -> Self { Self { ctx , _state : :: core :: marker :: PhantomData ," ++
  c.slots.flatMap (renderSlot "CT") ++
  w "CT" "} }"

def awaitToks (r : String) (b : Bool) : List Tok := if b then w r ". await" else []

def renderCheck (c : Check) : List Tok :=
  w "GC" "if" ++ (if c.negated then w "GC" "!" else []) ++
  w "GC" "self ." ++ nm "GC" c.callee ++ w "GC" "( & self . ctx" ++
  (if c.passPayload then w "GC" ", & payload" else []) ++ w "GC" ")" ++
  awaitToks "GC" c.await ++
  w "GC" "{ return :: core :: result :: Result :: Err ( ( self ," ++ w "GC" corePath ++
  w "GC" ":: GuardError :: new ( stringify ! (" ++ nm "GC" c.errGuard ++ w "GC" ") , stringify ! (" ++
  nm "GC" c.errEvent ++ w "GC" ") ) ) ) ; }"

def renderCall (r : String) (recv : String) (c : Call) : List Tok :=
  w r recv ++ w r "." ++ nm r c.callee ++ w r "(" ++
  (if c.passPayload then w r "& payload" else []) ++ w r ")" ++ awaitToks r c.await ++ w r ";"

def renderCallbackName (r : String) (a : Around) : List Tok :=
  w r "let callback_name = match & err . kind {" ++
  w r corePath ++ w r ":: TransitionErrorKind :: GuardFailed { guard } => * guard ," ++
  w r corePath ++ w r ":: TransitionErrorKind :: ActionFailed { action } => * action ," ++
  w r corePath ++ w r ":: TransitionErrorKind :: InvalidTransition => stringify ! (" ++ nm r a.fallback ++
  w r ") , } ;"

def renderAroundBefore (a : Around) : List Tok :=
  w "AB" "match self ." ++ nm "AB" a.callee ++ w "AB" "(" ++ w "AB" corePath ++
  w "AB" ":: AroundStage :: Before )" ++ awaitToks "AB" a.await ++ w "AB" "{" ++
  w "AB" corePath ++ w "AB" ":: AroundOutcome :: Proceed => { } ," ++
  w "AB" corePath ++ w "AB" ":: AroundOutcome :: Abort ( err ) => {" ++
  renderCallbackName "AB" a ++
  w "AB" "return :: core :: result :: Result :: Err ( ( self ," ++ w "AB" corePath ++
  w "AB" ":: GuardError :: with_kind ( callback_name , stringify ! (" ++ nm "AB" a.errEvent ++
  w "AB" ") , err . kind ) ) ) ; } }"

def panicMsg : String :=
  "\"Around callback '{}' aborted at AfterSuccess stage during event '{}', but typestate machines cannot properly surface this error because the state transition has already occurred. Consider using Before stage aborts instead, or changing your callback to return Proceed.\""

def renderAroundAfter (a : Around) : List Tok :=
  w "AA" "match new_machine ." ++ nm "AA" a.callee ++ w "AA" "(" ++ w "AA" corePath ++
  w "AA" ":: AroundStage :: AfterSuccess )" ++ awaitToks "AA" a.await ++ w "AA" "{" ++
  w "AA" corePath ++ w "AA" ":: AroundOutcome :: Proceed => { } ," ++
  w "AA" corePath ++ w "AA" ":: AroundOutcome :: Abort ( err ) => {" ++
  renderCallbackName "AA" a ++
  w "AA" "panic ! (" ++ [⟨"AA", panicMsg⟩] ++ w "AA" ", callback_name , stringify ! (" ++
  nm "AA" a.errEvent ++ w "AA" ") ) ; } }"

def renderMethod (m : Method) : List Tok :=
  w "SIG" "pub" ++ (if m.isAsync then w "SIG" "async" else []) ++ w "SIG" "fn" ++ nm "SIG" m.name ++
  w "SIG" "( mut self" ++
  (match m.payload with
   | some ty => w "SIG" ", payload :" ++ tyToks "SIG" ty
   | none => []) ++
  w "SIG" ") -> :: core :: result :: Result <" ++ nm "SIG" m.machine ++
  (if m.concreteCtx then w "SIG" "<" else w "SIG" "< C ,") ++ nm "SIG" m.target ++
  w "SIG" "> , ( Self ," ++ w "SIG" corePath ++ w "SIG" ":: GuardError ) > {" ++
  (if m.hasAround then m.aroundBefore.flatMap renderAroundBefore else []) ++
  m.checks.flatMap renderCheck ++
  m.before.flatMap (renderCall "BC" "self") ++
  w "CN" "let mut new_machine =" ++ nm "CN" m.machine ++
  w "CN" "{ ctx : self . ctx , _state : :: core :: marker :: PhantomData ," ++
  m.slots.flatMap (renderSlot "CN") ++ w "CN" "} ;" ++
  m.after.flatMap (renderCall "AC" "new_machine") ++
  (if m.hasAround then m.aroundAfter.flatMap renderAroundAfter else []) ++
  w "CN" ":: core :: result :: Result :: Ok ( new_machine ) }"

def renderImplHeader (machine : Name) (ctx : Option Ty) (state : Name) : List Tok :=
  w "IH" "impl" ++
  (match ctx with
   | some _ => nm "IH" machine ++ w "IH" "<" ++ nm "IH" state ++ w "IH" ">"
   | none => w "IH" "< C >" ++ nm "IH" machine ++ w "IH" "< C ," ++ nm "IH" state ++ w "IH" ">")

def renderStorageAcc (a : StorageAcc) : List Tok :=
  w "SA" "pub fn" ++ nm "SA" a.accessor ++ w "SA" "( & self ) -> :: core :: option :: Option < &" ++
  tyToks "SA" a.ty ++ w "SA" "> { self ." ++ nm "SA" a.field ++ w "SA" ". as_ref ( ) }" ++
  w "SA" "pub fn" ++ nm "SA" a.accessorMut ++ w "SA" "( & mut self ) -> :: core :: option :: Option < & mut" ++
  tyToks "SA" a.ty ++ w "SA" "> { self ." ++ nm "SA" a.field ++ w "SA" ". as_mut ( ) }"

/-! ### dynamic.rs -/

def renderArm (anyName eventEnum : Name) (a : Arm) : List Tok :=
  w "HD" "(" ++ nm "HD" anyName ++ w "HD" "::" ++ nm "HD" a.src ++ w "HD" "( m ) ," ++
  nm "HD" eventEnum ++ w "HD" "::" ++ nm "HD" a.variant ++
  (if a.bindsPayload then w "HD" "( payload )" else []) ++
  w "HD" ") => { match m ." ++ nm "HD" a.method ++ w "HD" "(" ++
  (if a.passPayload then w "HD" "payload" else []) ++ w "HD" ")" ++ awaitToks "HD" a.await ++
  w "HD" "{ Ok ( new_machine ) =>" ++ nm "HD" anyName ++ w "HD" "::" ++ nm "HD" a.okVariant ++
  w "HD" "( new_machine ) , Err ( ( old_machine , err ) ) => { self . inner = :: core :: option :: Option :: Some (" ++
  nm "HD" anyName ++ w "HD" "::" ++ nm "HD" a.errVariant ++
  w "HD" "( old_machine ) ) ; return Err ( match state_machines :: DynamicError :: from_guard_error ( err ) { state_machines :: DynamicError :: InvalidTransition { event , . . } => { state_machines :: DynamicError :: invalid_transition (" ++
  strLit "HD" a.errFrom ++ w "HD" ", event ) } other => other , } ) ; } } }"

def renderDynAcc (anyName : Name) (a : DynAcc) : List Tok :=
  -- read
  w "DA" "pub fn" ++ nm "DA" a.readName ++ w "DA" "( & self ) -> :: core :: option :: Option < &" ++
  tyToks "DA" a.ty ++ w "DA" "> { match self . inner . as_ref ( ) ? {" ++
  a.reachable.flatMap (fun s => nm "DA" anyName ++ w "DA" "::" ++ nm "DA" s ++ w "DA" "( machine ) => machine ." ++
    nm "DA" a.field ++ w "DA" ". as_ref ( ) ,") ++
  w "DA" "_ => :: core :: option :: Option :: None , } }" ++
  -- write
  w "DA" "pub fn" ++ nm "DA" a.writeName ++ w "DA" "( & mut self ) -> :: core :: option :: Option < & mut" ++
  tyToks "DA" a.ty ++ w "DA" "> { match self . inner . as_mut ( ) ? {" ++
  a.reachable.flatMap (fun s => nm "DA" anyName ++ w "DA" "::" ++ nm "DA" s ++ w "DA" "( machine ) => machine ." ++
    nm "DA" a.field ++ w "DA" ". as_mut ( ) ,") ++
  w "DA" "_ => :: core :: option :: Option :: None , } }" ++
  -- set
  w "DA" "pub fn" ++ nm "DA" a.setName ++ w "DA" "( & mut self , data :" ++ tyToks "DA" a.ty ++
  w "DA" ") -> Result < ( ) , state_machines :: DynamicError > { match self . inner . as_mut ( ) { :: core :: option :: Option :: Some ( state ) => match state {" ++
  a.reachable.flatMap (fun s => nm "DA" anyName ++ w "DA" "::" ++ nm "DA" s ++ w "DA" "( machine ) => { machine ." ++
    nm "DA" a.field ++ w "DA" "= :: core :: option :: Option :: Some ( data ) ; :: core :: result :: Result :: Ok ( ( ) ) }") ++
  w "DA" "other => Err ( state_machines :: DynamicError :: wrong_state (" ++ strLit "DA" a.stateStr ++
  w "DA" ", other . name ( ) , stringify ! (" ++ nm "DA" a.setName ++ w "DA" ") , ) ) , } ," ++
  w "DA" ":: core :: option :: Option :: None => Err ( state_machines :: DynamicError :: wrong_state (" ++
  strLit "DA" a.stateStr ++ [⟨"DA", ","⟩, ⟨"DA", "\"<extracted>\""⟩] ++ w "DA" ", stringify ! (" ++ nm "DA" a.setName ++
  w "DA" ") , ) ) , } }"

def renderItem : Item → List Tok
  | .marker n => renderMarker n
  | .machineStruct name ctx fields => renderMachineStruct name ctx fields
  | .stateImpl machine ctx state ctor methods =>
    renderImplHeader machine ctx state ++ w "IH" "{" ++
    (match ctor with
     | some c => renderCtor c
     | none => []) ++
    methods.flatMap renderMethod ++ w "IH" "}"
  | .storageImpl machine concrete accs =>
    w "IH" "impl" ++
    (if concrete then w "IH" "< S >" ++ nm "IH" machine ++ w "IH" "< S >"
     else w "IH" "< C , S >" ++ nm "IH" machine ++ w "IH" "< C , S >") ++
    w "IH" "{" ++ accs.flatMap renderStorageAcc ++ w "IH" "}"
  | .stateAccImpl machine concrete state field ty dm dmm =>
    w "XA" "impl" ++
    (if concrete then nm "XA" machine ++ w "XA" "<" ++ nm "XA" state ++ w "XA" ">"
     else w "XA" "< C >" ++ nm "XA" machine ++ w "XA" "< C ," ++ nm "XA" state ++ w "XA" ">") ++
    w "XA" "{ pub fn" ++ nm "XA" dm ++ w "XA" "( & self ) -> &" ++ tyToks "XA" ty ++
    w "XA" "{ self ." ++ nm "XA" field ++ w "XA" ". as_ref ( ) . unwrap ( ) }" ++
    w "XA" "pub fn" ++ nm "XA" dmm ++ w "XA" "( & mut self ) -> & mut" ++ tyToks "XA" ty ++
    w "XA" "{ self ." ++ nm "XA" field ++ w "XA" ". as_mut ( ) . unwrap ( ) } }"
  | .substateImpl anc leaf =>
    w "SUB" "impl :: state_machines :: SubstateOf <" ++ nm "SUB" anc ++ w "SUB" "> for" ++ nm "SUB" leaf ++ w "SUB" "{ }"
  | .eventEnum enumName variants arms =>
    w "EV" "# [ derive ( Debug ) ] pub enum" ++ nm "EV" enumName ++ w "EV" "{" ++
    variants.flatMap (fun v => nm "EV" v.1 ++
      (match v.2 with
       | some ty => w "EV" "(" ++ tyToks "EV" ty ++ w "EV" ")"
       | none => []) ++ w "EV" ",") ++
    w "EV" "} impl" ++ nm "EV" enumName ++ w "EV" "{ pub fn name ( & self ) -> & ' static str { match * self {" ++
    arms.flatMap (fun a => w "EV" "Self ::" ++ nm "EV" a.1 ++
      (if a.2.1 then w "EV" "( _ )" else []) ++ w "EV" "=>" ++ strLit "EV" a.2.2 ++ w "EV" ",") ++
    w "EV" "} } }"
  | .anyStateEnum anyName machine concrete variants nameArms =>
    w "AS" "# [ derive ( Debug ) ] enum" ++ nm "AS" anyName ++ (if concrete then [] else w "AS" "< C >") ++ w "AS" "{" ++
    variants.flatMap (fun v => nm "AS" v.1 ++ w "AS" "(" ++ nm "AS" machine ++
      (if concrete then w "AS" "<" else w "AS" "< C ,") ++ nm "AS" v.2 ++ w "AS" "> ) ,") ++
    w "AS" "} impl" ++ (if concrete then [] else w "AS" "< C >") ++ nm "AS" anyName ++
    (if concrete then [] else w "AS" "< C >") ++
    w "AS" "{ fn name ( & self ) -> & ' static str { match self {" ++
    nameArms.flatMap (fun a => w "AS" "Self ::" ++ nm "AS" a.1 ++ w "AS" "( _ ) =>" ++ strLit "AS" a.2 ++ w "AS" ",") ++
    w "AS" "} } }"
  | .dynStruct dynName anyName concrete =>
    w "DN" "# [ derive ( Debug ) ] pub struct" ++ nm "DN" dynName ++ (if concrete then [] else w "DN" "< C >") ++
    w "DN" "{ inner : :: core :: option :: Option <" ++ nm "DN" anyName ++
    (if concrete then [] else w "DN" "< C >") ++ w "DN" "> , }"
  | .dynImpl dynName anyName eventEnum machine ctx initialVariant isAsync arms accs =>
    w "DN" "impl" ++ (if ctx.isSome then [] else w "DN" "< C >") ++ nm "DN" dynName ++
    (if ctx.isSome then [] else w "DN" "< C >") ++
    w "DN" "{ pub fn new ( ctx :" ++
    (match ctx with
     | some t => tyToks "DN" t
     | none => w "DN" "C") ++
    w "DN" ") -> Self { Self { inner : :: core :: option :: Option :: Some (" ++ nm "DN" anyName ++ w "DN" "::" ++
    nm "DN" initialVariant ++ w "DN" "(" ++ nm "DN" machine ++ w "DN" ":: new ( ctx ) ) ) , } }" ++
    w "HD" "pub" ++ (if isAsync then w "HD" "async" else []) ++ w "HD" "fn handle ( & mut self , event :" ++
    nm "HD" eventEnum ++ w "HD" ") -> Result < ( ) , state_machines :: DynamicError > {" ++
    w "HD" "let current = self . inner . take ( ) . expect (" ++
    [⟨"HD", "\"dynamic machine in invalid state\""⟩] ++ w "HD" ") ;" ++
    w "HD" "let new_state = match ( current , event ) {" ++
    arms.flatMap (renderArm anyName eventEnum) ++
    w "HD" "( state , event ) => { let state_name = state . name ( ) ; self . inner = :: core :: option :: Option :: Some ( state ) ; return Err ( state_machines :: DynamicError :: invalid_transition ( state_name , event . name ( ) , ) ) ; }" ++
    w "HD" "} ; self . inner = :: core :: option :: Option :: Some ( new_state ) ; Ok ( ( ) ) }" ++
    w "CS" "pub fn current_state ( & self ) -> & ' static str { self . inner . as_ref ( ) . expect (" ++
    [⟨"CS", "\"dynamic machine in invalid state\""⟩] ++ w "CS" ") . name ( ) }" ++
    accs.flatMap (renderDynAcc anyName) ++ w "DN" "}"
  | .defaultImpl dynName ctx =>
    (match ctx with
     | some t =>
       w "DF" "impl Default for" ++ nm "DF" dynName ++ w "DF" "where" ++ tyToks "DF" t ++
       w "DF" ": :: core :: default :: Default { fn default ( ) -> Self { Self :: new ( <" ++ tyToks "DF" t ++
       w "DF" "as :: core :: default :: Default > :: default ( ) ) } }"
     | none =>
       w "DF" "impl < C : :: core :: default :: Default > Default for" ++ nm "DF" dynName ++
       w "DF" "< C > { fn default ( ) -> Self { Self :: new ( C :: default ( ) ) } }")
  | .intoDynamicImpl machine dynName anyName concrete state variant =>
    (if concrete then w "ID" "impl" ++ nm "ID" machine ++ w "ID" "<" ++ nm "ID" state ++ w "ID" ">"
     else w "ID" "impl < C >" ++ nm "ID" machine ++ w "ID" "< C ," ++ nm "ID" state ++ w "ID" ">") ++
    w "ID" "{ pub fn into_dynamic ( self ) ->" ++ nm "ID" dynName ++ (if concrete then [] else w "ID" "< C >") ++
    w "ID" "{" ++ nm "ID" dynName ++ w "ID" "{ inner : :: core :: option :: Option :: Some (" ++ nm "ID" anyName ++
    w "ID" "::" ++ nm "ID" variant ++ w "ID" "( self ) ) , } } }"
  | .extractImpl dynName anyName machine concrete methods =>
    w "EX" "impl" ++ (if concrete then [] else w "EX" "< C >") ++ nm "EX" dynName ++
    (if concrete then [] else w "EX" "< C >") ++ w "EX" "{" ++
    methods.flatMap (fun mt =>
      w "EX" "pub fn" ++ nm "EX" mt.1 ++ w "EX" "( mut self ) -> Result <" ++ nm "EX" machine ++
      (if concrete then w "EX" "<" else w "EX" "< C ,") ++ nm "EX" mt.2.1 ++
      w "EX" "> , Self > { match self . inner . take ( ) { :: core :: option :: Option :: Some (" ++
      nm "EX" anyName ++ w "EX" "::" ++ nm "EX" mt.2.2 ++
      w "EX" "( m ) ) => Ok ( m ) , other => { self . inner = other ; Err ( self ) } } }") ++
    w "EX" "}"

def render (c : Code) : List Tok := c.flatMap renderItem

end SMV
