import SMV.Props.C03
/-
  C05 — A refused transition has no effect and returns the machine intact.
  (Typed machines here; the dynamic wrapper's part is in SMV/Props/C05Dyn.lean.)
-/
namespace SMV.C05
open SMV

/-- **C05.** Whenever a generated method returns `Err`, for any hook environment: the machine
    handed back is the receiver itself (same type-level state, same context, same slots —
    including whatever the caller wrote before), and the only hooks that ran are around
    Before stages and conditions: no before/after callback, no AfterSuccess stage. -/
theorem refusal_identity (m : Machine) (e : Edge) (env : Env) (self : TM) (payload : Option Nat) (h h' : Hist)
    (m' : TM) (ge : GuardError)
    (hrun : run env (methodProg (genMethod m e) self payload) h = (.done (.err m' ge), h')) :
    m' = self ∧ ∃ t, h' = h ++ t ∧ ∀ c ∈ t, c.kind = .aroundBefore ∨ c.kind = .cond := by
  rw [run_method] at hrun
  rcases evalMethod_err_inv hrun with hAB | ⟨h1, hAB, hC⟩
  · obtain ⟨n, _, ht, _, hs⟩ := evalAB_shape env self
      (if (genMethod m e).hasAround then (genMethod m e).aroundBefore else []) h
    rw [hAB] at ht hs
    rcases hs _ rfl with ⟨p, hp⟩ | ⟨a, k, _, _, he⟩
    · simp at hp
    · simp at he
      refine ⟨he.1, _, ht, ?_⟩
      intro c hc
      obtain ⟨a, _, rfl⟩ := List.mem_map.mp hc
      exact Or.inl rfl
  · obtain ⟨n1, _, ht1, _, _⟩ := evalAB_shape env self
      (if (genMethod m e).hasAround then (genMethod m e).aroundBefore else []) h
    rw [hAB] at ht1
    obtain ⟨n, _, ht, _, hs⟩ := evalChecks_shape env self payload (genMethod m e).checks h1
    rw [hC] at ht hs
    rcases hs _ rfl with ⟨p, hp⟩ | ⟨c, _, _, he⟩
    · simp at hp
    · simp at he
      simp only at ht ht1
      refine ⟨he.1, _, by rw [ht, ht1, List.append_assoc], ?_⟩
      intro c hc
      rcases List.mem_append.mp hc with hc | hc
      · obtain ⟨a, _, rfl⟩ := List.mem_map.mp hc
        exact Or.inl rfl
      · obtain ⟨a, _, rfl⟩ := List.mem_map.mp hc
        exact Or.inr rfl

/-- the error of a refusal always names the event of the edge -/
theorem refusal_names_event (m : Machine) (e : Edge) (env : Env) (self : TM) (payload : Option Nat) (h h' : Hist)
    (m' : TM) (ge : GuardError)
    (hrun : run env (methodProg (genMethod m e) self payload) h = (.done (.err m' ge), h')) :
    ge.event = e.event := by
  rw [run_method] at hrun
  rcases evalMethod_err_inv hrun with hAB | ⟨h1, hAB, hC⟩
  · obtain ⟨n, _, _, _, hs⟩ := evalAB_shape env self
      (if (genMethod m e).hasAround then (genMethod m e).aroundBefore else []) h
    rw [hAB] at hs
    rcases hs _ rfl with ⟨p, hp⟩ | ⟨a, k, ha, _, he⟩
    · simp at hp
    · simp at he
      rw [genMethod_aroundBefore] at ha
      have hmem := List.mem_of_getElem? ha
      obtain ⟨cb, _, rfl⟩ := List.mem_map.mp hmem
      rw [he.2]; rfl
  · obtain ⟨n, _, _, _, hs⟩ := evalChecks_shape env self payload (genMethod m e).checks h1
    rw [hC] at hs
    rcases hs _ rfl with ⟨p, hp⟩ | ⟨c, hc, _, he⟩
    · simp at hp
    · simp at he
      rw [genMethod_checks] at hc
      have hmem := List.mem_of_getElem? hc
      rw [he.2]
      simp at hmem
      rcases hmem with ⟨g, _, rfl⟩ | ⟨g, _, rfl⟩ <;> rfl

/-- **Retry.** The machine handed back by a refusal is fully usable: under any later
    environment in which the conditions answer favourably, the same call on it succeeds. -/
theorem retry_succeeds (m : Machine) (e : Edge) (env env' : Env) (σ' : Name → Bool) (self : TM)
    (payload payload' : Option Nat) (h h' h2 : Hist) (m' : TM) (ge : GuardError)
    (hrun : run env (methodProg (genMethod m e) self payload) h = (.done (.err m' ge), h'))
    (hc : CondsAnswer env' σ') (hp : Permissive env')
    (hg : ∀ g ∈ e.guards, σ' g = true) (hu : ∀ u ∈ e.unl, σ' u = false) :
    ∃ nm h3, run env' (methodProg (genMethod m e) m' payload') h2 = (.done (.ok nm), h3) := by
  obtain ⟨rfl, _⟩ := refusal_identity m e env self payload h h' m' ge hrun
  exact (C03.fires_iff m e env' σ' m' payload' h2 hc hp).mpr ⟨hg, hu⟩

end SMV.C05
