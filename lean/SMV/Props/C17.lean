import SMV.Lemmas.Dyn
import SMV.Static
/-
  C17 — Generated code keeps the zero-cost, no_std footprint.

  PARTIAL in Lean (DESIGN §7 C17): proved here is the *shape* the macro emits — every state, leaf or
  superstate, gets a marker item (a unit struct with the fixed derive list of the template, T2-checked
  token for token), and the machine struct has exactly `ctx`, the `PhantomData` and one `Option` field
  per data-carrying state, so none when there is no state data. That the markers are zero-sized `Copy +
  Eq + Debug + Send + Sync`, that `PhantomData` adds no size, and that the whole expansion builds in a
  `#![no_std]` crate without an allocator are rustc's facts: T4 `pos` builds the corpus as a no_std
  library with `const` size asserts and `MachineState` / `TransitionError<Marker>` uses.
-/
namespace SMV.C17
open SMV

/-- every leaf state and every superstate gets a marker item -/
theorem all_states_have_markers (m : Machine) (s : Name)
    (hs : s ∈ m.states ∨ s ∈ m.hierarchy.allSuperstates) : Item.marker s ∈ genTypestate m := by
  simp only [genTypestate, genMarkers, List.mem_append, List.mem_map]
  refine Or.inl (Or.inl (Or.inl ⟨s, ?_, rfl⟩))
  rcases hs with hs | hs
  · exact Or.inl hs
  · right
    -- insertion sort keeps the elements
    have hins : ∀ (x y : Name) (l : List Name), y ∈ insertName x l ↔ y = x ∨ y ∈ l := by
      intro x y l
      induction l with
      | nil => simp [insertName]
      | cons z zs ih =>
        simp only [insertName]
        split
        · simp
        · simp only [List.mem_cons, ih]
          constructor
          · rintro (h | h | h)
            · exact Or.inr (Or.inl h)
            · exact Or.inl h
            · exact Or.inr (Or.inr h)
          · rintro (h | h | h)
            · exact Or.inr (Or.inl h)
            · exact Or.inl h
            · exact Or.inr (Or.inr h)
    have : ∀ (l : List Name), s ∈ l → s ∈ sortNames l := by
      intro l
      induction l with
      | nil => intro h; cases h
      | cons z zs ih =>
        intro h
        simp only [sortNames, List.foldr_cons]
        rw [hins]
        rcases List.mem_cons.mp h with h | h
        · exact Or.inl h
        · exact Or.inr (ih h)
    exact this _ hs

/-- the machine struct carries the context, the state marker and one slot per data-carrying state —
    nothing else; without state data, nothing but the context and the (zero-sized) marker -/
theorem struct_fields (m : Machine) :
    Static.structFields (genTypestate m) = [Name.lit "ctx", Name.lit "_state"] ++ m.storage.map (·.field) := by
  unfold Static.structFields genTypestate
  simp only [List.flatMap_append, List.flatMap_cons, List.flatMap_nil, genMachineStruct, Static.itemStructFields,
    List.map_map]
  have h1 : (genMarkers m).flatMap Static.itemStructFields = [] := by
    rw [List.flatMap_eq_nil_iff]; intro x hx
    simp only [genMarkers, List.mem_map] at hx; obtain ⟨_, _, rfl⟩ := hx; rfl
  have h2 : (genStateImpls m).flatMap Static.itemStructFields = [] := by
    rw [List.flatMap_eq_nil_iff]; intro x hx
    simp only [genStateImpls, List.mem_append, List.mem_map] at hx
    rcases hx with ⟨_, _, rfl⟩ | hx
    · rfl
    · split at hx
      · simp at hx
      · simp only [List.mem_cons, List.mem_map] at hx
        rcases hx with rfl | ⟨_, _, rfl⟩ <;> rfl
  have h3 : (genSubstateImpls m).flatMap Static.itemStructFields = [] := by
    rw [List.flatMap_eq_nil_iff]; intro x hx
    simp only [genSubstateImpls, List.mem_flatMap] at hx
    obtain ⟨leaf, _, hx⟩ := hx
    split at hx
    · obtain ⟨_, _, rfl⟩ := List.mem_map.mp hx; rfl
    · simp at hx
  rw [h1, h2, h3]
  simp [Function.comp_def]

theorem no_data_no_slots (m : Machine) (h : m.storage = []) :
    Static.structFields (genTypestate m) = [Name.lit "ctx", Name.lit "_state"] := by
  rw [struct_fields, h]; rfl

end SMV.C17
