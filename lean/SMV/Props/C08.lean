import SMV.Lemmas.Slots
/-
  C08 — State data exists exactly while its state is current and starts fresh on entry.
-/
namespace SMV.C08
open SMV

/-- **At construction** the slot of the initial state (if it carries data) holds `Default`, every other
    slot is empty: `new` establishes the invariant. -/
theorem new_establishes (m : Machine) (hv : m.validate = .ok ()) (hf : m.FieldsNodup) (ctx : Nat) :
    ∃ tm, m.code.newTyped m.initial ctx = some tm ∧ tm.state = m.initial ∧ SlotInv m tm ∧
      ∀ spec ∈ m.storage, spec.stateName = m.initial → tm.slot spec.field = some 0 := by
  have hi := validate_initial_mem m hv
  have hn := validate_states_nodup m hv
  simp only [Code.newTyped, findCtor_code m hn m.initial hi, ↓reduceIte, Option.map_some]
  refine ⟨_, rfl, rfl, ?_, ?_⟩
  · intro spec hs
    rw [slot_new m hf ctx spec hs]
    split <;> simp_all
  · intro spec hs heq
    rw [slot_new m hf ctx spec hs]
    simp [heq]

/-- **On every entry** (self-transitions included) the machine the after-callbacks — and, unless they
    overwrite it, the caller — first see has the target's slot freshly `Default` and every other slot empty. -/
theorem fresh_on_entry (m : Machine) (hf : m.FieldsNodup) (e : Edge) (self : TM) (spec : StorageSpec)
    (hs : spec ∈ m.storage) :
    (construct (genMethod m e) self).slot spec.field = if spec.stateName = e.target then some 0 else none :=
  slot_construct m hf e self spec hs

/-- **Preservation.** `Ok` of any generated method, under any hooks (which may mutate data in place through
    the public `_mut` accessors): the returned machine has exactly its own state's slot present. -/
theorem ok_preserves (m : Machine) (hf : m.FieldsNodup) (e : Edge) (env : Env) (self : TM) (payload : Option Nat)
    (h h' : Hist) (nm : TM)
    (hrun : run env (methodProg (genMethod m e) self payload) h = (.done (.ok nm), h')) : SlotInv m nm :=
  method_ok_inv m hf e env self payload h h' nm hrun

/-- a refusal hands back the very same machine, so the invariant (and every user modification) is kept -/
theorem err_preserves (m : Machine) (e : Edge) (env : Env) (self : TM) (payload : Option Nat)
    (h h' : Hist) (m' : TM) (ge : GuardError) (hinv : SlotInv m self)
    (hrun : run env (methodProg (genMethod m e) self payload) h = (.done (.err m' ge), h')) : SlotInv m m' := by
  obtain ⟨rfl, _⟩ := C05.refusal_identity m e env self payload h h' m' ge hrun
  exact hinv

/-- in-place mutation (typed `_mut` accessors, the dynamic mutable accessor) keeps the invariant and is
    what later reads return -/
theorem mutation_preserves (m : Machine) (tm : TM) (w : Option (Name × Nat)) (h : SlotInv m tm) :
    SlotInv m (tm.write w) := write_inv m tm w h

/-- **Consequently the infallible accessor on a machine typed in `X` never panics.** -/
theorem accessor_total (m : Machine) (tm : TM) (hinv : SlotInv m tm) (spec : StorageSpec) (hs : spec ∈ m.storage)
    (hx : tm.state = spec.stateName) : ∃ v, typedData tm spec.field = some v := by
  have := hinv spec hs
  simp only [hx, decide_true] at this
  exact Option.isSome_iff_exists.mp this

/-- and in every other state the slot is absent -/
theorem absent_elsewhere (m : Machine) (tm : TM) (hinv : SlotInv m tm) (spec : StorageSpec) (hs : spec ∈ m.storage)
    (hx : tm.state ≠ spec.stateName) : tm.slot spec.field = none := by
  have := hinv spec hs
  have hne : ¬ spec.stateName = tm.state := fun h => hx h.symm
  simp only [hne, decide_false] at this
  cases h : tm.slot spec.field <;> simp_all

end SMV.C08
