import SMV.Props.C12
import SMV.Static
/-
  C14 — Every well-formed definition compiles in every supported configuration.

  PARTIAL in Lean (DESIGN §7 C14): what is proved here is what the macro decides — when the dynamic
  API is generated, and how generated items are named. That rustc *accepts* the expansion of every
  well-formed definition in every configuration is not a statement about this model (it would need
  a formal Rust type system); it is established by rustc itself on the option-product corpus of T4
  `pos` (sync/async × payload × generic/concrete context × typestate/`dynamic: true`/feature ×
  nesting depth × data placement × hook placement) and on every machine T3 compiles.
-/
namespace SMV.C14
open SMV

/-- **The dynamic API is generated iff it is requested** by `dynamic: true` or by the crate feature. -/
theorem dynamic_iff (m : Machine) (feature : Bool) (code : Code) (h : m.expand feature = .ok code) :
    Static.hasDynamic code = (m.dynamicMode || feature) := by
  have hts : Static.hasDynamic (genTypestate m) = false := by
    unfold Static.hasDynamic
    rw [List.any_eq_false]
    intro x hx
    have := genTypestate_isTypestate m x hx
    cases x <;> simp_all [Item.isTypestate, Static.isDynImpl]
  have hdy : Static.hasDynamic (genDynamic m) = true := by
    unfold Static.hasDynamic
    rw [genDynamic_eq]
    simp [Static.isDynImpl]
  unfold Machine.expand at h
  split at h
  · cases h
  · by_cases hd : (m.dynamicMode || feature) = true
    · simp only [hd, ↓reduceIte, Except.ok.injEq] at h
      subst h
      unfold Static.hasDynamic at hts hdy ⊢
      rw [List.any_append, hts, hdy, hd]; rfl
    · simp only [hd, Bool.false_eq_true, ↓reduceIte, Except.ok.injEq] at h
      subst h
      rw [hts]
      simpa using hd

/-- generated item names follow the documented convention -/
theorem item_names (m : Machine) :
    dynamicName m = Name.lit "Dynamic" ++ m.name ∧ eventEnumName m = m.name ++ Name.lit "Event" ∧
    anyStateName m = Name.lit "Any" ++ m.name ++ Name.lit "State" := ⟨rfl, rfl, rfl⟩

/-- `to_snake_case` never leaves an upper-case letter: accessor, extractor and field names derived from
    state names are snake_case whatever the state is called -/
theorem snakeGo_noUpper : ∀ (n : Name) (p : Option Ch), ∀ c ∈ snakeGo p n, c.isUpper = false := by
  intro n
  induction n with
  | nil => intro p c hc; simp [snakeGo] at hc
  | cons x rest ih =>
    intro p c hc
    simp only [snakeGo] at hc
    split at hc
    · rcases List.mem_append.mp hc with h | h
      · have hus : ∀ (b : Bool), c ∈ (if b = true then [Ch.us] else []) → c = Ch.us := by
          intro b hb; cases b <;> simp at hb; exact hb
        have := hus _ h
        subst this; rfl
      · rcases List.mem_cons.mp h with h | h
        · subst h; cases x <;> simp [Ch.isUpper, Ch.toLower]
        · exact ih _ c h
    · rename_i hx
      rcases List.mem_cons.mp hc with h | h
      · subst h; simpa using hx
      · exact ih _ c h

theorem toSnake_noUpper (n : Name) : ∀ c ∈ toSnake n, c.isUpper = false := snakeGo_noUpper n none

/-- `to_pascal_case` removes every underscore: event variants contain none -/
theorem pascalGo_noUnderscore : ∀ (n : Name) (b : Bool), ∀ c ∈ pascalGo b n, c ≠ Ch.us := by
  intro n
  induction n with
  | nil => intro b c hc; simp [pascalGo] at hc
  | cons x rest ih =>
    intro b c hc
    cases x with
    | us => simp only [pascalGo] at hc; exact ih _ c hc
    | up i =>
      cases b <;> simp only [pascalGo, List.mem_cons] at hc <;> rcases hc with hc | hc
      · subst hc; simp
      · exact ih _ c hc
      · subst hc; simp [Ch.toUpper]
      · exact ih _ c hc
    | lo i =>
      cases b <;> simp only [pascalGo, List.mem_cons] at hc <;> rcases hc with hc | hc
      · subst hc; simp
      · exact ih _ c hc
      · subst hc; simp [Ch.toUpper]
      · exact ih _ c hc
    | dig i =>
      cases b <;> simp only [pascalGo, List.mem_cons] at hc <;> rcases hc with hc | hc
      · subst hc; simp
      · exact ih _ c hc
      · subst hc; simp [Ch.toUpper]
      · exact ih _ c hc

/-- the variant of a snake_case event name starts with an upper-case letter (or a digit never: snake
    names of identifiers start with a letter) -/
theorem toPascal_head (c : Ch) (rest : Name) (hc : c.isLower = true) :
    ∃ i, (toPascal (c :: rest)).head? = some (Ch.up i) := by
  cases c <;> simp_all [Ch.isLower, toPascal, pascalGo, Ch.toUpper]

/-- generated methods carry the declared snake_case event name (C12.method_name_declared) and the
    per-state accessors are `<snake(state)>_data[_mut]`, the extractors `into_<snake(state)>` -/
theorem accessor_names (m : Machine) (spec : StorageSpec) :
    genStateAccImpl m spec = .stateAccImpl m.name m.context.isSome spec.stateName spec.field spec.ty
      (toSnake spec.stateName ++ Name.lit "_data") (toSnake spec.stateName ++ Name.lit "_data_mut") := rfl

end SMV.C14
