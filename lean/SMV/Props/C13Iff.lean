import SMV.Props.C13
/-
  C13, the converse at the level of the parsed machine: `validate` refuses **only** for the rules.

  `Valid m` is the conjunction of the documented rules that `validate` is responsible for (R3 for leaves,
  R4, R7–R10), read off the machine. `validate_iff` shows `m.validate = ok ↔ Valid m`: with the rule-by-rule
  theorems of C13 (accepted ⇒ each rule) this makes the validator *exactly* the rules — it never refuses a
  definition that satisfies them (the macro-level half of C14) and never admits one that violates them.
-/
namespace SMV.C13
open SMV

def ValidSource (m : Machine) (s : Name) : Prop :=
  (s ∈ m.states ∨ m.hierarchy.isSuperstate s = true) ∧ m.hierarchy.expandState s m.states ≠ []

def ValidTransition (m : Machine) (tr : Transition) : Prop :=
  tr.sources ≠ [] ∧
  (if m.hierarchy.isSuperstate tr.target = true then ∃ r, m.hierarchy.resolveTarget tr.target = some r ∧ r ∈ m.states
   else tr.target ∈ m.states) ∧
  ∀ s ∈ tr.sources, ValidSource m s

def ValidEvent (m : Machine) (ev : Event) : Prop :=
  isSnake ev.name = true ∧ ev.transitions ≠ [] ∧ ∀ tr ∈ ev.transitions, ValidTransition m tr

/-- the rules `validate` enforces -/
def Valid (m : Machine) : Prop :=
  m.hierarchy.isSuperstate m.initial = false ∧ m.initial ∈ m.states ∧ m.states.Nodup ∧
  ∀ ev ∈ m.events, ValidEvent m ev

theorem firstDup_false_of_nodup : ∀ (l seen : List Name), (seen ++ l).Nodup → (∀ x ∈ l, x ∉ seen) →
    firstDup seen l = false := by
  intro l
  induction l with
  | nil => intro _ _ _; rfl
  | cons x xs ih =>
    intro seen hnd hdis
    simp only [firstDup]
    have hx : ¬ seen.contains x = true := by
      simp only [List.contains_iff_mem]
      exact hdis x List.mem_cons_self
    simp only [hx, Bool.false_eq_true, ↓reduceIte]
    apply ih (x :: seen)
    · -- (x :: seen) ++ xs is a permutation-insensitive consequence of (seen ++ x :: xs).Nodup
      have : (seen ++ x :: xs).Nodup := hnd
      rw [List.nodup_append] at this ⊢
      obtain ⟨h1, h2, h3⟩ := this
      simp only [List.nodup_cons] at h2
      refine ⟨List.nodup_cons.mpr ⟨by simpa [List.contains_iff_mem] using hx, h1⟩, h2.2, ?_⟩
      intro a ha b hb
      rcases List.mem_cons.mp ha with rfl | ha'
      · intro hab; subst hab; exact h2.1 hb
      · exact h3 a ha' b (List.mem_cons_of_mem _ hb)
    · intro y hy hys
      rcases List.mem_cons.mp hys with rfl | hys'
      · have : (seen ++ y :: xs).Nodup := hnd
        rw [List.nodup_append] at this
        exact (List.nodup_cons.mp this.2.1).1 hy
      · exact hdis y (List.mem_cons_of_mem _ hy) hys'

theorem validateSources_iff (m : Machine) : ∀ (l : List Name),
    validateSources m l = .ok () ↔ ∀ s ∈ l, ValidSource m s := by
  intro l
  induction l with
  | nil => simp [validateSources]
  | cons x xs ih =>
    simp only [validateSources]
    constructor
    · intro h
      split at h
      · cases h
      · rename_i hd
        split at h
        · cases h
        · rename_i he
          intro s hs
          rcases List.mem_cons.mp hs with rfl | hs'
          · refine ⟨?_, ?_⟩
            · simp only [Bool.not_eq_true', Bool.or_eq_false_iff, not_and, Bool.not_eq_false] at hd
              by_cases hl : m.states.contains s = true
              · left; simpa using hl
              · right; exact hd (by simpa using hl)
            · intro hnil; apply he; simp [hnil]
          · exact (ih.mp h) s hs'
    · intro h
      obtain ⟨hdecl, hne⟩ := h x List.mem_cons_self
      have h1 : ¬ (!(m.states.contains x || m.hierarchy.isSuperstate x)) = true := by
        rcases hdecl with hl | hs
        · simp [hl]
        · simp [hs]
      have h2 : ¬ (m.hierarchy.expandState x m.states).isEmpty = true := by
        intro he; apply hne; simpa using he
      simp only [h1, h2, ↓reduceIte, Bool.false_eq_true]
      exact ih.mpr (fun s hs => h s (List.mem_cons_of_mem _ hs))

theorem validateTransition_iff (m : Machine) (tr : Transition) :
    validateTransition m tr = .ok () ↔ ValidTransition m tr := by
  unfold validateTransition ValidTransition
  by_cases hs : tr.sources.isEmpty = true
  · simp only [hs, ↓reduceIte]
    constructor
    · intro h; cases h
    · rintro ⟨hne, _⟩; exact absurd (by simpa using hs) hne
  · have hne : tr.sources ≠ [] := by intro h; apply hs; simp [h]
    simp only [hs, Bool.false_eq_true, ↓reduceIte]
    by_cases hsup : m.hierarchy.isSuperstate tr.target = true
    · simp only [hsup, ↓reduceIte]
      cases hr : m.hierarchy.resolveTarget tr.target with
      | none =>
        simp only
        constructor
        · intro h; cases h
        · rintro ⟨_, ⟨r, hr', _⟩, _⟩; cases hr'
      | some r =>
        simp only
        by_cases hc : m.states.contains r = true
        · simp only [hc, Bool.not_true, Bool.false_eq_true, ↓reduceIte, validateSources_iff]
          constructor
          · intro h; exact ⟨hne, ⟨r, rfl, by simpa using hc⟩, h⟩
          · rintro ⟨_, _, h⟩; exact h
        · simp only [hc, Bool.not_false, ↓reduceIte]
          constructor
          · intro h; cases h
          · rintro ⟨_, ⟨r', hr', hm⟩, _⟩
            cases hr'
            exact absurd (by simpa using hm) hc
    · simp only [hsup, Bool.false_eq_true, ↓reduceIte]
      by_cases hc : m.states.contains tr.target = true
      · simp only [hc, Bool.not_true, Bool.false_eq_true, ↓reduceIte, validateSources_iff]
        constructor
        · intro h; exact ⟨hne, by simpa using hc, h⟩
        · rintro ⟨_, _, h⟩; exact h
      · simp only [hc, Bool.not_false, ↓reduceIte]
        constructor
        · intro h; cases h
        · rintro ⟨_, hm, _⟩; exact absurd (by simpa using hm) hc

theorem validateTransitions_iff (m : Machine) : ∀ (l : List Transition),
    validateTransitions m l = .ok () ↔ ∀ tr ∈ l, ValidTransition m tr := by
  intro l
  induction l with
  | nil => simp [validateTransitions]
  | cons t rest ih =>
    simp only [validateTransitions]
    cases ht : validateTransition m t with
    | error e =>
      simp only
      constructor
      · intro h; cases h
      · intro h
        have := (validateTransition_iff m t).mpr (h t List.mem_cons_self)
        rw [ht] at this; cases this
    | ok u =>
      simp only
      rw [ih]
      constructor
      · intro h tr htr
        rcases List.mem_cons.mp htr with rfl | htr'
        · exact (validateTransition_iff m tr).mp ht
        · exact h tr htr'
      · intro h tr htr; exact h tr (List.mem_cons_of_mem _ htr)

theorem validateEvent_iff (m : Machine) (ev : Event) : validateEvent m ev = .ok () ↔ ValidEvent m ev := by
  unfold validateEvent ValidEvent
  by_cases hsn : isSnake ev.name = true
  · simp only [hsn, Bool.not_true, Bool.false_eq_true, ↓reduceIte, true_and]
    by_cases he : ev.transitions.isEmpty = true
    · simp only [he, ↓reduceIte]
      constructor
      · intro h; cases h
      · rintro ⟨hne, _⟩; exact absurd (by simpa using he) hne
    · simp only [he, Bool.false_eq_true, ↓reduceIte, validateTransitions_iff]
      constructor
      · intro h; exact ⟨by intro hn; apply he; simp [hn], h⟩
      · rintro ⟨_, h⟩; exact h
  · simp only [hsn, Bool.not_false, ↓reduceIte]
    constructor
    · intro h; cases h
    · rintro ⟨h, _⟩; cases h

theorem validateEvents_iff (m : Machine) : ∀ (l : List Event),
    validateEvents m l = .ok () ↔ ∀ ev ∈ l, ValidEvent m ev := by
  intro l
  induction l with
  | nil => simp [validateEvents]
  | cons e rest ih =>
    simp only [validateEvents]
    cases he : validateEvent m e with
    | error err =>
      simp only
      constructor
      · intro h; cases h
      · intro h
        have := (validateEvent_iff m e).mpr (h e List.mem_cons_self)
        rw [he] at this; cases this
    | ok u =>
      simp only
      rw [ih]
      constructor
      · intro h ev hev
        rcases List.mem_cons.mp hev with rfl | hev'
        · exact (validateEvent_iff m ev).mp he
        · exact h ev hev'
      · intro h ev hev; exact h ev (List.mem_cons_of_mem _ hev)

/-- **`validate` is exactly the rules.** -/
theorem validate_iff (m : Machine) : m.validate = .ok () ↔ Valid m := by
  unfold Valid
  constructor
  · intro hv
    refine ⟨?_, validate_initial_mem m hv, validate_states_nodup m hv, ?_⟩
    · unfold Machine.validate at hv
      split at hv
      · cases hv
      · rename_i h; simpa using h
    · exact (validateEvents_iff m m.events).mp (validate_events m hv)
  · rintro ⟨h1, h2, h3, h4⟩
    unfold Machine.validate
    have c2 : m.states.contains m.initial = true := by simpa using h2
    have c3 : firstDup [] m.states = false := firstDup_false_of_nodup m.states [] (by simpa using h3) (by simp)
    simp only [h1, Bool.false_eq_true, ↓reduceIte, c2, Bool.not_true, c3]
    exact (validateEvents_iff m m.events).mpr h4

end SMV.C13
