import SMV.Props.RefineVeto
/-
  Refinement of the *reply*. `RefineVeto` says which dispatches are accepted; this file says what every
  dispatch answers. The abstract machine's reply to event `e` in leaf `s` under a script:

    * no edge in the declared relation        → `InvalidTransition { from: s, event: e }`
    * the first around callback that vetoes    → its error, translated by `from_guard_error`
                                                  (an `InvalidTransition` kind gets `from: s`)
    * else the first guard answering false /
      unless-condition answering true          → `GuardFailed { guard: <that name>, event: e }`
    * else                                      → `Ok(())`

  `step_reply` proves that `handle` of the emitted code answers exactly this, and `replies_refine` lifts it
  to every history: the list of replies of the wrapper is the list of replies of the abstract machine.
  C03 (first blocker, in order), C09 (error correspondence), C12 (names reported as declared, the state the
  machine was in) along arbitrary histories are read off this one statement.
-/
namespace SMV.Refine
open SMV C01 C03 C06

/-- the reply of the abstract machine -/
def specReply (m : Machine) (sc : Script) (s e : Name) : HandleRes :=
  match m.delta s e with
  | none => .err (.invalidTransition (.name s) (.name e))
  | some edge =>
    match edge.around.find? (fun a => (sc.α a).isSome) with
    | some a =>
      match sc.α a with
      | some k => .err (armError s ⟨callbackName k a, e, k⟩)
      | none => .ok
    | none =>
      match (conds edge).find? (fun c => sc.σ c.1 != c.2) with
      | some c => .err (.guardFailed (.name c.1) (.name e))
      | none => .ok

theorem find_first_veto (α : Name → Option Kind) (pre : List Name) (cb : Name) (post : List Name) (k : Kind)
    (hpre : ∀ a ∈ pre, α a = none) (hk : α cb = some k) :
    (pre ++ cb :: post).find? (fun a => (α a).isSome) = some cb := by
  induction pre with
  | nil => simp [hk]
  | cons x xs ih =>
    have hx := hpre x List.mem_cons_self
    simp only [List.cons_append, List.find?_cons, hx, Option.isSome_none]
    exact ih (fun a ha => hpre a (List.mem_cons_of_mem _ ha))

theorem find_no_veto (α : Name → Option Kind) (l : List Name) (h : ∀ a ∈ l, α a = none) :
    l.find? (fun a => (α a).isSome) = none := by
  rw [List.find?_eq_none]
  intro a ha
  simp [h a ha]

theorem find_first_blocker (σ : Name → Bool) (pre : List (Name × Bool)) (c : Name × Bool) (post : List (Name × Bool))
    (hpre : ∀ d ∈ pre, σ d.1 = d.2) (hc : σ c.1 ≠ c.2) :
    (pre ++ c :: post).find? (fun c => σ c.1 != c.2) = some c := by
  induction pre with
  | nil => simp [hc]
  | cons x xs ih =>
    have hx := hpre x List.mem_cons_self
    simp only [List.cons_append, List.find?_cons, hx, bne_self_eq_false]
    exact ih (fun a ha => hpre a (List.mem_cons_of_mem _ ha))

theorem find_no_blocker (σ : Name → Bool) (l : List (Name × Bool)) (h : ∀ d ∈ l, σ d.1 = d.2) :
    l.find? (fun c => σ c.1 != c.2) = none := by
  rw [List.find?_eq_none]
  intro a ha
  simp [h a ha]

/-- **One dispatch answers what the abstract machine answers.** -/
theorem step_reply (m : Machine) (hv : m.validate = .ok ()) (hg : m.GraphBuilt) (hp : m.PascalInj)
    (env : Env) (sc : Script) (hs : Scripted env sc)
    (d : DM) (hinv : DynInv m d) (s : Name) (hst : d.stateName = some s)
    (ev : Event) (hev : ev ∈ m.events) (pay : Option Nat) (h : Hist) :
    ∃ d' h', runHandle env m.code (partsOf m) d ⟨toPascal ev.name, pay⟩ h =
      ((d', .done (specReply m sc s ev.name)), h') := by
  obtain ⟨s0, tm, hd, hst0, hmem⟩ := hinv
  have hdd : d = ⟨some (s0, tm)⟩ := by cases d; simp_all
  subst hdd
  have : s0 = s := by simpa [DM.stateName] using hst
  subst this
  have hstep := runHandle_step m hv hg hp env s0 tm hst0 hmem ev hev pay h
  unfold specReply
  cases hdel : m.delta s0 ev.name with
  | none =>
    simp only [hdel] at hstep
    exact ⟨_, _, hstep⟩
  | some edge =>
    have hevn : edge.event = ev.name := by simpa using List.find?_some hdel
    simp only [hdel] at hstep
    simp only
    by_cases har : ∀ a ∈ edge.around, sc.α a = none
    · rw [find_no_veto sc.α edge.around har]
      simp only
      by_cases hall : (∀ g ∈ edge.guards, sc.σ g = true) ∧ (∀ u ∈ edge.unl, sc.σ u = false)
      · obtain ⟨nm, h', hrun⟩ := fires_of_script m edge env sc hs tm (if ev.payload.isSome then pay else none) h har hall.1 hall.2
        rw [hrun] at hstep
        simp only at hstep
        rw [find_no_blocker sc.σ (conds edge) ((conds_agree_iff edge sc.σ).mpr hall)]
        exact ⟨_, _, hstep.1⟩
      · have hna : ¬ (∀ d ∈ conds edge, sc.σ d.1 = d.2) := fun h' => hall ((conds_agree_iff edge sc.σ).mp h')
        obtain ⟨pre, c, post, hsplit, hpre, hblk⟩ := first_blocker sc.σ (conds edge) hna
        have hab := allProceed_of_script hs m edge tm edge.around h har
        have hrun := first_block_general m edge env tm (if ev.payload.isSome then pay else none) h pre c post hsplit hab
          (allPass_of_sigma hs.1 tm _ _ _ (by
            intro x hx
            obtain ⟨y, hy, rfl⟩ := List.mem_map.mp hx
            rw [blockedBy_checkOf]
            have := hpre y hy
            cases hy2 : y.2 <;> simp_all))
          (by
            unfold Check.blocksAt
            have := hs.1 (h ++ (edge.around.map (aroundOf m edge)).map (abCall tm) ++
              (pre.map (checkOf m edge)).map (condCall tm (if ev.payload.isSome then pay else none)))
              (condCall tm (if ev.payload.isSome then pay else none) (checkOf m edge c)) rfl
            rw [this]
            simp only [condCall, checkOf]
            exact ⟨sc.σ c.1, rfl, blk_aux _ _ hblk⟩)
        rw [hrun] at hstep
        simp only at hstep
        rw [hsplit, find_first_blocker sc.σ pre c post hpre hblk]
        have h1 := hstep.1
        rw [hevn] at h1
        exact ⟨_, _, h1⟩
    · obtain ⟨pre, cb, post, k, hsplit, hpre, hk⟩ := first_veto sc.α edge.around har
      have hab := allProceed_of_script hs m edge tm pre h hpre
      have habort : (env (h ++ (pre.map (aroundOf m edge)).map (abCall tm)) (abCall tm (aroundOf m edge cb))).val = .abort k := by
        have := hs.2.1 (h ++ (pre.map (aroundOf m edge)).map (abCall tm)) (abCall tm (aroundOf m edge cb)) rfl
        simp only [abCall, aroundOf, hk] at this
        exact this
      have hrun := before_abort m edge env tm (if ev.payload.isSome then pay else none) h pre cb post k hsplit hab habort
      rw [hrun] at hstep
      simp only at hstep
      rw [hsplit, find_first_veto sc.α pre cb post k hpre hk]
      simp only [hk]
      have h1 := hstep.1
      rw [hevn] at h1
      exact ⟨_, _, h1⟩

/-- the replies of the abstract machine along a history -/
def specReplies (m : Machine) : Name → List (Script × Name) → List HandleRes
  | _, [] => []
  | s, (sc, e) :: rest => specReply m sc s e :: specReplies m (specStepV m sc s e).1 rest

/-- the abstract machine accepts exactly where it answers `Ok` -/
theorem specReply_ok_iff (m : Machine) (sc : Script) (s e : Name) :
    specReply m sc s e = .ok ↔ (specStepV m sc s e).2 = true := by
  unfold specReply specStepV
  cases m.delta s e with
  | none => simp
  | some edge =>
    simp only
    cases hf : edge.around.find? (fun a => (sc.α a).isSome) with
    | some a =>
      have hsome := List.find?_some hf
      have hmem := List.mem_of_find?_eq_some hf
      cases hk : sc.α a with
      | none => simp [hk] at hsome
      | some k =>
        have hb : (edge.around.all fun a => (sc.α a).isNone) = false := by
          rw [Bool.eq_false_iff]
          intro hb
          rw [List.all_eq_true] at hb
          have := hb a hmem
          simp [hk] at this
        simp only [hb, Bool.false_and, hk]
        cases k <;> simp
    | none =>
      have hn : (edge.around.all fun a => (sc.α a).isNone) = true := by
        rw [List.all_eq_true]
        intro a ha
        have := List.find?_eq_none.mp hf a ha
        simpa using this
      simp only [hn, Bool.true_and]
      cases hc : (conds edge).find? (fun c => sc.σ c.1 != c.2) with
      | some c =>
        have hsome := List.find?_some hc
        have hmem := List.mem_of_find?_eq_some hc
        have hne : sc.σ c.1 ≠ c.2 := by simpa using hsome
        have hb : ((edge.guards.all fun g => sc.σ g) && (edge.unl.all fun u => !sc.σ u)) = false := by
          rw [Bool.eq_false_iff]
          intro hb
          simp only [Bool.and_eq_true, List.all_eq_true, Bool.not_eq_true'] at hb
          exact hne ((conds_agree_iff edge sc.σ).mpr hb c hmem)
        simp [hb]
      | none =>
        have hag : ∀ d ∈ conds edge, sc.σ d.1 = d.2 := by
          intro d hd
          have := List.find?_eq_none.mp hc d hd
          simpa using this
        have := (conds_agree_iff edge sc.σ).mp hag
        have hb : ((edge.guards.all fun g => sc.σ g) && (edge.unl.all fun u => !sc.σ u)) = true := by
          simp only [Bool.and_eq_true, List.all_eq_true, Bool.not_eq_true']
          exact this
        simp [hb]

/-- **The replies along every history.** Any finite sequence of declared events, each dispatched under its
    own scripted hook environment: the wrapper's answers — `Ok`, or the exact error value with its kind, the
    declared names and the state the machine was in — are the abstract machine's answers, one by one. -/
theorem replies_refine (m : Machine) (hv : m.validate = .ok ()) (hg : m.GraphBuilt) (hp : m.PascalInj) :
    ∀ (xs : List ((Env × Script) × Event × Option Nat)) (d : DM) (s : Name) (h : Hist),
      (∀ x ∈ xs, Scripted x.1.1 x.1.2 ∧ x.2.1 ∈ m.events) → DynInv m d → d.stateName = some s →
      ∃ df, runEventsE m d (xs.map fun x => (x.1.1, x.2.1, x.2.2)) h =
        some (df, specReplies m s (xs.map fun x => (x.1.2, x.2.1.name))) := by
  intro xs
  induction xs with
  | nil => intro d s h _ _ _; exact ⟨d, rfl⟩
  | cons x rest ih =>
    intro d s h hall hinv hs
    obtain ⟨⟨env, sc⟩, ev, pay⟩ := x
    obtain ⟨hsc, hev⟩ := hall _ (List.mem_cons_self)
    obtain ⟨d', r, h', hrun, hinv', hs', _⟩ := step_refines_veto m hv hg hp env sc hsc d hinv s hs ev hev pay h
    obtain ⟨d'', h'', hrun'⟩ := step_reply m hv hg hp env sc hsc d hinv s hs ev hev pay h
    have heq : ((d', Out.done r), h') = ((d'', Out.done (specReply m sc s ev.name)), h'') := by rw [← hrun, ← hrun']
    have hr : r = specReply m sc s ev.name := by
      have := congrArg (fun x => x.1.2) heq
      simpa using this
    subst hr
    obtain ⟨df, hrest⟩ := ih d' _ h' (fun y hy => hall y (List.mem_cons_of_mem _ hy)) hinv' hs'
    refine ⟨df, ?_⟩
    simp only [List.map_cons, runEventsE, hrun, hrest, Option.map_some, specReplies]

end SMV.Refine
