import SMV.Props.C09
import SMV.Static
/-
  C02 — The typestate API mirrors the transition relation at compile time.

  "The method exists on `M<s>`" is inherent-method lookup in the emitted impl blocks
  (`Code.findMethod`, `Code.findCtor`, `Static.itemMethods`): the trusted reading of rustc's
  resolution, validated by T4 `neg-method` probes (every non-edge, every non-initial `new`, every
  foreign accessor must be E0599; every edge must type-check with the declared Ok/Err types).
-/
namespace SMV.C02
open SMV

/-- **The method of event `e` exists on the machine typed in leaf `s` iff a transition for `e` applies
    to `s`** (`δ_M(s, e)` defined — directly or through a superstate, C07). -/
theorem method_exists_iff (m : Machine) (hv : m.validate = .ok ()) (hg : m.GraphBuilt)
    (s : Name) (hs : s ∈ m.states) (ev : Event) (hev : ev ∈ m.events) :
    ((genTypestate m).findMethod s ev.name).isSome = (m.delta s ev.name).isSome :=
  C09.typed_method_iff m hv hg s hs ev hev

/-- **Its success value is typed in exactly the declared, resolved target; its failure value in `s`.**
    The method found is the one generated for the edge: its `Ok` type is `M<_, target>` (the return type
    is rendered from `Method.target`), its `Err` type is `(Self, GuardError)` in the impl of `s`. -/
theorem method_types (m : Machine) (hv : m.validate = .ok ()) (hg : m.GraphBuilt)
    (s : Name) (hs : s ∈ m.states) (ev : Event) (hev : ev ∈ m.events) (meth : Method)
    (hf : (genTypestate m).findMethod s ev.name = some meth) :
    ∃ edge, m.delta s ev.name = some edge ∧ meth = genMethod m edge ∧ meth.target = edge.target ∧
      meth.machine = m.name ∧ meth.payload = edge.payload := by
  have hsn := validate_eventsSnake m hv
  have hnd := validate_states_nodup m hv
  rw [findMethod_typestate m hnd s hs, List.find?_map] at hf
  have hfe : List.find? ((fun x : Method => decide (x.name = ev.name)) ∘ genMethod m) (m.outgoing s) =
      List.find? (fun e => decide (e.event = ev.name)) (m.outgoing s) := by
    apply find?_ext
    intro e he
    obtain ⟨ev', hev', hn, _⟩ := graph_event_mem m hg (s, e) (outgoing_mem_graph m s e he)
    simp only at hn
    have hts : toSnake e.event = e.event := by rw [hn]; exact toSnake_of_isSnake _ (hsn ev' hev')
    simp [Function.comp, hts]
  rw [hfe] at hf
  cases hd : List.find? (fun e => decide (e.event = ev.name)) (m.outgoing s) with
  | none => simp [hd] at hf
  | some edge =>
    simp only [hd, Option.map_some, Option.some.injEq] at hf
    exact ⟨edge, hd, hf.symm, by rw [← hf]; rfl, by rw [← hf]; rfl, by rw [← hf]; rfl⟩

/-- **`new` exists only on the type of the declared initial state.** -/
theorem new_only_initial (m : Machine) (hv : m.validate = .ok ()) (s : Name) (hs : s ∈ m.states) :
    ((genTypestate m).findCtor s).isSome = decide (s = m.initial) := by
  have hnd := validate_states_nodup m hv
  unfold Code.findCtor
  rw [stateImpls_typestate, filter_eq_of_nodup hnd hs]
  by_cases h : s = m.initial <;> simp [h]

/-- **The infallible per-state data accessors exist only on the type of their own state**: the impl
    block that carries `x_data()` / `x_data_mut()` is the one of the data-carrying state itself. -/
theorem accessor_only_own_state (m : Machine) (s : Name) (field : Name) (ty : Ty) (X dm dmm : Name) (c : Bool) :
    Item.stateAccImpl m.name c X field ty dm dmm ∈ genTypestate m →
      (∃ spec ∈ m.storage, spec.stateName = X ∧ dm = toSnake X ++ Name.lit "_data" ∧
        dmm = toSnake X ++ Name.lit "_data_mut") ∧
      (Static.itemMethods s (Item.stateAccImpl m.name c X field ty dm dmm) ≠ [] → s = X) := by
  intro hmem
  constructor
  · simp only [genTypestate, genMarkers, genStateImpls, genSubstateImpls, List.mem_append, List.mem_map,
      List.mem_cons, List.not_mem_nil, or_false, List.mem_flatMap] at hmem
    rcases hmem with ((⟨_, _, h⟩ | h) | (⟨_, _, h⟩ | h)) | ⟨_, _, h⟩
    · cases h
    · cases h
    · simp [genStateImpl] at h
    · split at h
      · simp at h
      · simp only [List.mem_cons, List.mem_map] at h
        rcases h with h | ⟨spec, hspec, h⟩
        · cases h
        · simp only [genStateAccImpl, Item.stateAccImpl.injEq] at h
          obtain ⟨_, _, rfl, _, _, rfl, rfl⟩ := h
          exact ⟨spec, hspec, rfl, rfl, rfl⟩
    · split at h
      · obtain ⟨_, _, h⟩ := List.mem_map.mp h; cases h
      · simp at h
  · intro hne
    simp only [Static.itemMethods] at hne
    by_cases hx : X = s
    · exact hx.symm
    · simp [hx] at hne

end SMV.C02
