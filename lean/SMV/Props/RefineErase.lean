import SMV.Props.RefineMixed
/-
  Conversion erasure, for arbitrary hooks.

  `RefineMixed` follows the *state* through histories that mix both modes, for scripted hooks. This file follows
  everything the caller's handle carries — state, context value, every data slot — and the hook trace, for **arbitrary**
  hook environments (hooks may answer differently every time, write state data, veto, panic): a history in which the
  caller dispatches events through whichever API it holds and converts between the modes whenever it likes ends with
  the same typed machine inside, after the same hook trace, as the history in which it wrapped the machine once and
  dispatched the same events through `handle` — and a hook panic ends the one exactly when it ends the other.
  Conversions are invisible and the two dispatch paths are interchangeable along whole histories: C09 ("same
  outcome, same hook trace and data") and C10 ("any chain of conversions preserves state, context value and state
  data") composed, with no assumption on the hooks.
-/
namespace SMV.Refine
open SMV C01 C03 C10

inductive GOp where
  | call (env : Env) (ev : Event) (pay : Option Nat)
  | convert

def GOp.isCall : GOp → Bool
  | .call .. => true
  | .convert => false

/-- the typed machine the caller's handle carries: state, context, every slot -/
def Hold2.carried : Hold2 → Option TM
  | .typed tm => some tm
  | .dyn d => d.inner.map (·.2)

/-- the same machine behind the dynamic wrapper -/
def Hold2.asDyn (hd : Hold2) : Hold2 := .dyn ⟨hd.carried.map fun tm => (tm.state, tm)⟩

/-- one operation under arbitrary hooks; `none` = a hook panicked (or the operation is not available) -/
def gStep (m : Machine) : Hold2 → GOp → Hist → Option (Hold2 × Hist)
  | .dyn d, .call env ev pay, h =>
    match runHandle env m.code (partsOf m) d ⟨toPascal ev.name, pay⟩ h with
    | ((d', .done _), h') => some (.dyn d', h')
    | _ => none
  | .typed tm, .call env ev pay, h =>
    match (genTypestate m).findMethod tm.state ev.name with
    | none => some (.typed tm, h)                      -- not callable: nothing happens
    | some meth =>
      match run env (methodProg meth tm (if ev.payload.isSome then pay else none)) h with
      | (.done (.ok nm), h') => some (.typed nm, h')
      | (.done (.err old _), h') => some (.typed old, h')
      | _ => none
  | .typed tm, .convert, h => (intoDynamic (partsOf m) tm).map fun d => (.dyn d, h)
  | .dyn d, .convert, h =>
    match d.stateName with
    | none => none
    | some s =>
      match dynExtract s d with
      | .ok tm => some (.typed tm, h)
      | .error _ => none

def gRun (m : Machine) : Hold2 → List GOp → Hist → Option (Hold2 × Hist)
  | hd, [], h => some (hd, h)
  | hd, op :: rest, h =>
    match gStep m hd op h with
    | none => none
    | some (hd', h') => gRun m hd' rest h'

/-- what is observable at the end: the machine carried and the hook trace -/
def obs (r : Option (Hold2 × Hist)) : Option (Option TM × Hist) := r.map fun x => (x.1.carried, x.2)

/-- the handle is usable and in a declared state -/
def Good (m : Machine) : Hold2 → Prop
  | .typed tm => tm.state ∈ m.states
  | .dyn d => ∃ tm, d = ⟨some (tm.state, tm)⟩ ∧ tm.state ∈ m.states

def GOpOk (m : Machine) : GOp → Prop
  | .call _ ev _ => ev ∈ m.events
  | .convert => True

theorem asDyn_dyn (m : Machine) (d : DM) (hg : Good m (.dyn d)) : (Hold2.dyn d).asDyn = .dyn d := by
  obtain ⟨tm, rfl, _⟩ := hg
  rfl

theorem good_asDyn (m : Machine) (hd : Hold2) (hg : Good m hd) : Good m hd.asDyn := by
  cases hd with
  | typed tm => exact ⟨tm, rfl, hg⟩
  | dyn d => rw [asDyn_dyn m d hg]; exact hg

/-- a conversion succeeds, carries the same machine over and runs no hook -/
theorem gStep_convert (m : Machine) (hd : Hold2) (hg : Good m hd) (h : Hist) :
    ∃ hd', gStep m hd .convert h = some (hd', h) ∧ hd'.carried = hd.carried ∧ Good m hd' := by
  cases hd with
  | typed tm =>
    have h1 := (into_dynamic_state m tm hg).1
    exact ⟨.dyn ⟨some (tm.state, tm)⟩, by simp [gStep, h1], rfl, ⟨tm, rfl, hg⟩⟩
  | dyn d =>
    obtain ⟨tm, rfl, hs⟩ := hg
    exact ⟨.typed tm, by simp [gStep, DM.stateName, dynExtract], rfl, hs⟩

/-- a dispatch through whatever is held does what `handle` on the wrapped machine does -/
theorem gStep_call (m : Machine) (hv : m.validate = .ok ()) (hg : m.GraphBuilt) (hp : m.PascalInj)
    (hd : Hold2) (hgood : Good m hd) (env : Env) (ev : Event) (hev : ev ∈ m.events) (pay : Option Nat) (h : Hist) :
    (gStep m hd (.call env ev pay) h = none ∧ gStep m hd.asDyn (.call env ev pay) h = none) ∨
    ∃ hd' h', gStep m hd (.call env ev pay) h = some (hd', h') ∧
      gStep m hd.asDyn (.call env ev pay) h = some (hd'.asDyn, h') ∧ Good m hd' := by
  -- the machine carried
  obtain ⟨tm, hcar, hs⟩ : ∃ tm, hd.asDyn = .dyn ⟨some (tm.state, tm)⟩ ∧ tm.state ∈ m.states := by
    cases hd with
    | typed tm => exact ⟨tm, rfl, hgood⟩
    | dyn d => obtain ⟨tm, rfl, hs⟩ := hgood; exact ⟨tm, rfl, hs⟩
  have hstep := runHandle_step m hv hg hp env tm.state tm rfl hs ev hev pay h
  have hfm := findMethod_eq_delta m hv hg tm.state hs ev
  -- `handle` on the wrapped machine, by cases of the relation and of the method's run
  have hdynside : (gStep m hd.asDyn (.call env ev pay) h = none ∧
        (∀ edge, m.delta tm.state ev.name = some edge →
          ∃ pi h', run env (methodProg (genMethod m edge) tm (if ev.payload.isSome then pay else none)) h = (.panicked pi, h')) ∧
        m.delta tm.state ev.name ≠ none) ∨
      ∃ tm' h', gStep m hd.asDyn (.call env ev pay) h = some (.dyn ⟨some (tm'.state, tm')⟩, h') ∧ tm'.state ∈ m.states ∧
        match m.delta tm.state ev.name with
        | none => tm' = tm ∧ h' = h
        | some edge =>
          run env (methodProg (genMethod m edge) tm (if ev.payload.isSome then pay else none)) h = (.done (.ok tm'), h') ∨
          ∃ ge, run env (methodProg (genMethod m edge) tm (if ev.payload.isSome then pay else none)) h = (.done (.err tm ge), h') ∧ tm' = tm := by
    rw [hcar]
    cases hdel : m.delta tm.state ev.name with
    | none =>
      rw [hdel] at hstep
      exact Or.inr ⟨tm, h, by simp [gStep, hstep], hs, rfl, rfl⟩
    | some edge =>
      rw [hdel] at hstep
      simp only at hstep
      rcases hr : run env (methodProg (genMethod m edge) tm (if ev.payload.isSome then pay else none)) h with ⟨o, h'⟩
      rw [hr] at hstep
      cases o with
      | done r =>
        cases r with
        | ok nm =>
          obtain ⟨hrun, hst, hmem⟩ := hstep
          refine Or.inr ⟨nm, h', ?_, by rw [hst]; exact hmem, Or.inl hr⟩
          simp [gStep, hrun, hst]
        | err old ge =>
          obtain ⟨hrun, hold⟩ := hstep
          subst hold
          exact Or.inr ⟨old, h', by simp [gStep, hrun], hs, Or.inr ⟨ge, hr, rfl⟩⟩
      | panicked pi =>
        refine Or.inl ⟨by simp [gStep, hstep], ?_, by simp⟩
        intro edge' he'
        cases he'
        exact ⟨pi, h', hr⟩
      | abandoned => exact absurd hstep id
  cases hd with
  | dyn d =>
    -- the wrapper is what is held: both sides are the same dispatch
    have hsame : (Hold2.dyn d).asDyn = .dyn d := asDyn_dyn m d hgood
    rw [hsame] at hdynside ⊢
    rcases hdynside with ⟨hnone, _⟩ | ⟨tm', h', hsome, hs', _⟩
    · exact Or.inl ⟨hnone, hnone⟩
    · exact Or.inr ⟨.dyn ⟨some (tm'.state, tm')⟩, h', hsome, by rw [hsome]; rfl, ⟨tm', rfl, hs'⟩⟩
  | typed tm0 =>
    have htm : tm0 = tm := by
      have : (Hold2.typed tm0).asDyn = .dyn ⟨some (tm0.state, tm0)⟩ := rfl
      rw [this] at hcar
      injection hcar with hcar
      injection hcar with hcar
      injection hcar with hcar
      exact (Prod.mk.inj hcar).2
    subst htm
    rcases hdynside with ⟨hnone, hpan, hne⟩ | ⟨tm', h', hsome, hs', hcase⟩
    · left
      refine ⟨?_, hnone⟩
      cases hdel : m.delta tm0.state ev.name with
      | none => exact absurd hdel hne
      | some edge =>
        obtain ⟨pi, h', hr⟩ := hpan edge hdel
        simp [gStep, hfm, hdel, hr]
    · right
      cases hdel : m.delta tm0.state ev.name with
      | none =>
        rw [hdel] at hcase
        obtain ⟨rfl, rfl⟩ := hcase
        exact ⟨.typed tm', h', by simp [gStep, hfm, hdel], hsome, hs'⟩
      | some edge =>
        rw [hdel] at hcase
        rcases hcase with hr | ⟨ge, hr, rfl⟩
        · exact ⟨.typed tm', h', by simp [gStep, hfm, hdel, hr], hsome, hs'⟩
        · exact ⟨.typed tm', h', by simp [gStep, hfm, hdel, hr], hsome, hs'⟩

/-- **Conversion erasure.** Whatever the hooks do: a history of dispatches through either API with conversions
    interleaved at will ends with the same machine carried (state, context, every data slot) after the same hook
    trace as the same dispatches through `handle` on the machine wrapped once — or both are ended by a hook panic. -/
theorem conversion_erasure (m : Machine) (hv : m.validate = .ok ()) (hg : m.GraphBuilt) (hp : m.PascalInj) :
    ∀ (ops : List GOp) (hd : Hold2) (h : Hist), (∀ op ∈ ops, GOpOk m op) → Good m hd →
      obs (gRun m hd ops h) = obs (gRun m hd.asDyn (ops.filter GOp.isCall) h) := by
  intro ops
  induction ops with
  | nil =>
    intro hd h _ hgood
    cases hd with
    | typed tm => rfl
    | dyn d => rw [asDyn_dyn m d hgood]; rfl
  | cons op rest ih =>
    intro hd h hall hgood
    have hrest : ∀ o ∈ rest, GOpOk m o := fun o ho => hall o (List.mem_cons_of_mem _ ho)
    cases op with
    | convert =>
      obtain ⟨hd', hstep, hcar, hgood'⟩ := gStep_convert m hd hgood h
      have hsame : hd'.asDyn = hd.asDyn := by simp [Hold2.asDyn, hcar]
      simp only [gRun, hstep, List.filter_cons, GOp.isCall, Bool.false_eq_true, ↓reduceIte]
      rw [ih hd' h hrest hgood', hsame]
    | call env ev pay =>
      have hev : ev ∈ m.events := hall (.call env ev pay) List.mem_cons_self
      simp only [List.filter_cons, GOp.isCall, ↓reduceIte]
      rcases gStep_call m hv hg hp hd hgood env ev hev pay h with ⟨h1, h2⟩ | ⟨hd', h', h1, h2, hgood'⟩
      · simp [gRun, h1, h2]
      · simp only [gRun, h1, h2]
        exact ih hd' h' hrest hgood'

end SMV.Refine
