import SMV.Props.Refine
import SMV.Props.C06
/-
  Refinement, with vetoes. The abstract machine of `Refine` extended by the around callbacks' Before
  stage: an event fires iff the declared relation has an edge, **no around callback of the edge vetoes**,
  every guard answers true and every unless-condition answers false. Hooks answer by a script: a truth
  assignment for conditions and, per around callback name, proceed or abort with a kind.
-/
namespace SMV.Refine
open SMV C01 C03 C06

/-- how hooks answer -/
structure Script where
  σ : Name → Bool
  α : Name → Option Kind        -- around Before stage: `none` = proceed, `some k` = abort with kind `k`

def Scripted (env : Env) (sc : Script) : Prop :=
  CondsAnswer env sc.σ ∧
  (∀ h c, c.kind = .aroundBefore → (env h c).val = match sc.α c.name with | none => .proceed | some k => .abort k) ∧
  (∀ h c, c.kind = .aroundAfter → (env h c).val = .proceed) ∧
  (∀ h c, c.kind = .before → (env h c).val = .unit) ∧
  (∀ h c, c.kind = .after → (env h c).val = .unit)

def specStepV (m : Machine) (sc : Script) (s : Name) (e : Name) : Name × Bool :=
  match m.delta s e with
  | none => (s, false)
  | some edge =>
    if (edge.around.all fun a => (sc.α a).isNone) && (edge.guards.all fun g => sc.σ g) && (edge.unl.all fun u => !sc.σ u)
    then (edge.target, true) else (s, false)

theorem allProceed_of_script {env : Env} {sc : Script} (hs : Scripted env sc) (m : Machine) (e : Edge) (self : TM) :
    ∀ (l : List Name) (h : Hist), (∀ a ∈ l, sc.α a = none) → AllProceed env self (l.map (aroundOf m e)) h := by
  intro l
  induction l with
  | nil => intro h _; trivial
  | cons a rest ih =>
    intro h hall
    refine ⟨?_, ih _ (fun x hx => hall x (List.mem_cons_of_mem _ hx))⟩
    unfold Around.proceedsAt
    have := hs.2.1 h (abCall self (aroundOf m e a)) rfl
    simp only [abCall, aroundOf, hall a (List.mem_cons_self)] at this
    exact this

theorem blk_aux (x y : Bool) (h : x ≠ y) : (if y = true then !x else x) = true := by
  cases x <;> cases y <;> simp_all

/-- the first around callback that vetoes -/
theorem first_veto (α : Name → Option Kind) : ∀ (l : List Name), ¬ (∀ a ∈ l, α a = none) →
    ∃ pre cb post k, l = pre ++ cb :: post ∧ (∀ a ∈ pre, α a = none) ∧ α cb = some k := by
  intro l
  induction l with
  | nil => intro h; exact absurd (fun _ hd => nomatch hd) h
  | cons x xs ih =>
    intro h
    cases hx : α x with
    | some k => exact ⟨[], x, xs, k, rfl, (fun _ hd => nomatch hd), hx⟩
    | none =>
      have : ¬ ∀ a ∈ xs, α a = none := by
        intro hall; apply h; intro a ha
        rcases List.mem_cons.mp ha with rfl | ha
        · exact hx
        · exact hall a ha
      obtain ⟨pre, cb, post, k, rfl, hpre, hk⟩ := ih this
      refine ⟨x :: pre, cb, post, k, rfl, ?_, hk⟩
      intro a ha
      rcases List.mem_cons.mp ha with rfl | ha
      · exact hx
      · exact hpre a ha

/-- the typed method fires when nothing vetoes or blocks (scripted hooks) -/
theorem fires_of_script (m : Machine) (e : Edge) (env : Env) (sc : Script) (hs : Scripted env sc) (self : TM)
    (payload : Option Nat) (h : Hist)
    (har : ∀ a ∈ e.around, sc.α a = none) (hg : ∀ g ∈ e.guards, sc.σ g = true) (hu : ∀ u ∈ e.unl, sc.σ u = false) :
    ∃ nm h', run env (methodProg (genMethod m e) self payload) h = (.done (.ok nm), h') := by
  obtain ⟨hc, _, haa, hb, ha⟩ := hs
  have hab := allProceed_of_script ⟨hc, ‹_›, haa, hb, ha⟩ m e self e.around h har
  have hAB := evalAB_proceed env self _ h hab
  have hpass : ∀ h1, AllPass env self payload (genMethod m e).checks h1 := by
    intro h1
    apply allPass_of_sigma hc
    rw [checks_eq]
    intro c hc'
    simp [conds] at hc'
    rcases hc' with ⟨g, hg', rfl⟩ | ⟨u, hu', rfl⟩
    · rw [blockedBy_checkOf]; simp [hg g hg']
    · rw [blockedBy_checkOf]; simp [hu u hu']
  rw [run_method]
  unfold evalMethod evalTail
  rw [aroundBefore_eq, hAB]
  simp only
  rw [evalChecks_pass env self payload _ _ (hpass _)]
  simp only
  obtain ⟨s1, h3, e3⟩ := evalCalls_cont_of_unit .before hb
    (genMethod m e).isAsync payload (genMethod m e).before self
    (h ++ List.map (abCall self) (List.map (aroundOf m e) e.around) ++
      List.map (condCall self payload) (genMethod m e).checks)
  rw [e3]
  simp only
  obtain ⟨s2, h4, e4⟩ := evalCalls_cont_of_unit .after ha
    (genMethod m e).isAsync payload (genMethod m e).after (construct (genMethod m e) s1) h3
  rw [e4]
  simp only
  obtain ⟨h5, e5⟩ := evalAA_cont_of_proceed haa s2
    (if (genMethod m e).hasAround then (genMethod m e).aroundAfter else []) h4
  rw [e5]
  exact ⟨s2, h5, rfl⟩

/-- **One dispatch refines one abstract step, vetoes included**, and returns. -/
theorem step_refines_veto (m : Machine) (hv : m.validate = .ok ()) (hg : m.GraphBuilt) (hp : m.PascalInj)
    (env : Env) (sc : Script) (hs : Scripted env sc)
    (d : DM) (hinv : DynInv m d) (s : Name) (hst : d.stateName = some s)
    (ev : Event) (hev : ev ∈ m.events) (pay : Option Nat) (h : Hist) :
    ∃ d' r h', runHandle env m.code (partsOf m) d ⟨toPascal ev.name, pay⟩ h = ((d', .done r), h') ∧
      DynInv m d' ∧ d'.stateName = some (specStepV m sc s ev.name).1 ∧
      (decide (r = .ok)) = (specStepV m sc s ev.name).2 := by
  obtain ⟨s0, tm, hd, hst0, hmem⟩ := hinv
  have hdd : d = ⟨some (s0, tm)⟩ := by cases d; simp_all
  subst hdd
  have : s0 = s := by simpa [DM.stateName] using hst
  subst this
  have hstep := runHandle_step m hv hg hp env s0 tm hst0 hmem ev hev pay h
  unfold specStepV
  cases hdel : m.delta s0 ev.name with
  | none =>
    simp only [hdel] at hstep
    exact ⟨_, _, _, hstep, ⟨s0, tm, rfl, hst0, hmem⟩, rfl, by simp⟩
  | some edge =>
    simp only [hdel] at hstep
    simp only
    by_cases har : ∀ a ∈ edge.around, sc.α a = none
    · by_cases hall : (∀ g ∈ edge.guards, sc.σ g = true) ∧ (∀ u ∈ edge.unl, sc.σ u = false)
      · obtain ⟨nm, h', hrun⟩ := fires_of_script m edge env sc hs tm (if ev.payload.isSome then pay else none) h har hall.1 hall.2
        rw [hrun] at hstep
        simp only at hstep
        obtain ⟨he, hnst, htm⟩ := hstep
        have hb : ((edge.around.all fun a => (sc.α a).isNone) && (edge.guards.all fun g => sc.σ g) &&
            (edge.unl.all fun u => !sc.σ u)) = true := by
          simp only [Bool.and_eq_true, List.all_eq_true, Bool.not_eq_true', Option.isNone_iff_eq_none]
          exact ⟨⟨har, hall.1⟩, hall.2⟩
        rw [hb]
        exact ⟨_, _, _, he, ⟨edge.target, nm, rfl, hnst, htm⟩, rfl, by simp⟩
      · have hna : ¬ (∀ d ∈ conds edge, sc.σ d.1 = d.2) := fun h' => hall ((conds_agree_iff edge sc.σ).mp h')
        obtain ⟨pre, c, post, hsplit, hpre, hblk⟩ := first_blocker sc.σ (conds edge) hna
        have hab := allProceed_of_script hs m edge tm edge.around h har
        have hrun := first_block_general m edge env tm (if ev.payload.isSome then pay else none) h pre c post hsplit hab
          (allPass_of_sigma hs.1 tm _ _ _ (by
            intro x hx
            obtain ⟨y, hy, rfl⟩ := List.mem_map.mp hx
            rw [blockedBy_checkOf]
            have := hpre y hy
            cases hy2 : y.2 <;> simp_all))
          (by
            unfold Check.blocksAt
            have := hs.1 (h ++ (edge.around.map (aroundOf m edge)).map (abCall tm) ++
              (pre.map (checkOf m edge)).map (condCall tm (if ev.payload.isSome then pay else none)))
              (condCall tm (if ev.payload.isSome then pay else none) (checkOf m edge c)) rfl
            rw [this]
            simp only [condCall, checkOf]
            exact ⟨sc.σ c.1, rfl, blk_aux _ _ hblk⟩)
        rw [hrun] at hstep
        simp only at hstep
        obtain ⟨he, _⟩ := hstep
        have hb : ((edge.around.all fun a => (sc.α a).isNone) && (edge.guards.all fun g => sc.σ g) &&
            (edge.unl.all fun u => !sc.σ u)) = false := by
          rw [Bool.eq_false_iff]
          intro hb
          simp only [Bool.and_eq_true, List.all_eq_true, Bool.not_eq_true', Option.isNone_iff_eq_none] at hb
          exact hall ⟨hb.1.2, hb.2⟩
        rw [hb]
        exact ⟨_, _, _, he, ⟨s0, tm, rfl, hst0, hmem⟩, rfl, by simp⟩
    · obtain ⟨pre, cb, post, k, hsplit, hpre, hk⟩ := first_veto sc.α edge.around har
      have hab := allProceed_of_script hs m edge tm pre h hpre
      have habort : (env (h ++ (pre.map (aroundOf m edge)).map (abCall tm)) (abCall tm (aroundOf m edge cb))).val = .abort k := by
        have := hs.2.1 (h ++ (pre.map (aroundOf m edge)).map (abCall tm)) (abCall tm (aroundOf m edge cb)) rfl
        simp only [abCall, aroundOf, hk] at this
        exact this
      have hrun := before_abort m edge env tm (if ev.payload.isSome then pay else none) h pre cb post k hsplit hab habort
      rw [hrun] at hstep
      simp only at hstep
      obtain ⟨he, _⟩ := hstep
      have hb : ((edge.around.all fun a => (sc.α a).isNone) && (edge.guards.all fun g => sc.σ g) &&
          (edge.unl.all fun u => !sc.σ u)) = false := by
        rw [Bool.eq_false_iff]
        intro hb
        simp only [Bool.and_eq_true, List.all_eq_true, Bool.not_eq_true', Option.isNone_iff_eq_none] at hb
        exact har hb.1.1
      rw [hb]
      exact ⟨_, _, _, he, ⟨s0, tm, rfl, hst0, hmem⟩, rfl, by simp⟩

def specRunV (m : Machine) : Name → List (Script × Name) → Name × List Bool
  | s, [] => (s, [])
  | s, (sc, e) :: rest =>
    let (s', b) := specStepV m sc s e
    let (sf, bs) := specRunV m s' rest
    (sf, b :: bs)

/-- **Refinement, vetoes included.** Every finite sequence of declared events, each dispatched under its
    own scripted hook environment (conditions by truth assignment, each around callback proceeding or
    vetoing with any error kind, callbacks free to write state data): every dispatch returns, the accepted
    events are the abstract machine's, and the wrapper ends in — and `current_state()` names — the abstract
    machine's final state. -/
theorem refines_spec_veto (m : Machine) (hv : m.validate = .ok ()) (hg : m.GraphBuilt) (hp : m.PascalInj) :
    ∀ (xs : List ((Env × Script) × Event × Option Nat)) (d : DM) (s : Name) (h : Hist),
      (∀ x ∈ xs, Scripted x.1.1 x.1.2 ∧ x.2.1 ∈ m.events) → DynInv m d → d.stateName = some s →
      ∃ df rs, runEventsE m d (xs.map fun x => (x.1.1, x.2.1, x.2.2)) h = some (df, rs) ∧
        rs.map (fun r => decide (r = .ok)) = (specRunV m s (xs.map fun x => (x.1.2, x.2.1.name))).2 ∧
        df.stateName = some (specRunV m s (xs.map fun x => (x.1.2, x.2.1.name))).1 ∧
        currentState (partsOf m) df = some (specRunV m s (xs.map fun x => (x.1.2, x.2.1.name))).1 ∧
        DynInv m df := by
  intro xs
  induction xs with
  | nil =>
    intro d s h _ hinv hs
    refine ⟨d, [], rfl, rfl, hs, ?_, hinv⟩
    obtain ⟨s', tm, hd, hst, hmem⟩ := hinv
    have : s' = s := by simpa [DM.stateName, hd] using hs
    subst this
    exact currentState_parts m d s' tm hd hmem
  | cons x rest ih =>
    intro d s h hall hinv hs
    obtain ⟨⟨env, sc⟩, ev, pay⟩ := x
    obtain ⟨hsc, hev⟩ := hall _ (List.mem_cons_self)
    obtain ⟨d', r, h', hrun, hinv', hs', hr⟩ := step_refines_veto m hv hg hp env sc hsc d hinv s hs ev hev pay h
    obtain ⟨df, rs, hrest, hrs, hfs, hcs, hinvf⟩ :=
      ih d' _ h' (fun y hy => hall y (List.mem_cons_of_mem _ hy)) hinv' hs'
    refine ⟨df, r :: rs, ?_, ?_, ?_, ?_, hinvf⟩
    · simp only [List.map_cons, runEventsE, hrun, hrest, Option.map_some]
    · simp only [List.map_cons, specRunV, hr, hrs]
    · simpa only [List.map_cons, specRunV] using hfs
    · simpa only [List.map_cons, specRunV] using hcs

/-- tame hooks are the scripts without vetoes -/
theorem scripted_of_tame (env : Env) (σ : Name → Bool) (h : Tame (env, σ)) : Scripted env ⟨σ, fun _ => none⟩ :=
  ⟨h.1, fun hh c hk => (h.2 hh c).1 hk, fun hh c hk => (h.2 hh c).2.1 hk, fun hh c hk => (h.2 hh c).2.2.1 hk,
   fun hh c hk => (h.2 hh c).2.2.2 hk⟩

end SMV.Refine
