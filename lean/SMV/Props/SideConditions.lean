import SMV.Props.C14
import SMV.Lemmas.Slots
import SMV.Lemmas.Handle
/-
  The side conditions N1 (`PascalInj`) and N2 (`FieldsNodup`) exclude only definitions rustc refuses.

  Several property theorems assume that the PascalCase images of the event names tell the events apart (N1)
  and that the derived storage field names are pairwise distinct (N2). Where one of them fails, the emitted
  code has two enum variants, respectively two struct fields, of the same name, and `Static.accepted` — whose
  rules are real rustc rejections (E0428, E0124) — is false: such a definition does not compile (known findings
  F5), so no machine exists about which the theorems would be silent.
-/
namespace SMV.SideConditions
open SMV

theorem inj_of_nodup_map {α β : Type} (f : α → β) : ∀ (l : List α), (l.map f).Nodup →
    ∀ a ∈ l, ∀ b ∈ l, f a = f b → a = b := by
  intro l
  induction l with
  | nil => intro _ a ha; cases ha
  | cons x xs ih =>
    intro hnd a ha b hb hf
    simp only [List.map_cons, List.nodup_cons, List.mem_map, not_exists, not_and] at hnd
    rcases List.mem_cons.mp ha with rfl | ha' <;> rcases List.mem_cons.mp hb with rfl | hb'
    · rfl
    · exact absurd hf.symm (hnd.1 b hb')
    · exact absurd hf (hnd.1 a ha')
    · exact ih hnd.2 a ha' b hb' hf

/-- N2 fails ⇒ two fields of the machine struct have the same name ⇒ E0124 -/
theorem not_fieldsNodup_rejected (m : Machine) (rest : Code) (h : ¬ m.FieldsNodup) :
    Static.accepted (genTypestate m ++ rest) = false := by
  unfold Static.accepted
  have : ¬ (Static.structFields (genTypestate m ++ rest)).Nodup := by
    intro hnd
    apply h
    unfold Machine.FieldsNodup
    have hsub : ((m.storage.map fun s => (s.field, s.ty)).map (·.1)).Sublist (Static.structFields (genTypestate m ++ rest)) := by
      have hshape : genTypestate m ++ rest =
          genMarkers m ++ (genMachineStruct m :: (genStateImpls m ++ genSubstateImpls m ++ rest)) := by
        simp [genTypestate]
      rw [hshape]
      unfold Static.structFields
      rw [List.flatMap_append, List.flatMap_cons]
      apply List.Sublist.trans _ (List.sublist_append_right _ _)
      apply List.Sublist.trans _ (List.sublist_append_left _ _)
      simp only [genMachineStruct, Static.itemStructFields]
      exact List.sublist_append_right _ _
    have := hsub.nodup hnd
    simpa [List.map_map, Function.comp_def] using this
  simp [this]

/-- N1 fails ⇒ two variants of the event enum have the same name ⇒ E0428 (whenever the dynamic API is emitted) -/
theorem not_pascalInj_rejected (m : Machine) (h : ¬ m.PascalInj) :
    Static.accepted (genTypestate m ++ genDynamic m) = false := by
  unfold Static.accepted
  have : ¬ (Static.eventVariants (genTypestate m ++ genDynamic m)).Nodup := by
    intro hnd
    apply h
    intro ev hev ev' hev' hp
    have hsub : (m.events.map fun ev => toPascal ev.name).Sublist (Static.eventVariants (genTypestate m ++ genDynamic m)) := by
      unfold Static.eventVariants
      rw [List.flatMap_append, genDynamic_eq]
      apply List.Sublist.trans _ (List.sublist_append_right _ _)
      simp only [List.cons_append, List.nil_append, List.flatMap_cons, genEventEnum, List.map_map, Static.itemEventVariants]
      exact List.sublist_append_left _ _
    exact inj_of_nodup_map (fun ev : Event => toPascal ev.name) m.events (hsub.nodup hnd) ev hev ev' hev' hp
  simp [this]

end SMV.SideConditions
