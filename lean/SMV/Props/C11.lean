import SMV.Lemmas.Slots
/-
  C11 — Dynamic data accessors and setters are gated by the current state.
-/
namespace SMV.C11
open SMV

/-- the accessors generated for the data of a leaf state `X` (not also a superstate name) -/
theorem leaf_acc (m : Machine) (spec : StorageSpec) (hleaf : spec.stateName ∈ m.states)
    (hns : m.hierarchy.isSuperstate spec.stateName = false) :
    genDynAcc m spec = some
      { readName := toSnake spec.stateName ++ Name.lit "_data",
        writeName := toSnake spec.stateName ++ Name.lit "_data_mut",
        setName := Name.lit "set_" ++ toSnake spec.stateName ++ Name.lit "_data",
        ty := spec.ty, field := spec.field, stateStr := spec.stateName, reachable := [spec.stateName] } := by
  unfold genDynAcc
  have hexp : m.hierarchy.expandState spec.stateName m.states = [spec.stateName] := by
    unfold Hierarchy.expandState
    unfold Hierarchy.isSuperstate at hns
    cases hl : alookup spec.stateName m.hierarchy.lookup with
    | some d => simp [hl] at hns
    | none => simp [hleaf]
  simp [hexp]


/-- **Readers**: a value iff the machine is in `X` (and then the machine's own slot). -/
theorem read_gated (a : DynAcc) (X : Name) (ha : a.reachable = [X]) (tag : Name) (tm : TM) :
    dynRead a ⟨some (tag, tm)⟩ = if tag = X then tm.slot a.field else none := by
  simp only [dynRead, ha]
  by_cases h : tag = X <;> simp [h]

/-- **Setter**: stores iff in `X`; otherwise changes nothing and reports expected / actual / operation. -/
theorem set_gated (a : DynAcc) (X : Name) (ha : a.reachable = [X]) (p : DynParts) (tag : Name) (tm : TM) (v : Nat) :
    dynSet p a ⟨some (tag, tm)⟩ v =
      if tag = X then (⟨some (tag, { tm with slots := setSlots a.field v tm.slots })⟩, none)
      else (⟨some (tag, tm)⟩, some (.wrongState (.name a.stateStr) (.name (p.stateName tag)) (.name a.setName))) := by
  simp only [dynSet, ha]
  by_cases h : tag = X <;> simp [h]

/-- **Read after set** (in `X`, the slot being one of the machine's storage fields): the value set. -/
theorem read_after_set (a : DynAcc) (X : Name) (ha : a.reachable = [X]) (p : DynParts) (tm : TM) (v : Nat) (hfield : (alookup a.field tm.slots).isSome) :
    dynRead a (dynSet p a ⟨some (X, tm)⟩ v).1 = some v := by
  rw [set_gated a X ha]
  simp only [↓reduceIte]
  rw [read_gated a X ha]
  simp only [↓reduceIte, TM.slot, alookup_setSlots_same a.field v tm.slots hfield]

/-- the setter does not touch any other slot -/
theorem set_other_slots (a : DynAcc) (X : Name) (ha : a.reachable = [X]) (p : DynParts) (tm : TM) (v : Nat) (f : Name) (hne : f ≠ a.field) :
    match (dynSet p a ⟨some (X, tm)⟩ v).1.inner with
    | some (_, tm') => tm'.slot f = tm.slot f
    | none => False := by
  rw [set_gated a X ha]
  simp only [↓reduceIte, TM.slot, alookup_setSlots_other a.field v f hne]

/-- **Write through the mutable accessor, then read**: what was written, while in `X` with data present. -/
theorem read_after_write (a : DynAcc) (X : Name) (ha : a.reachable = [X]) (tm : TM) (v : Nat) (w : Nat) (hpresent : tm.slot a.field = some w) :
    dynRead a (dynWrite a ⟨some (X, tm)⟩ v) = some v := by
  simp only [dynWrite, ha, List.contains_cons, beq_self_eq_true, List.contains_nil, Bool.or_false, ↓reduceIte]
  rw [read_gated a X ha]
  simp only [↓reduceIte, TM.write, TM.slot] at hpresent ⊢
  generalize tm.slots = l at hpresent ⊢
  induction l with
  | nil => simp [alookup] at hpresent
  | cons x xs ih =>
    obtain ⟨g, y⟩ := x
    simp only [writeSlots]
    by_cases hg : g = a.field
    · simp only [hg, ↓reduceIte, alookup] at hpresent ⊢
      cases y <;> simp_all
    · simp only [hg, ↓reduceIte, alookup] at hpresent ⊢
      exact ih hpresent

/-- the dynamic reader and the typed accessor after `into_x()` agree -/
theorem agrees_with_typed (a : DynAcc) (X : Name) (ha : a.reachable = [X]) (tm : TM) : dynRead a ⟨some (X, tm)⟩ = typedData tm a.field := by
  rw [read_gated a X ha]; simp [typedData]

end SMV.C11
