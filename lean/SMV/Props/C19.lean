import SMV.Props.C01
import SMV.Ops
/-
  C19 — Abandoned dispatch is fail-stop; completed dispatch never poisons.
-/
namespace SMV.C19
open SMV

/-- **Completed dispatch never poisons.** Every `handle` that returns (`Ok` or `Err`) leaves the wrapper
    holding a machine in a declared leaf state (so every later operation is available). -/
theorem returning_handle_usable (m : Machine) (hv : m.validate = .ok ()) (hg : m.GraphBuilt) (hp : m.PascalInj)
    (env : Env) (d : DM) (hinv : DynInv m d) (ev : Event) (hev : ev ∈ m.events) (pay : Option Nat) (h : Hist)
    (d' : DM) (r : HandleRes) (h' : Hist)
    (hrun : runHandle env m.code (partsOf m) d ⟨toPascal ev.name, pay⟩ h = ((d', .done r), h')) :
    DynInv m d' ∧ ∃ s, currentState (partsOf m) d' = some s ∧ s ∈ m.states := by
  obtain ⟨_, _, _, hstep⟩ := C01.handle_step m hv hg hp env d hinv ev hev pay h
  obtain ⟨hinv', _⟩ := hstep d' r h' hrun
  obtain ⟨s, tm, hd, _, hs⟩ := hinv'
  exact ⟨⟨s, tm, hd, ‹_›, hs⟩, s, currentState_parts m d' s tm hd hs, hs⟩

/-- **Abandonment poisons.** A `handle` that panics — for any emitted code, any wrapper, any event —
    leaves `inner = None`. -/
theorem panic_poisons (env : Env) (c : Code) (p : DynParts) (d : DM) (ev : EventVal) (h : Hist)
    (d' : DM) (pi : PanicInfo) (h' : Hist)
    (hrun : runHandle env c p d ev h = ((d', .panicked pi), h')) : d'.inner = none := by
  unfold runHandle at hrun
  split at hrun
  · rename_i hd
    simp at hrun
    rw [← hrun.1.1]; exact hd
  · split at hrun <;> simp at hrun
    all_goals (try rw [← hrun.1.1])

/-- the same for a dispatch abandoned at any hook index (the async future dropped while that hook
    is pending), whether it ends as `abandoned` or panicked before that point -/
theorem abandon_poisons (env : Env) (n : Nat) (c : Code) (p : DynParts) (d : DM) (ev : EventVal) (h : Hist)
    (d' : DM) (o : Out HandleRes) (h' : Hist)
    (hrun : runHandleUpTo env n c p d ev h = ((d', o), h'))
    (ho : o = .abandoned ∨ ∃ pi, o = .panicked pi) : d'.inner = none := by
  unfold runHandleUpTo at hrun
  split at hrun
  · rename_i hd
    simp at hrun
    rw [← hrun.1.1]; exact hd
  · split at hrun <;> simp at hrun
    · rcases ho with rfl | ⟨pi, rfl⟩ <;> simp at hrun
    · rw [← hrun.1.1]
    · rw [← hrun.1.1]

/-- **Fail-stop.** On a poisoned wrapper every public operation reports unavailability and nothing else:
    `current_state()` panics, `handle` panics without running any hook, readers return `None`, the
    mutable accessor yields nothing to write through, setters return `WrongState` with actual
    `"<extracted>"`, `into_<s>()` hands the (still poisoned) wrapper back and yields no typed machine. -/
theorem poisoned_ops (env : Env) (c : Code) (p : DynParts) (a : DynAcc) (ev : EventVal) (h : Hist) (v : Nat)
    (variant : Name) :
    currentState p ⟨none⟩ = none ∧
    runHandle env c p ⟨none⟩ ev h = ((⟨none⟩, .panicked .invalidState), h) ∧
    dynRead a ⟨none⟩ = none ∧
    dynWrite a ⟨none⟩ v = ⟨none⟩ ∧
    dynSet p a ⟨none⟩ v = (⟨none⟩, some (.wrongState (.name a.stateStr) .extracted (.name a.setName))) ∧
    dynExtract variant ⟨none⟩ = .error ⟨none⟩ :=
  ⟨rfl, rfl, rfl, rfl, rfl, rfl⟩

/-- a future that is created and dropped without being polled has not touched the wrapper -/
theorem never_polled_intact (env : Env) (c : Code) (p : DynParts) (d : DM) (v : Name) (pay : Option Nat) :
    (step env c (some p) (.dyn d) (.handleNoPoll v pay)).holder = .dyn d ∧
    (step env c (some p) (.dyn d) (.handleNoPoll v pay)).trace = [] ∧
    (step env c (some p) (.dyn d) (.handleNoPoll v pay)).drops = payDrop pay :=
  ⟨rfl, rfl, rfl⟩

/-- context and payload of an abandoned dispatch are each dropped exactly once -/
theorem abandoned_drops (env : Env) (c : Code) (p : DynParts) (tag : Name) (tm : TM) (v : Name) (payload : Nat) (n : Nat)
    (habn : (runHandleUpTo env n c p ⟨some (tag, tm)⟩ ⟨v, some payload⟩ []).1.2 = .abandoned) :
    (step env c (some p) (.dyn ⟨some (tag, tm)⟩) (.handleAbandon v (some payload) n)).drops =
      [.payload payload, .ctx tm.ctx] := by
  simp only [step]
  rcases hr : runHandleUpTo env n c p ⟨some (tag, tm)⟩ ⟨v, some payload⟩ [] with ⟨⟨d', o⟩, t⟩
  rw [hr] at habn
  simp only at habn
  subst habn
  simp [payDrop]

end SMV.C19
