import SMV.Props.Refine
import SMV.Props.C15
/-
  The asynchronous machine refines the same abstract machine, under every suspension schedule.

  `runHandleAsync` is `handle` of an `async: true` machine driven to completion by an executor that finds
  the i-th awaited hook `Pending` `sched[i]` times (any schedule). By C15 it equals the dispatch of the
  synchronous expansion, which refines the abstract machine (`Refine.refines_spec`); the abstract machine of
  the synchronous expansion is that of the definition itself.
-/
namespace SMV.RefineAsync
open SMV C01 C03 C15 Refine

/-- `handle(..).await` to completion under a suspension schedule -/
def runHandleAsync (env : Env) (sched : List Nat) (c : Code) (p : DynParts) (d : DM) (ev : EventVal) (h : Hist) :
    (DM × Out HandleRes) × Hist :=
  match d.inner with
  | none => ((d, .panicked .invalidState), h)
  | some (tag, m) =>
    match (runAsync env sched (handleProg c p tag m ev) h 0).1 with
    | (.done (d', r), h') => ((d', .done r), h')
    | (.panicked pi, h') => ((⟨none⟩, .panicked pi), h')
    | (.abandoned, h') => ((⟨none⟩, .abandoned), h')

/-- one asynchronous dispatch is the synchronous expansion's dispatch (C15), whatever the schedule -/
theorem runHandleAsync_eq (m : Machine) (hv : m.validate = .ok ()) (hv' : (syncTwin m).validate = .ok ())
    (hg : m.GraphBuilt) (hp : m.PascalInj) (env : Env) (sched : List Nat)
    (d : DM) (hinv : DynInv m d) (ev : Event) (hev : ev ∈ m.events) (pay : Option Nat) (h : Hist) :
    runHandleAsync env sched m.code (partsOf m) d ⟨toPascal ev.name, pay⟩ h =
      runHandle env (syncTwin m).code (partsOf (syncTwin m)) d ⟨toPascal ev.name, pay⟩ h := by
  obtain ⟨s, tm, hd, _, hs⟩ := hinv
  unfold runHandleAsync runHandle
  rw [hd]
  simp only
  rw [async_handle_eq_sync m hv hv' hg hp env s hs ev hev tm pay h sched 0]
  generalize run env (handleProg (syncTwin m).code (partsOf (syncTwin m)) s tm ⟨toPascal ev.name, pay⟩) h = r
  rcases r with ⟨o, h'⟩
  cases o with
  | done x => obtain ⟨d', r⟩ := x; rfl
  | panicked pi => rfl
  | abandoned => rfl

def runEventsAsync (m : Machine) : DM → List ((Env × List Nat) × Event × Option Nat) → Hist → Option (DM × List HandleRes)
  | d, [], _ => some (d, [])
  | d, ((env, sched), ev, pay) :: rest, h =>
    match runHandleAsync env sched m.code (partsOf m) d ⟨toPascal ev.name, pay⟩ h with
    | ((d', .done r), h') => (runEventsAsync m d' rest h').map fun (df, rs) => (df, r :: rs)
    | _ => none

theorem specStep_syncTwin (m : Machine) (σ : Name → Bool) (s e : Name) :
    specStep (syncTwin m) σ s e = specStep m σ s e := rfl

theorem specRun_syncTwin (m : Machine) : ∀ (xs : List ((Name → Bool) × Name)) (s : Name),
    specRun (syncTwin m) s xs = specRun m s xs := by
  intro xs
  induction xs with
  | nil => intro s; rfl
  | cons x rest ih =>
    intro s
    obtain ⟨σ, e⟩ := x
    simp only [specRun, specStep_syncTwin, ih]

theorem dynInv_syncTwin (m : Machine) (d : DM) : DynInv (syncTwin m) d ↔ DynInv m d := Iff.rfl

/-- **Refinement, asynchronous machines.** Every finite sequence of declared events dispatched to an
    `async: true` machine, each under its own tame hook environment and its own suspension schedule: every
    dispatch completes, the accepted events are the abstract machine's, the wrapper ends in its final state. -/
theorem async_refines_spec (m : Machine) (hv : m.validate = .ok ()) (hv' : (syncTwin m).validate = .ok ())
    (hg : m.GraphBuilt) (hp : m.PascalInj) :
    ∀ (xs : List (((Env × (Name → Bool)) × List Nat) × Event × Option Nat)) (d : DM) (s : Name) (h : Hist),
      (∀ x ∈ xs, Tame x.1.1 ∧ x.2.1 ∈ m.events) → DynInv m d → d.stateName = some s →
      ∃ df rs, runEventsAsync m d (xs.map fun x => ((x.1.1.1, x.1.2), x.2.1, x.2.2)) h = some (df, rs) ∧
        rs.map (fun r => decide (r = .ok)) = (specRun m s (xs.map fun x => (x.1.1.2, x.2.1.name))).2 ∧
        df.stateName = some (specRun m s (xs.map fun x => (x.1.1.2, x.2.1.name))).1 ∧
        DynInv m df := by
  intro xs
  induction xs with
  | nil => intro d s h _ hinv hs; exact ⟨d, [], rfl, rfl, hs, hinv⟩
  | cons x rest ih =>
    intro d s h hall hinv hs
    obtain ⟨⟨⟨env, σ⟩, sched⟩, ev, pay⟩ := x
    obtain ⟨⟨hc, hperm⟩, hev⟩ := hall _ (List.mem_cons_self)
    have hg' : (syncTwin m).GraphBuilt := hg
    have hp' : (syncTwin m).PascalInj := hp
    obtain ⟨d', r, h', hrun, hinv', hs', hr⟩ :=
      step_refines (syncTwin m) hv' hg' hp' env σ hc hperm d ((dynInv_syncTwin m d).mpr hinv) s hs ev hev pay h
    rw [specStep_syncTwin] at hs' hr
    have hra := runHandleAsync_eq m hv hv' hg hp env sched d hinv ev hev pay h
    obtain ⟨df, rs, hrest, hrs, hfs, hinvf⟩ :=
      ih d' _ h' (fun y hy => hall y (List.mem_cons_of_mem _ hy)) ((dynInv_syncTwin m d').mp hinv') hs'
    refine ⟨df, r :: rs, ?_, ?_, ?_, hinvf⟩
    · simp only [List.map_cons, runEventsAsync, hra, hrun, hrest, Option.map_some]
    · simp only [List.map_cons, specRun, hr, hrs]
    · simpa only [List.map_cons, specRun] using hfs

end SMV.RefineAsync
