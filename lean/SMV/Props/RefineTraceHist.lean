import SMV.Props.RefineTrace
/-
  C04 along histories. The hooks a whole history of dispatches calls, by kind and name and in order, are the
  concatenation of what the abstract machine says each dispatch calls (`specCalls`): nothing without an edge;
  the documented list when the event fires; the around `Before` stages and the conditions up to and including
  the first blocker when it is refused.
-/
namespace SMV.Refine
open SMV C01 C03 C04

abbrev KN := HK × Name
def kn (c : HookCall) : KN := (c.kind, c.name)

/-- what the abstract machine says one dispatch calls -/
def specCalls (m : Machine) (σ : Name → Bool) (s e : Name) : List KN :=
  match m.delta s e with
  | none => []
  | some edge =>
    if (edge.guards.all fun g => σ g) && (edge.unl.all fun u => !σ u) then
      edge.around.map (fun cb => (HK.aroundBefore, cb)) ++ (edge.guards ++ edge.unl).map (fun g => (HK.cond, g)) ++
        edge.before.map (fun cb => (HK.before, cb)) ++ edge.after.map (fun cb => (HK.after, cb)) ++
        edge.around.map (fun cb => (HK.aroundAfter, cb))
    else
      edge.around.map (fun cb => (HK.aroundBefore, cb)) ++
        (((conds edge).takeWhile fun c => σ c.1 == c.2) ++
          ((conds edge).dropWhile fun c => σ c.1 == c.2).take 1).map (fun c => (HK.cond, c.1))

theorem takeWhile_split (σ : Name → Bool) : ∀ (pre : List (Name × Bool)) (c : Name × Bool) (post : List (Name × Bool)),
    (∀ d ∈ pre, σ d.1 = d.2) → σ c.1 ≠ c.2 →
    (pre ++ c :: post).takeWhile (fun c => σ c.1 == c.2) = pre ∧
    ((pre ++ c :: post).dropWhile (fun c => σ c.1 == c.2)).take 1 = [c] := by
  intro pre
  induction pre with
  | nil =>
    intro c post _ hc
    have : (σ c.1 == c.2) = false := by simpa using hc
    simp [List.takeWhile, List.dropWhile, this]
  | cons x xs ih =>
    intro c post hpre hc
    have hx : (σ x.1 == x.2) = true := by simpa using hpre x List.mem_cons_self
    obtain ⟨h1, h2⟩ := ih c post (fun d hd => hpre d (List.mem_cons_of_mem _ hd)) hc
    simp only [List.cons_append, List.takeWhile, List.dropWhile, hx]
    exact ⟨by rw [h1], h2⟩

theorem sigs_kn (t : List HookCall) (l : List Sig) (h : t.map HookCall.sig = l) :
    t.map kn = l.map fun s => (s.kind, s.name) := by
  rw [← h, List.map_map]
  rfl

/-- **One dispatch calls what the abstract machine says, by kind and name, in order.** -/
theorem step_calls (m : Machine) (hv : m.validate = .ok ()) (hg : m.GraphBuilt) (hp : m.PascalInj)
    (env : Env) (σ : Name → Bool) (hc : CondsAnswer env σ) (hperm : Permissive env)
    (s : Name) (tm : TM) (hst : tm.state = s) (hs : s ∈ m.states)
    (ev : Event) (hev : ev ∈ m.events) (pay : Option Nat) (h : Hist) :
    ∃ t, (runHandle env m.code (partsOf m) ⟨some (s, tm)⟩ ⟨toPascal ev.name, pay⟩ h).2 = h ++ t ∧
      t.map kn = specCalls m σ s ev.name := by
  have ht := step_trace m hv hg hp env σ hc hperm s tm hst hs ev hev pay h
  simp only at ht
  unfold specCalls
  cases hdel : m.delta s ev.name with
  | none =>
    rw [hdel] at ht
    exact ⟨[], by simpa using ht, rfl⟩
  | some edge =>
    rw [hdel] at ht
    simp only [specStep, hdel] at ht
    simp only
    by_cases hb : ((edge.guards.all fun g => σ g) && (edge.unl.all fun u => !σ u)) = true
    · simp only [hb, ↓reduceIte] at ht ⊢
      obtain ⟨t, h1, h2⟩ := ht
      refine ⟨t, h1, ?_⟩
      rw [sigs_kn t _ h2]
      simp [expectedSigs, Function.comp_def]
    · have hb' : ((edge.guards.all fun g => σ g) && (edge.unl.all fun u => !σ u)) = false := by
        simpa using hb
      simp only [hb', Bool.false_eq_true, ↓reduceIte] at ht ⊢
      obtain ⟨pre, c, post, hsplit, hpre, hblk, hout⟩ := ht
      obtain ⟨htw, hdw⟩ := takeWhile_split σ pre c post hpre hblk
      refine ⟨_, hout.trans (by rw [List.append_assoc]), ?_⟩
      rw [hsplit, htw, hdw]
      simp [kn, abCall, condCall, aroundOf, checkOf, Function.comp_def]

/-- a history of dispatches, keeping the hook trace -/
def runEventsH (m : Machine) : DM → List (Env × Event × Option Nat) → Hist → Option (DM × Hist)
  | d, [], h => some (d, h)
  | d, (env, ev, pay) :: rest, h =>
    match runHandle env m.code (partsOf m) d ⟨toPascal ev.name, pay⟩ h with
    | ((d', .done _), h') => runEventsH m d' rest h'
    | _ => none

def specCallsRun (m : Machine) : Name → List ((Name → Bool) × Name) → List KN
  | _, [] => []
  | s, (σ, e) :: rest => specCalls m σ s e ++ specCallsRun m (specStep m σ s e).1 rest

/-- **The hooks a history calls** (tame hooks): by kind and name and in order, exactly the abstract machine's
    list — for every finite sequence of declared events, every sequence of environments and every initial
    history. -/
theorem calls_refine (m : Machine) (hv : m.validate = .ok ()) (hg : m.GraphBuilt) (hp : m.PascalInj) :
    ∀ (xs : List ((Env × (Name → Bool)) × Event × Option Nat)) (d : DM) (s : Name) (h : Hist),
      (∀ x ∈ xs, Tame x.1 ∧ x.2.1 ∈ m.events) → DynInv m d → d.stateName = some s →
      ∃ df t, runEventsH m d (xs.map fun x => (x.1.1, x.2.1, x.2.2)) h = some (df, h ++ t) ∧
        t.map kn = specCallsRun m s (xs.map fun x => (x.1.2, x.2.1.name)) := by
  intro xs
  induction xs with
  | nil => intro d s h _ _ _; exact ⟨d, [], by simp [runEventsH], rfl⟩
  | cons x rest ih =>
    intro d s h hall hinv hs
    obtain ⟨⟨env, σ⟩, ev, pay⟩ := x
    obtain ⟨⟨hc, hperm⟩, hev⟩ := hall _ (List.mem_cons_self)
    obtain ⟨d', r, h', hrun, hinv', hs', _⟩ := step_refines m hv hg hp env σ hc hperm d hinv s hs ev hev pay h
    obtain ⟨s0, tm, hd, hst0, hmem⟩ := hinv
    have hdd : d = ⟨some (s0, tm)⟩ := by cases d; simp_all
    subst hdd
    have : s0 = s := by simpa [DM.stateName] using hs
    subst this
    obtain ⟨t1, ht1, hk1⟩ := step_calls m hv hg hp env σ hc hperm s0 tm hst0 hmem ev hev pay h
    rw [hrun] at ht1
    simp only at ht1
    subst ht1
    obtain ⟨df, t2, hrest, hk2⟩ := ih d' _ (h ++ t1) (fun y hy => hall y (List.mem_cons_of_mem _ hy)) hinv' hs'
    refine ⟨df, t1 ++ t2, ?_, ?_⟩
    · simp only [List.map_cons, runEventsH, hrun, hrest, List.append_assoc]
    · simp only [List.map_cons, List.map_append, specCallsRun, hk1, hk2]

end SMV.Refine
