import SMV.Lemmas.Envs
/-
  C04 — The success path runs every hook exactly once in the documented order.
-/
namespace SMV.C04
open SMV

/-- what the caller's payload looks like to the hooks of an edge -/
def seenPayload (e : Edge) (payload : Option Nat) : Option Nat := if e.payload.isSome then payload else none

/-- The documented order, as the list of hook invocations with what each is handed:
    around Before; guards then unless-conditions (each given `&ctx`); before-callbacks on the
    source-typed machine; after-callbacks on the target-typed machine; around AfterSuccess.
    (Edges carry event-level hooks before transition-level ones.) -/
def expectedSigs (e : Edge) (self : TM) (payload : Option Nat) : List Sig :=
  (e.around.map fun cb => ⟨.aroundBefore, cb, self.state, self.ctx, none, none⟩) ++
  ((e.guards ++ e.unl).map fun g => ⟨.cond, g, self.state, self.ctx, some self.ctx, seenPayload e payload⟩) ++
  (e.before.map fun cb => ⟨.before, cb, self.state, self.ctx, none, seenPayload e payload⟩) ++
  (e.after.map fun cb => ⟨.after, cb, e.target, self.ctx, none, seenPayload e payload⟩) ++
  (e.around.map fun cb => ⟨.aroundAfter, cb, e.target, self.ctx, none, none⟩)

theorem callSigs_gen (kind : HK) (a : Bool) (recv : TM) (payload : Option Nat) (e : Edge) (l : List Name) :
    callSigs kind a recv payload (l.map fun cb => ⟨cb, e.payload.isSome, a⟩) =
      l.map fun cb => ⟨kind, cb, recv.state, recv.ctx, none, seenPayload e payload⟩ := by
  unfold callSigs
  rw [List.filter_eq_self.mpr]
  · simp [cbCall, HookCall.sig, seenPayload, Function.comp_def]
  · intro c hc
    obtain ⟨cb, _, rfl⟩ := List.mem_map.mp hc
    cases a <;> simp

/-- **C04.** Whenever the generated method of an edge returns `Ok`, for any hook environment:
    the hooks invoked by this call are exactly the documented list, each once, in the
    documented order, each seeing the right machine type, the machine's own context and the
    caller's payload; the result is typed in the edge's target and carries the same context. -/
theorem success_trace (m : Machine) (e : Edge) (env : Env) (self : TM) (payload : Option Nat) (h h' : Hist)
    (nm : TM) (hrun : run env (methodProg (genMethod m e) self payload) h = (.done (.ok nm), h')) :
    ∃ t, h' = h ++ t ∧ t.map HookCall.sig = expectedSigs e self payload ∧
      nm.state = e.target ∧ nm.ctx = self.ctx := by
  rw [run_method] at hrun
  obtain ⟨h1, h2, self', h3, h4, e1, e2, e3, e4, e5⟩ := evalMethod_ok_inv hrun
  have hAB := evalAB_proceed env self _ h (evalAB_cont env self _ _ _ e1)
  rw [e1] at hAB
  have hC := evalChecks_pass env self payload _ _ (evalChecks_cont env self payload _ _ _ e2)
  rw [e2] at hC
  cases hAB
  cases hC
  obtain ⟨tB, tA, tAA, ht, _, _, _, _, _, hok⟩ := evalTail_shape env (genMethod m e) self payload
    (h ++ List.map (abCall self) (if (genMethod m e).hasAround then (genMethod m e).aroundBefore else []) ++
      List.map (condCall self payload) (genMethod m e).checks)
  have htail : evalTail env (genMethod m e) self payload
      (h ++ List.map (abCall self) (if (genMethod m e).hasAround then (genMethod m e).aroundBefore else []) ++
        List.map (condCall self payload) (genMethod m e).checks) = (.done (.ok nm), h') := by
    unfold evalTail
    rw [e3]; simp only
    rw [e4]; simp only
    rw [e5]
  rw [htail] at ht hok
  obtain ⟨hst, hctx, hsB, hsA, hAA⟩ := hok nm rfl
  simp only at ht
  refine ⟨List.map (abCall self) (if (genMethod m e).hasAround then (genMethod m e).aroundBefore else []) ++
      List.map (condCall self payload) (genMethod m e).checks ++ tB ++ tA ++ tAA, by rw [ht]; simp, ?_, hst, hctx⟩
  simp only [List.map_append, List.map_map]
  rw [hsB, hsA, hAA, genMethod_aroundBefore, genMethod_checks, genMethod_before, genMethod_after]
  simp only [Method.arounds, genMethod_aroundAfter, genMethod_isAsync]
  rw [callSigs_gen, callSigs_gen]
  simp [expectedSigs, abCall, condCall, aaCall, HookCall.sig, Function.comp_def, seenPayload, construct, hst, hctx]

/-- conditions and before-callbacks see the source machine's data slots as the caller left them -/
theorem conds_see_source_slots (self : TM) (payload : Option Nat) (c : Check) :
    (condCall self payload c).slots = self.slots := rfl

/-- the machine the after-callbacks start on: the target's slot freshly defaulted, all others empty -/
theorem after_hooks_start_fresh (m : Machine) (e : Edge) (self : TM) :
    (construct (genMethod m e) self).slots =
      m.storage.map fun spec => (spec.field, if spec.stateName = e.target then some 0 else none) := by
  simp [construct, genSlots]
  intro spec _
  split <;> simp

/-! ### non-vacuity -/
def exEdge : Edge :=
  { target := Name.lit "B", event := Name.lit "go", guards := [Name.lit "g1"], unl := [Name.lit "u1"],
    before := [Name.lit "b1", Name.lit "b2"], after := [Name.lit "a1"], around := [Name.lit "w"], payload := some ["u32"] }

example : (expectedSigs exEdge ⟨Name.lit "A", 7, []⟩ (some 3)).length = 7 := by decide

end SMV.C04
