import SMV.Props.C04
import SMV.Props.C05
/-
  C06 — Around callbacks can veto before the transition and are never swallowed after.
-/
namespace SMV.C06
open SMV C03

/-- **Before-stage veto.** If the around callbacks before `cb` proceed and `cb` aborts with kind
    `k`, the call returns the machine unchanged; the error keeps the kind `k`, carries the name
    the abort carried (for an invalid-transition abort: the callback's own declared name) and
    the real event name; exactly the Before stages up to `cb` ran and nothing after them. -/
theorem before_abort (m : Machine) (e : Edge) (env : Env) (self : TM) (payload : Option Nat) (h : Hist)
    (pre : List Name) (cb : Name) (post : List Name) (k : Kind)
    (hsplit : e.around = pre ++ cb :: post)
    (hpre : AllProceed env self (pre.map (aroundOf m e)) h)
    (habort : (env (h ++ (pre.map (aroundOf m e)).map (abCall self)) (abCall self (aroundOf m e cb))).val = .abort k) :
    run env (methodProg (genMethod m e) self payload) h =
      (.done (.err self ⟨callbackName k cb, e.event, k⟩),
       h ++ ((pre ++ [cb]).map (aroundOf m e)).map (abCall self)) := by
  rw [run_method]
  unfold evalMethod
  rw [aroundBefore_eq, hsplit, List.map_append, List.map_cons]
  rw [evalAB_abort env self (aroundOf m e cb) (post.map (aroundOf m e)) k (pre.map (aroundOf m e)) h hpre habort]
  simp [aroundOf, GuardError.withKind]

/-- the name a Before-stage abort is attributed to -/
theorem abort_name (k : Kind) (cb : Name) :
    callbackName k cb = match k with
      | .guardFailed g => g
      | .actionFailed a => a
      | .invalidTransition => cb := by
  cases k <;> rfl

/-- **AfterSuccess runs only after success, once each, after all after-callbacks.** On `Ok` the
    AfterSuccess invocations are exactly the declared around callbacks, each once, in order, and
    they are the last hooks of the call (C04's order); on `Err` there is none (C05). -/
theorem after_success_on_ok (m : Machine) (e : Edge) (env : Env) (self : TM) (payload : Option Nat) (h h' : Hist)
    (nm : TM) (hrun : run env (methodProg (genMethod m e) self payload) h = (.done (.ok nm), h')) :
    ∃ t front, h' = h ++ t ∧
      t.map HookCall.sig = front ++ e.around.map (fun cb => ⟨.aroundAfter, cb, e.target, self.ctx, none, none⟩) ∧
      ∀ s ∈ front, s.kind ≠ .aroundAfter := by
  obtain ⟨t, ht, hsig, _, _⟩ := C04.success_trace m e env self payload h h' nm hrun
  refine ⟨t, _, ht, by rw [hsig]; rfl, ?_⟩
  intro s hs
  rcases List.mem_append.mp hs with hs | hs
  · rcases List.mem_append.mp hs with hs | hs
    · rcases List.mem_append.mp hs with hs | hs
      · obtain ⟨_, _, rfl⟩ := List.mem_map.mp hs; simp
      · obtain ⟨_, _, rfl⟩ := List.mem_map.mp hs; simp
    · obtain ⟨_, _, rfl⟩ := List.mem_map.mp hs; simp
  · obtain ⟨_, _, rfl⟩ := List.mem_map.mp hs; simp

theorem no_after_success_on_err (m : Machine) (e : Edge) (env : Env) (self : TM) (payload : Option Nat) (h h' : Hist)
    (m' : TM) (ge : GuardError)
    (hrun : run env (methodProg (genMethod m e) self payload) h = (.done (.err m' ge), h')) :
    ∃ t, h' = h ++ t ∧ ∀ c ∈ t, c.kind ≠ .aroundAfter ∧ c.kind ≠ .before ∧ c.kind ≠ .after := by
  obtain ⟨_, t, ht, hk⟩ := C05.refusal_identity m e env self payload h h' m' ge hrun
  refine ⟨t, ht, fun c hc => ?_⟩
  rcases hk c hc with h1 | h1 <;> simp [h1]

/-- **Never swallowed.** If the call returned `Ok`, every AfterSuccess stage answered `Proceed`:
    an abort at AfterSuccess is never turned into a successful result. -/
theorem ok_implies_after_all_proceed (m : Machine) (e : Edge) (env : Env) (self : TM) (payload : Option Nat)
    (h h' : Hist) (nm : TM) (hrun : run env (methodProg (genMethod m e) self payload) h = (.done (.ok nm), h')) :
    ∃ h4, AllProceedAfter env nm (e.around.map (aroundOf m e)) h4 ∧
      h' = h4 ++ (e.around.map (aroundOf m e)).map (aaCall nm) := by
  rw [run_method] at hrun
  obtain ⟨h1, h2, self', h3, h4, _, _, _, _, e5⟩ := evalMethod_ok_inv hrun
  rw [genMethod_aroundAfter] at e5
  have e5' : evalAA env nm (e.around.map (aroundOf m e)) h4 = (.cont (), h') := e5
  refine ⟨h4, evalAA_cont env nm _ _ _ e5', ?_⟩
  obtain ⟨n, _, ht, hc, _⟩ := evalAA_shape env nm (e.around.map (aroundOf m e)) h4
  rw [e5'] at ht hc
  have := hc () rfl
  simp only at ht
  rw [ht, this, List.take_of_length_le (by simp)]

/-- **…but surfaces as a panic naming the event and the guard or action the abort carried.**
    If everything up to the AfterSuccess stage of `cb` went through and `cb` aborts there with
    kind `k`, the call panics with the generated message built from `callbackName k cb` and the
    event; it returns neither `Ok` nor `Err`. -/
theorem after_abort_panics (m : Machine) (e : Edge) (env : Env) (self : TM) (payload : Option Nat) (h : Hist)
    (h4 : Hist) (nm : TM) (h1 h2 h3 : Hist) (self' : TM)
    (pre : List Name) (cb : Name) (post : List Name) (k : Kind)
    (hsplit : e.around = pre ++ cb :: post)
    (e1 : evalAB env self (e.around.map (aroundOf m e)) h = (.cont (), h1))
    (e2 : evalChecks env self payload (genMethod m e).checks h1 = (.cont (), h2))
    (e3 : evalCalls env .before m.asyncMode payload (genMethod m e).before self h2 = (.cont self', h3))
    (e4 : evalCalls env .after m.asyncMode payload (genMethod m e).after (construct (genMethod m e) self') h3 = (.cont nm, h4))
    (hpre : ∀ p1 d p2, pre.map (aroundOf m e) = p1 ++ d :: p2 →
      (env (h4 ++ p1.map (aaCall nm)) (aaCall nm d)).val = .proceed)
    (habort : (env (h4 ++ (pre.map (aroundOf m e)).map (aaCall nm)) (aaCall nm (aroundOf m e cb))).val = .abort k) :
    run env (methodProg (genMethod m e) self payload) h =
      (.panicked (.afterSuccessAbort (callbackName k cb) e.event),
       h4 ++ ((pre ++ [cb]).map (aroundOf m e)).map (aaCall nm)) := by
  rw [run_method]
  unfold evalMethod evalTail
  rw [aroundBefore_eq, e1]
  simp only
  rw [e2]
  simp only [genMethod_isAsync]
  rw [e3]
  simp only
  rw [e4]
  simp only
  rw [genMethod_aroundAfter]
  have : e.around.map (fun cb => (⟨cb, m.asyncMode, cb, e.event⟩ : Around)) =
      pre.map (aroundOf m e) ++ aroundOf m e cb :: post.map (aroundOf m e) := by
    rw [hsplit]; simp only [List.map_append, List.map_cons]; rfl
  rw [this, evalAA_abort env nm (aroundOf m e cb) (post.map (aroundOf m e)) k (pre.map (aroundOf m e)) h4 hpre habort]
  simp [aroundOf]

end SMV.C06
