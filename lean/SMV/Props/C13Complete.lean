import SMV.Props.C13Iff
import SMV.Lemmas.Complete
/-
  C13, the converse (and the macro-level half of C14): the macro refuses **only** for the rules.
-/
namespace SMV
open SMV

/-- the rules the *parser* enforces, on the definition as written: the three required sections are present
    (R1); no unknown key anywhere (R2); in every `states:` section names are pairwise distinct (R3), every
    superstate has a leaf beneath it (R5) and a declared `initial:` among them (R6); every transition block has
    a `from` and a `to` (R9) -/
structure ParserRules (d : Def) : Prop where
  name : (lastName d none).isSome
  initial : (lastInitial d none).isSome
  states : (lastStates d none).isSome
  noUnknownTop : ∀ x ∈ d, x.isUnknown = false
  statesOk : ∀ items, TopItem.states items ∈ d →
    NamesDistinct (items.map TItem.toB) ∧ noUnknownBs (items.map TItem.toB) = true ∧ supsOkBs (items.map TItem.toB) = true
  eventsOk : ∀ blocks, TopItem.events blocks ∈ d → EventsOk blocks

/-- **The parser refuses only for the rules.** A definition that satisfies the parser's rules parses. -/
theorem parser_accepts (d : Def) (h : ParserRules d) : ∃ m, parseMachine d = .ok m := by
  obtain ⟨a, ha⟩ := parseTop_complete d {} h.noUnknownTop
    (fun items hi => let ⟨h1, h2, h3⟩ := h.statesOk items hi; states_accepted items h1 h2 h3)
    (fun blocks hb => parseEvents_complete blocks [] (h.eventsOk blocks hb))
  obtain ⟨_, _, _, hn, hi, _⟩ := parseTop_spec d {} a none ha rfl
  have hs := parseTop_states d {} a none ha ⟨rfl, rfl, rfl⟩
  obtain ⟨nm, hnm⟩ := Option.isSome_iff_exists.mp h.name
  obtain ⟨ini, hini⟩ := Option.isSome_iff_exists.mp h.initial
  obtain ⟨items, hitems⟩ := Option.isSome_iff_exists.mp h.states
  rw [hitems] at hs
  obtain ⟨st, _, hst, _, _⟩ := hs
  have hn' : a.name = some nm := by rw [hn]; exact hnm
  have hi' : a.initial = some ini := by rw [hi]; exact hini
  unfold parseMachine
  rw [ha]
  simp only [hn', hi', hst]
  exact ⟨_, rfl⟩

/-- **The macro refuses only for the rules** (C13 ⇐, the macro-level half of C14): a definition that satisfies
    the parser's rules and whose parsed machine satisfies the validator's rules is accepted. Together with
    C13's rule-by-rule theorems (accepted ⇒ every rule), acceptance by the macro *is* R1–R10. -/
theorem macro_accepts (d : Def) (h : ParserRules d) (hv : ∀ m, parseMachine d = .ok m → C13.Valid m) :
    ∃ m, C13.Accepted d m := by
  obtain ⟨m, hm⟩ := parser_accepts d h
  exact ⟨m, hm, (C13.validate_iff m).mpr (hv m hm)⟩

end SMV
