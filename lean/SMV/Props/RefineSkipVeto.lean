import SMV.Props.RefineSkip
import SMV.Props.RefineVeto
/-
  Refusals and vetoes are invisible (C05 / C06 along histories): a history replayed without the events that were
  refused — by a condition or by an around callback's veto — is accepted entirely and ends in the same state.
-/
namespace SMV.Refine
open SMV C01 C03

def acceptedV (xs : List (Script × Name)) (bs : List Bool) : List (Script × Name) :=
  ((xs.zip bs).filter (·.2)).map (·.1)

theorem specStepV_refused (m : Machine) (sc : Script) (s e : Name) (h : (specStepV m sc s e).2 = false) :
    (specStepV m sc s e).1 = s := by
  unfold specStepV at h ⊢
  cases hd : m.delta s e with
  | none => rfl
  | some edge =>
    simp only [hd] at h ⊢
    split
    · rename_i hc; simp [hc] at h
    · rfl

theorem specRunV_cons (m : Machine) (s : Name) (sc : Script) (e : Name) (rest : List (Script × Name)) :
    specRunV m s ((sc, e) :: rest) =
      ((specRunV m (specStepV m sc s e).1 rest).1, (specStepV m sc s e).2 :: (specRunV m (specStepV m sc s e).1 rest).2) := by
  simp only [specRunV]

theorem specRunV_accepted (m : Machine) : ∀ (xs : List (Script × Name)) (s : Name),
    specRunV m s (acceptedV xs (specRunV m s xs).2) =
      ((specRunV m s xs).1, (acceptedV xs (specRunV m s xs).2).map fun _ => true) := by
  intro xs
  induction xs with
  | nil => intro s; rfl
  | cons x rest ih =>
    intro s
    obtain ⟨sc, e⟩ := x
    rw [specRunV_cons]
    simp only
    cases hb : (specStepV m sc s e).2 with
    | true =>
      have ih' := ih (specStepV m sc s e).1
      have hacc : acceptedV ((sc, e) :: rest) (true :: (specRunV m (specStepV m sc s e).1 rest).2) =
          (sc, e) :: acceptedV rest (specRunV m (specStepV m sc s e).1 rest).2 := by
        simp [acceptedV]
      rw [hacc, specRunV_cons, hb, ih']
      simp
    | false =>
      have hs := specStepV_refused m sc s e hb
      have hacc : acceptedV ((sc, e) :: rest) (false :: (specRunV m (specStepV m sc s e).1 rest).2) =
          acceptedV rest (specRunV m (specStepV m sc s e).1 rest).2 := by
        simp [acceptedV]
      rw [hacc, hs]
      exact ih s

theorem map_acceptedOfV {α : Type} (f : α → Script × Name) : ∀ (xs : List α) (bs : List Bool),
    (acceptedOf xs bs).map f = acceptedV (xs.map f) bs := by
  intro xs
  induction xs with
  | nil => intro bs; simp [acceptedOf, acceptedV]
  | cons x rest ih =>
    intro bs
    cases bs with
    | nil => simp [acceptedOf, acceptedV]
    | cons b bs' =>
      have := ih bs'
      cases b <;> simp_all [acceptedOf, acceptedV]

/-- **Refusals and vetoes are invisible.** -/
theorem refusals_invisible_veto (m : Machine) (hv : m.validate = .ok ()) (hg : m.GraphBuilt) (hp : m.PascalInj)
    (xs : List ((Env × Script) × Event × Option Nat)) (d : DM) (s : Name) (h h2 : Hist)
    (hx : ∀ x ∈ xs, Scripted x.1.1 x.1.2 ∧ x.2.1 ∈ m.events) (hd : DynInv m d) (hs : d.stateName = some s) :
    ∃ df rs df' rs',
      runEventsE m d (xs.map fun x => (x.1.1, x.2.1, x.2.2)) h = some (df, rs) ∧
      runEventsE m d ((acceptedOf xs (rs.map fun r => decide (r = HandleRes.ok))).map fun x => (x.1.1, x.2.1, x.2.2)) h2 = some (df', rs') ∧
      (∀ r ∈ rs', r = HandleRes.ok) ∧ df'.stateName = df.stateName := by
  obtain ⟨df, rs, h1, h2', h3, _, _⟩ := refines_spec_veto m hv hg hp xs d s h hx hd hs
  have hx' : ∀ x ∈ acceptedOf xs (rs.map fun r => decide (r = HandleRes.ok)), Scripted x.1.1 x.1.2 ∧ x.2.1 ∈ m.events :=
    fun x hm => hx x (acceptedOf_mem xs _ x hm)
  obtain ⟨df', rs', k1, k2, k3, _, _⟩ :=
    refines_spec_veto m hv hg hp (acceptedOf xs (rs.map fun r => decide (r = HandleRes.ok))) d s h2 hx' hd hs
  rw [map_acceptedOfV (fun x : (Env × Script) × Event × Option Nat => (x.1.2, x.2.1.name)), h2',
    specRunV_accepted] at k2 k3
  refine ⟨df, rs, df', rs', h1, k1, ?_, by rw [k3, h3]⟩
  intro r hr
  have : decide (r = HandleRes.ok) ∈ rs'.map (fun r => decide (r = HandleRes.ok)) := List.mem_map.mpr ⟨r, hr, rfl⟩
  rw [k2] at this
  simp only [List.mem_map] at this
  obtain ⟨_, _, ht⟩ := this
  simpa using ht.symm

end SMV.Refine
