import SMV.Props.C18Twin
import SMV.Props.RefineReply
/-
  C18, behavioural half, with vetoes and exact replies: the renamed twin answers every history with the renamed
  replies of the original — the same `Ok`s, the same `GuardFailed` / `ActionFailed` errors (hook and event names
  are not renamed), and `InvalidTransition` errors naming the *renamed* state the machine was in.
-/
namespace SMV.C18
open SMV Refine C01 C03

/-- a reply with the state it names renamed -/
def renRes (ρ : Name → Name) : HandleRes → HandleRes
  | .err (.invalidTransition (.name s) ev) => .err (.invalidTransition (.name (ρ s)) ev)
  | r => r

theorem specStepV_rename (ρ : Name → Name) (hρ : Function.Injective ρ) (m m' : Machine)
    (hg : m'.graph = m.graph.map fun (s, e) => (ρ s, renEdge ρ e)) (sc : Script) (s e : Name) :
    specStepV m' sc (ρ s) e = (ρ (specStepV m sc s e).1, (specStepV m sc s e).2) := by
  unfold specStepV
  rw [delta_rename ρ hρ m m' hg]
  cases m.delta s e with
  | none => rfl
  | some edge =>
    simp only [Option.map_some, renEdge]
    split <;> rfl

theorem specReply_rename (ρ : Name → Name) (hρ : Function.Injective ρ) (m m' : Machine)
    (hg : m'.graph = m.graph.map fun (s, e) => (ρ s, renEdge ρ e)) (sc : Script) (s e : Name) :
    specReply m' sc (ρ s) e = renRes ρ (specReply m sc s e) := by
  unfold specReply
  rw [delta_rename ρ hρ m m' hg]
  cases m.delta s e with
  | none => rfl
  | some edge =>
    simp only [Option.map_some, renEdge]
    cases hf : edge.around.find? (fun a => (sc.α a).isSome) with
    | some a =>
      simp only
      cases hk : sc.α a with
      | none => rfl
      | some k => cases k <;> rfl
    | none =>
      simp only
      have hc : conds { edge with target := ρ edge.target } = conds edge := rfl
      rw [hc]
      cases (conds edge).find? (fun c => sc.σ c.1 != c.2) with
      | some c => rfl
      | none => rfl

theorem specReplies_rename (ρ : Name → Name) (hρ : Function.Injective ρ) (m m' : Machine)
    (hg : m'.graph = m.graph.map fun (s, e) => (ρ s, renEdge ρ e)) :
    ∀ (xs : List (Script × Name)) (s : Name),
      specReplies m' (ρ s) xs = (specReplies m s xs).map (renRes ρ) := by
  intro xs
  induction xs with
  | nil => intro s; rfl
  | cons x rest ih =>
    intro s
    obtain ⟨sc, e⟩ := x
    simp only [specReplies, List.map_cons, specReply_rename ρ hρ m m' hg, specStepV_rename ρ hρ m m' hg, ih]

/-- **The renamed twin answers alike, vetoes and error values included.** -/
theorem twin_replies_alike (ρ : Name → Name) (hρ : Function.Injective ρ) (m m' : Machine)
    (hv : m.validate = .ok ()) (hgb : m.GraphBuilt) (hp : m.PascalInj)
    (hv' : m'.validate = .ok ()) (hgb' : m'.GraphBuilt) (hp' : m'.PascalInj)
    (hg : m'.graph = m.graph.map fun (s, e) => (ρ s, renEdge ρ e))
    (xs xs' : List ((Env × Script) × Event × Option Nat))
    (hx : ∀ x ∈ xs, Scripted x.1.1 x.1.2 ∧ x.2.1 ∈ m.events)
    (hx' : ∀ x ∈ xs', Scripted x.1.1 x.1.2 ∧ x.2.1 ∈ m'.events)
    (hsame : xs'.map (fun x => (x.1.2, x.2.1.name)) = xs.map (fun x => (x.1.2, x.2.1.name)))
    (d d' : DM) (s : Name) (hd : DynInv m d) (hd' : DynInv m' d')
    (hs : d.stateName = some s) (hs' : d'.stateName = some (ρ s)) (h h' : Hist) :
    ∃ df rs df' rs',
      runEventsE m d (xs.map fun x => (x.1.1, x.2.1, x.2.2)) h = some (df, rs) ∧
      runEventsE m' d' (xs'.map fun x => (x.1.1, x.2.1, x.2.2)) h' = some (df', rs') ∧
      rs' = rs.map (renRes ρ) := by
  obtain ⟨df, h1⟩ := replies_refine m hv hgb hp xs d s h hx hd hs
  obtain ⟨df', h1'⟩ := replies_refine m' hv' hgb' hp' xs' d' (ρ s) h' hx' hd' hs'
  rw [hsame, specReplies_rename ρ hρ m m' hg] at h1'
  exact ⟨df, _, df', _, h1, h1', rfl⟩

end SMV.C18
