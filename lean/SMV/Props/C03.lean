import SMV.Lemmas.Envs
/-
  C03 — A transition fires iff all guards hold and no unless-condition holds.

  Statements are about the method the generator emits for an arbitrary edge of an arbitrary
  machine (`genMethod m e`: any async/payload/context combination, any hook lists), run
  from an arbitrary receiver, payload, history and hook environment.
-/
namespace SMV.C03
open SMV

/-- the conditions of an edge in consultation order with their polarity
    (`true`: a guard, must answer true; `false`: an unless-condition, must answer false).
    Edges carry event-level hooks before transition-level ones (`edgesOfSource`). -/
def conds (e : Edge) : List (Name × Bool) := e.guards.map (·, true) ++ e.unl.map (·, false)

/-- the check emitted for a condition -/
def checkOf (m : Machine) (e : Edge) (c : Name × Bool) : Check :=
  ⟨c.1, c.2, e.payload.isSome, m.asyncMode, c.1, e.event⟩

/-- the around invocation emitted for a callback -/
def aroundOf (m : Machine) (e : Edge) (cb : Name) : Around := ⟨cb, m.asyncMode, cb, e.event⟩

theorem checks_eq (m : Machine) (e : Edge) : (genMethod m e).checks = (conds e).map (checkOf m e) := by
  simp [genMethod_checks, conds, checkOf, Function.comp_def]

theorem aroundBefore_eq (m : Machine) (e : Edge) :
    (if (genMethod m e).hasAround then (genMethod m e).aroundBefore else []) = e.around.map (aroundOf m e) :=
  genMethod_aroundBefore m e

theorem blockedBy_checkOf (m : Machine) (e : Edge) (c : Name × Bool) (σ : Name → Bool) :
    (checkOf m e c).blockedBy σ = (σ c.1 != c.2) := by
  obtain ⟨n, pos⟩ := c
  cases pos <;> cases hσ : σ n <;> simp [checkOf, Check.blockedBy, hσ]

/-- **General form (history-dependent hooks).** If the around Before stage lets the call through
    and every condition before `c` passes at the moment it is consulted and `c` blocks, the
    call returns `Err` with the machine handed back, the error names `c` and the event, the
    conditions consulted are exactly those up to `c`, in order, and nothing runs afterwards. -/
theorem first_block_general (m : Machine) (e : Edge) (env : Env) (self : TM) (payload : Option Nat) (h : Hist)
    (pre : List (Name × Bool)) (c : Name × Bool) (post : List (Name × Bool))
    (hsplit : conds e = pre ++ c :: post)
    (hab : AllProceed env self (e.around.map (aroundOf m e)) h)
    (hpre : AllPass env self payload (pre.map (checkOf m e)) (h ++ (e.around.map (aroundOf m e)).map (abCall self)))
    (hblk : (checkOf m e c).blocksAt env self payload
      (h ++ (e.around.map (aroundOf m e)).map (abCall self) ++ (pre.map (checkOf m e)).map (condCall self payload))) :
    run env (methodProg (genMethod m e) self payload) h =
      (.done (.err self ⟨c.1, e.event, .guardFailed c.1⟩),
       h ++ (e.around.map (aroundOf m e)).map (abCall self) ++
         ((pre ++ [c]).map (checkOf m e)).map (condCall self payload)) := by
  rw [run_method]
  unfold evalMethod
  rw [aroundBefore_eq]
  have hab' := evalAB_proceed env self _ h hab
  rw [hab']
  simp only
  rw [checks_eq, hsplit, List.map_append, List.map_cons]
  rw [evalChecks_block env self payload (checkOf m e c) (post.map (checkOf m e)) (pre.map (checkOf m e)) _ hpre hblk]
  simp [checkOf, GuardError.new, aroundOf]

/-- **General form.** If nothing blocks, every condition is consulted exactly once, in order,
    and the call does not return `Err`. -/
theorem all_pass_general (m : Machine) (e : Edge) (env : Env) (self : TM) (payload : Option Nat) (h : Hist)
    (hab : AllProceed env self (e.around.map (aroundOf m e)) h)
    (hpass : AllPass env self payload ((conds e).map (checkOf m e))
      (h ++ (e.around.map (aroundOf m e)).map (abCall self))) :
    (∀ m' ge h', run env (methodProg (genMethod m e) self payload) h ≠ (.done (.err m' ge), h')) ∧
    ∃ t, (run env (methodProg (genMethod m e) self payload) h).2 =
      h ++ (e.around.map (aroundOf m e)).map (abCall self) ++
        ((conds e).map (checkOf m e)).map (condCall self payload) ++ t ∧
      ∀ c ∈ t, c.kind ≠ .cond := by
  constructor
  · intro m' ge h' hrun
    rw [run_method] at hrun
    rcases evalMethod_err_inv hrun with hAB | ⟨h1, hAB, hC⟩
    · rw [aroundBefore_eq] at hAB
      have := evalAB_proceed env self _ h hab
      rw [this] at hAB
      simp at hAB
    · rw [aroundBefore_eq] at hAB
      have := evalAB_proceed env self _ h hab
      rw [this] at hAB
      cases hAB
      rw [checks_eq, evalChecks_pass env self payload _ _ hpass] at hC
      simp at hC
  · rw [run_method]
    unfold evalMethod
    rw [aroundBefore_eq]
    have hab' := evalAB_proceed env self _ h hab
    rw [hab']
    simp only
    rw [checks_eq, evalChecks_pass env self payload _ _ hpass]
    simp only
    obtain ⟨tB, tA, tAA, ht, hkB, hkA, hkAA, _⟩ := evalTail_shape env (genMethod m e) self payload
      (h ++ (e.around.map (aroundOf m e)).map (abCall self) ++ ((conds e).map (checkOf m e)).map (condCall self payload))
    refine ⟨tB ++ tA ++ tAA, by rw [ht]; simp, ?_⟩
    intro c hc
    simp at hc
    rcases hc with hc | hc | hc
    · simp [(hkB c hc).1]
    · simp [(hkA c hc).1]
    · simp [(hkAA c hc).1]

/-! ### the truth-assignment form of the statement -/

/-- **C03, iff.** Conditions answer by a truth assignment of their names; everything else lets
    the call through. The transition succeeds iff every guard answers true and every
    unless-condition answers false. -/
theorem fires_iff (m : Machine) (e : Edge) (env : Env) (σ : Name → Bool) (self : TM) (payload : Option Nat)
    (h : Hist) (hc : CondsAnswer env σ) (hp : Permissive env) :
    (∃ nm h', run env (methodProg (genMethod m e) self payload) h = (.done (.ok nm), h')) ↔
      ((∀ g ∈ e.guards, σ g = true) ∧ (∀ u ∈ e.unl, σ u = false)) := by
  have hab := allProceed_of_permissive hp self ((if (genMethod m e).hasAround then (genMethod m e).aroundBefore else [])) h
  have hAB := evalAB_proceed env self _ h hab
  constructor
  · rintro ⟨nm, h', hrun⟩
    rw [run_method] at hrun
    obtain ⟨h1, h2, self', h3, h4, e1, e2, _, _, _⟩ := evalMethod_ok_inv hrun
    have hpass := evalChecks_cont env self payload _ _ _ e2
    have hσ := sigma_of_allPass hc self payload _ _ hpass
    rw [checks_eq] at hσ
    constructor
    · intro g hg
      have := hσ (checkOf m e (g, true)) (by simp [conds]; exact Or.inl ⟨g, hg, rfl⟩)
      rw [blockedBy_checkOf] at this
      simpa using this
    · intro u hu
      have := hσ (checkOf m e (u, false)) (by simp [conds]; exact Or.inr ⟨u, hu, rfl⟩)
      rw [blockedBy_checkOf] at this
      simpa using this
  · rintro ⟨hg, hu⟩
    have hpass : ∀ h1, AllPass env self payload (genMethod m e).checks h1 := by
      intro h1
      apply allPass_of_sigma hc
      rw [checks_eq]
      intro c hc'
      simp [conds] at hc'
      rcases hc' with ⟨g, hg', rfl⟩ | ⟨u, hu', rfl⟩
      · rw [blockedBy_checkOf]; simp [hg g hg']
      · rw [blockedBy_checkOf]; simp [hu u hu']
    rw [run_method]
    unfold evalMethod evalTail
    rw [hAB]
    simp only
    rw [evalChecks_pass env self payload _ _ (hpass _)]
    simp only
    obtain ⟨s1, h3, e3⟩ := evalCalls_cont_of_unit .before (fun h c hk => (hp h c).2.2.1 hk)
      (genMethod m e).isAsync payload (genMethod m e).before self
      (h ++ List.map (abCall self) (if (genMethod m e).hasAround then (genMethod m e).aroundBefore else []) ++
        List.map (condCall self payload) (genMethod m e).checks)
    rw [e3]
    simp only
    obtain ⟨s2, h4, e4⟩ := evalCalls_cont_of_unit .after (fun h c hk => (hp h c).2.2.2 hk)
      (genMethod m e).isAsync payload (genMethod m e).after (construct (genMethod m e) s1) h3
    rw [e4]
    simp only
    obtain ⟨h5, e5⟩ := evalAA_cont_of_proceed (fun h c hk => (hp h c).2.1 hk) s2
      (if (genMethod m e).hasAround then (genMethod m e).aroundAfter else []) h4
    rw [e5]
    exact ⟨s2, h5, rfl⟩

/-- **C03, first blocker.** Under a truth assignment, with `c` the first condition (in the
    order event-level guards, transition-level guards, event-level unless, transition-level
    unless) whose answer blocks: the call returns the machine unchanged with an error naming
    `c` and the event; exactly the conditions up to `c` were consulted, in order. -/
theorem first_block (m : Machine) (e : Edge) (env : Env) (σ : Name → Bool) (self : TM) (payload : Option Nat)
    (h : Hist) (hc : CondsAnswer env σ) (hp : Permissive env)
    (pre : List (Name × Bool)) (c : Name × Bool) (post : List (Name × Bool))
    (hsplit : conds e = pre ++ c :: post)
    (hpre : ∀ d ∈ pre, σ d.1 = d.2) (hblk : σ c.1 ≠ c.2) :
    run env (methodProg (genMethod m e) self payload) h =
      (.done (.err self ⟨c.1, e.event, .guardFailed c.1⟩),
       h ++ (e.around.map (aroundOf m e)).map (abCall self) ++
         ((pre ++ [c]).map (checkOf m e)).map (condCall self payload)) := by
  apply first_block_general m e env self payload h pre c post hsplit
  · exact allProceed_of_permissive hp self _ h
  · apply allPass_of_sigma hc
    intro d hd
    obtain ⟨x, hx, rfl⟩ := List.mem_map.mp hd
    rw [blockedBy_checkOf]
    simpa using hpre x hx
  · apply blocksAt_of_sigma hc
    rw [blockedBy_checkOf]
    simpa using hblk

/-- What each condition is handed: the machine's own context, and the caller's payload iff
    the event declares one. -/
theorem cond_sees (m : Machine) (e : Edge) (self : TM) (payload : Option Nat) (c : Name × Bool) :
    (condCall self payload (checkOf m e c)).ctxArg = some self.ctx ∧
    (condCall self payload (checkOf m e c)).state = self.state ∧
    (condCall self payload (checkOf m e c)).slots = self.slots ∧
    (condCall self payload (checkOf m e c)).payload = (if e.payload.isSome then payload else none) :=
  ⟨rfl, rfl, rfl, rfl⟩

/-! ### non-vacuity: a concrete edge with two guards and one unless, second guard blocks -/

def exEdge : Edge :=
  { target := Name.lit "B", event := Name.lit "go", guards := [Name.lit "g1", Name.lit "g2"],
    unl := [Name.lit "u1"], before := [], after := [], around := [], payload := none }

example : conds exEdge = [(Name.lit "g1", true)] ++ (Name.lit "g2", true) :: [(Name.lit "u1", false)] := by
  decide

end SMV.C03
