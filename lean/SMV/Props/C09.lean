import SMV.Lemmas.DynRun
/-
  C09 — Typestate and dynamic modes are observationally equivalent.
-/
namespace SMV.C09
open SMV

/-- how `handle` reports the error of the typed method it delegates to -/
theorem error_correspondence (s : Name) (g e : Name) :
    armError s ⟨g, e, .guardFailed g⟩ = .guardFailed (.name g) (.name e) ∧
    (∀ a, armError s ⟨g, e, .actionFailed a⟩ = .actionFailed (.name a) (.name e)) ∧
    armError s ⟨g, e, .invalidTransition⟩ = .invalidTransition (.name s) (.name e) := by
  refine ⟨rfl, fun _ => rfl, rfl⟩

/-- **C09.** For every state, declared event, payload, history and hook environment: if the event
    has a typed method on the current state (i.e. `δ_M(s, e)` is an edge), dispatching it through the
    wrapper runs exactly that method on the wrapped machine — same hook trace, same resulting machine
    (wrapped under the target's variant on `Ok`, put back unchanged on `Err` with the corresponding
    error, a panic propagating) — and otherwise the wrapper refuses it as an invalid transition
    without running any hook. -/
theorem handle_is_typed (m : Machine) (hv : m.validate = .ok ()) (hg : m.GraphBuilt) (hp : m.PascalInj)
    (env : Env) (s : Name) (tm : TM) (hst : tm.state = s) (hs : s ∈ m.states)
    (ev : Event) (hev : ev ∈ m.events) (pay : Option Nat) (h : Hist) :
    match (genTypestate m).findMethod s ev.name with
    | none =>
      runHandle env m.code (partsOf m) ⟨some (s, tm)⟩ ⟨toPascal ev.name, pay⟩ h =
        ((⟨some (s, tm)⟩, .done (.err (.invalidTransition (.name s) (.name ev.name)))), h)
    | some meth =>
      match run env (methodProg meth tm (if ev.payload.isSome then pay else none)) h with
      | (.done (.ok nm), h') =>
        runHandle env m.code (partsOf m) ⟨some (s, tm)⟩ ⟨toPascal ev.name, pay⟩ h =
          ((⟨some (nm.state, nm)⟩, .done .ok), h')
      | (.done (.err old ge), h') =>
        runHandle env m.code (partsOf m) ⟨some (s, tm)⟩ ⟨toPascal ev.name, pay⟩ h =
          ((⟨some (s, old)⟩, .done (.err (armError s ge))), h')
      | (.panicked pi, h') =>
        runHandle env m.code (partsOf m) ⟨some (s, tm)⟩ ⟨toPascal ev.name, pay⟩ h = ((⟨none⟩, .panicked pi), h')
      | (.abandoned, _) => False := by
  have hsn := validate_eventsSnake m hv
  have hnd := validate_states_nodup m hv
  -- the typed method of `e` on `M<s>` is the method of `δ_M(s, e)`
  have hfm : (genTypestate m).findMethod s ev.name = (m.delta s ev.name).map (genMethod m) := by
    rw [findMethod_typestate m hnd s hs, List.find?_map]
    congr 1
    apply find?_ext
    intro e he
    obtain ⟨ev', hev', hn, _⟩ := graph_event_mem m hg (s, e) (outgoing_mem_graph m s e he)
    simp only at hn
    have hts : toSnake e.event = e.event := by rw [hn]; exact toSnake_of_isSnake _ (hsn ev' hev')
    simp [Function.comp, hts]
  rw [hfm]
  have hstep := runHandle_step m hv hg hp env s tm hst hs ev hev pay h
  cases hd : m.delta s ev.name with
  | none => simpa [hd] using hstep
  | some edge =>
    simp only [hd, Option.map_some] at hstep ⊢
    rcases hr : run env (methodProg (genMethod m edge) tm (if ev.payload.isSome then pay else none)) h with ⟨o, h'⟩
    rw [hr] at hstep
    cases o with
    | done mr =>
      cases mr with
      | ok nm =>
        simp only at hstep ⊢
        rw [hstep.2.1]; exact hstep.1
      | err old ge =>
        simp only at hstep ⊢
        rw [hstep.2]; exact hstep.1
    | panicked pi => exact hstep
    | abandoned => exact hstep

/-- **No typed method ⇔ dynamic refusal as invalid.** The method of event `e` exists on `M<s>` exactly
    when `δ_M(s, e)` is defined. -/
theorem typed_method_iff (m : Machine) (hv : m.validate = .ok ()) (hg : m.GraphBuilt)
    (s : Name) (hs : s ∈ m.states) (ev : Event) (hev : ev ∈ m.events) :
    ((genTypestate m).findMethod s ev.name).isSome = (m.delta s ev.name).isSome := by
  have hsn := validate_eventsSnake m hv
  have hnd := validate_states_nodup m hv
  rw [findMethod_typestate m hnd s hs, List.find?_map]
  simp only [Option.isSome_map]
  congr 1
  apply find?_ext
  intro e he
  obtain ⟨ev', hev', hn, _⟩ := graph_event_mem m hg (s, e) (outgoing_mem_graph m s e he)
  simp only at hn
  have hts : toSnake e.event = e.event := by rw [hn]; exact toSnake_of_isSnake _ (hsn ev' hev')
  simp [Function.comp, hts]

end SMV.C09
