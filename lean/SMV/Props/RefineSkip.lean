import SMV.Props.Refine
/-
  Refusals are invisible (C05 along histories). Dropping from a history every event that was refused leaves a
  history that the abstract machine accepts entirely and that ends in the same state; by `refines_spec` the same
  holds of the generated wrapper.
-/
namespace SMV.Refine
open SMV C01 C03

/-- the sub-history of accepted events -/
def accepted (xs : List ((Name → Bool) × Name)) (bs : List Bool) : List ((Name → Bool) × Name) :=
  ((xs.zip bs).filter (·.2)).map (·.1)

theorem specStep_refused (m : Machine) (σ : Name → Bool) (s e : Name) (h : (specStep m σ s e).2 = false) :
    (specStep m σ s e).1 = s := by
  unfold specStep at h ⊢
  cases hd : m.delta s e with
  | none => rfl
  | some edge =>
    simp only [hd] at h ⊢
    split
    · rename_i hc; simp [hc] at h
    · rfl

theorem specRun_cons (m : Machine) (s : Name) (σ : Name → Bool) (e : Name) (rest : List ((Name → Bool) × Name)) :
    specRun m s ((σ, e) :: rest) =
      ((specRun m (specStep m σ s e).1 rest).1, (specStep m σ s e).2 :: (specRun m (specStep m σ s e).1 rest).2) := by
  simp only [specRun]

/-- **On the abstract machine: the accepted sub-history is accepted entirely and ends in the same state.** -/
theorem specRun_accepted (m : Machine) : ∀ (xs : List ((Name → Bool) × Name)) (s : Name),
    specRun m s (accepted xs (specRun m s xs).2) =
      ((specRun m s xs).1, (accepted xs (specRun m s xs).2).map fun _ => true) := by
  intro xs
  induction xs with
  | nil => intro s; rfl
  | cons x rest ih =>
    intro s
    obtain ⟨σ, e⟩ := x
    rw [specRun_cons]
    simp only
    cases hb : (specStep m σ s e).2 with
    | true =>
      have ih' := ih (specStep m σ s e).1
      have hacc : accepted ((σ, e) :: rest) (true :: (specRun m (specStep m σ s e).1 rest).2) =
          (σ, e) :: accepted rest (specRun m (specStep m σ s e).1 rest).2 := by
        simp [accepted]
      rw [hacc, specRun_cons, hb, ih']
      simp
    | false =>
      have hs := specStep_refused m σ s e hb
      have hacc : accepted ((σ, e) :: rest) (false :: (specRun m (specStep m σ s e).1 rest).2) =
          accepted rest (specRun m (specStep m σ s e).1 rest).2 := by
        simp [accepted]
      rw [hacc, hs]
      exact ih s

/-- the accepted items of a concrete history -/
def acceptedOf {α : Type} (xs : List α) (bs : List Bool) : List α := ((xs.zip bs).filter (·.2)).map (·.1)

theorem map_acceptedOf {α : Type} (f : α → (Name → Bool) × Name) : ∀ (xs : List α) (bs : List Bool),
    (acceptedOf xs bs).map f = accepted (xs.map f) bs := by
  intro xs
  induction xs with
  | nil => intro bs; simp [acceptedOf, accepted]
  | cons x rest ih =>
    intro bs
    cases bs with
    | nil => simp [acceptedOf, accepted]
    | cons b bs' =>
      have := ih bs'
      cases b <;> simp_all [acceptedOf, accepted]

theorem acceptedOf_mem {α : Type} : ∀ (xs : List α) (bs : List Bool) (x : α), x ∈ acceptedOf xs bs → x ∈ xs := by
  intro xs
  induction xs with
  | nil => intro bs x h; simp [acceptedOf] at h
  | cons y rest ih =>
    intro bs x h
    cases bs with
    | nil => simp [acceptedOf] at h
    | cons b bs' =>
      cases b
      · have : x ∈ acceptedOf rest bs' := by simpa [acceptedOf] using h
        exact List.mem_cons_of_mem _ (ih bs' x this)
      · have : x = y ∨ x ∈ acceptedOf rest bs' := by simpa [acceptedOf] using h
        rcases this with rfl | h'
        · exact List.mem_cons_self
        · exact List.mem_cons_of_mem _ (ih bs' x h')

/-- **Refusals are invisible.** Dispatch a history to the wrapper; then dispatch, from the same start, only the
    events it accepted (each under its own environment): every one of them is accepted again and the wrapper
    ends in the same state. -/
theorem refusals_invisible (m : Machine) (hv : m.validate = .ok ()) (hg : m.GraphBuilt) (hp : m.PascalInj)
    (xs : List ((Env × (Name → Bool)) × Event × Option Nat)) (d : DM) (s : Name) (h h2 : Hist)
    (hx : ∀ x ∈ xs, Tame x.1 ∧ x.2.1 ∈ m.events) (hd : DynInv m d) (hs : d.stateName = some s) :
    ∃ df rs df' rs',
      runEventsE m d (xs.map fun x => (x.1.1, x.2.1, x.2.2)) h = some (df, rs) ∧
      runEventsE m d ((acceptedOf xs (rs.map fun r => decide (r = HandleRes.ok))).map fun x => (x.1.1, x.2.1, x.2.2)) h2 = some (df', rs') ∧
      (∀ r ∈ rs', r = HandleRes.ok) ∧ df'.stateName = df.stateName := by
  obtain ⟨df, rs, h1, h2', h3, _, _⟩ := refines_spec m hv hg hp xs d s h hx hd hs
  have hx' : ∀ x ∈ acceptedOf xs (rs.map fun r => decide (r = HandleRes.ok)), Tame x.1 ∧ x.2.1 ∈ m.events :=
    fun x hm => hx x (acceptedOf_mem xs _ x hm)
  obtain ⟨df', rs', k1, k2, k3, _, _⟩ :=
    refines_spec m hv hg hp (acceptedOf xs (rs.map fun r => decide (r = HandleRes.ok))) d s h2 hx' hd hs
  rw [map_acceptedOf (fun x : (Env × (Name → Bool)) × Event × Option Nat => (x.1.2, x.2.1.name)), h2',
    specRun_accepted] at k2 k3
  refine ⟨df, rs, df', rs', h1, k1, ?_, by rw [k3, h3]⟩
  intro r hr
  have : decide (r = HandleRes.ok) ∈ rs'.map (fun r => decide (r = HandleRes.ok)) := List.mem_map.mpr ⟨r, hr, rfl⟩
  rw [k2] at this
  simp only [List.mem_map] at this
  obtain ⟨_, _, ht⟩ := this
  simpa using ht.symm

end SMV.Refine
