import SMV.Props.C01
import SMV.Props.C06
import SMV.Core
/-
  C12 — Errors and event names report exactly what was declared.
-/
namespace SMV.C12
open SMV

/-- the method generated for an event carries the declared (snake_case) name unchanged -/
theorem method_name_declared (m : Machine) (hv : m.validate = .ok ()) (hg : m.GraphBuilt) (s : Name) (edge : Edge)
    (he : (s, edge) ∈ m.graph) : (genMethod m edge).name = edge.event := by
  obtain ⟨ev, hev, hn, _⟩ := graph_event_mem m hg (s, edge) he
  simp only at hn
  rw [genMethod_name, hn]
  exact toSnake_of_isSnake _ (validate_eventsSnake m hv ev hev)

/-- `Event::name()` of the variant generated for an event is its declared name -/
theorem event_name_declared (m : Machine) (hp : m.PascalInj) (ev : Event) (hev : ev ∈ m.events) :
    (partsOf m).eventName (toPascal ev.name) = ev.name := eventName_parts m hp ev hev

/-- `AnyState::name()` / `current_state()` is the declared state name -/
theorem state_name_declared (m : Machine) (s : Name) (hs : s ∈ m.states) : (partsOf m).stateName s = s := by
  simp [DynParts.stateName, partsOf, alookup_map_self s m.states hs]

/-- every typed error carries the declared event name (guard, unless, around Before alike); the name
    of the blocking condition is C03.first_block, the name an around abort is attributed to C06.before_abort -/
theorem error_names_event (m : Machine) (e : Edge) (env : Env) (self : TM) (payload : Option Nat) (h h' : Hist)
    (m' : TM) (ge : GuardError)
    (hrun : run env (methodProg (genMethod m e) self payload) h = (.done (.err m' ge), h')) :
    ge.event = e.event := C05.refusal_names_event m e env self payload h h' m' ge hrun

/-- **Every `InvalidTransition` returned by `handle` names the state the machine was in** — from the
    catch-all arm and from an around callback aborting with that kind alike — and the declared event. -/
theorem invalid_names_state (m : Machine) (hv : m.validate = .ok ()) (hg : m.GraphBuilt) (hp : m.PascalInj)
    (env : Env) (s : Name) (tm : TM) (hst : tm.state = s) (hs : s ∈ m.states)
    (ev : Event) (hev : ev ∈ m.events) (pay : Option Nat) (h h' : Hist) (d' : DM) (f e : SStr)
    (hrun : runHandle env m.code (partsOf m) ⟨some (s, tm)⟩ ⟨toPascal ev.name, pay⟩ h =
      ((d', .done (.err (.invalidTransition f e))), h')) :
    f = .name s ∧ e = .name ev.name := by
  have hstep := runHandle_step m hv hg hp env s tm hst hs ev hev pay h
  cases hd : m.delta s ev.name with
  | none =>
    simp only [hd] at hstep
    rw [hstep] at hrun
    simp at hrun
    exact ⟨hrun.1.2.1.symm, hrun.1.2.2.symm⟩
  | some edge =>
    simp only [hd] at hstep
    rcases hr : run env (methodProg (genMethod m edge) tm (if ev.payload.isSome then pay else none)) h with ⟨o, h2⟩
    rw [hr] at hstep
    cases o with
    | done mr =>
      cases mr with
      | ok nm =>
        simp only at hstep
        rw [hstep.1] at hrun
        simp at hrun
      | err old ge =>
        simp only at hstep
        rw [hstep.1] at hrun
        simp only [Prod.mk.injEq, Out.done.injEq, HandleRes.err.injEq] at hrun
        have hev2 := C05.refusal_names_event m edge env tm _ h h2 old ge hr
        have hedge : edge.event = ev.name := by
          have := List.find?_some hd
          simpa using this
        have hae := hrun.1.2
        unfold armError DynError.fromGuardError at hae
        cases hk : ge.kind <;> simp [hk] at hae
        exact ⟨hae.1.symm, by rw [← hae.2, hev2, hedge]⟩
    | panicked pi =>
      simp only at hstep
      rw [hstep] at hrun
      simp at hrun
    | abandoned => exact hstep.elim

/-! ### the core conversion and constructors keep kind and names -/

theorem from_guard_error_preserves (g e x : Name) :
    DynError.fromGuardError ⟨g, e, .guardFailed x⟩ = .guardFailed (.name x) (.name e) ∧
    DynError.fromGuardError ⟨g, e, .actionFailed x⟩ = .actionFailed (.name x) (.name e) ∧
    (∃ f, DynError.fromGuardError ⟨g, e, .invalidTransition⟩ = .invalidTransition f (.name e)) :=
  ⟨rfl, rfl, _, rfl⟩

theorem constructors_build_what_they_say (g e f : Name) (k : Kind) :
    GuardError.new g e = ⟨g, e, .guardFailed g⟩ ∧ GuardError.withKind g e k = ⟨g, e, k⟩ ∧
    Core.TransitionError.guardFailed f e g = ⟨f, e, .guardFailed g⟩ ∧
    Core.TransitionError.invalidTransition f e = ⟨f, e, .invalidTransition⟩ ∧
    Core.abortGuard f e g = ⟨f, e, .guardFailed g⟩ ∧ Core.abortWith f e k = ⟨f, e, k⟩ :=
  ⟨rfl, rfl, rfl, rfl, rfl, rfl⟩

end SMV.C12
