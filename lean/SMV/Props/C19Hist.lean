import SMV.Props.C19
/-
  C19 along histories, for **arbitrary** hooks (they may panic, refuse, veto, write — nothing is assumed).

  Any finite sequence of dispatches of declared events to a wrapper holding a machine: either every dispatch
  returns and the wrapper still holds a machine in a declared leaf; or exactly one dispatch panics, every
  dispatch before it returned, and from then on the wrapper is poisoned for good: every later dispatch panics
  with the invalid-state message without calling a single hook, and the wrapper never holds a machine again.
-/
namespace SMV.C19
open SMV C01

/-- dispatch a whole history, whatever happens -/
def runAny (m : Machine) : DM → List (Env × Event × Option Nat) → Hist → (DM × List (Out HandleRes)) × Hist
  | d, [], h => ((d, []), h)
  | d, (env, ev, pay) :: rest, h =>
    match runHandle env m.code (partsOf m) d ⟨toPascal ev.name, pay⟩ h with
    | ((d', o), h') =>
      match runAny m d' rest h' with
      | ((df, os), hf) => ((df, o :: os), hf)

/-- **Poisoned for good.** On a poisoned wrapper every dispatch of every history panics with the invalid-state
    message, runs no hook and leaves the wrapper poisoned. -/
theorem poisoned_forever (m : Machine) : ∀ (xs : List (Env × Event × Option Nat)) (d : DM) (h : Hist),
    d.inner = none → runAny m d xs h = ((d, xs.map fun _ => .panicked .invalidState), h) := by
  intro xs
  induction xs with
  | nil => intro d h _; rfl
  | cons x rest ih =>
    intro d h hd
    obtain ⟨env, ev, pay⟩ := x
    have hr : runHandle env m.code (partsOf m) d ⟨toPascal ev.name, pay⟩ h = ((d, .panicked .invalidState), h) := by
      unfold runHandle; rw [hd]
    simp only [runAny, hr, ih d h hd, List.map_cons]

/-- a synchronous dispatch is never left `abandoned` -/
theorem handle_not_abandoned (m : Machine) (hv : m.validate = .ok ()) (hg : m.GraphBuilt) (hp : m.PascalInj)
    (env : Env) (d : DM) (hinv : DynInv m d) (ev : Event) (hev : ev ∈ m.events) (pay : Option Nat) (h : Hist)
    (d' : DM) (h' : Hist) :
    runHandle env m.code (partsOf m) d ⟨toPascal ev.name, pay⟩ h ≠ ((d', .abandoned), h') := by
  obtain ⟨s, tm, hd, hst, hs⟩ := hinv
  have hdd : d = ⟨some (s, tm)⟩ := by cases d; simp_all
  subst hdd
  have hstep := runHandle_step m hv hg hp env s tm hst hs ev hev pay h
  intro hcon
  cases hdel : m.delta s ev.name with
  | none =>
    simp only [hdel] at hstep
    rw [hstep] at hcon
    cases hcon
  | some edge =>
    simp only [hdel] at hstep
    rcases hr : run env (methodProg (genMethod m edge) tm (if ev.payload.isSome then pay else none)) h with ⟨o, h''⟩
    rw [hr] at hstep
    cases o with
    | done mr =>
      cases mr with
      | ok nm => simp only at hstep; rw [hstep.1] at hcon; cases hcon
      | err old ge => simp only at hstep; rw [hstep.1] at hcon; cases hcon
    | panicked pi => simp only at hstep; rw [hstep] at hcon; cases hcon
    | abandoned => exact hstep

/-- **Fail-stop along histories, for arbitrary hooks.** -/
theorem fail_stop_history (m : Machine) (hv : m.validate = .ok ()) (hg : m.GraphBuilt) (hp : m.PascalInj) :
    ∀ (xs : List (Env × Event × Option Nat)) (d : DM) (h : Hist),
      (∀ x ∈ xs, x.2.1 ∈ m.events) → DynInv m d →
      (DynInv m (runAny m d xs h).1.1 ∧ ∀ o ∈ (runAny m d xs h).1.2, ∃ r, o = .done r) ∨
      ((runAny m d xs h).1.1.inner = none ∧
        ∃ pre pi post, (runAny m d xs h).1.2 = pre ++ .panicked pi :: post ∧
          (∀ o ∈ pre, ∃ r, o = .done r) ∧ (∀ o ∈ post, o = .panicked .invalidState)) := by
  intro xs
  induction xs with
  | nil => intro d h _ hinv; exact Or.inl ⟨hinv, fun o ho => nomatch ho⟩
  | cons x rest ih =>
    intro d h hall hinv
    obtain ⟨env, ev, pay⟩ := x
    have hev : ev ∈ m.events := hall _ List.mem_cons_self
    rcases hr : runHandle env m.code (partsOf m) d ⟨toPascal ev.name, pay⟩ h with ⟨⟨d', o⟩, h'⟩
    cases o with
    | done r =>
      obtain ⟨hinv', _⟩ := returning_handle_usable m hv hg hp env d hinv ev hev pay h d' r h' hr
      rcases hra : runAny m d' rest h' with ⟨⟨df, os⟩, hf⟩
      have hih := ih d' h' (fun y hy => hall y (List.mem_cons_of_mem _ hy)) hinv'
      rw [hra] at hih
      simp only [runAny, hr, hra]
      rcases hih with ⟨hdf, hos⟩ | ⟨hnone, pre, pi, post, hsplit, hpre, hpost⟩
      · left
        refine ⟨hdf, ?_⟩
        intro o ho
        rcases List.mem_cons.mp ho with rfl | ho
        · exact ⟨r, rfl⟩
        · exact hos o ho
      · right
        refine ⟨hnone, .done r :: pre, pi, post, by simp only at hsplit; simp [hsplit], ?_, hpost⟩
        intro o ho
        rcases List.mem_cons.mp ho with rfl | ho
        · exact ⟨r, rfl⟩
        · exact hpre o ho
    | panicked pi =>
      have hnone := panic_poisons env m.code (partsOf m) d ⟨toPascal ev.name, pay⟩ h d' pi h' hr
      right
      simp only [runAny, hr, poisoned_forever m rest d' h' hnone]
      refine ⟨hnone, [], pi, rest.map (fun _ => Out.panicked PanicInfo.invalidState), rfl, ?_, ?_⟩
      · intro o ho; cases ho
      · intro o ho
        obtain ⟨_, _, rfl⟩ := List.mem_map.mp ho
        rfl
    | abandoned => exact absurd hr (handle_not_abandoned m hv hg hp env d hinv ev hev pay h d' h')

end SMV.C19
