import SMV.Lemmas.Rules
/-
  C13 — Ill-formed definitions are rejected at compile time, never reinterpreted.

  Stated in the contrapositive, rule by rule: *if* the macro accepts a definition (it parses and
  validates — otherwise the expansion is `compile_error!` with the diagnostic) *and* rustc's rejection
  rules (SMV/Static.lean) do not fire on what it emits, *then* the definition satisfies the rule.
  So a definition violating any rule is refused, by the macro or by rustc; it is never expanded into a
  machine. (Rules R1–R10 are refused by the macro itself; R11 by rustc, E0592.)
-/
namespace SMV.C13
open SMV

/-- the macro accepts the definition -/
def Accepted (d : Def) (m : Machine) : Prop := parseMachine d = .ok m ∧ m.validate = .ok ()

/-- **R1 — required sections.** -/
theorem r1_required_sections (d : Def) (m : Machine) (h : Accepted d m) :
    lastName d none = some m.name ∧ lastInitial d none = some m.initial ∧ (lastStates d none).isSome := by
  obtain ⟨a, ht, hn, hi, _⟩ := parseMachine_top d m h.1
  obtain ⟨_, _, _, g4, g5, _⟩ := parseTop_spec d {} a none ht rfl
  obtain ⟨items, st, hl, _⟩ := parseMachine_states d m h.1
  exact ⟨by rw [← g4]; exact hn, by rw [← g5]; exact hi, by simp [hl]⟩

/-- **R2 — no unknown key** at the top level, inside any superstate block, inside any event block,
    inside any transition block. -/
theorem r2_no_unknown_key (d : Def) (m : Machine) (h : Accepted d m) :
    (∀ x ∈ d, x.isUnknown = false) ∧
    (∀ items, TopItem.states items ∈ d → noUnknownBs (items.map TItem.toB) = true) ∧
    (∀ blocks, TopItem.events blocks ∈ d → ∀ b ∈ blocks,
      (∀ x ∈ b.items, x.isUnknown = false) ∧ (parseTrs (trBlocks b.items)).isSome) := by
  obtain ⟨a, ht, _⟩ := parseMachine_top d m h.1
  obtain ⟨g1, g2, g3, _⟩ := parseTop_spec d {} a none ht rfl
  refine ⟨g1, ?_, ?_⟩
  · intro items hi
    obtain ⟨st, hp⟩ := g2 items hi
    exact (parseStates_spec items st hp).noUnknown
  · intro blocks hb b hbm
    obtain ⟨evs, hp⟩ := g3 blocks hb
    obtain ⟨new, _, hlen, hall⟩ := parseEvents_spec blocks [] evs hp
    obtain ⟨i, hi, rfl⟩ := List.getElem_of_mem hbm
    obtain ⟨q1, _, q3⟩ := hall i hi (by omega)
    exact ⟨q1, by simp [q3]⟩

/-- every transition block that parses has no unknown key, a `from` and a `to` -/
theorem transition_block_shape (tb : List TrItem) (h : (parseTrs [tb]).isSome) :
    (∀ x ∈ tb, x.isUnknown = false) ∧ (lastFrom tb none).isSome ∧ (lastTo tb none).isSome := by
  simp only [parseTrs] at h
  cases hp : parseTransition tb with
  | error e => simp [hp] at h
  | ok t =>
    obtain ⟨h1, h2, h3⟩ := parseTransition_spec tb t hp
    exact ⟨h1, by simp [h2], by simp [h3]⟩

/-- **R3 — no repeated state name**, leaf or superstate (in every `states:` section). -/
theorem r3_names_distinct (d : Def) (m : Machine) (h : Accepted d m) :
    ∀ items, TopItem.states items ∈ d → NamesDistinct (items.map TItem.toB) := by
  obtain ⟨a, ht, _⟩ := parseMachine_top d m h.1
  obtain ⟨_, g2, _⟩ := parseTop_spec d {} a none ht rfl
  intro items hi
  obtain ⟨st, hp⟩ := g2 items hi
  exact (parseStates_spec items st hp).distinct

/-- **R5, R6 — every superstate has a leaf beneath it, and its `initial:` (if any) is one of them.** -/
theorem r56_superstates_ok (d : Def) (m : Machine) (h : Accepted d m) :
    ∀ items, TopItem.states items ∈ d → supsOkBs (items.map TItem.toB) = true := by
  obtain ⟨a, ht, _⟩ := parseMachine_top d m h.1
  obtain ⟨_, g2, _⟩ := parseTop_spec d {} a none ht rfl
  intro items hi
  obtain ⟨st, hp⟩ := g2 items hi
  exact (parseStates_spec items st hp).supsOk

/-- **R4 — the initial state is a declared leaf state** (not undeclared, not a superstate). -/
theorem r4_initial_is_leaf (d : Def) (m : Machine) (h : Accepted d m) :
    ∃ items, lastStates d none = some items ∧ m.initial ∈ allLeaves items ∧ m.initial ∉ allSups items := by
  obtain ⟨items, st, hl, hp, hs, hh, _⟩ := parseMachine_states d m h.1
  have sp := parseStates_spec items st hp
  refine ⟨items, hl, ?_, ?_⟩
  · have := validate_initial_mem m h.2
    rw [hs, sp.leaves] at this
    exact this
  · intro hsup
    have hv := h.2
    unfold Machine.validate at hv
    rw [hh, (isSuperstate_iff hp m.initial).mpr hsup] at hv
    simp at hv

/-- **R7, R8, R9(non-empty sources), R10 — events**: snake_case name, at least one transition, every
    transition with at least one source, every source a declared leaf or superstate, every target a
    declared leaf or superstate. -/
theorem r7_to_r10_events (d : Def) (m : Machine) (h : Accepted d m) :
    ∃ items, lastStates d none = some items ∧
    ∀ ev ∈ m.events, isSnake ev.name = true ∧ ev.transitions ≠ [] ∧
      ∀ tr ∈ ev.transitions, tr.sources ≠ [] ∧
        (∀ src ∈ tr.sources, src ∈ allLeaves items ∨ src ∈ allSups items) ∧
        (tr.target ∈ allLeaves items ∨ tr.target ∈ allSups items) := by
  obtain ⟨items, st, hl, hp, hs, hh, _⟩ := parseMachine_states d m h.1
  have sp := parseStates_spec items st hp
  refine ⟨items, hl, ?_⟩
  intro ev hev
  have hve := validateEvents_mem m m.events (validate_events m h.2) ev hev
  unfold validateEvent at hve
  split at hve
  · simp at hve
  · rename_i hsn
    split at hve
    · simp at hve
    · rename_i hne
      refine ⟨by simpa using hsn, by intro he; simp [he] at hne, ?_⟩
      intro tr htr
      have hvt := validateTransitions_mem m ev.transitions hve tr htr
      have htgt := validateTransition_target m tr hvt
      obtain ⟨hsrcne, hvs⟩ := validateTransition_sources m tr hvt
      refine ⟨hsrcne, ?_, ?_⟩
      · have : ∀ (l : List Name), validateSources m l = .ok () →
            ∀ src ∈ l, src ∈ allLeaves items ∨ src ∈ allSups items := by
          intro l
          induction l with
          | nil => intro _ src hsrc'; simp at hsrc'
          | cons x xs ih =>
            intro hv src hsrc'
            simp only [validateSources] at hv
            split at hv
            · simp at hv
            · rename_i hdecl
              split at hv
              · simp at hv
              · simp at hsrc'
                rcases hsrc' with rfl | hsrc'
                · simp only [Bool.not_eq_true', Bool.or_eq_false_iff, not_and, Bool.not_eq_false] at hdecl
                  by_cases hleaf : m.states.contains src = true
                  · left; rw [hs, sp.leaves] at hleaf; simpa using hleaf
                  · right
                    have := hdecl (by simpa using hleaf)
                    rw [hh] at this
                    exact (isSuperstate_iff hp src).mp this
                · exact ih hv src hsrc'
        exact this tr.sources hvs
      · by_cases hsup : m.hierarchy.isSuperstate tr.target = true
        · right; rw [hh] at hsup; exact (isSuperstate_iff hp tr.target).mp hsup
        · left
          have : (m.hierarchy.resolveTarget tr.target).getD tr.target = tr.target := by
            simp [Hierarchy.resolveTarget, hsup]
          rw [this, hs, sp.leaves] at htgt
          exact htgt

/-- **R11 — one event never has two transitions applicable to the same leaf.** If the emitted code passes
    rustc's duplicate-method rule (E0592), every leaf has at most one edge per event. -/
theorem r11_unambiguous (d : Def) (m : Machine) (h : Accepted d m) (hg : m.GraphBuilt)
    (hacc : Static.accepted (genTypestate m) = true) (s : Name) (hs : s ∈ m.states) (e : Name) :
    ((m.outgoing s).filter (·.event = e)).length ≤ 1 := by
  have hn := validate_states_nodup m h.2
  have hsn := validate_eventsSnake m h.2
  -- E0592 on the impl of `s`
  have hnd : (Static.methodNames (genTypestate m) s).Nodup := by
    unfold Static.accepted at hacc
    simp only [Bool.and_eq_true, List.all_eq_true, decide_eq_true_eq] at hacc
    obtain ⟨⟨⟨⟨⟨⟨_, _⟩, h3⟩, _⟩, _⟩, _⟩, _⟩ := hacc
    apply h3 s
    simp only [Static.markerNames, genTypestate, genMarkers, List.flatMap_append, List.flatMap_map, List.mem_append,
      List.mem_flatMap]
    exact Or.inl (Or.inl (Or.inl (Or.inl ⟨s, hs, by simp [Static.itemMarkerNames]⟩)))
  have hmid : ((m.outgoing s).map fun e => toSnake e.event).Nodup := (methodNames_sublist m s hs).nodup hnd
  -- snake_case is the identity on the (validated) event names of the edges
  have hmap : ((m.outgoing s).map fun e => toSnake e.event) = (m.outgoing s).map (·.event) := by
    apply List.map_congr_left
    intro edge he
    obtain ⟨ev, hev, hname, _⟩ := graph_event_mem m hg (s, edge) (outgoing_mem_graph m s edge he)
    simp only at hname
    rw [hname]; exact toSnake_of_isSnake _ (hsn ev hev)
  rw [hmap] at hmid
  -- at most one edge with a given event in a list whose events are pairwise distinct
  generalize m.outgoing s = l at hmid
  induction l with
  | nil => simp
  | cons x xs ih =>
    simp only [List.map_cons, List.nodup_cons] at hmid
    simp only [List.filter_cons]
    by_cases hx : x.event = e
    · simp only [hx, decide_true, ↓reduceIte, List.length_cons]
      have : xs.filter (fun y => decide (y.event = e)) = [] := by
        rw [List.filter_eq_nil_iff]
        intro y hy
        simp only [decide_eq_true_eq]
        intro hye
        exact hmid.1 (List.mem_map.mpr ⟨y, hy, by rw [hye, hx]⟩)
      simp [this]
    · simp only [hx, decide_false]
      exact ih hmid.2

end SMV.C13
