import SMV.Props.Refine
import SMV.Props.C18
/-
  C18, behavioural half: the renamed twin behaves as the renamed original (any history), by transporting
  the refinement theorem along the renaming.
-/
namespace SMV.C18
open SMV Refine C01

/-- the abstract step of the renamed machine is the renamed abstract step -/
theorem specStep_rename (ρ : Name → Name) (hρ : Function.Injective ρ) (m m' : Machine)
    (hg : m'.graph = m.graph.map fun (s, e) => (ρ s, renEdge ρ e)) (σ : Name → Bool) (s e : Name) :
    specStep m' σ (ρ s) e = (ρ (specStep m σ s e).1, (specStep m σ s e).2) := by
  unfold specStep
  rw [delta_rename ρ hρ m m' hg]
  cases m.delta s e with
  | none => rfl
  | some edge =>
    simp only [Option.map_some, renEdge]
    split <;> rfl

theorem specRun_rename (ρ : Name → Name) (hρ : Function.Injective ρ) (m m' : Machine)
    (hg : m'.graph = m.graph.map fun (s, e) => (ρ s, renEdge ρ e)) :
    ∀ (xs : List ((Name → Bool) × Name)) (s : Name),
      specRun m' (ρ s) xs = (ρ (specRun m s xs).1, (specRun m s xs).2) := by
  intro xs
  induction xs with
  | nil => intro s; rfl
  | cons x rest ih =>
    intro s
    obtain ⟨σ, e⟩ := x
    simp only [specRun, specStep_rename ρ hρ m m' hg, ih]

/-- **The renamed twin behaves as the renamed original.** `m'` is a validated machine whose transition
    graph is the renamed graph of `m` (what parsing the renamed definition yields: `graph_rename`) and whose
    events carry the same names; dispatch the same events to both, under any tame environments whose
    conditions answer alike. Then both accept exactly the same events, and the twin ends in the renamed
    final state of the original. -/
theorem twin_behaves_alike (ρ : Name → Name) (hρ : Function.Injective ρ) (m m' : Machine)
    (hv : m.validate = .ok ()) (hgb : m.GraphBuilt) (hp : m.PascalInj)
    (hv' : m'.validate = .ok ()) (hgb' : m'.GraphBuilt) (hp' : m'.PascalInj)
    (hg : m'.graph = m.graph.map fun (s, e) => (ρ s, renEdge ρ e))
    (xs : List ((Env × (Name → Bool)) × Event × Option Nat))
    (xs' : List ((Env × (Name → Bool)) × Event × Option Nat))
    (hx : ∀ x ∈ xs, Tame x.1 ∧ x.2.1 ∈ m.events) (hx' : ∀ x ∈ xs', Tame x.1 ∧ x.2.1 ∈ m'.events)
    (hsame : xs'.map (fun x => (x.1.2, x.2.1.name)) = xs.map (fun x => (x.1.2, x.2.1.name)))
    (d d' : DM) (s : Name) (hd : DynInv m d) (hd' : DynInv m' d')
    (hs : d.stateName = some s) (hs' : d'.stateName = some (ρ s)) (h h' : Hist) :
    ∃ df rs df' rs',
      runEventsE m d (xs.map fun x => (x.1.1, x.2.1, x.2.2)) h = some (df, rs) ∧
      runEventsE m' d' (xs'.map fun x => (x.1.1, x.2.1, x.2.2)) h' = some (df', rs') ∧
      rs'.map (fun r => decide (r = .ok)) = rs.map (fun r => decide (r = .ok)) ∧
      df'.stateName = df.stateName.map ρ ∧
      (currentState (partsOf m') df') = (currentState (partsOf m) df).map ρ := by
  obtain ⟨df, rs, h1, h2, h3, h4, _⟩ := refines_spec m hv hgb hp xs d s h hx hd hs
  obtain ⟨df', rs', h1', h2', h3', h4', _⟩ := refines_spec m' hv' hgb' hp' xs' d' (ρ s) h' hx' hd' hs'
  rw [hsame, specRun_rename ρ hρ m m' hg] at h2' h3' h4'
  refine ⟨df, rs, df', rs', h1, h1', ?_, ?_, ?_⟩
  · rw [h2, h2']
  · rw [h3, h3']; rfl
  · rw [h4, h4']; rfl

end SMV.C18
