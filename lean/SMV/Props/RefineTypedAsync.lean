import SMV.Props.RefineTyped
import SMV.Props.C15
/-
  The typestate API of an `async: true` machine, each call awaited to completion under any suspension schedule,
  refines the same abstract machine: C15 (`async_method_eq_sync`) composed with `typed_refines_spec` of the
  synchronous expansion, whose abstract machine is the definition's own.
-/
namespace SMV.Refine
open SMV C01 C03 C15

/-- `m.e(..).await` under a suspension schedule -/
def typedCallAsync (env : Env) (sched : List Nat) (m : Machine) (tm : TM) (ev : Event) (pay : Option Nat) (h : Hist) :
    Option ((TM × Option GuardError) × Hist) :=
  match (genTypestate m).findMethod tm.state ev.name with
  | none => none
  | some meth =>
    match (runAsync env sched (methodProg meth tm (if ev.payload.isSome then pay else none)) h 0).1 with
    | (.done (.ok nm), h') => some ((nm, none), h')
    | (.done (.err old ge), h') => some ((old, some ge), h')
    | _ => none

theorem typedCallAsync_eq (m : Machine) (hv : m.validate = .ok ()) (hv' : (syncTwin m).validate = .ok ())
    (hg : m.GraphBuilt) (env : Env) (sched : List Nat) (tm : TM) (hst : tm.state ∈ m.states) (ev : Event)
    (pay : Option Nat) (h : Hist) :
    typedCallAsync env sched m tm ev pay h = typedCall env (syncTwin m) tm ev pay h := by
  have hg' : (syncTwin m).GraphBuilt := hg
  have h1 := findMethod_eq_delta m hv hg tm.state hst ev
  have h2 := findMethod_eq_delta (syncTwin m) hv' hg' tm.state hst ev
  have hdel : (syncTwin m).delta tm.state ev.name = m.delta tm.state ev.name := rfl
  unfold typedCallAsync typedCall
  rw [h1, h2, hdel]
  cases m.delta tm.state ev.name with
  | none => rfl
  | some edge =>
    simp only [Option.map_some]
    rw [async_method_eq_sync m edge env tm _ h sched 0]
    generalize run env (methodProg (genMethod (syncTwin m) edge) tm (if ev.payload.isSome then pay else none)) h = r
    obtain ⟨o, h'⟩ := r
    cases o with
    | done mr => cases mr <;> rfl
    | panicked pi => rfl
    | abandoned => rfl

def typedRunAsync (m : Machine) : TM → List ((Env × List Nat) × Event × Option Nat) → Hist → Option (TM × List Bool)
  | tm, [], _ => some (tm, [])
  | tm, ((env, sched), ev, pay) :: rest, h =>
    match (genTypestate m).findMethod tm.state ev.name with
    | none => (typedRunAsync m tm rest h).map fun (tf, bs) => (tf, false :: bs)
    | some _ =>
      match typedCallAsync env sched m tm ev pay h with
      | some ((tm', r), h') => (typedRunAsync m tm' rest h').map fun (tf, bs) => (tf, r.isNone :: bs)
      | none => none

/-- **The async typestate API refines the abstract machine, along every history, under any schedule.** -/
theorem typed_async_refines_spec (m : Machine) (hv : m.validate = .ok ()) (hv' : (syncTwin m).validate = .ok ())
    (hg : m.GraphBuilt) :
    ∀ (xs : List (((Env × Script) × List Nat) × Event × Option Nat)) (tm : TM) (h : Hist),
      (∀ x ∈ xs, Scripted x.1.1.1 x.1.1.2) → tm.state ∈ m.states →
      ∃ tf, typedRunAsync m tm (xs.map fun x => ((x.1.1.1, x.1.2), x.2.1, x.2.2)) h =
          some (tf, (specRunV m tm.state (xs.map fun x => (x.1.1.2, x.2.1.name))).2) ∧
        tf.state = (specRunV m tm.state (xs.map fun x => (x.1.1.2, x.2.1.name))).1 := by
  have hg' : (syncTwin m).GraphBuilt := hg
  intro xs
  induction xs with
  | nil => intro tm h _ _; exact ⟨tm, rfl, rfl⟩
  | cons x rest ih =>
    intro tm h hall hst
    obtain ⟨⟨⟨env, sc⟩, sched⟩, ev, pay⟩ := x
    have hsc := hall _ (List.mem_cons_self)
    have hstep := typed_step_refines (syncTwin m) hv' hg' env sc hsc tm hst ev pay h
    have hca := typedCallAsync_eq m hv hv' hg env sched tm hst ev pay h
    have hfm := findMethod_eq_delta m hv hg tm.state hst ev
    have hdel' : (syncTwin m).delta tm.state ev.name = m.delta tm.state ev.name := rfl
    rw [hdel'] at hstep
    cases hdel : m.delta tm.state ev.name with
    | none =>
      rw [hdel] at hstep hfm
      simp only [Option.map_none] at hfm
      obtain ⟨tf, hrun, hfs⟩ := ih tm h (fun y hy => hall y (List.mem_cons_of_mem _ hy)) hst
      have hsp : specStepV m sc tm.state ev.name = (tm.state, false) := by simp [specStepV, hdel]
      refine ⟨tf, ?_, ?_⟩
      · simp only [List.map_cons, typedRunAsync, hfm, hrun, Option.map_some, specRunV, hsp]
      · simpa only [List.map_cons, specRunV, hsp] using hfs
    | some edge =>
      rw [hdel] at hstep hfm
      obtain ⟨tm', h', hcall, hst', hb, _⟩ := hstep
      have hsv : specStepV (syncTwin m) sc tm.state ev.name = specStepV m sc tm.state ev.name := rfl
      rw [hsv] at hst' hb
      have hmem : tm'.state ∈ m.states := by
        rw [hst']
        unfold specStepV
        simp only [hdel]
        split
        · exact delta_target_mem m hv hg tm.state ev.name edge hdel
        · exact hst
      obtain ⟨tf, hrun, hfs⟩ := ih tm' h' (fun y hy => hall y (List.mem_cons_of_mem _ hy)) hmem
      refine ⟨tf, ?_, ?_⟩
      · simp only [List.map_cons, typedRunAsync, hfm, Option.map_some, hca, hcall, hrun, specRunV, hb, hst']
      · simp only [List.map_cons, specRunV]
        rw [← hst']
        exact hfs

end SMV.Refine
