import SMV.Props.C07
import SMV.Props.C13
/-
  The transition function of a parsed machine, read off the definition tree.
-/
namespace SMV.C07
open SMV

/-- **`δ_M` is the declared relation.** For a machine parsed from a definition whose states section is
    `items`: if `δ_M(s, e)` is an edge then some transition of event `e` lists a source that is `s` itself
    (a declared leaf) or a superstate with `s` nested beneath it, and the edge's target is that
    transition's target if it is a leaf, or the initial leaf of the superstate it names. -/
theorem delta_declared (d : Def) (m : Machine) (hp : parseMachine d = .ok m) (hv : m.validate = .ok ())
    (s e : Name) (edge : Edge) (hd : m.delta s e = some edge) :
    ∃ items, lastStates d none = some items ∧
    ∃ ev ∈ m.events, ev.name = e ∧ ∃ tr ∈ ev.transitions, ∃ src ∈ tr.sources,
      ((src = s ∧ s ∈ allLeaves items) ∨ (∃ ls, leavesUnder items src = some ls ∧ s ∈ ls)) ∧
      ((edge.target = tr.target ∧ tr.target ∈ allLeaves items) ∨ initialLeaf items tr.target = some edge.target) ∧
      edge.guards = ev.guards ++ tr.guards ∧ edge.unl = ev.unl ++ tr.unl ∧ edge.before = ev.before ++ tr.before ∧
      edge.after = ev.after ++ tr.after ∧ edge.around = ev.around ++ tr.around := by
  obtain ⟨items, st, hl, hps, hs, hh, _⟩ := parseMachine_states d m hp
  have hg := parseMachine_graphBuilt d m hp
  have hmem : (s, edge) ∈ m.graph := outgoing_mem_graph m s edge (List.mem_of_find?_eq_some hd)
  have hev : edge.event = e := by simpa using List.find?_some hd
  rw [hg, edge_iff] at hmem
  obtain ⟨ev, hevm, tr, htr, src, hsrc, hexp, hedge⟩ := hmem
  obtain ⟨items', hl', hrules⟩ := C13.r7_to_r10_events d m ⟨hp, hv⟩
  have : items' = items := by rw [hl] at hl'; exact (Option.some.inj hl').symm
  subst this
  obtain ⟨_, _, hall⟩ := hrules ev hevm
  obtain ⟨_, hsrcs, htgt⟩ := hall tr htr
  refine ⟨items', hl, ev, hevm, by rw [← hev, hedge], tr, htr, src, hsrc, ?_, ?_, by rw [hedge], by rw [hedge],
    by rw [hedge], by rw [hedge], by rw [hedge]⟩
  · -- the source
    rw [hh, hs] at hexp
    rcases hsrcs src hsrc with hleaf | hsup
    · left
      rw [expand_leaf hps src hleaf] at hexp
      simp at hexp
      exact ⟨hexp.symm, hexp ▸ hleaf⟩
    · right
      obtain ⟨ls, h1, h2, _⟩ := expand_super hps src hsup
      rw [h2] at hexp
      exact ⟨ls, h1, hexp⟩
  · -- the target
    rw [hh] at hedge
    rcases htgt with hleaf | hsup
    · left
      rw [resolve_leaf hps tr.target hleaf] at hedge
      exact ⟨by rw [hedge]; rfl, hleaf⟩
    · right
      obtain ⟨b, i, _, hi, hr, _⟩ := resolve_super hps tr.target hsup
      rw [hr] at hedge
      rw [hi, hedge]; rfl

end SMV.C07
