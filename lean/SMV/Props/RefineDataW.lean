import SMV.Props.RefineData
/-
  The data cell, with callbacks that write.

  `RefineData.cell_refines` asks the hooks not to write state data themselves. Here before/after callbacks may
  write through `&mut self` (the public `_mut` accessors): callback `cb` writes `ω cb = some (field, value)` or
  nothing. What a caller can observe of it, abstractly: writes of *before* callbacks go to the machine that is
  consumed by the transition and are never seen again; on entry into `X` the cell is `Default`, then the *after*
  callbacks of the edge run in declaration order on the new machine and those writing `X`'s field overwrite it;
  a refusal runs no callback and changes nothing.
-/
namespace SMV.RefineData
open SMV C01 C03 C08 C11 Refine

/-- callbacks write what `ω` says (conditions and around callbacks take `&self`; the model applies no write of
    theirs) -/
def Writes (env : Env) (ω : Name → Option (Name × Nat)) : Prop := ∀ h c, (env h c).write = ω c.name

def applyWrites (ω : Name → Option (Name × Nat)) : List Call → TM → TM
  | [], tm => tm
  | c :: rest, tm => applyWrites ω rest (tm.write (ω c.callee))

@[simp] theorem applyWrites_ctx (ω : Name → Option (Name × Nat)) : ∀ (cs : List Call) (tm : TM),
    (applyWrites ω cs tm).ctx = tm.ctx := by
  intro cs
  induction cs with
  | nil => intro tm; rfl
  | cons c rest ih => intro tm; simp only [applyWrites, ih, TM.write_ctx]

theorem evalCalls_writes {env : Env} {ω : Name → Option (Name × Nat)} (hw : Writes env ω) (kind : HK)
    (isAsync : Bool) (payload : Option Nat) :
    ∀ (cs : List Call) (recv : TM) (h : Hist) (recv' : TM) (h' : Hist),
      (∀ c ∈ cs, (isAsync && !c.await) = false) →
      evalCalls env kind isAsync payload cs recv h = (.cont recv', h') → recv' = applyWrites ω cs recv := by
  intro cs
  induction cs with
  | nil => intro recv h recv' h' _ he; simp only [evalCalls, Prod.mk.injEq, Phase.cont.injEq] at he; exact he.1.symm
  | cons c rest ih =>
    intro recv h recv' h' haw he
    have hc := haw c List.mem_cons_self
    simp only [evalCalls, hc, Bool.false_eq_true, ↓reduceIte] at he
    split at he
    · simp at he
    · rw [hw] at he
      exact ih _ _ recv' h' (fun c' hc' => haw c' (List.mem_cons_of_mem _ hc')) he
    · simp at he

theorem after_awaited (m : Machine) (e : Edge) : ∀ c ∈ (genMethod m e).after, ((genMethod m e).isAsync && !c.await) = false := by
  intro c hc
  simp only [genMethod, List.mem_map] at hc
  obtain ⟨cb, _, rfl⟩ := hc
  simp only [genMethod, genAfterCall]
  cases m.asyncMode <;> cases e.payload.isSome <;> simp

theorem before_awaited (m : Machine) (e : Edge) : ∀ c ∈ (genMethod m e).before, ((genMethod m e).isAsync && !c.await) = false := by
  intro c hc
  simp only [genMethod, List.mem_map] at hc
  obtain ⟨cb, _, rfl⟩ := hc
  simp only [genMethod, genBeforeCall]
  cases m.asyncMode <;> cases e.payload.isSome <;> simp

theorem construct_ctx_only (meth : Method) (a b : TM) (h : a.ctx = b.ctx) : construct meth a = construct meth b := by
  simp only [construct, h]

/-- the machine a successful transition returns: freshly constructed, then the after callbacks' writes -/
theorem ok_is_construct_w (m : Machine) (e : Edge) (env : Env) (ω : Name → Option (Name × Nat)) (hw : Writes env ω)
    (self : TM) (payload : Option Nat) (h h' : Hist) (nm : TM)
    (hrun : run env (methodProg (genMethod m e) self payload) h = (.done (.ok nm), h')) :
    nm = applyWrites ω (genMethod m e).after (construct (genMethod m e) self) := by
  rw [run_method] at hrun
  obtain ⟨h1, h2, self', h3, h4, _, _, e3, e4, _⟩ := evalMethod_ok_inv hrun
  have h1' := evalCalls_writes hw .before _ payload _ self h2 self' h3 (before_awaited m e) e3
  have h2' := evalCalls_writes hw .after _ payload _ (construct (genMethod m e) self') h3 nm h4 (after_awaited m e) e4
  rw [h2', construct_ctx_only (genMethod m e) self' self (by rw [h1', applyWrites_ctx])]

/-- one write, seen through a slot -/
theorem alookup_writeSlots_val (g : Name) (x : Nat) (f : Name) : ∀ (l : List (Name × Option Nat)),
    (match alookup f (writeSlots g x l) with | some v => v | none => none) =
      if g = f then (match alookup f l with | some v => v | none => none).map (fun _ => x)
      else (match alookup f l with | some v => v | none => none) := by
  intro l
  induction l with
  | nil => simp [writeSlots, alookup]
  | cons p rest ih =>
    obtain ⟨k, y⟩ := p
    simp only [writeSlots]
    by_cases hk : k = g
    · subst hk
      simp only [↓reduceIte, alookup]
      by_cases hf : k = f
      · simp [hf]
      · simp [hf]
    · simp only [hk, ↓reduceIte, alookup]
      by_cases hf : k = f
      · subst hf
        have : ¬ g = k := fun h => hk h.symm
        simp [this]
      · simp only [hf, ↓reduceIte]
        exact ih

theorem slot_write (tm : TM) (g : Name) (x : Nat) (f : Name) :
    (tm.write (some (g, x))).slot f = if g = f then (tm.slot f).map (fun _ => x) else tm.slot f := by
  simp only [TM.write, TM.slot]
  exact alookup_writeSlots_val g x f tm.slots

/-- the cell under a list of callbacks -/
def cellFold (ω : Name → Option (Name × Nat)) (f : Name) : List Name → Option Nat → Option Nat
  | [], v => v
  | cb :: rest, v =>
    cellFold ω f rest (match ω cb with
      | some (g, x) => if g = f then v.map (fun _ => x) else v
      | none => v)

theorem slot_applyWrites (ω : Name → Option (Name × Nat)) (f : Name) : ∀ (cs : List Call) (tm : TM),
    (applyWrites ω cs tm).slot f = cellFold ω f (cs.map (·.callee)) (tm.slot f) := by
  intro cs
  induction cs with
  | nil => intro tm; rfl
  | cons c rest ih =>
    intro tm
    simp only [applyWrites, List.map_cons, cellFold, ih]
    congr 1
    cases hω : ω c.callee with
    | none => rfl
    | some p => obtain ⟨g, x⟩ := p; exact slot_write tm g x f

theorem cellFold_isSome (ω : Name → Option (Name × Nat)) (f : Name) : ∀ (l : List Name) (v : Option Nat),
    (cellFold ω f l v).isSome = v.isSome := by
  intro l
  induction l with
  | nil => intro v; rfl
  | cons cb rest ih =>
    intro v
    simp only [cellFold, ih]
    cases ω cb with
    | none => rfl
    | some p => obtain ⟨g, x⟩ := p; by_cases hg : g = f <;> simp [hg]

theorem after_callees (m : Machine) (e : Edge) : (genMethod m e).after.map (·.callee) = e.after := by
  simp only [genMethod, List.map_map]
  conv => rhs; rw [← List.map_id e.after]
  apply List.map_congr_left
  intro cb _
  simp only [Function.comp, genAfterCall, id]
  cases m.asyncMode <;> cases e.payload.isSome <;> simp

/-! the abstract machine with a cell and writing callbacks -/

inductive WOp where
  | handle (env : Env) (σ : Name → Bool) (ω : Name → Option (Name × Nat)) (ev : Event) (pay : Option Nat)
  | read
  | write (x : Nat)
  | set (x : Nat)

def WOp.plain : WOp → Option COp
  | .handle _ _ _ _ _ => none
  | .read => some .read
  | .write x => some (.write x)
  | .set x => some (.set x)

def sstepW (m : Machine) (X fX : Name) (st : Name × Option Nat) : WOp → (Name × Option Nat) × CRes
  | .handle _ σ ω ev _ =>
    match m.delta st.1 ev.name with
    | none => (st, .fired false)
    | some edge =>
      if (edge.guards.all fun g => σ g) && (edge.unl.all fun u => !σ u) then
        ((edge.target, if edge.target = X then cellFold ω fX edge.after (some 0) else none), .fired true)
      else (st, .fired false)
  | .read => sstep m X st .read
  | .write x => sstep m X st (.write x)
  | .set x => sstep m X st (.set x)

def srunW (m : Machine) (X fX : Name) : Name × Option Nat → List WOp → (Name × Option Nat) × List CRes
  | st, [] => (st, [])
  | st, op :: rest =>
    let (st', r) := sstepW m X fX st op
    let (sf, rs) := srunW m X fX st' rest
    (sf, r :: rs)

def cstepW (m : Machine) (a : DynAcc) (d : DM) (h : Hist) : WOp → Option ((DM × Hist) × CRes)
  | .handle env _ _ ev pay =>
    match runHandle env m.code (partsOf m) d ⟨toPascal ev.name, pay⟩ h with
    | ((d', .done r), h') => some ((d', h'), .fired (decide (r = .ok)))
    | _ => none
  | .read => cstep m a d h .read
  | .write x => cstep m a d h (.write x)
  | .set x => cstep m a d h (.set x)

def crunW (m : Machine) (a : DynAcc) : DM → Hist → List WOp → Option (DM × List CRes)
  | d, _, [] => some (d, [])
  | d, h, op :: rest =>
    match cstepW m a d h op with
    | none => none
    | some ((d', h'), r) => (crunW m a d' h' rest).map fun (df, rs) => (df, r :: rs)

def WOpOk (m : Machine) : WOp → Prop
  | .handle env σ ω ev _ => CondsAnswer env σ ∧ Permissive env ∧ Writes env ω ∧ ev ∈ m.events
  | _ => True

theorem cstepW_refines (m : Machine) (hv : m.validate = .ok ()) (hg : m.GraphBuilt) (hp : m.PascalInj)
    (hf : m.FieldsNodup) (spec : StorageSpec) (hspec : spec ∈ m.storage) (a : DynAcc)
    (ha : a.reachable = [spec.stateName]) (hfld : a.field = spec.field)
    (d : DM) (st : Name × Option Nat) (hrel : Rel m a spec.stateName d st) (h : Hist) (op : WOp) (hop : WOpOk m op) :
    ∃ d' h', cstepW m a d h op = some ((d', h'), (sstepW m spec.stateName spec.field st op).2) ∧
      Rel m a spec.stateName d' (sstepW m spec.stateName spec.field st op).1 := by
  cases op with
  | read => exact cstep_refines m hv hg hp hf spec hspec a ha hfld d st hrel h .read trivial
  | write x => exact cstep_refines m hv hg hp hf spec hspec a ha hfld d st hrel h (.write x) trivial
  | set x => exact cstep_refines m hv hg hp hf spec hspec a ha hfld d st hrel h (.set x) trivial
  | handle env σ ω ev pay =>
    obtain ⟨s, v⟩ := st
    obtain ⟨tm, rfl, hst, hmem, hslot, hiff⟩ := hrel
    simp only at hst hmem hslot hiff
    obtain ⟨hc, hperm, hw, hev⟩ := hop
    have hstep := runHandle_step m hv hg hp env s tm hst hmem ev hev pay h
    simp only [cstepW, sstepW]
    cases hdel : m.delta s ev.name with
    | none =>
      simp only [hdel] at hstep
      rw [hstep]
      exact ⟨⟨some (s, tm)⟩, h, by simp, ⟨tm, rfl, hst, hmem, hslot, hiff⟩⟩
    | some edge =>
      simp only [hdel] at hstep
      simp only
      by_cases hall : (∀ g ∈ edge.guards, σ g = true) ∧ (∀ u ∈ edge.unl, σ u = false)
      · obtain ⟨nm, h', hrun⟩ := (fires_iff m edge env σ tm (if ev.payload.isSome then pay else none) h hc hperm).mpr hall
        have hnm := ok_is_construct_w m edge env ω hw tm _ h h' nm hrun
        rw [hrun] at hstep
        simp only at hstep
        obtain ⟨he, hnst, htm⟩ := hstep
        have hb : ((edge.guards.all fun g => σ g) && (edge.unl.all fun u => !σ u)) = true := by
          simp only [Bool.and_eq_true, List.all_eq_true, Bool.not_eq_true']
          exact hall
        simp only [he, hb, ↓reduceIte]
        refine ⟨⟨some (edge.target, nm)⟩, h', by simp, ?_⟩
        refine ⟨nm, rfl, hnst, htm, ?_, ?_⟩
        · rw [hnm, hfld, slot_applyWrites, after_callees, fresh_on_entry m hf edge tm spec hspec]
          by_cases ht : edge.target = spec.stateName
          · simp [ht]
          · have : ¬ spec.stateName = edge.target := fun h'' => ht h''.symm
            simp only [ht, this, ↓reduceIte]
            have := cellFold_isSome ω spec.field edge.after none
            cases hcf : cellFold ω spec.field edge.after none with
            | none => rfl
            | some y => rw [hcf] at this; simp at this
        · by_cases ht : edge.target = spec.stateName
          · simp [ht, cellFold_isSome]
          · simp [ht]
      · have hna : ¬ (∀ d ∈ conds edge, σ d.1 = d.2) := fun h' => hall ((conds_agree_iff edge σ).mp h')
        obtain ⟨pre, c, post, hsplit, hpre, hblk⟩ := first_blocker σ (conds edge) hna
        have hrun := first_block m edge env σ tm (if ev.payload.isSome then pay else none) h hc hperm pre c post hsplit hpre hblk
        rw [hrun] at hstep
        simp only at hstep
        obtain ⟨he, _⟩ := hstep
        have hb : ((edge.guards.all fun g => σ g) && (edge.unl.all fun u => !σ u)) = false := by
          rw [Bool.eq_false_iff]
          intro hb
          simp only [Bool.and_eq_true, List.all_eq_true, Bool.not_eq_true'] at hb
          exact hall hb
        simp only [he, hb, Bool.false_eq_true, ↓reduceIte]
        exact ⟨⟨some (s, tm)⟩, (h ++ (edge.around.map (aroundOf m edge)).map (abCall tm) ++
            ((pre ++ [c]).map (checkOf m edge)).map (condCall tm (if ev.payload.isSome then pay else none))),
          by simp, ⟨tm, rfl, hst, hmem, hslot, hiff⟩⟩

/-- **The data of a state is a cell, along every history, with callbacks that write.** Reads return the value
    last stored since the state was last entered — by the setter, by an in-place write, or by an *after*
    callback of the transition that entered it; writes of *before* callbacks are never seen. -/
theorem cell_refines_w (m : Machine) (hv : m.validate = .ok ()) (hg : m.GraphBuilt) (hp : m.PascalInj)
    (hf : m.FieldsNodup) (spec : StorageSpec) (hspec : spec ∈ m.storage) (a : DynAcc)
    (ha : a.reachable = [spec.stateName]) (hfld : a.field = spec.field) :
    ∀ (ops : List WOp) (d : DM) (st : Name × Option Nat) (h : Hist),
      (∀ op ∈ ops, WOpOk m op) → Rel m a spec.stateName d st →
      ∃ df, crunW m a d h ops = some (df, (srunW m spec.stateName spec.field st ops).2) ∧
        Rel m a spec.stateName df (srunW m spec.stateName spec.field st ops).1 := by
  intro ops
  induction ops with
  | nil => intro d st h _ hrel; exact ⟨d, rfl, hrel⟩
  | cons op rest ih =>
    intro d st h hall hrel
    obtain ⟨d', h', hc, hrel'⟩ := cstepW_refines m hv hg hp hf spec hspec a ha hfld d st hrel h op (hall op List.mem_cons_self)
    obtain ⟨df, hrun, hrelf⟩ := ih d' _ h' (fun o ho => hall o (List.mem_cons_of_mem _ ho)) hrel'
    refine ⟨df, ?_, ?_⟩
    · simp only [crunW, hc, hrun, Option.map_some, srunW]
    · simpa only [srunW] using hrelf

end SMV.RefineData
