import SMV.Props.RefineReply
import SMV.Props.C09
import SMV.Props.C04
/-
  The typestate API refines the same abstract machine.

  `RefineVeto` / `RefineReply` are about the dynamic wrapper. Here the caller holds a typed machine `M<s>` and
  calls the method of an event on it. The call type-checks exactly when the abstract machine has an edge for
  the event in `s` (method lookup in the emitted impl blocks, C02); then it returns `Ok(M<target>)` exactly when
  the abstract machine with vetoes fires, else `Err((the same machine, error))` with the abstract machine's
  error: the first vetoing around callback's, or `GuardFailed` naming the first blocking condition. Along a
  history the caller threads the machine it is handed back; an event whose method does not exist on the current
  type cannot be called and is skipped, as the abstract machine refuses it.
-/
namespace SMV.Refine
open SMV C01 C03 C06

/-- calling the method of `ev` on a typed machine; `none` when `M<state>` has no such method or the call does
    not return -/
def typedCall (env : Env) (m : Machine) (tm : TM) (ev : Event) (pay : Option Nat) (h : Hist) :
    Option ((TM × Option GuardError) × Hist) :=
  match (genTypestate m).findMethod tm.state ev.name with
  | none => none
  | some meth =>
    match run env (methodProg meth tm (if ev.payload.isSome then pay else none)) h with
    | (.done (.ok nm), h') => some ((nm, none), h')
    | (.done (.err old ge), h') => some ((old, some ge), h')
    | _ => none

/-- the abstract machine's typed reply on an edge: `none` = `Ok` -/
def specTypedReply (sc : Script) (edge : Edge) (e : Name) : Option GuardError :=
  match edge.around.find? (fun a => (sc.α a).isSome) with
  | some a =>
    match sc.α a with
    | some k => some ⟨callbackName k a, e, k⟩
    | none => none
  | none =>
    match (conds edge).find? (fun c => sc.σ c.1 != c.2) with
    | some c => some ⟨c.1, e, .guardFailed c.1⟩
    | none => none

theorem findMethod_eq_delta (m : Machine) (hv : m.validate = .ok ()) (hg : m.GraphBuilt)
    (s : Name) (hs : s ∈ m.states) (ev : Event) :
    (genTypestate m).findMethod s ev.name = (m.delta s ev.name).map (genMethod m) := by
  have hsn := validate_eventsSnake m hv
  have hnd := validate_states_nodup m hv
  rw [findMethod_typestate m hnd s hs, List.find?_map]
  congr 1
  apply find?_ext
  intro e he
  obtain ⟨ev', hev', hn, _⟩ := graph_event_mem m hg (s, e) (outgoing_mem_graph m s e he)
  simp only at hn
  have hts : toSnake e.event = e.event := by rw [hn]; exact toSnake_of_isSnake _ (hsn ev' hev')
  simp [Function.comp, hts]

/-- **One typed call refines one abstract step.** -/
theorem typed_step_refines (m : Machine) (hv : m.validate = .ok ()) (hg : m.GraphBuilt)
    (env : Env) (sc : Script) (hs : Scripted env sc)
    (tm : TM) (hst : tm.state ∈ m.states) (ev : Event) (pay : Option Nat) (h : Hist) :
    match m.delta tm.state ev.name with
    | none => typedCall env m tm ev pay h = none ∧ (genTypestate m).findMethod tm.state ev.name = none
    | some edge =>
      ∃ tm' h', typedCall env m tm ev pay h = some ((tm', specTypedReply sc edge ev.name), h') ∧
        tm'.state = (specStepV m sc tm.state ev.name).1 ∧
        ((specTypedReply sc edge ev.name).isNone = (specStepV m sc tm.state ev.name).2) ∧
        ((specTypedReply sc edge ev.name).isSome → tm' = tm) := by
  have hfm := findMethod_eq_delta m hv hg tm.state hst ev
  cases hdel : m.delta tm.state ev.name with
  | none =>
    rw [hdel] at hfm
    simp only [Option.map_none] at hfm
    simp only
    exact ⟨by simp only [typedCall, hfm], hfm⟩
  | some edge =>
    have hevn : edge.event = ev.name := by simpa using List.find?_some hdel
    rw [hdel] at hfm
    simp only [Option.map_some] at hfm
    simp only
    unfold specStepV specTypedReply
    simp only [hdel]
    by_cases har : ∀ a ∈ edge.around, sc.α a = none
    · rw [find_no_veto sc.α edge.around har]
      simp only
      by_cases hall : (∀ g ∈ edge.guards, sc.σ g = true) ∧ (∀ u ∈ edge.unl, sc.σ u = false)
      · obtain ⟨nm, h', hrun⟩ := fires_of_script m edge env sc hs tm (if ev.payload.isSome then pay else none) h har hall.1 hall.2
        obtain ⟨_, _, _, hnst, _⟩ := C04.success_trace m edge env tm _ h h' nm hrun
        rw [find_no_blocker sc.σ (conds edge) ((conds_agree_iff edge sc.σ).mpr hall)]
        have hb : ((edge.around.all fun a => (sc.α a).isNone) && (edge.guards.all fun g => sc.σ g) &&
            (edge.unl.all fun u => !sc.σ u)) = true := by
          simp only [Bool.and_eq_true, List.all_eq_true, Bool.not_eq_true', Option.isNone_iff_eq_none]
          exact ⟨⟨har, hall.1⟩, hall.2⟩
        simp only [hb, ↓reduceIte]
        refine ⟨nm, h', ?_, hnst, rfl, by simp⟩
        simp only [typedCall, hfm, hrun]
      · have hna : ¬ (∀ d ∈ conds edge, sc.σ d.1 = d.2) := fun h' => hall ((conds_agree_iff edge sc.σ).mp h')
        obtain ⟨pre, c, post, hsplit, hpre, hblk⟩ := first_blocker sc.σ (conds edge) hna
        have hab := allProceed_of_script hs m edge tm edge.around h har
        have hrun := first_block_general m edge env tm (if ev.payload.isSome then pay else none) h pre c post hsplit hab
          (allPass_of_sigma hs.1 tm _ _ _ (by
            intro x hx
            obtain ⟨y, hy, rfl⟩ := List.mem_map.mp hx
            rw [blockedBy_checkOf]
            have := hpre y hy
            cases hy2 : y.2 <;> simp_all))
          (by
            unfold Check.blocksAt
            have := hs.1 (h ++ (edge.around.map (aroundOf m edge)).map (abCall tm) ++
              (pre.map (checkOf m edge)).map (condCall tm (if ev.payload.isSome then pay else none)))
              (condCall tm (if ev.payload.isSome then pay else none) (checkOf m edge c)) rfl
            rw [this]
            simp only [condCall, checkOf]
            exact ⟨sc.σ c.1, rfl, blk_aux _ _ hblk⟩)
        rw [hsplit, find_first_blocker sc.σ pre c post hpre hblk]
        have hb : ((edge.around.all fun a => (sc.α a).isNone) && (edge.guards.all fun g => sc.σ g) &&
            (edge.unl.all fun u => !sc.σ u)) = false := by
          rw [Bool.eq_false_iff]
          intro hb
          simp only [Bool.and_eq_true, List.all_eq_true, Bool.not_eq_true', Option.isNone_iff_eq_none] at hb
          exact hall ⟨hb.1.2, hb.2⟩
        simp only [hb, Bool.false_eq_true, ↓reduceIte]
        rw [hevn] at hrun
        refine ⟨tm, h ++ (edge.around.map (aroundOf m edge)).map (abCall tm) ++
          ((pre ++ [c]).map (checkOf m edge)).map (condCall tm (if ev.payload.isSome then pay else none)), ?_, rfl, rfl, fun _ => rfl⟩
        simp only [typedCall, hfm, hrun]
    · obtain ⟨pre, cb, post, k, hsplit, hpre, hk⟩ := first_veto sc.α edge.around har
      have hab := allProceed_of_script hs m edge tm pre h hpre
      have habort : (env (h ++ (pre.map (aroundOf m edge)).map (abCall tm)) (abCall tm (aroundOf m edge cb))).val = .abort k := by
        have := hs.2.1 (h ++ (pre.map (aroundOf m edge)).map (abCall tm)) (abCall tm (aroundOf m edge cb)) rfl
        simp only [abCall, aroundOf, hk] at this
        exact this
      have hrun := before_abort m edge env tm (if ev.payload.isSome then pay else none) h pre cb post k hsplit hab habort
      have hsp : edge.around.find? (fun a => (sc.α a).isSome) = some cb := by
        rw [hsplit]; exact find_first_veto sc.α pre cb post k hpre hk
      rw [hsp]
      simp only [hk]
      have hb : ((edge.around.all fun a => (sc.α a).isNone) && (edge.guards.all fun g => sc.σ g) &&
          (edge.unl.all fun u => !sc.σ u)) = false := by
        rw [Bool.eq_false_iff]
        intro hb
        simp only [Bool.and_eq_true, List.all_eq_true, Bool.not_eq_true', Option.isNone_iff_eq_none] at hb
        exact har hb.1.1
      simp only [hb, Bool.false_eq_true, ↓reduceIte]
      rw [hevn] at hrun
      refine ⟨tm, h ++ ((pre ++ [cb]).map (aroundOf m edge)).map (abCall tm), ?_, rfl, rfl, fun _ => rfl⟩
      simp only [typedCall, hfm, hrun]

/-- a history through the typed API: the caller keeps the machine it is handed back (the new one on `Ok`, its
    own on `Err`); an event with no method on the current type is not callable and is skipped -/
def typedRun (m : Machine) : TM → List (Env × Event × Option Nat) → Hist → Option (TM × List Bool)
  | tm, [], _ => some (tm, [])
  | tm, (env, ev, pay) :: rest, h =>
    match (genTypestate m).findMethod tm.state ev.name with
    | none => (typedRun m tm rest h).map fun (tf, bs) => (tf, false :: bs)
    | some _ =>
      match typedCall env m tm ev pay h with
      | some ((tm', r), h') => (typedRun m tm' rest h').map fun (tf, bs) => (tf, r.isNone :: bs)
      | none => none

/-- **The typestate API refines the abstract machine, along every history.** -/
theorem typed_refines_spec (m : Machine) (hv : m.validate = .ok ()) (hg : m.GraphBuilt) :
    ∀ (xs : List ((Env × Script) × Event × Option Nat)) (tm : TM) (h : Hist),
      (∀ x ∈ xs, Scripted x.1.1 x.1.2) → tm.state ∈ m.states →
      ∃ tf, typedRun m tm (xs.map fun x => (x.1.1, x.2.1, x.2.2)) h =
          some (tf, (specRunV m tm.state (xs.map fun x => (x.1.2, x.2.1.name))).2) ∧
        tf.state = (specRunV m tm.state (xs.map fun x => (x.1.2, x.2.1.name))).1 := by
  intro xs
  induction xs with
  | nil => intro tm h _ _; exact ⟨tm, rfl, rfl⟩
  | cons x rest ih =>
    intro tm h hall hst
    obtain ⟨⟨env, sc⟩, ev, pay⟩ := x
    have hsc := hall _ (List.mem_cons_self)
    have hstep := typed_step_refines m hv hg env sc hsc tm hst ev pay h
    cases hdel : m.delta tm.state ev.name with
    | none =>
      rw [hdel] at hstep
      obtain ⟨_, hnone⟩ := hstep
      obtain ⟨tf, hrun, hfs⟩ := ih tm h (fun y hy => hall y (List.mem_cons_of_mem _ hy)) hst
      have hsp : specStepV m sc tm.state ev.name = (tm.state, false) := by simp [specStepV, hdel]
      refine ⟨tf, ?_, ?_⟩
      · simp only [List.map_cons, typedRun, hnone, hrun, Option.map_some, specRunV, hsp]
      · simpa only [List.map_cons, specRunV, hsp] using hfs
    | some edge =>
      rw [hdel] at hstep
      obtain ⟨tm', h', hcall, hst', hb, _⟩ := hstep
      have hfm := findMethod_eq_delta m hv hg tm.state hst ev
      rw [hdel] at hfm
      have hmem : tm'.state ∈ m.states := by
        rw [hst']
        unfold specStepV
        simp only [hdel]
        split
        · exact delta_target_mem m hv hg tm.state ev.name edge hdel
        · exact hst
      obtain ⟨tf, hrun, hfs⟩ := ih tm' h' (fun y hy => hall y (List.mem_cons_of_mem _ hy)) hmem
      refine ⟨tf, ?_, ?_⟩
      · simp only [List.map_cons, typedRun, hfm, Option.map_some, hcall, hrun, specRunV, hb, hst']
      · simp only [List.map_cons, specRunV]
        rw [← hst']
        exact hfs

end SMV.Refine
