import SMV.Lemmas.DynRun
/-
  C01 — The dynamic machine follows exactly the declared transition relation.

  Stated over the elaborated machine `m` (any validated machine whose graph was built from its
  own events — what `parseMachine` returns): `δ_M(s, e)` is the edge out of `s` for `e` in the
  transition graph. That the graph is the declared relation with superstate sources standing
  for all leaves beneath them and superstate targets for their initial leaf is C07
  (SMV/Props/C07.lean).
-/
namespace SMV.C01
open SMV

/-- `Dynamic<M>::new(ctx)` yields a wrapper in the declared initial state (a declared leaf) -/
theorem new_initial (m : Machine) (hv : m.validate = .ok ()) (ctx : Nat) :
    ∃ tm, dynNew m.code (partsOf m) ctx = some ⟨some (m.initial, tm)⟩ ∧ tm.state = m.initial ∧ tm.ctx = ctx ∧
      DynInv m ⟨some (m.initial, tm)⟩ := by
  have hi := validate_initial_mem m hv
  have hn := validate_states_nodup m hv
  unfold dynNew
  have h1 : alookup (partsOf m).initialVariant (partsOf m).anyVariants = some m.initial := by
    simp [partsOf, alookup_map_self m.initial m.states hi]
  rw [h1]
  simp only [Code.newTyped, findCtor_code m hn m.initial hi, ↓reduceIte, Option.map_some]
  exact ⟨_, rfl, rfl, rfl, _, _, rfl, rfl, hi⟩

/-- **One dispatch.** From a wrapper satisfying the invariant, for a declared event:
    * no transition from the current state ⇒ refused with `InvalidTransition` naming the state and the
      event, no hook runs, the wrapper is unchanged;
    * `Ok` ⇒ the event has a transition from the current state and the wrapper is now in its target;
    * `Err` ⇒ the wrapper is unchanged;
    and in every returning case the invariant holds again. -/
theorem handle_step (m : Machine) (hv : m.validate = .ok ()) (hg : m.GraphBuilt) (hp : m.PascalInj)
    (env : Env) (d : DM) (hinv : DynInv m d) (ev : Event) (hev : ev ∈ m.events) (pay : Option Nat) (h : Hist) :
    ∃ s, d.stateName = some s ∧ currentState (partsOf m) d = some s ∧
    ∀ d' r h', runHandle env m.code (partsOf m) d ⟨toPascal ev.name, pay⟩ h = ((d', .done r), h') →
      DynInv m d' ∧
      (m.delta s ev.name = none →
        r = .err (.invalidTransition (.name s) (.name ev.name)) ∧ d' = d ∧ h' = h) ∧
      (r = .ok → ∃ edge, m.delta s ev.name = some edge ∧ d'.stateName = some edge.target) ∧
      (∀ e, r = .err e → d' = d) := by
  obtain ⟨s, tm, hd, hst, hs⟩ := hinv
  have hdd : d = ⟨some (s, tm)⟩ := by cases d; simp_all
  subst hdd
  refine ⟨s, rfl, currentState_parts m _ s tm rfl hs, ?_⟩
  intro d' r h' hrun
  have hstep := runHandle_step m hv hg hp env s tm hst hs ev hev pay h
  cases hdel : m.delta s ev.name with
  | none =>
    simp only [hdel] at hstep
    rw [hstep] at hrun
    simp only [Prod.mk.injEq, Out.done.injEq] at hrun
    obtain ⟨⟨rfl, rfl⟩, rfl⟩ := hrun
    exact ⟨⟨s, tm, rfl, hst, hs⟩, fun _ => ⟨rfl, rfl, rfl⟩, fun h => by simp at h, fun _ _ => rfl⟩
  | some edge =>
    simp only [hdel] at hstep
    rcases hr : run env (methodProg (genMethod m edge) tm (if ev.payload.isSome then pay else none)) h with ⟨o, h2⟩
    rw [hr] at hstep
    cases o with
    | done mr =>
      cases mr with
      | ok nm =>
        simp only at hstep
        obtain ⟨he, hnst, htm⟩ := hstep
        rw [he] at hrun
        simp only [Prod.mk.injEq, Out.done.injEq] at hrun
        obtain ⟨⟨rfl, rfl⟩, rfl⟩ := hrun
        exact ⟨⟨edge.target, nm, rfl, hnst, htm⟩, fun h => by simp at h,
               fun _ => ⟨edge, rfl, rfl⟩, fun e h => by simp at h⟩
      | err old ge =>
        simp only at hstep
        obtain ⟨he, _⟩ := hstep
        rw [he] at hrun
        simp only [Prod.mk.injEq, Out.done.injEq] at hrun
        obtain ⟨⟨rfl, rfl⟩, rfl⟩ := hrun
        exact ⟨⟨s, tm, rfl, hst, hs⟩, fun h => by simp at h, fun h => by simp at h, fun _ _ => rfl⟩
    | panicked pi =>
      simp only at hstep
      rw [hstep] at hrun
      simp at hrun
    | abandoned => exact hstep.elim

/-! ### sequences of events -/

/-- dispatch a sequence of declared events; `none` if some dispatch panics -/
def runEvents (env : Env) (m : Machine) : DM → List (Event × Option Nat) → Hist → Option (DM × List HandleRes)
  | d, [], _ => some (d, [])
  | d, (ev, pay) :: rest, h =>
    match runHandle env m.code (partsOf m) d ⟨toPascal ev.name, pay⟩ h with
    | ((d', .done r), h') => (runEvents env m d' rest h').map fun (df, rs) => (df, r :: rs)
    | _ => none

/-- fold of the declared relation over the events that were accepted -/
def foldDelta (m : Machine) : Name → List (Event × Option Nat) → List HandleRes → Name
  | s, (ev, _) :: rest, r :: rs =>
    if r = .ok then
      match m.delta s ev.name with
      | some edge => foldDelta m edge.target rest rs
      | none => foldDelta m s rest rs
    else foldDelta m s rest rs
  | s, _, _ => s

/-- **C01.** After any finite sequence of declared events (each dispatch returning), the wrapper is
    in exactly the state obtained by folding the declared transitions over the accepted events, that
    state is a declared leaf and `current_state()` names it. -/
theorem follows_delta (m : Machine) (hv : m.validate = .ok ()) (hg : m.GraphBuilt) (hp : m.PascalInj) (env : Env) :
    ∀ (evs : List (Event × Option Nat)) (d : DM) (s : Name) (h : Hist) (df : DM) (rs : List HandleRes),
      (∀ x ∈ evs, x.1 ∈ m.events) → DynInv m d → d.stateName = some s →
      runEvents env m d evs h = some (df, rs) →
      DynInv m df ∧ df.stateName = some (foldDelta m s evs rs) ∧
      currentState (partsOf m) df = some (foldDelta m s evs rs) ∧ foldDelta m s evs rs ∈ m.states := by
  intro evs
  induction evs with
  | nil =>
    intro d s h df rs _ hinv hs hrun
    simp only [runEvents, Option.some.injEq, Prod.mk.injEq] at hrun
    obtain ⟨rfl, rfl⟩ := hrun
    obtain ⟨s', tm, hd, hst, hmem⟩ := hinv
    have : s' = s := by simp [DM.stateName, hd] at hs; exact hs
    subst this
    exact ⟨⟨s', tm, hd, hst, hmem⟩, hs, currentState_parts m d s' tm hd hmem, hmem⟩
  | cons x rest ih =>
    intro d s h df rs hall hinv hs hrun
    obtain ⟨ev, pay⟩ := x
    simp only [runEvents] at hrun
    rcases hr : runHandle env m.code (partsOf m) d ⟨toPascal ev.name, pay⟩ h with ⟨⟨d', o⟩, h'⟩
    rw [hr] at hrun
    cases o with
    | done r =>
      simp only [Option.map_eq_some_iff] at hrun
      obtain ⟨⟨df', rs'⟩, hrest, heq⟩ := hrun
      simp only [Prod.mk.injEq] at heq
      obtain ⟨rfl, rfl⟩ := heq
      obtain ⟨s0, hs0, _, hstep⟩ := handle_step m hv hg hp env d hinv ev (hall (ev, pay) (by simp)) pay h
      have : s0 = s := by rw [hs] at hs0; exact (Option.some.inj hs0).symm
      subst this
      obtain ⟨hinv', hnone, hok, herr⟩ := hstep d' r h' hr
      -- the state after this step, as foldDelta computes it
      have hnext : d'.stateName = some (match (if r = .ok then m.delta s0 ev.name else none) with
          | some edge => edge.target | none => s0) := by
        by_cases hrok : r = .ok
        · obtain ⟨edge, hde, hsn⟩ := hok hrok
          simp [hrok, hde, hsn]
        · simp only [hrok, ↓reduceIte]
          cases r with
          | ok => exact absurd rfl hrok
          | err e => rw [herr e rfl]; exact hs
      have := ih d' _ h' df' rs' (fun y hy => hall y (by simp [hy])) hinv' hnext hrest
      simp only [foldDelta]
      by_cases hrok : r = .ok
      · obtain ⟨edge, hde, _⟩ := hok hrok
        simp only [hrok, ↓reduceIte, hde] at this ⊢
        exact this
      · simp only [hrok, ↓reduceIte] at this ⊢
        exact this
    | panicked _ => simp at hrun
    | abandoned => simp at hrun

end SMV.C01
