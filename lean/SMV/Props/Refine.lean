import SMV.Props.C01
import SMV.Props.C03
/-
  Refinement to the abstract transition system.

  The specification a user has in mind is four lines: a current leaf state; an event fires iff the
  declared relation has an edge for it from that state and all its guards answer true and all its
  unless-conditions answer false; then the state becomes the edge's target; otherwise nothing changes.
  `refines_spec` proves that the generated dynamic machine — the emitted `handle` over the emitted typed
  methods, with every hook kind in play — is that system, for every validated machine, every sequence of
  declared events of any length and every sequence of hook environments (one per dispatch) whose
  conditions answer by a truth assignment and whose callbacks let the call through; and that under those
  environments every dispatch returns (no panic). `twin_refines_renamed_spec` (C18) transports it along
  an injective renaming of the states.
-/
namespace SMV.Refine
open SMV C01 C03

/-- the abstract machine: one step -/
def specStep (m : Machine) (σ : Name → Bool) (s : Name) (e : Name) : Name × Bool :=
  match m.delta s e with
  | none => (s, false)
  | some edge =>
    if (edge.guards.all fun g => σ g) && (edge.unl.all fun u => !σ u) then (edge.target, true) else (s, false)

/-- the abstract machine: a run; returns the final state and which events fired -/
def specRun (m : Machine) : Name → List ((Name → Bool) × Name) → Name × List Bool
  | s, [] => (s, [])
  | s, (σ, e) :: rest =>
    let (s', b) := specStep m σ s e
    let (sf, bs) := specRun m s' rest
    (sf, b :: bs)

/-- one dispatch per item, each under its own hook environment -/
def runEventsE (m : Machine) : DM → List (Env × Event × Option Nat) → Hist → Option (DM × List HandleRes)
  | d, [], _ => some (d, [])
  | d, (env, ev, pay) :: rest, h =>
    match runHandle env m.code (partsOf m) d ⟨toPascal ev.name, pay⟩ h with
    | ((d', .done r), h') => (runEventsE m d' rest h').map fun (df, rs) => (df, r :: rs)
    | _ => none

/-- the first condition whose answer blocks -/
theorem first_blocker (σ : Name → Bool) : ∀ (l : List (Name × Bool)), ¬ (∀ d ∈ l, σ d.1 = d.2) →
    ∃ pre c post, l = pre ++ c :: post ∧ (∀ d ∈ pre, σ d.1 = d.2) ∧ σ c.1 ≠ c.2 := by
  intro l
  induction l with
  | nil => intro h; exact absurd (fun _ hd => nomatch hd) h
  | cons x xs ih =>
    intro h
    by_cases hx : σ x.1 = x.2
    · have : ¬ ∀ d ∈ xs, σ d.1 = d.2 := by
        intro hall; apply h; intro d hd
        rcases List.mem_cons.mp hd with rfl | hd
        · exact hx
        · exact hall d hd
      obtain ⟨pre, c, post, rfl, hpre, hc⟩ := ih this
      refine ⟨x :: pre, c, post, rfl, ?_, hc⟩
      intro d hd
      rcases List.mem_cons.mp hd with rfl | hd
      · exact hx
      · exact hpre d hd
    · exact ⟨[], x, xs, rfl, (fun _ hd => nomatch hd), hx⟩

theorem conds_agree_iff (e : Edge) (σ : Name → Bool) :
    (∀ d ∈ conds e, σ d.1 = d.2) ↔ ((∀ g ∈ e.guards, σ g = true) ∧ (∀ u ∈ e.unl, σ u = false)) := by
  unfold conds
  constructor
  · intro h
    exact ⟨fun g hg => h (g, true) (by simp [hg]), fun u hu => h (u, false) (by simp [hu])⟩
  · rintro ⟨hg, hu⟩ d hd
    simp only [List.mem_append, List.mem_map] at hd
    rcases hd with ⟨g, hg', rfl⟩ | ⟨u, hu', rfl⟩
    · exact hg g hg'
    · exact hu u hu'

/-- **One dispatch refines one abstract step** and returns. -/
theorem step_refines (m : Machine) (hv : m.validate = .ok ()) (hg : m.GraphBuilt) (hp : m.PascalInj)
    (env : Env) (σ : Name → Bool) (hc : CondsAnswer env σ) (hperm : Permissive env)
    (d : DM) (hinv : DynInv m d) (s : Name) (hs : d.stateName = some s)
    (ev : Event) (hev : ev ∈ m.events) (pay : Option Nat) (h : Hist) :
    ∃ d' r h', runHandle env m.code (partsOf m) d ⟨toPascal ev.name, pay⟩ h = ((d', .done r), h') ∧
      DynInv m d' ∧ d'.stateName = some (specStep m σ s ev.name).1 ∧
      (decide (r = .ok)) = (specStep m σ s ev.name).2 := by
  obtain ⟨s0, tm, hd, hst, hmem⟩ := hinv
  have hdd : d = ⟨some (s0, tm)⟩ := by cases d; simp_all
  subst hdd
  have : s0 = s := by simpa [DM.stateName] using hs
  subst this
  have hstep := runHandle_step m hv hg hp env s0 tm hst hmem ev hev pay h
  unfold specStep
  cases hdel : m.delta s0 ev.name with
  | none =>
    simp only [hdel] at hstep
    exact ⟨_, _, _, hstep, ⟨s0, tm, rfl, hst, hmem⟩, rfl, by simp⟩
  | some edge =>
    simp only [hdel] at hstep
    simp only
    by_cases hall : (∀ g ∈ edge.guards, σ g = true) ∧ (∀ u ∈ edge.unl, σ u = false)
    · obtain ⟨nm, h', hrun⟩ := (fires_iff m edge env σ tm (if ev.payload.isSome then pay else none) h hc hperm).mpr hall
      rw [hrun] at hstep
      simp only at hstep
      obtain ⟨he, hnst, htm⟩ := hstep
      have hb : ((edge.guards.all fun g => σ g) && (edge.unl.all fun u => !σ u)) = true := by
        simp only [Bool.and_eq_true, List.all_eq_true, Bool.not_eq_true']
        exact hall
      rw [hb]
      exact ⟨_, _, _, he, ⟨edge.target, nm, rfl, hnst, htm⟩, rfl, by simp⟩
    · have hna : ¬ (∀ d ∈ conds edge, σ d.1 = d.2) := fun h' => hall ((conds_agree_iff edge σ).mp h')
      obtain ⟨pre, c, post, hsplit, hpre, hblk⟩ := first_blocker σ (conds edge) hna
      have hrun := first_block m edge env σ tm (if ev.payload.isSome then pay else none) h hc hperm pre c post hsplit hpre hblk
      rw [hrun] at hstep
      simp only at hstep
      obtain ⟨he, _⟩ := hstep
      have hb : ((edge.guards.all fun g => σ g) && (edge.unl.all fun u => !σ u)) = false := by
        rw [Bool.eq_false_iff]
        intro hb
        simp only [Bool.and_eq_true, List.all_eq_true, Bool.not_eq_true'] at hb
        exact hall hb
      rw [hb]
      exact ⟨_, _, _, he, ⟨s0, tm, rfl, hst, hmem⟩, rfl, by simp⟩

/-- what is asked of the hooks of one dispatch -/
def Tame (x : Env × (Name → Bool)) : Prop := CondsAnswer x.1 x.2 ∧ Permissive x.1

/-- **Refinement.** For every validated machine, from any wrapper in a declared state, every sequence of
    declared events dispatched under tame hook environments returns, the list of accepted events is
    the abstract machine's, the wrapper ends in the abstract machine's final state, and
    `current_state()` names it. -/
theorem refines_spec (m : Machine) (hv : m.validate = .ok ()) (hg : m.GraphBuilt) (hp : m.PascalInj) :
    ∀ (xs : List ((Env × (Name → Bool)) × Event × Option Nat)) (d : DM) (s : Name) (h : Hist),
      (∀ x ∈ xs, Tame x.1 ∧ x.2.1 ∈ m.events) → DynInv m d → d.stateName = some s →
      ∃ df rs, runEventsE m d (xs.map fun x => (x.1.1, x.2.1, x.2.2)) h = some (df, rs) ∧
        rs.map (fun r => decide (r = .ok)) = (specRun m s (xs.map fun x => (x.1.2, x.2.1.name))).2 ∧
        df.stateName = some (specRun m s (xs.map fun x => (x.1.2, x.2.1.name))).1 ∧
        currentState (partsOf m) df = some (specRun m s (xs.map fun x => (x.1.2, x.2.1.name))).1 ∧
        DynInv m df := by
  intro xs
  induction xs with
  | nil =>
    intro d s h _ hinv hs
    refine ⟨d, [], rfl, rfl, hs, ?_, hinv⟩
    obtain ⟨s', tm, hd, hst, hmem⟩ := hinv
    have : s' = s := by simpa [DM.stateName, hd] using hs
    subst this
    exact currentState_parts m d s' tm hd hmem
  | cons x rest ih =>
    intro d s h hall hinv hs
    obtain ⟨⟨env, σ⟩, ev, pay⟩ := x
    obtain ⟨⟨hc, hperm⟩, hev⟩ := hall _ (List.mem_cons_self)
    obtain ⟨d', r, h', hrun, hinv', hs', hr⟩ := step_refines m hv hg hp env σ hc hperm d hinv s hs ev hev pay h
    obtain ⟨df, rs, hrest, hrs, hfs, hcs, hinvf⟩ :=
      ih d' _ h' (fun y hy => hall y (List.mem_cons_of_mem _ hy)) hinv' hs'
    refine ⟨df, r :: rs, ?_, ?_, ?_, ?_, hinvf⟩
    · simp only [List.map_cons, runEventsE, hrun, hrest, Option.map_some]
    · simp only [List.map_cons, specRun, hr, hrs]
    · simpa only [List.map_cons, specRun] using hfs
    · simpa only [List.map_cons, specRun] using hcs

end SMV.Refine
