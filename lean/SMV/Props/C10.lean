import SMV.Lemmas.DynRun
import SMV.Ops
/-
  C10 — Mode conversions are exact and lossless.
-/
namespace SMV.C10
open SMV

/-- `into_dynamic()` wraps the typed machine, unchanged, under the variant of its own state, and the
    wrapper reports that state -/
theorem into_dynamic_state (m : Machine) (tm : TM) (hs : tm.state ∈ m.states) :
    intoDynamic (partsOf m) tm = some ⟨some (tm.state, tm)⟩ ∧
    currentState (partsOf m) ⟨some (tm.state, tm)⟩ = some tm.state := by
  constructor
  · simp [intoDynamic, partsOf, alookup_map_self tm.state m.states hs]
  · exact currentState_parts m _ tm.state tm rfl hs

/-- the `into_<s>()` method of a declared state matches exactly that state's variant -/
theorem extract_method (m : Machine) (s : Name) (hs : s ∈ m.states) (hn : m.states.Nodup) :
    (partsOf m).extract.find? (·.2.1 = s) = some (Name.lit "into_" ++ toSnake s, s, s) := by
  simp only [partsOf, List.find?_map]
  have : List.find? ((fun x : Name × Name × Name => decide (x.2.1 = s)) ∘ fun s => (Name.lit "into_" ++ toSnake s, s, s))
      m.states = some s := by
    clear hn
    generalize m.states = l at hs
    induction l with
    | nil => cases hs
    | cons x xs ih =>
      simp only [List.find?_cons, Function.comp]
      by_cases hx : x = s
      · simp [hx]
      · simp only [hx, decide_false]
        rcases List.mem_cons.mp hs with rfl | hs
        · exact absurd rfl hx
        · exact ih hs
  rw [this]
  rfl

/-- **`into_<s>()` succeeds iff the wrapper is in `s`**; on success it yields the wrapped machine itself,
    on mismatch (including a poisoned wrapper) it hands the wrapper back unchanged. -/
theorem extract_iff (s : Name) (d : DM) :
    (∀ tm, dynExtract s d = .ok tm ↔ d.inner = some (s, tm)) ∧
    (∀ d', dynExtract s d = .error d' → d' = d) := by
  constructor
  · intro tm
    unfold dynExtract
    cases hd : d.inner with
    | none => simp
    | some x =>
      obtain ⟨tag, m⟩ := x
      by_cases ht : tag = s
      · simp [ht]
      · simp [ht]
  · intro d' h
    unfold dynExtract at h
    split at h
    · split at h <;> simp at h
      exact h.symm
    · simp at h; exact h.symm

/-- **Round trips are the identity**, in both directions. -/
theorem roundtrip (m : Machine) (tm : TM) (hs : tm.state ∈ m.states) :
    (intoDynamic (partsOf m) tm).map (dynExtract tm.state) = some (.ok tm) ∧
    (match dynExtract tm.state ⟨some (tm.state, tm)⟩ with
     | .ok tm' => intoDynamic (partsOf m) tm' = some ⟨some (tm.state, tm)⟩
     | .error _ => False) := by
  have h := (into_dynamic_state m tm hs).1
  constructor
  · rw [h]; simp [dynExtract]
  · simp [dynExtract, h]

/-- a default-constructed wrapper is `new(Default::default())` -/
theorem default_is_new (env : Env) (c : Code) (p : Option DynParts) (hold : Holder) :
    step env c p hold .dynDefault = step env c p hold (.newDyn 0) := rfl

/-- conversions run no hook and drop nothing -/
theorem conversions_silent (env : Env) (c : Code) (p : Option DynParts) (hold : Holder) (s : Name) :
    (step env c p hold (.into s)).trace = [] ∧ (step env c p hold (.into s)).drops = [] ∧
    (step env c p hold .toDyn).trace = [] ∧ (step env c p hold .toDyn).drops = [] := by
  refine ⟨?_, ?_, ?_, ?_⟩ <;> (simp only [step]; repeat (first | rfl | split))

/-- the typed machine inside whatever the caller holds -/
def Holder.tm? : Holder → Option TM
  | .typed tm => some tm
  | .dyn ⟨some (_, tm)⟩ => some tm
  | _ => none

def Op.isConversion : Op → Bool
  | .into _ | .toDyn => true
  | _ => false

/-- **One conversion** (successful or refused, in either direction) leaves the machine itself — state,
    context, every data slot — exactly as it was, runs no hook and drops nothing. -/
theorem conversion_step (m : Machine) (env : Env) (hold : Holder) (op : Op) (hc : Op.isConversion op = true)
    (hwf : ∀ tm, Holder.tm? hold = some tm → tm.state ∈ m.states) :
    Holder.tm? (step env m.code (some (partsOf m)) hold op).holder = Holder.tm? hold ∧
    (step env m.code (some (partsOf m)) hold op).trace = [] ∧ (step env m.code (some (partsOf m)) hold op).drops = [] := by
  cases op with
  | into s =>
    cases hold with
    | typed tm => exact ⟨rfl, rfl, rfl⟩
    | gone => exact ⟨rfl, rfl, rfl⟩
    | dyn d =>
      simp only [step]
      cases hfx : (partsOf m).extract.find? (·.2.1 = s) with
      | none => exact ⟨rfl, rfl, rfl⟩
      | some x =>
        obtain ⟨_, _, variant⟩ := x
        simp only
        cases hx : dynExtract variant d with
        | ok tm =>
          have := ((extract_iff variant d).1 tm).mp hx
          obtain ⟨inner⟩ := d
          simp only at this
          subst this
          exact ⟨rfl, rfl, rfl⟩
        | error d' =>
          have := (extract_iff variant d).2 d' hx
          subst this
          exact ⟨rfl, rfl, rfl⟩
  | toDyn =>
    cases hold with
    | dyn d => exact ⟨rfl, rfl, rfl⟩
    | gone => exact ⟨rfl, rfl, rfl⟩
    | typed tm =>
      simp only [step]
      rw [(into_dynamic_state m tm (hwf tm rfl)).1]
      exact ⟨rfl, rfl, rfl⟩
  | _ => simp [Op.isConversion] at hc

/-- **Any chain of conversions is lossless.** -/
theorem conversion_chain (m : Machine) (env : Env) :
    ∀ (ops : List Op) (hold : Holder), (∀ op ∈ ops, Op.isConversion op = true) →
      (∀ tm, Holder.tm? hold = some tm → tm.state ∈ m.states) →
      Holder.tm? (ops.foldl (fun h op => (step env m.code (some (partsOf m)) h op).holder) hold) = Holder.tm? hold := by
  intro ops
  induction ops with
  | nil => intro hold _ _; rfl
  | cons op rest ih =>
    intro hold hall hwf
    simp only [List.foldl_cons]
    obtain ⟨h1, _, _⟩ := conversion_step m env hold op (hall op (by simp)) hwf
    rw [ih _ (fun o ho => hall o (by simp [ho])) (by rw [h1]; exact hwf), h1]


end SMV.C10
