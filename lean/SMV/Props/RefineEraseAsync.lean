import SMV.Props.RefineErase
import SMV.Props.RefineAsync
import SMV.Props.C15Valid
/-
  Conversion erasure for `async: true` machines, under any suspension schedule, for arbitrary hooks.

  Every dispatch — through `handle(..).await` or through the typed method's future — is driven to completion by an
  executor that finds the i-th awaited hook `Pending` as often as its schedule says. Whatever the schedules, the
  hooks and the interleaving of conversions: the history ends with the same machine carried and the same hook trace
  as the *synchronous* expansion's pure-`handle` history over the same events (C15 composed with
  `Refine.conversion_erasure`): sync/async, typed/dynamic and conversions are all invisible at once.
-/
namespace SMV.Refine
open SMV C01 C03 C10 C15 RefineAsync

inductive AOp where
  | call (env : Env) (sched : List Nat) (ev : Event) (pay : Option Nat)
  | convert

/-- the same operation without its schedule -/
def AOp.forget : AOp → GOp
  | .call env _ ev pay => .call env ev pay
  | .convert => .convert

def gStepA (m : Machine) : Hold2 → AOp → Hist → Option (Hold2 × Hist)
  | .dyn d, .call env sched ev pay, h =>
    match runHandleAsync env sched m.code (partsOf m) d ⟨toPascal ev.name, pay⟩ h with
    | ((d', .done _), h') => some (.dyn d', h')
    | _ => none
  | .typed tm, .call env sched ev pay, h =>
    match (genTypestate m).findMethod tm.state ev.name with
    | none => some (.typed tm, h)
    | some meth =>
      match (runAsync env sched (methodProg meth tm (if ev.payload.isSome then pay else none)) h 0).1 with
      | (.done (.ok nm), h') => some (.typed nm, h')
      | (.done (.err old _), h') => some (.typed old, h')
      | _ => none
  | hd, .convert, h => gStep m hd .convert h

def gRunA (m : Machine) : Hold2 → List AOp → Hist → Option (Hold2 × Hist)
  | hd, [], h => some (hd, h)
  | hd, op :: rest, h =>
    match gStepA m hd op h with
    | none => none
    | some (hd', h') => gRunA m hd' rest h'

def AOpOk (m : Machine) : AOp → Prop
  | .call _ _ ev _ => ev ∈ m.events
  | .convert => True

theorem good_syncTwin (m : Machine) (hd : Hold2) : Good (syncTwin m) hd ↔ Good m hd := by
  cases hd <;> exact Iff.rfl

/-- one asynchronous operation is the synchronous expansion's operation, whatever the schedule -/
theorem gStepA_eq (m : Machine) (hv : m.validate = .ok ()) (hv' : (syncTwin m).validate = .ok ())
    (hg : m.GraphBuilt) (hp : m.PascalInj) (hd : Hold2) (hgood : Good m hd) (op : AOp) (hop : AOpOk m op) (h : Hist) :
    gStepA m hd op h = gStep (syncTwin m) hd op.forget h := by
  have hg' : (syncTwin m).GraphBuilt := hg
  cases op with
  | convert =>
    cases hd with
    | typed tm => rfl
    | dyn d => rfl
  | call env sched ev pay =>
    cases hd with
    | dyn d =>
      obtain ⟨tm, rfl, hs⟩ := hgood
      have hinv : DynInv m ⟨some (tm.state, tm)⟩ := ⟨tm.state, tm, rfl, rfl, hs⟩
      simp only [gStepA, AOp.forget, gStep]
      rw [runHandleAsync_eq m hv hv' hg hp env sched _ hinv ev hop pay h]
      generalize runHandle env (syncTwin m).code (partsOf (syncTwin m)) ⟨some (tm.state, tm)⟩ ⟨toPascal ev.name, pay⟩ h = r
      obtain ⟨⟨d', o⟩, h'⟩ := r
      cases o <;> rfl
    | typed tm =>
      have h1 := findMethod_eq_delta m hv hg tm.state hgood ev
      have h2 := findMethod_eq_delta (syncTwin m) hv' hg' tm.state hgood ev
      have hdel : (syncTwin m).delta tm.state ev.name = m.delta tm.state ev.name := rfl
      simp only [gStepA, AOp.forget, gStep]
      rw [h1, h2, hdel]
      cases m.delta tm.state ev.name with
      | none => rfl
      | some edge =>
        simp only [Option.map_some]
        rw [async_method_eq_sync m edge env tm _ h sched 0]
        generalize run env (methodProg (genMethod (syncTwin m) edge) tm (if ev.payload.isSome then pay else none)) h = r
        obtain ⟨o, h'⟩ := r
        cases o with
        | done mr => cases mr <;> rfl
        | panicked pi => rfl
        | abandoned => rfl

/-- what an operation leaves is usable again (or the history has ended) -/
theorem gStep_good (m : Machine) (hv : m.validate = .ok ()) (hg : m.GraphBuilt) (hp : m.PascalInj)
    (hd : Hold2) (hgood : Good m hd) (op : GOp) (hop : GOpOk m op) (h : Hist) (hd' : Hold2) (h' : Hist)
    (hstep : gStep m hd op h = some (hd', h')) : Good m hd' := by
  cases op with
  | convert =>
    obtain ⟨hd2, h2, _, hg2⟩ := gStep_convert m hd hgood h
    rw [h2] at hstep
    cases hstep
    exact hg2
  | call env ev pay =>
    rcases gStep_call m hv hg hp hd hgood env ev hop pay h with ⟨h1, _⟩ | ⟨hd2, h2, h1, _, hg2⟩
    · rw [h1] at hstep; cases hstep
    · rw [h1] at hstep
      cases hstep
      exact hg2

theorem gRunA_eq (m : Machine) (hv : m.validate = .ok ()) (hv' : (syncTwin m).validate = .ok ())
    (hg : m.GraphBuilt) (hp : m.PascalInj) :
    ∀ (ops : List AOp) (hd : Hold2) (h : Hist), (∀ op ∈ ops, AOpOk m op) → Good m hd →
      gRunA m hd ops h = gRun (syncTwin m) hd (ops.map AOp.forget) h := by
  have hg' : (syncTwin m).GraphBuilt := hg
  have hp' : (syncTwin m).PascalInj := hp
  intro ops
  induction ops with
  | nil => intro hd h _ _; rfl
  | cons op rest ih =>
    intro hd h hall hgood
    have hop := hall op List.mem_cons_self
    have hstep := gStepA_eq m hv hv' hg hp hd hgood op hop h
    simp only [gRunA, List.map_cons, gRun, hstep]
    cases hs : gStep (syncTwin m) hd op.forget h with
    | none => rfl
    | some r =>
      obtain ⟨hd', h'⟩ := r
      have hop' : GOpOk (syncTwin m) op.forget := by cases op <;> exact hop
      have hgood' := gStep_good (syncTwin m) hv' hg' hp' hd ((good_syncTwin m hd).mpr hgood) op.forget hop' h hd' h' hs
      exact ih hd' h' (fun o ho => hall o (List.mem_cons_of_mem _ ho)) ((good_syncTwin m hd').mp hgood')

/-- **Sync/async, typed/dynamic and conversions are invisible at once.** An `async: true` machine driven through
    either API with conversions interleaved, every dispatch under its own suspension schedule and arbitrary hooks,
    ends with the same machine carried after the same hook trace as the synchronous expansion's wrapper over the
    same events — or both are ended by a hook panic. -/
theorem async_conversion_erasure (m : Machine) (hv : m.validate = .ok ()) (hv' : (syncTwin m).validate = .ok ())
    (hg : m.GraphBuilt) (hp : m.PascalInj) (ops : List AOp) (hd : Hold2) (h : Hist)
    (hall : ∀ op ∈ ops, AOpOk m op) (hgood : Good m hd) :
    obs (gRunA m hd ops h) =
      obs (gRun (syncTwin m) hd.asDyn ((ops.map AOp.forget).filter GOp.isCall) h) := by
  rw [gRunA_eq m hv hv' hg hp ops hd h hall hgood]
  apply conversion_erasure (syncTwin m) hv' hg hp
  · intro o ho
    obtain ⟨a, ha, rfl⟩ := List.mem_map.mp ho
    have := hall a ha
    cases a <;> exact this
  · exact (good_syncTwin m hd).mpr hgood

/-- the same, with the twin's validity discharged (`C15.syncTwin_valid`) -/
theorem async_conversion_erasure_v (m : Machine) (hv : m.validate = .ok ()) (hg : m.GraphBuilt) (hp : m.PascalInj)
    (ops : List AOp) (hd : Hold2) (h : Hist) (hall : ∀ op ∈ ops, AOpOk m op) (hgood : Good m hd) :
    obs (gRunA m hd ops h) =
      obs (gRun (syncTwin m) hd.asDyn ((ops.map AOp.forget).filter GOp.isCall) h) :=
  async_conversion_erasure m hv (syncTwin_valid m hv) hg hp ops hd h hall hgood

end SMV.Refine
