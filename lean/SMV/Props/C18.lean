import SMV.Lemmas.Rename
import SMV.Lemmas.Handle
/-
  C18 — Behaviour does not depend on the identifiers chosen.

  PARTIAL in Lean (DESIGN §7 C18). Proved here: the front end looks at state and superstate names only
  through equality, so an injective renaming commutes with parsing the states section, with building
  the transition graph and with the transition function `δ_M` — the declared relation of the renamed
  definition is the renamed declared relation. Together with C01–C16, which hold for *every* validated
  machine whatever its names (under the stated no-collision side conditions N1/N2), the renamed machine
  behaves as the renamed specification. What Lean does not carry is rustc's name resolution when a chosen
  identifier coincides with one used *inside* the generated code (generic parameters `C`, `S`, prelude
  names): those are probed by T4 `rename` (adversarial pool × context mode × dynamic, each compared with
  its neutral twin over the whole probe matrix) and the T2 corpus draws its identifiers from the same pool.
-/
namespace SMV.C18
open SMV

/-- **The states section of the renamed definition parses to the renamed result.** -/
theorem parseStates_rename (ρ : Name → Name) (hρ : Function.Injective ρ) :
    ∀ (items : List TItem) (st : PS),
      parseStates (items.map (renT ρ)) (renPS ρ st) =
        (match parseStates items st with
         | .ok st' => .ok (renPS ρ st')
         | .error e => .error e) := by
  intro items
  induction items with
  | nil => intro st; simp [parseStates]
  | cons x xs ih =>
    intro st
    cases x with
    | leaf n d =>
      simp only [List.map_cons, renT]
      by_cases hdup : st.seen.contains n = true
      · have hd' : (renPS ρ st).seen.contains (ρ n) = true := by
          simp only [renPS]; rw [contains_map_inj ρ hρ]; exact hdup
        rw [parseStates, if_pos hd', parseStates, if_pos hdup]
      · have hf' : ¬ (renPS ρ st).seen.contains (ρ n) = true := by
          simp only [renPS]; rw [contains_map_inj ρ hρ]; exact hdup
        rw [parseStates, if_neg hf', parseStates, if_neg hdup]
        simp only
        rw [← ih]
        congr 1
        rw [← pushStorage_ren]
        congr 1
        simp only [renPS, List.map_append, List.map_cons, List.map_nil]
        have := registerLeaf_ren ρ st.hier n []
        simp only [List.map_nil] at this
        rw [this]
    | sup n d body =>
      simp only [List.map_cons, renT]
      by_cases hdup : st.seen.contains n = true
      · have hd' : (renPS ρ st).seen.contains (ρ n) = true := by
          simp only [renPS]; rw [contains_map_inj ρ hρ]; exact hdup
        rw [parseStates, if_pos hd', parseStates, if_pos hdup]
      · have hf' : ¬ (renPS ρ st).seen.contains (ρ n) = true := by
          simp only [renPS]; rw [contains_map_inj ρ hρ]; exact hdup
        rw [parseStates, if_neg hf', parseStates, if_neg hdup]
        simp only
        have h2 := (parse_ren ρ hρ).2 n [] body
          (PS.pushStorage ⟨st.hier, st.leaves, n :: st.seen, st.storage⟩ n d)
        simp only [List.map_nil] at h2
        rw [mkPS_ren, h2]
        cases hs : parseSuper n [] body (PS.pushStorage ⟨st.hier, st.leaves, n :: st.seen, st.storage⟩ n d) with
        | error e => rfl
        | ok r =>
          obtain ⟨st3, dd, i⟩ := r
          simp only [renRes2]
          rw [← ih]
          congr 1
          simp only [renPS]
          rw [← registerSuperstate_ren]

/-- **The transition graph of the renamed definition is the renamed transition graph.** -/
theorem graph_rename (ρ : Name → Name) (hρ : Function.Injective ρ) (h : Hierarchy) (states : List Name)
    (events : List Event) :
    buildGraph (renH ρ h) (states.map ρ) (events.map (renEv ρ)) =
      (buildGraph h states events).map fun (s, e) => (ρ s, renEdge ρ e) :=
  buildGraph_ren ρ hρ h states events

/-- **`δ` commutes with renaming**: from the renamed state, the renamed machine takes the renamed edge. -/
theorem delta_rename (ρ : Name → Name) (hρ : Function.Injective ρ) (m m' : Machine)
    (hg : m'.graph = m.graph.map fun (s, e) => (ρ s, renEdge ρ e)) (s e : Name) :
    m'.delta (ρ s) e = (m.delta s e).map (renEdge ρ) := by
  unfold Machine.delta Machine.outgoing
  rw [hg]
  generalize m.graph = g
  induction g with
  | nil => rfl
  | cons x xs ih =>
    obtain ⟨s', edge⟩ := x
    simp only [List.map_cons, List.filter_cons]
    by_cases hs : s' = s
    · subst hs
      simp only [decide_true, ↓reduceIte, List.map_cons, List.find?_cons]
      by_cases hev : edge.event = e
      · simp [hev, renEdge]
      · have : ¬ (renEdge ρ edge).event = e := hev
        simp only [hev, this, decide_false]
        exact ih
    · have hne : ¬ ρ s' = ρ s := fun h' => hs (hρ h')
      simp only [hs, hne, decide_false]
      exact ih

end SMV.C18
