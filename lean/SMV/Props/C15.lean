import SMV.Lemmas.DynRun
/-
  C15 — Async machines behave exactly like their sync counterparts.

  The `Send` clause of the property is not a statement about this model: it is established by
  rustc on the probe crates (T4 `assert_send`), see DESIGN §7 C15.
-/
namespace SMV.C15
open SMV

/-- Suspensions do not matter: under any schedule (hook `i` is `Pending` `sched[i]` times before it
    completes) an awaited program yields exactly what synchronous execution yields — same result, same
    hook trace; hooks are run one at a time, in order, none skipped, none started before the previous
    one completed. -/
theorem runAsync_eq_run {α : Type} (env : Env) (p : Prog α) :
    ∀ (sched : List Nat) (h : Hist) (n : Nat), (runAsync env sched p h n).1 = run env p h := by
  induction p with
  | ret a => intros; rfl
  | panic pi => intros; rfl
  | call c k ih =>
    intro s h n
    simp only [runAsync, run]
    cases hr : (env h c).val <;> simp [ih]

/-- the machine with `async: true` removed -/
def syncTwin (m : Machine) : Machine := { m with asyncMode := false }

theorem callsProg_erase (kind : HK) (a : Bool) (pp : Bool) (payload : Option Nat) (k : TM → Prog MethodRes) :
    ∀ (l : List Name) (recv : TM),
      callsProg kind a recv payload (l.map fun cb => ⟨cb, pp, a⟩) k =
      callsProg kind false recv payload (l.map fun cb => ⟨cb, pp, false⟩) k := by
  intro l
  induction l with
  | nil => intro recv; rfl
  | cons x xs ih =>
    intro recv
    simp only [List.map_cons, callsProg]
    cases a <;> simp [ih]

theorem checksProg_erase (self : TM) (payload : Option Nat) (k : Prog MethodRes) (f : Name → Bool × Bool × Name) (a : Bool) :
    ∀ (l : List Name),
      checksProg self payload (l.map fun g => ⟨g, (f g).1, (f g).2.1, a, g, (f g).2.2⟩) k =
      checksProg self payload (l.map fun g => ⟨g, (f g).1, (f g).2.1, false, g, (f g).2.2⟩) k := by
  intro l
  induction l with
  | nil => rfl
  | cons x xs ih => simp only [List.map_cons, checksProg, ih]

theorem aroundBeforeProg_erase (self : TM) (k : Prog MethodRes) (ev : Name) (a : Bool) :
    ∀ (l : List Name),
      aroundBeforeProg self (l.map fun cb => ⟨cb, a, cb, ev⟩) k =
      aroundBeforeProg self (l.map fun cb => ⟨cb, false, cb, ev⟩) k := by
  intro l
  induction l with
  | nil => rfl
  | cons x xs ih => simp only [List.map_cons, aroundBeforeProg, ih]

theorem aroundAfterProg_erase (nm : TM) (k : Prog MethodRes) (ev : Name) (a : Bool) :
    ∀ (l : List Name),
      aroundAfterProg nm (l.map fun cb => ⟨cb, a, cb, ev⟩) k =
      aroundAfterProg nm (l.map fun cb => ⟨cb, false, cb, ev⟩) k := by
  intro l
  induction l with
  | nil => rfl
  | cons x xs ih => simp only [List.map_cons, aroundAfterProg, ih]

/-- **The async expansion of an edge means the same program as the sync expansion**: the separately
    written async branches of the generator add `.await` to every hook call and nothing else. -/
theorem methodProg_async_erase (m : Machine) (e : Edge) (self : TM) (payload : Option Nat) :
    methodProg (genMethod m e) self payload = methodProg (genMethod (syncTwin m) e) self payload := by
  unfold methodProg
  rw [genMethod_aroundBefore, genMethod_aroundBefore, genMethod_aroundAfter, genMethod_aroundAfter,
      genMethod_checks, genMethod_checks, genMethod_before, genMethod_before, genMethod_after, genMethod_after]
  simp only [genMethod_isAsync, syncTwin]
  rw [aroundBeforeProg_erase]
  congr 1
  have hchecks : ∀ (a : Bool) (k : Prog MethodRes),
      checksProg self payload
        (e.guards.map (fun g => (⟨g, true, e.payload.isSome, a, g, e.event⟩ : Check)) ++
         e.unl.map (fun g => ⟨g, false, e.payload.isSome, a, g, e.event⟩)) k =
      checksProg self payload
        (e.guards.map (fun g => (⟨g, true, e.payload.isSome, false, g, e.event⟩ : Check)) ++
         e.unl.map (fun g => ⟨g, false, e.payload.isSome, false, g, e.event⟩)) k := by
    intro a k
    have happ : ∀ (l1 l2 : List Check) (k : Prog MethodRes),
        checksProg self payload (l1 ++ l2) k = checksProg self payload l1 (checksProg self payload l2 k) := by
      intro l1
      induction l1 with
      | nil => intros; rfl
      | cons x xs ih => intro l2 k; simp only [List.cons_append, checksProg, ih]
    rw [happ, happ]
    rw [checksProg_erase self payload _ (fun _ => (true, e.payload.isSome, e.event)) a,
        checksProg_erase self payload _ (fun _ => (false, e.payload.isSome, e.event)) a]
  rw [hchecks]
  congr 1
  rw [callsProg_erase]
  congr 1
  funext self'
  have hc : construct (genMethod m e) self' = construct (genMethod { m with asyncMode := false } e) self' := rfl
  rw [hc, callsProg_erase]
  congr 1
  funext nm
  rw [aroundAfterProg_erase]

/-- **C15, typed methods.** For every edge, receiver, payload, history, hook environment and suspension
    schedule, the async method yields what the sync method of the same definition yields: same result
    (state, data, error), same hook trace with what each hook saw. -/
theorem async_method_eq_sync (m : Machine) (e : Edge) (env : Env) (self : TM) (payload : Option Nat) (h : Hist)
    (sched : List Nat) (n : Nat) :
    (runAsync env sched (methodProg (genMethod m e) self payload) h n).1 =
      run env (methodProg (genMethod (syncTwin m) e) self payload) h := by
  rw [runAsync_eq_run, methodProg_async_erase]

/-- **C15, dynamic dispatch.** The same for `handle`: the async wrapper's dispatch, under any schedule,
    equals the sync wrapper's. -/
theorem async_handle_eq_sync (m : Machine) (hv : m.validate = .ok ()) (hv' : (syncTwin m).validate = .ok ())
    (hg : m.GraphBuilt) (hp : m.PascalInj)
    (env : Env) (s : Name) (hs : s ∈ m.states) (ev : Event) (hev : ev ∈ m.events) (tm : TM) (pay : Option Nat)
    (h : Hist) (sched : List Nat) (n : Nat) :
    (runAsync env sched (handleProg m.code (partsOf m) s tm ⟨toPascal ev.name, pay⟩) h n).1 =
      run env (handleProg (syncTwin m).code (partsOf (syncTwin m)) s tm ⟨toPascal ev.name, pay⟩) h := by
  rw [runAsync_eq_run]
  have hg' : (syncTwin m).GraphBuilt := hg
  have hp' : (syncTwin m).PascalInj := hp
  rw [handleProg_eq m hv hg hp s hs ev hev tm pay, handleProg_eq (syncTwin m) hv' hg' hp' s hs ev hev tm pay]
  have hdel : (syncTwin m).delta s ev.name = m.delta s ev.name := rfl
  rw [hdel]
  cases m.delta s ev.name with
  | none => rfl
  | some edge => simp only [methodProg_async_erase m edge]

end SMV.C15
