import SMV.Props.C13Complete
import SMV.Props.RefineReply
import SMV.Props.C07Decl
/-
  From the definition as written to the behaviour of the emitted wrapper, in one statement.

  A definition that satisfies the rules (the parser's, on the text; the validator's, on what was parsed) is
  expanded — the macro does not refuse it — and, where the generated names do not collide (N1), the wrapper
  created by `new` answers every history of declared events, under any scripted hooks, with exactly the
  abstract machine's replies and ends in the abstract machine's state; the abstract machine's transition
  function is the relation written in the definition (superstate sources expanded, superstate targets
  resolved). This composes `macro_accepts` (C13 ⇐ / C14), `new_initial` (C01), `replies_refine` and
  `refines_spec_veto` (C01, C03, C05, C06, C09, C12 along histories) and `delta_declared` (C07).
-/
namespace SMV.EndToEnd
open SMV C01 Refine

theorem end_to_end (d : Def) (h : ParserRules d) (hv : ∀ m, parseMachine d = .ok m → C13.Valid m) :
    ∃ m, parseMachine d = .ok m ∧ m.validate = .ok () ∧
      -- the abstract machine's edges are declared ones
      (∀ s e edge, m.delta s e = some edge →
        ∃ items, lastStates d none = some items ∧
        ∃ ev ∈ m.events, ev.name = e ∧ ∃ tr ∈ ev.transitions, ∃ src ∈ tr.sources,
          ((src = s ∧ s ∈ allLeaves items) ∨ (∃ ls, leavesUnder items src = some ls ∧ s ∈ ls)) ∧
          ((edge.target = tr.target ∧ tr.target ∈ allLeaves items) ∨ initialLeaf items tr.target = some edge.target)) ∧
      -- and the emitted wrapper is that machine
      (m.PascalInj → ∀ (ctx : Nat), ∃ d0, dynNew m.code (partsOf m) ctx = some d0 ∧ d0.stateName = some m.initial ∧
        ∀ (xs : List ((Env × Script) × Event × Option Nat)) (hist : Hist),
          (∀ x ∈ xs, Scripted x.1.1 x.1.2 ∧ x.2.1 ∈ m.events) →
          ∃ df, runEventsE m d0 (xs.map fun x => (x.1.1, x.2.1, x.2.2)) hist =
              some (df, specReplies m m.initial (xs.map fun x => (x.1.2, x.2.1.name))) ∧
            df.stateName = some (specRunV m m.initial (xs.map fun x => (x.1.2, x.2.1.name))).1 ∧
            currentState (partsOf m) df = some (specRunV m m.initial (xs.map fun x => (x.1.2, x.2.1.name))).1) := by
  obtain ⟨m, hp, hval⟩ := macro_accepts d h hv
  have hg := parseMachine_graphBuilt d m hp
  refine ⟨m, hp, hval, ?_, ?_⟩
  · intro s e edge hd
    obtain ⟨items, hl, ev, hev, hn, tr, htr, src, hsrc, h1, h2, _⟩ := C07.delta_declared d m hp hval s e edge hd
    exact ⟨items, hl, ev, hev, hn, tr, htr, src, hsrc, h1, h2⟩
  · intro hpi ctx
    obtain ⟨tm, hnew, _, _, hinv⟩ := new_initial m hval ctx
    refine ⟨_, hnew, rfl, ?_⟩
    intro xs hist hall
    obtain ⟨df, hrun⟩ := replies_refine m hval hg hpi xs _ m.initial hist hall hinv rfl
    obtain ⟨df', rs, hrun', _, hfs, hcs, _⟩ := refines_spec_veto m hval hg hpi xs _ m.initial hist hall hinv rfl
    rw [hrun] at hrun'
    have hdf : df = df' := by
      have := Option.some.inj hrun'
      exact congrArg Prod.fst this
    subst hdf
    exact ⟨df, hrun, hfs, hcs⟩

end SMV.EndToEnd
