import SMV.Props.C15
/-
  The synchronous twin of a validated machine validates: validation never reads `async`.
  The async theorems (C15, RefineAsync*, RefineTypedAsync, RefineEraseAsync) take the twin's validity as a
  hypothesis `hv'`; by `validate_syncTwin` it is always met, so none of them is conditional on it.
-/
namespace SMV.C15
open SMV

theorem validateSources_syncTwin (m : Machine) : ∀ l, validateSources (syncTwin m) l = validateSources m l := by
  intro l
  induction l with
  | nil => rfl
  | cons s rest ih => simp only [validateSources, ih]; rfl
theorem validateTransition_syncTwin (m : Machine) (tr : Transition) :
    validateTransition (syncTwin m) tr = validateTransition m tr := by
  simp only [validateTransition, validateSources_syncTwin]; rfl
theorem validateTransitions_syncTwin (m : Machine) : ∀ l, validateTransitions (syncTwin m) l = validateTransitions m l := by
  intro l
  induction l with
  | nil => rfl
  | cons t rest ih => simp only [validateTransitions, ih, validateTransition_syncTwin]
theorem validateEvents_syncTwin (m : Machine) : ∀ l, validateEvents (syncTwin m) l = validateEvents m l := by
  intro l
  induction l with
  | nil => rfl
  | cons e rest ih => simp only [validateEvents, validateEvent, ih, validateTransitions_syncTwin]
theorem validate_syncTwin (m : Machine) : (syncTwin m).validate = m.validate := by
  simp only [Machine.validate, validateEvents_syncTwin]; rfl

/-- the hypothesis `hv'` of the async theorems, discharged -/
theorem syncTwin_valid (m : Machine) (hv : m.validate = .ok ()) : (syncTwin m).validate = .ok () := by
  rw [validate_syncTwin]; exact hv

end SMV.C15
