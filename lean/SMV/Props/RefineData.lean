import SMV.Props.Refine
import SMV.Props.C08
import SMV.Props.C11
/-
  Refinement of one data state to a cell.

  For a leaf state `X` that carries data, the abstract machine of `Refine` is extended by a cell
  `v : Option Nat`: absent unless the machine is in `X`; `Default` (0) on every entry into `X`, self-transitions
  included; overwritten by the setter and by writes through the mutable accessor while in `X`; untouched by
  refusals and by operations on it in any other state; read back by the accessor. `cell_refines` proves that
  the dynamic wrapper — `handle`, `x_data()`, `x_data_mut()`, `set_x_data()` of the emitted code — is that cell
  for every history of those operations (hooks tame and not writing state data themselves).
-/
namespace SMV.RefineData
open SMV C01 C03 C08 C11 Refine

/-- hooks that do not write state data through `&mut self` -/
def WriteFree (env : Env) : Prop := ∀ h c, (env h c).write = none

theorem evalCalls_writefree {env : Env} (hw : WriteFree env) (kind : HK) (isAsync : Bool) (payload : Option Nat) :
    ∀ (cs : List Call) (recv : TM) (h : Hist) (recv' : TM) (h' : Hist),
      evalCalls env kind isAsync payload cs recv h = (.cont recv', h') → recv' = recv := by
  intro cs
  induction cs with
  | nil => intro recv h recv' h' he; simp only [evalCalls, Prod.mk.injEq, Phase.cont.injEq] at he; exact he.1.symm
  | cons c rest ih =>
    intro recv h recv' h' he
    simp only [evalCalls] at he
    split at he
    · exact ih recv h recv' h' he
    · split at he
      · simp at he
      · rw [hw] at he
        exact ih _ _ recv' h' he
      · simp at he

/-- under write-free hooks the machine a successful transition returns is the freshly constructed one -/
theorem ok_is_construct (m : Machine) (e : Edge) (env : Env) (hw : WriteFree env) (self : TM) (payload : Option Nat)
    (h h' : Hist) (nm : TM) (hrun : run env (methodProg (genMethod m e) self payload) h = (.done (.ok nm), h')) :
    nm = construct (genMethod m e) self := by
  rw [run_method] at hrun
  obtain ⟨h1, h2, self', h3, h4, _, _, e3, e4, _⟩ := evalMethod_ok_inv hrun
  have h1' := evalCalls_writefree hw .before _ payload _ self h2 self' h3 e3
  have h2' := evalCalls_writefree hw .after _ payload _ (construct (genMethod m e) self') h3 nm h4 e4
  rw [h2', h1']

inductive COp where
  | handle (env : Env) (σ : Name → Bool) (ev : Event) (pay : Option Nat)
  | read
  | write (x : Nat)
  | set (x : Nat)

inductive CRes where
  | fired (b : Bool)
  | val (v : Option Nat)
  | unit
  | stored (ok : Bool)
  deriving DecidableEq

/-- the abstract machine with one cell -/
def sstep (m : Machine) (X : Name) (st : Name × Option Nat) : COp → (Name × Option Nat) × CRes
  | .handle _ σ ev _ =>
    let r := specStep m σ st.1 ev.name
    ((r.1, if r.2 then (if r.1 = X then some 0 else none) else st.2), .fired r.2)
  | .read => (st, .val st.2)
  | .write x => ((st.1, st.2.map fun _ => x), .unit)
  | .set x => if st.1 = X then ((st.1, some x), .stored true) else (st, .stored false)

def srun (m : Machine) (X : Name) : Name × Option Nat → List COp → (Name × Option Nat) × List CRes
  | st, [] => (st, [])
  | st, op :: rest =>
    let (st', r) := sstep m X st op
    let (sf, rs) := srun m X st' rest
    (sf, r :: rs)

/-- the emitted code; `none` when a dispatch does not return -/
def cstep (m : Machine) (a : DynAcc) (d : DM) (h : Hist) : COp → Option ((DM × Hist) × CRes)
  | .handle env _ ev pay =>
    match runHandle env m.code (partsOf m) d ⟨toPascal ev.name, pay⟩ h with
    | ((d', .done r), h') => some ((d', h'), .fired (decide (r = .ok)))
    | _ => none
  | .read => some ((d, h), .val (dynRead a d))
  | .write x => some ((dynWrite a d x, h), .unit)
  | .set x => some (((dynSet (partsOf m) a d x).1, h), .stored (dynSet (partsOf m) a d x).2.isNone)

def crun (m : Machine) (a : DynAcc) : DM → Hist → List COp → Option (DM × List CRes)
  | d, _, [] => some (d, [])
  | d, h, op :: rest =>
    match cstep m a d h op with
    | none => none
    | some ((d', h'), r) => (crun m a d' h' rest).map fun (df, rs) => (df, r :: rs)

/-- the abstraction relation -/
def Rel (m : Machine) (a : DynAcc) (X : Name) (d : DM) (st : Name × Option Nat) : Prop :=
  ∃ tm, d = ⟨some (st.1, tm)⟩ ∧ tm.state = st.1 ∧ st.1 ∈ m.states ∧ tm.slot a.field = st.2 ∧
    (st.2.isSome ↔ st.1 = X)

def OpOk (m : Machine) : COp → Prop
  | .handle env σ ev _ => CondsAnswer env σ ∧ Permissive env ∧ WriteFree env ∧ ev ∈ m.events
  | _ => True

theorem cstep_refines (m : Machine) (hv : m.validate = .ok ()) (hg : m.GraphBuilt) (hp : m.PascalInj)
    (hf : m.FieldsNodup) (spec : StorageSpec) (hspec : spec ∈ m.storage) (a : DynAcc)
    (ha : a.reachable = [spec.stateName]) (hfld : a.field = spec.field)
    (d : DM) (st : Name × Option Nat) (hrel : Rel m a spec.stateName d st) (h : Hist) (op : COp) (hop : OpOk m op) :
    ∃ d' h', cstep m a d h op = some ((d', h'), (sstep m spec.stateName st op).2) ∧
      Rel m a spec.stateName d' (sstep m spec.stateName st op).1 := by
  obtain ⟨s, v⟩ := st
  obtain ⟨tm, rfl, hst, hmem, hslot, hiff⟩ := hrel
  simp only at hst hmem hslot hiff
  have hnone_of_ne : s ≠ spec.stateName → v = none := by
    intro hx
    cases v with
    | none => rfl
    | some w => exact absurd (hiff.mp rfl) hx
  cases op with
  | read =>
    refine ⟨_, h, ?_, ⟨tm, rfl, hst, hmem, hslot, hiff⟩⟩
    simp only [cstep, sstep]
    rw [read_gated a spec.stateName ha]
    by_cases hx : s = spec.stateName
    · simp [hx, hslot]
    · simp [hx, hnone_of_ne hx]
  | write x =>
    simp only [cstep, sstep]
    by_cases hx : s = spec.stateName
    · -- in X: the value is present and is overwritten
      obtain ⟨w, hw⟩ : ∃ w, v = some w := Option.isSome_iff_exists.mp (hiff.mpr hx)
      subst hw
      refine ⟨_, h, rfl, ?_⟩
      have hr := read_after_write a spec.stateName ha tm x w hslot
      subst hx
      simp only [dynWrite, ha, List.contains_cons, beq_self_eq_true, List.contains_nil, Bool.or_false, ↓reduceIte] at hr ⊢
      rw [read_gated a spec.stateName ha] at hr
      simp only [↓reduceIte] at hr
      exact ⟨_, rfl, hst, hmem, hr, by simp⟩
    · have hv' := hnone_of_ne hx
      subst hv'
      refine ⟨_, h, rfl, ?_⟩
      have : (a.reachable.contains s) = false := by simp [ha, hx]
      simp only [dynWrite, this, Bool.false_eq_true, ↓reduceIte, Option.map_none]
      exact ⟨tm, rfl, hst, hmem, hslot, hiff⟩
  | set x =>
    simp only [cstep, sstep]
    rw [set_gated a spec.stateName ha]
    by_cases hx : s = spec.stateName
    · obtain ⟨w, hw⟩ : ∃ w, v = some w := Option.isSome_iff_exists.mp (hiff.mpr hx)
      subst hw
      have hfield : (alookup a.field tm.slots).isSome := by
        unfold TM.slot at hslot
        cases hl : alookup a.field tm.slots with
        | none => simp [hl] at hslot
        | some y => rfl
      subst hx
      simp only [↓reduceIte, Option.isNone_none]
      refine ⟨_, h, rfl, ?_⟩
      refine ⟨_, rfl, hst, hmem, ?_, by simp⟩
      simp only [TM.slot, alookup_setSlots_same a.field x tm.slots hfield]
    · simp only [hx, ↓reduceIte, Option.isNone_some]
      exact ⟨_, h, rfl, ⟨tm, rfl, hst, hmem, hslot, hiff⟩⟩
  | handle env σ ev pay =>
    obtain ⟨hc, hperm, hw, hev⟩ := hop
    have hstep := runHandle_step m hv hg hp env s tm hst hmem ev hev pay h
    simp only [cstep, sstep, specStep]
    cases hdel : m.delta s ev.name with
    | none =>
      simp only [hdel] at hstep
      rw [hstep]
      exact ⟨⟨some (s, tm)⟩, h, by simp, ⟨tm, rfl, hst, hmem, hslot, hiff⟩⟩
    | some edge =>
      simp only [hdel] at hstep
      simp only
      by_cases hall : (∀ g ∈ edge.guards, σ g = true) ∧ (∀ u ∈ edge.unl, σ u = false)
      · obtain ⟨nm, h', hrun⟩ := (fires_iff m edge env σ tm (if ev.payload.isSome then pay else none) h hc hperm).mpr hall
        have hnm := ok_is_construct m edge env hw tm _ h h' nm hrun
        rw [hrun] at hstep
        simp only at hstep
        obtain ⟨he, hnst, htm⟩ := hstep
        have hb : ((edge.guards.all fun g => σ g) && (edge.unl.all fun u => !σ u)) = true := by
          simp only [Bool.and_eq_true, List.all_eq_true, Bool.not_eq_true']
          exact hall
        simp only [he, hb, ↓reduceIte]
        refine ⟨⟨some (edge.target, nm)⟩, h', by simp, ?_⟩
        refine ⟨nm, rfl, hnst, htm, ?_, ?_⟩
        · rw [hnm, hfld, fresh_on_entry m hf edge tm spec hspec]
          by_cases ht : edge.target = spec.stateName
          · simp [ht]
          · have : ¬ spec.stateName = edge.target := fun h'' => ht h''.symm
            simp [ht, this]
        · by_cases ht : edge.target = spec.stateName <;> simp [ht]
      · have hna : ¬ (∀ d ∈ conds edge, σ d.1 = d.2) := fun h' => hall ((conds_agree_iff edge σ).mp h')
        obtain ⟨pre, c, post, hsplit, hpre, hblk⟩ := first_blocker σ (conds edge) hna
        have hrun := first_block m edge env σ tm (if ev.payload.isSome then pay else none) h hc hperm pre c post hsplit hpre hblk
        rw [hrun] at hstep
        simp only at hstep
        obtain ⟨he, _⟩ := hstep
        have hb : ((edge.guards.all fun g => σ g) && (edge.unl.all fun u => !σ u)) = false := by
          rw [Bool.eq_false_iff]
          intro hb
          simp only [Bool.and_eq_true, List.all_eq_true, Bool.not_eq_true'] at hb
          exact hall hb
        simp only [he, hb, Bool.false_eq_true, ↓reduceIte]
        exact ⟨⟨some (s, tm)⟩, (h ++ (edge.around.map (aroundOf m edge)).map (abCall tm) ++
            ((pre ++ [c]).map (checkOf m edge)).map (condCall tm (if ev.payload.isSome then pay else none))),
          by simp, ⟨tm, rfl, hst, hmem, hslot, hiff⟩⟩


/-- **The data of a state is a cell, along every history.** From related states, any sequence of dispatches
    (tame, write-free hooks; declared events), reads, in-place writes and setter calls returns, produces the
    abstract machine's results — in particular every read returns the latest value stored since the state
    was last entered, `Default` if none, and nothing in any other state — and ends in a related state. -/
theorem cell_refines (m : Machine) (hv : m.validate = .ok ()) (hg : m.GraphBuilt) (hp : m.PascalInj)
    (hf : m.FieldsNodup) (spec : StorageSpec) (hspec : spec ∈ m.storage) (a : DynAcc)
    (ha : a.reachable = [spec.stateName]) (hfld : a.field = spec.field) :
    ∀ (ops : List COp) (d : DM) (st : Name × Option Nat) (h : Hist),
      (∀ op ∈ ops, OpOk m op) → Rel m a spec.stateName d st →
      ∃ df, crun m a d h ops = some (df, (srun m spec.stateName st ops).2) ∧
        Rel m a spec.stateName df (srun m spec.stateName st ops).1 := by
  intro ops
  induction ops with
  | nil => intro d st h _ hrel; exact ⟨d, rfl, hrel⟩
  | cons op rest ih =>
    intro d st h hall hrel
    obtain ⟨d', h', hc, hrel'⟩ := cstep_refines m hv hg hp hf spec hspec a ha hfld d st hrel h op (hall op List.mem_cons_self)
    obtain ⟨df, hrun, hrelf⟩ := ih d' _ h' (fun o ho => hall o (List.mem_cons_of_mem _ ho)) hrel'
    refine ⟨df, ?_, ?_⟩
    · simp only [crun, hc, hrun, Option.map_some, srun]
    · simpa only [srun] using hrelf

/-- a new wrapper is related to the abstract initial state: the cell holds `Default` iff the initial state is `X` -/
theorem new_related (m : Machine) (hv : m.validate = .ok ()) (hf : m.FieldsNodup) (spec : StorageSpec)
    (hspec : spec ∈ m.storage) (a : DynAcc) (hfld : a.field = spec.field) (ctx : Nat) :
    ∃ d, dynNew m.code (partsOf m) ctx = some d ∧
      Rel m a spec.stateName d (m.initial, if m.initial = spec.stateName then some 0 else none) := by
  obtain ⟨tm, hnew, hst, hinv, hdef⟩ := new_establishes m hv hf ctx
  have hi := validate_initial_mem m hv
  have h1 : alookup (partsOf m).initialVariant (partsOf m).anyVariants = some m.initial := by
    simp [partsOf, alookup_map_self m.initial m.states hi]
  refine ⟨⟨some (m.initial, tm)⟩, by simp only [dynNew, h1, hnew, Option.map_some]; rfl, tm, rfl, hst, hi, ?_, ?_⟩
  · rw [hfld]
    by_cases hx : m.initial = spec.stateName
    · simp only [hx, ↓reduceIte]
      exact hdef spec hspec hx.symm
    · simp only [hx, ↓reduceIte]
      exact absent_elsewhere m tm hinv spec hspec (by rw [hst]; exact hx)
  · by_cases hx : m.initial = spec.stateName <;> simp [hx]

end SMV.RefineData
