import SMV.Lemmas.Hist
/-
  C08, along histories — the slot invariant holds at every point of every history of the public API.
-/
namespace SMV.C08
open SMV

/-- **The slot invariant holds at every point of every history.** Every operation of the public API, on
    the code generated for a validated machine, takes a holder satisfying the invariant to one satisfying
    it — successes, refusals, panics, abandonment, accessors, setters, in-place mutation, conversions. -/
theorem step_preserves_inv (m : Machine) (hv : m.validate = .ok ()) (hg : m.GraphBuilt) (hp : m.PascalInj)
    (hf : m.FieldsNodup) (hl : LeafDataOnly m) (env : Env) (hold : Holder) (op : Op)
    (hinv : HolderInv m hold) :
    HolderInv m (step env m.code (some (partsOf m)) hold op).holder := by
  have hn := validate_states_nodup m hv
  cases op with
  | newTyped c =>
    have hi := validate_initial_mem m hv
    obtain ⟨tm', hnew', hst', hsl, _⟩ := new_establishes m hv hf c
    simp only [step, ctorState_code m hi, Option.bind_some, hnew']
    exact ⟨hsl, hst' ▸ hi⟩
  | newDyn c =>
    simp only [step, Option.bind_some]
    obtain ⟨tm', hnew', hst', hsl, _⟩ := new_establishes m hv hf c
    have hi := validate_initial_mem m hv
    have h1 : alookup (partsOf m).initialVariant (partsOf m).anyVariants = some m.initial := by
      simp [partsOf, alookup_map_self m.initial m.states hi]
    simp only [dynNew, h1, hnew', Option.map_some]
    exact ⟨hsl, hst', hi⟩
  | dynDefault =>
    simp only [step, Option.bind_some]
    obtain ⟨tm', hnew', hst', hsl, _⟩ := new_establishes m hv hf 0
    have hi := validate_initial_mem m hv
    have h1 : alookup (partsOf m).initialVariant (partsOf m).anyVariants = some m.initial := by
      simp [partsOf, alookup_map_self m.initial m.states hi]
    simp only [dynNew, h1, hnew', Option.map_some]
    exact ⟨hsl, hst', hi⟩
  | handle v pay =>
    cases hold with
    | typed tm => exact hinv
    | gone => trivial
    | dyn d =>
      obtain ⟨inner⟩ := d
      cases inner with
      | none => simp [step, runHandle, HolderInv]
      | some x =>
        obtain ⟨tag, tm⟩ := x
        simp only [step, runHandle]
        rcases hr : run env (handleProg m.code (partsOf m) tag tm ⟨v, pay⟩) [] with ⟨o, t⟩
        cases o with
        | done y =>
          obtain ⟨d', r⟩ := y
          have := handle_done_inv m hv hg hp hf env tag tm hinv v pay d' r t hr
          cases r <;> exact this
        | panicked pi => trivial
        | abandoned => trivial
  | handleAbandon v pay n =>
    cases hold with
    | typed tm => exact hinv
    | gone => trivial
    | dyn d =>
      obtain ⟨inner⟩ := d
      cases inner with
      | none => simp [step, runHandleUpTo, HolderInv]
      | some x =>
        obtain ⟨tag, tm⟩ := x
        simp only [step, runHandleUpTo]
        rcases hr : runUpTo env n (handleProg m.code (partsOf m) tag tm ⟨v, pay⟩) [] with ⟨o, t⟩
        cases o with
        | done y =>
          obtain ⟨d', r⟩ := y
          have := handle_done_inv m hv hg hp hf env tag tm hinv v pay d' r t (C16.runUpTo_done env _ n [] t (d', r) hr)
          cases r <;> exact this
        | panicked pi => trivial
        | abandoned => trivial
  | handleNoPoll v pay => cases hold <;> exact hinv
  | currentState =>
    simp only [step]
    repeat' split
    all_goals exact hinv
  | read s =>
    simp only [step]
    repeat' split
    all_goals exact hinv
  | write s v =>
    cases hold with
    | typed tm => exact hinv
    | gone => trivial
    | dyn d =>
      simp only [step]
      cases ha : Code.dynAcc (partsOf m) s with
      | none => exact hinv
      | some a =>
        simp only
        obtain ⟨inner⟩ := d
        cases inner with
        | none => trivial
        | some x =>
          obtain ⟨tag, tm⟩ := x
          simp only [dynWrite]
          split
          · exact ⟨write_inv m tm _ hinv.1, by simpa using hinv.2.1, hinv.2.2⟩
          · exact hinv
  | set s v =>
    cases hold with
    | typed tm => exact hinv
    | gone => trivial
    | dyn d =>
      simp only [step]
      cases ha : Code.dynAcc (partsOf m) s with
      | none => exact hinv
      | some a =>
        simp only
        obtain ⟨spec, hspec, hfield, hreach, _⟩ := dynAcc_spec m hl s a ha
        obtain ⟨inner⟩ := d
        cases inner with
        | none => simp [dynSet, HolderInv]
        | some x =>
          obtain ⟨tag, tm⟩ := x
          obtain ⟨hsl, hst, hs⟩ := hinv
          simp only [dynSet, hreach, List.contains_cons, List.contains_nil, Bool.or_false, beq_iff_eq]
          by_cases htag : tag = spec.stateName
          · simp only [htag, ↓reduceIte]
            rw [hfield]
            exact ⟨slot_setSlots m tm spec v hsl hspec (by rw [hst, htag]), by simpa [htag] using hst, htag ▸ hs⟩
          · simp only [htag, ↓reduceIte]
            exact ⟨hsl, hst, hs⟩
  | into s =>
    cases hold with
    | typed tm => exact hinv
    | gone => trivial
    | dyn d =>
      simp only [step]
      cases hfx : (partsOf m).extract.find? (·.2.1 = s) with
      | none => exact hinv
      | some x =>
        obtain ⟨_, _, variant⟩ := x
        simp only
        cases hx : dynExtract variant d with
        | ok tm =>
          have := ((C10.extract_iff variant d).1 tm).mp hx
          obtain ⟨inner⟩ := d
          simp only at this
          subst this
          obtain ⟨hsl, hst, hs⟩ := hinv
          exact ⟨hsl, hst ▸ hs⟩
        | error d' =>
          have := (C10.extract_iff variant d).2 d' hx
          subst this
          exact hinv
  | toDyn =>
    cases hold with
    | dyn d => exact hinv
    | gone => trivial
    | typed tm =>
      simp only [step]
      obtain ⟨hsl, hs⟩ := hinv
      rw [(C10.into_dynamic_state m tm hs).1]
      exact ⟨hsl, rfl, hs⟩
  | tcall name pay =>
    cases hold with
    | dyn d => exact hinv
    | gone => trivial
    | typed tm =>
      obtain ⟨hsl, hs⟩ := hinv
      simp only [step]
      cases hfm : m.code.findMethod tm.state name with
      | none => exact ⟨hsl, hs⟩
      | some meth =>
        simp only
        obtain ⟨edge, he, rfl⟩ := findMethod_code_mem m hn tm.state hs name meth hfm
        rcases hr : run env (methodProg (genMethod m edge) tm (if (genMethod m edge).payload.isSome then pay else none)) [] with ⟨o, t⟩
        cases o with
        | done r =>
          cases r with
          | ok nm =>
            obtain ⟨h1, h2, h3⟩ := method_result_inv m hv hg hf tm.state edge he env tm _ t nm hr
            exact ⟨h1, h2 ▸ h3⟩
          | err old e =>
            rw [method_err_same _ env tm _ [] t old e hr]
            exact ⟨hsl, hs⟩
        | panicked pi => trivial
        | abandoned => trivial
  | tcallAbandon name pay n =>
    cases hold with
    | dyn d => exact hinv
    | gone => trivial
    | typed tm =>
      obtain ⟨hsl, hs⟩ := hinv
      simp only [step]
      cases hfm : m.code.findMethod tm.state name with
      | none => exact ⟨hsl, hs⟩
      | some meth =>
        simp only
        obtain ⟨edge, he, rfl⟩ := findMethod_code_mem m hn tm.state hs name meth hfm
        rcases hr : runUpTo env n (methodProg (genMethod m edge) tm (if (genMethod m edge).payload.isSome then pay else none)) [] with ⟨o, t⟩
        cases o with
        | done r =>
          have hrun := C16.runUpTo_done env _ n [] t r hr
          cases r with
          | ok nm =>
            obtain ⟨h1, h2, h3⟩ := method_result_inv m hv hg hf tm.state edge he env tm _ t nm hrun
            exact ⟨h1, h2 ▸ h3⟩
          | err old e =>
            rw [method_err_same _ env tm _ [] t old e hrun]
            exact ⟨hsl, hs⟩
        | panicked pi => trivial
        | abandoned => trivial
  | tcallNoPoll name pay =>
    cases hold with
    | dyn d => exact hinv
    | gone => trivial
    | typed tm =>
      simp only [step]
      cases hfm : m.code.findMethod tm.state name with
      | none => exact hinv
      | some meth => trivial
  | tdata s =>
    simp only [step]
    repeat' split
    all_goals first | exact hinv | trivial
  | tdataMut s v =>
    cases hold with
    | dyn d => exact hinv
    | gone => trivial
    | typed tm =>
      obtain ⟨hsl, hs⟩ := hinv
      simp only [step]
      repeat' split
      all_goals first
        | exact ⟨hsl, hs⟩
        | trivial
        | exact ⟨write_inv m tm _ hsl, by simpa using hs⟩
  | topt s =>
    simp only [step]
    repeat' split
    all_goals exact hinv
  | toptMut s v =>
    cases hold with
    | dyn d => exact hinv
    | gone => trivial
    | typed tm =>
      obtain ⟨hsl, hs⟩ := hinv
      simp only [step]
      repeat' split
      all_goals first
        | exact ⟨hsl, hs⟩
        | exact ⟨write_inv m tm _ hsl, by simpa using hs⟩
  | drop =>
    simp only [step]
    repeat' split
    all_goals trivial

/-- **At every point of every history.** Starting from nothing (or from any holder satisfying the
    invariant) and applying any sequence of operations of the public API under any hook environments, what
    the caller holds always satisfies: the data slot of state X is present iff the machine is in X. -/
theorem inv_along_history (m : Machine) (hv : m.validate = .ok ()) (hg : m.GraphBuilt) (hp : m.PascalInj)
    (hf : m.FieldsNodup) (hl : LeafDataOnly m) :
    ∀ (ops : List (Env × Op)) (hold : Holder), HolderInv m hold →
      HolderInv m (C16.runOps m.code (some (partsOf m)) hold ops).1 := by
  intro ops
  induction ops with
  | nil => intro hold h; exact h
  | cons x rest ih =>
    intro hold h
    obtain ⟨env, op⟩ := x
    simp only [C16.runOps]
    exact ih _ (step_preserves_inv m hv hg hp hf hl env hold op h)

/-- consequently the dynamic reader of a leaf state's data answers `Some` exactly in that state -/
theorem read_iff_in_state (m : Machine) (hl : LeafDataOnly m) (s : Name) (a : DynAcc)
    (ha : Code.dynAcc (partsOf m) s = some a) (tag : Name) (tm : TM)
    (hinv : HolderInv m (.dyn ⟨some (tag, tm)⟩)) :
    (dynRead a ⟨some (tag, tm)⟩).isSome = decide (tag = s) := by
  obtain ⟨spec, hspec, hfield, hreach, hs⟩ := dynAcc_spec m hl s a ha
  obtain ⟨hsl, hst, _⟩ := hinv
  rw [C11.read_gated a spec.stateName hreach, ← hs]
  by_cases htag : tag = spec.stateName
  · simp only [htag, ↓reduceIte, decide_true]
    rw [hfield]
    have := hsl spec hspec
    rw [hst, htag] at this
    simpa using this
  · simp [htag]

end SMV.C08
