import SMV.Lemmas.Hier3
import SMV.Codegen
/-
  C07 — Hierarchy resolution: descendants, initial child and SubstateOf agree.

  `items` is the `states: [...]` section in effect; everything on the right-hand sides
  (`leavesUnder`, `initialLeaf`, `ancestorsOf`, SMV/Spec.lean) is plain structural recursion over
  that forest — any nesting depth, any placement of `initial:` declarations and data.
-/
namespace SMV.C07
open SMV

section
variable {items : List TItem} {st : PS}

/-- **A superstate source stands for exactly the leaves nested anywhere beneath it.** -/
theorem expand_super (hp : parseStates items {} = .ok st) (P : Name) (hP : P ∈ allSups items) :
    ∃ ls, leavesUnder items P = some ls ∧ st.hier.expandState P st.leaves = ls ∧ ls ≠ [] := by
  have sp := parseStates_spec items st hp
  have hfind := findSup_some_Bs P _ hP
  obtain ⟨b, hb⟩ := Option.isSome_iff_exists.mp hfind
  refine ⟨leavesBs b, by simp [leavesUnder, hb], ?_, (supsOk_find_Bs P _ b sp.supsOk hb).1⟩
  simp [Hierarchy.expandState, sp.lookup, lookup_spec P _ sp.distinct.sups, hb]

/-- a leaf stands for itself -/
theorem expand_leaf (hp : parseStates items {} = .ok st) (l : Name) (hl : l ∈ allLeaves items) :
    st.hier.expandState l st.leaves = [l] := by
  have sp := parseStates_spec items st hp
  have hns : l ∉ supsBs (items.map TItem.toB) := sp.distinct.disjoint l hl
  simp [Hierarchy.expandState, sp.lookup, alookup_regs_none_Bs l _ hns, sp.leaves, hl]

/-- an undeclared name stands for nothing -/
theorem expand_undeclared (hp : parseStates items {} = .ok st) (x : Name) (h1 : x ∉ allLeaves items)
    (h2 : x ∉ allSups items) : st.hier.expandState x st.leaves = [] := by
  have sp := parseStates_spec items st hp
  simp [Hierarchy.expandState, sp.lookup, alookup_regs_none_Bs x _ h2, sp.leaves, h1]

/-- **A superstate target enters its declared initial leaf, or its first-declared leaf when none is
    declared** — and that leaf lies beneath the superstate. -/
theorem resolve_super (hp : parseStates items {} = .ok st) (P : Name) (hP : P ∈ allSups items) :
    ∃ b i, findSupBs P (items.map TItem.toB) = some b ∧ initialLeaf items P = some i ∧
      st.hier.resolveTarget P = some i ∧ i ∈ leavesBs b ∧
      i = (match declInit b none with | some j => j | none => (leavesBs b).headD []) := by
  have sp := parseStates_spec items st hp
  obtain ⟨b, hb⟩ := Option.isSome_iff_exists.mp (findSup_some_Bs P _ hP)
  obtain ⟨hne, hdecl⟩ := supsOk_find_Bs P _ b sp.supsOk hb
  have hlk : alookup P st.hier.lookup = some (leavesBs b) := by
    rw [sp.lookup, lookup_spec P _ sp.distinct.sups, hb]; rfl
  have hini : alookup P st.hier.initialChildren = some ((initialOfBody b).getD []) := by
    rw [sp.inis, inis_spec P _ sp.distinct.sups, hb]; rfl
  cases hd : declInit b none with
  | some j =>
    simp only [hd] at hdecl
    refine ⟨b, j, hb, by simp [initialLeaf, hb, initialOfBody, hd], ?_, hdecl, by rw [hd]⟩
    simp [Hierarchy.resolveTarget, Hierarchy.isSuperstate, hlk, Hierarchy.initialChild, hini, initialOfBody, hd]
  | none =>
    cases hl : leavesBs b with
    | nil => exact absurd hl hne
    | cons l0 rest =>
      refine ⟨b, l0, hb, by simp [initialLeaf, hb, initialOfBody, hd, hl], ?_, by simp [hl], by rw [hd, hl]; rfl⟩
      simp [Hierarchy.resolveTarget, Hierarchy.isSuperstate, hlk, Hierarchy.initialChild, hini, initialOfBody, hd, hl]

/-- a leaf target is entered as is -/
theorem resolve_leaf (hp : parseStates items {} = .ok st) (l : Name) (hl : l ∈ allLeaves items) :
    st.hier.resolveTarget l = some l := by
  have sp := parseStates_spec items st hp
  have hns : l ∉ supsBs (items.map TItem.toB) := sp.distinct.disjoint l hl
  simp [Hierarchy.resolveTarget, Hierarchy.isSuperstate, sp.lookup, alookup_regs_none_Bs l _ hns]

/-- **`SubstateOf<P>` is implemented for leaf `l` exactly for the superstates that directly or
    transitively contain it.** -/
theorem substate_impls (hp : parseStates items {} = .ok st) (m : Machine) (hs : m.states = st.leaves)
    (hh : m.hierarchy = st.hier) (P l : Name) :
    Item.substateImpl P l ∈ genSubstateImpls m ↔ l ∈ allLeaves items ∧ P ∈ ancestorsOf items l := by
  have sp := parseStates_spec items st hp
  simp only [genSubstateImpls, List.mem_flatMap]
  constructor
  · rintro ⟨leaf, hleaf, hx⟩
    have hleaf' : leaf ∈ allLeaves items := by rw [← sp.leaves, ← hs]; exact hleaf
    have hanc := ancTs_spec leaf items sp.distinct.leaves
    rw [hh, sp.ancs] at hx
    cases ha : alookup leaf (ancTs items) with
    | none => simp [ha] at hx
    | some ancs =>
      simp only [ha, List.mem_map, Item.substateImpl.injEq] at hx
      obtain ⟨a, hmem, rfl, rfl⟩ := hx
      refine ⟨hleaf', ?_⟩
      unfold ancestorsOf
      rw [← hanc, ha]
      exact hmem
  · rintro ⟨hl, hP⟩
    refine ⟨l, by rw [hs, sp.leaves]; exact hl, ?_⟩
    have hanc := ancTs_spec l items sp.distinct.leaves
    unfold ancestorsOf at hP
    rw [← hanc] at hP
    rw [hh, sp.ancs]
    cases ha : alookup l (ancTs items) with
    | none => simp [ha] at hP
    | some ancs =>
      simp only [ha, Option.getD_some] at hP
      simp only [List.mem_map, Item.substateImpl.injEq]
      exact ⟨P, hP, rfl, trivial⟩

end

/-- **Edges of the graph.** `(l, edge)` is in the transition graph exactly when some transition of
    some event lists a source that stands for `l`; the edge's target is the resolved target and its hook
    lists are the event's followed by the transition's. -/
theorem edge_iff (h : Hierarchy) (states : List Name) (events : List Event) (l : Name) (edge : Edge) :
    (l, edge) ∈ buildGraph h states events ↔
      ∃ ev ∈ events, ∃ tr ∈ ev.transitions, ∃ src ∈ tr.sources, l ∈ h.expandState src states ∧
        edge = { target := (h.resolveTarget tr.target).getD tr.target, event := ev.name,
                 guards := ev.guards ++ tr.guards, unl := ev.unl ++ tr.unl, before := ev.before ++ tr.before,
                 after := ev.after ++ tr.after, around := ev.around ++ tr.around, payload := ev.payload } := by
  simp only [buildGraph, edgesOfEvent, edgesOfTransition, edgesOfSource, List.mem_flatMap, List.mem_map,
    Prod.mk.injEq]
  constructor
  · rintro ⟨ev, hev, tr, htr, src, hsrc, actual, hact, rfl, rfl⟩
    exact ⟨ev, hev, tr, htr, src, hsrc, hact, rfl⟩
  · rintro ⟨ev, hev, tr, htr, src, hsrc, hact, rfl⟩
    exact ⟨ev, hev, tr, htr, src, hsrc, l, hact, rfl, rfl⟩

/-- **A transition whose source is a superstate is available from every leaf nested anywhere beneath it
    and — through that source — from no other state.** -/
theorem superstate_source {items : List TItem} {st : PS} (hp : parseStates items {} = .ok st)
    (P : Name) (hP : P ∈ allSups items) (l : Name) :
    l ∈ st.hier.expandState P st.leaves ↔ ∃ ls, leavesUnder items P = some ls ∧ l ∈ ls := by
  obtain ⟨ls, h1, h2, _⟩ := expand_super hp P hP
  rw [h2, h1]
  simp

end SMV.C07
