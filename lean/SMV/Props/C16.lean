import SMV.Lemmas.Acc
/-
  C16 — Context and payload are moved, never duplicated or lost.
  Facts about *any* emitted method / wrapper code, so they do not depend on how it was generated.
-/
namespace SMV.C16
open SMV

/-- **Guards see the machine's own context**, and so does every other hook, on every path. -/
theorem hooks_see_own_context (meth : Method) (env : Env) (self : TM) (payload : Option Nat) (h : Hist) :
    ∃ t, (run env (methodProg meth self payload) h).2 = h ++ t ∧
      ∀ c ∈ t, c.ctx = self.ctx ∧ (c.kind = .cond → c.ctxArg = some self.ctx) :=
  method_trace_ctx meth env self payload h

/-- **The context is moved through transitions**: `Ok` carries the receiver's context into the new
    machine, `Err` hands the receiver back. -/
theorem context_moved (meth : Method) (env : Env) (self : TM) (payload : Option Nat) (h h' : Hist) :
    (∀ nm, run env (methodProg meth self payload) h = (.done (.ok nm), h') → nm.ctx = self.ctx) ∧
    (∀ old ge, run env (methodProg meth self payload) h = (.done (.err old ge), h') → old = self) :=
  ⟨fun nm hr => (method_ok_ctx meth env self payload h h' nm hr).1,
   fun old ge hr => method_err_same meth env self payload h h' old ge hr⟩

/-- a dispatch that returns keeps the very context the wrapper had -/
theorem handle_keeps_context (env : Env) (c : Code) (p : DynParts) (tag : Name) (tm : TM) (ev : EventVal) (h h' : Hist)
    (d' : DM) (r : HandleRes)
    (hrun : runHandle env c p ⟨some (tag, tm)⟩ ev h = ((d', .done r), h')) :
    ∃ tag' tm', d'.inner = some (tag', tm') ∧ tm'.ctx = tm.ctx := by
  simp only [runHandle] at hrun
  rcases hr : run env (handleProg c p tag tm ev) h with ⟨o, h2⟩
  rw [hr] at hrun
  cases o with
  | done x =>
    obtain ⟨dd, rr⟩ := x
    simp at hrun
    obtain ⟨⟨rfl, rfl⟩, rfl⟩ := hrun
    exact handleProg_done_ctx env c p tag tm ev h h2 dd rr hr
  | panicked pi => simp at hrun
  | abandoned => simp at hrun

/-- **Payload: consumed exactly once per call**, whether the call succeeds, is refused, is refused as
    invalid, panics or is abandoned — for `handle` and for typed calls. -/
theorem payload_once (env : Env) (c : Code) (p : Option DynParts) (hold : Holder) (pid : Nat) :
    (∀ v, (step env c p hold (.handle v (some pid))).res ≠ .noSuch →
      ((step env c p hold (.handle v (some pid))).drops.filter (· = .payload pid)).length = 1) ∧
    (∀ n, (step env c p hold (.tcall n (some pid))).res ≠ .noSuch →
      ((step env c p hold (.tcall n (some pid))).drops.filter (· = .payload pid)).length = 1) := by
  constructor
  · intro v hne
    cases p with
    | none => simp [step] at hne
    | some p' =>
      cases hold with
      | dyn d =>
        simp only [step]
        rcases hr : runHandle env c p' d ⟨v, some pid⟩ [] with ⟨⟨d', out⟩, t⟩
        cases out with
        | done r => cases r <;> simp [payDrop]
        | panicked pi => cases hdi : d.inner <;> simp [payDrop]
        | abandoned => simp [payDrop]
      | typed m => simp [step] at hne
      | gone => simp [step] at hne
  · intro n hne
    cases hold with
    | typed m =>
      simp only [step] at hne ⊢
      cases hfm : c.findMethod m.state n with
      | none => simp [hfm] at hne
      | some meth =>
        simp only [hfm]
        rcases hr : run env (methodProg meth m (if meth.payload.isSome then some pid else none)) [] with ⟨o, t⟩
        cases o with
        | done mr => cases mr <;> simp [payDrop]
        | panicked pi => simp [payDrop]
        | abandoned => simp [payDrop]
    | dyn d => simp [step] at hne
    | gone => simp [step] at hne

/-- **Context: dropped exactly when the machine is** — by an explicit drop, or by a panicking or
    abandoned call that destroys the machine; never by a call that returns or by a conversion. -/
theorem context_dropped_with_machine (env : Env) (c : Code) (p : Option DynParts) (tag : Name) (tm : TM) (v : Name)
    (pay : Option Nat) :
    let o := step env c p (.dyn ⟨some (tag, tm)⟩) (.handle v pay)
    (o.res = .ok ∨ (∃ e, o.res = .errDyn e) → Res.Drop.ctx tm.ctx ∉ o.drops ∧ Holder.ctx? o.holder = some tm.ctx) ∧
    ((∃ pi, o.res = .panicked pi) → (o.drops.filter (· = .ctx tm.ctx)).length = 1 ∧ Holder.ctx? o.holder = none) := by
  intro o
  cases p with
  | none => simp [o, step]
  | some p =>
    simp only [o, step]
    rcases hr : runHandle env c p ⟨some (tag, tm)⟩ ⟨v, pay⟩ [] with ⟨⟨d', out⟩, t⟩
    cases out with
    | done r =>
      obtain ⟨tag', tm', hd, hctx⟩ := handle_keeps_context env c p tag tm ⟨v, pay⟩ [] t d' r hr
      have hd' : d' = ⟨some (tag', tm')⟩ := by cases d'; simp_all
      subst hd'
      cases r with
      | ok => cases pay <;> simp [payDrop, Holder.ctx?, hctx]
      | err e => cases pay <;> simp [payDrop, Holder.ctx?, hctx]
    | panicked pi =>
      have hnone := C19.panic_poisons env c p _ _ [] d' pi t hr
      have hd' : d' = ⟨none⟩ := by cases d'; simp_all
      subst hd'
      cases pay <;> simp [payDrop, Holder.ctx?]
    | abandoned => cases pay <;> simp [payDrop]

/-- conversions move the machine with its context and drop nothing -/
theorem conversions_keep_context (m : Machine) (tm : TM) (hs : tm.state ∈ m.states) :
    (intoDynamic (partsOf m) tm).map (fun d => Holder.ctx? (.dyn d)) = some (some tm.ctx) ∧
    (∀ tm', dynExtract tm.state ⟨some (tm.state, tm)⟩ = .ok tm' → tm'.ctx = tm.ctx) := by
  constructor
  · rw [(C10.into_dynamic_state m tm hs).1]; rfl
  · intro tm' h
    simp [dynExtract] at h
    rw [← h]

/-! ### accounting along histories -/

/-- **Context accounting, one operation.** Every operation of the public API other than the three that
    create a machine either keeps the context in what the caller holds and drops nothing of it, or removes
    it from what the caller holds and drops it exactly once. -/
theorem step_ctx_accounting (env : Env) (c : Code) (p : Option DynParts) (hold : Holder) (op : Op)
    (hop : Op.creates op = false) : CtxStep hold (step env c p hold op) := by
  cases op with
  | newTyped _ => simp [Op.creates] at hop
  | newDyn _ => simp [Op.creates] at hop
  | dynDefault => simp [Op.creates] at hop
  | handle v pay =>
    cases p with
    | none => exact ctxStep_same hold _ _ _ rfl
    | some p =>
      cases hold with
      | typed m => exact ctxStep_same _ _ _ _ rfl
      | gone => exact ctxStep_same _ _ _ _ rfl
      | dyn d =>
        obtain ⟨inner⟩ := d
        cases inner with
        | none => simp [step, runHandle, CtxStep, Holder.ctx?]
        | some x =>
          obtain ⟨tag, tm⟩ := x
          have := context_dropped_with_machine env c (some p) tag tm v pay
          simp only at this
          unfold CtxStep
          simp only [Holder.ctx?]
          rcases hr : runHandle env c p ⟨some (tag, tm)⟩ ⟨v, pay⟩ [] with ⟨⟨d', out⟩, t⟩
          simp only [step, hr] at this ⊢
          cases out with
          | done r =>
            cases r with
            | ok => left; exact ⟨(this.1 (Or.inl rfl)).2, by simp⟩
            | err e => left; exact ⟨(this.1 (Or.inr ⟨e, rfl⟩)).2, by simp⟩
          | panicked pi =>
            right
            refine ⟨(this.2 ⟨pi, rfl⟩).2, by simp [List.filter_append, isCtxDrop]⟩
          | abandoned =>
            exfalso
            simp only [runHandle] at hr
            rcases hrr : run env (handleProg c p tag tm ⟨v, pay⟩) [] with ⟨o2, t2⟩
            rw [hrr] at hr
            cases o2 with
            | done x => simp at hr
            | panicked pi => simp at hr
            | abandoned => exact run_not_abandoned env _ _ _ hrr
  | handleAbandon v pay n =>
    cases p with
    | none => exact ctxStep_same hold _ _ _ rfl
    | some p =>
      cases hold with
      | typed m => exact ctxStep_same _ _ _ _ rfl
      | gone => exact ctxStep_same _ _ _ _ rfl
      | dyn d =>
        obtain ⟨inner⟩ := d
        cases inner with
        | none => simp [step, runHandleUpTo, CtxStep, Holder.ctx?]
        | some x =>
          obtain ⟨tag, tm⟩ := x
          unfold CtxStep
          simp only [Holder.ctx?, step, runHandleUpTo]
          rcases hrr : runUpTo env n (handleProg c p tag tm ⟨v, pay⟩) [] with ⟨o2, t2⟩
          cases o2 with
          | done x =>
            obtain ⟨d', r⟩ := x
            have hrun := runUpTo_done env _ n [] t2 (d', r) hrr
            obtain ⟨tag', tm', hd', hctx⟩ := handleProg_done_ctx env c p tag tm ⟨v, pay⟩ [] t2 d' r hrun
            have hd'' : d' = ⟨some (tag', tm')⟩ := by cases d'; simp_all
            subst hd''
            cases r <;> (left; exact ⟨by simp [Holder.ctx?, hctx], by simp⟩)
          | panicked pi => right; exact ⟨rfl, by simp [List.filter_append, isCtxDrop]⟩
          | abandoned => right; exact ⟨rfl, by simp [List.filter_append, isCtxDrop]⟩
  | handleNoPoll v pay =>
    cases p with
    | none => exact ctxStep_same hold _ _ _ rfl
    | some p => cases hold <;> exact ctxStep_same _ _ _ _ (by simp [step])
  | currentState =>
    simp only [step]
    repeat' split
    all_goals exact ctxStep_same _ _ _ _ rfl
  | read s =>
    simp only [step]
    repeat' split
    all_goals exact ctxStep_same _ _ _ _ rfl
  | write s v =>
    simp only [step]
    repeat' split
    all_goals first | exact ctxStep_same _ _ _ _ rfl | exact ctxStep_keep _ _ _ _ _ (ctx_dynWrite _ _ _) rfl
  | set s v =>
    cases p with
    | none => exact ctxStep_same hold _ _ _ rfl
    | some p =>
      cases hold with
      | typed m => exact ctxStep_same _ _ _ _ rfl
      | gone => exact ctxStep_same _ _ _ _ rfl
      | dyn d =>
        simp only [step]
        cases ha : Code.dynAcc p s with
        | none => exact ctxStep_same _ _ _ _ rfl
        | some a =>
          simp only
          have hc := ctx_dynSet p a d v
          rcases hset : dynSet p a d v with ⟨d', e⟩
          rw [hset] at hc
          cases e <;> exact ctxStep_keep _ _ _ _ _ hc rfl
  | into s =>
    cases p with
    | none => exact ctxStep_same hold _ _ _ rfl
    | some p =>
      cases hold with
      | typed m => exact ctxStep_same _ _ _ _ rfl
      | gone => exact ctxStep_same _ _ _ _ rfl
      | dyn d =>
        simp only [step]
        cases hf : p.extract.find? (·.2.1 = s) with
        | none => exact ctxStep_same _ _ _ _ rfl
        | some x =>
          obtain ⟨_, _, variant⟩ := x
          simp only
          cases hx : dynExtract variant d with
          | ok m =>
            refine ctxStep_keep _ _ _ _ _ ?_ rfl
            have := ((C10.extract_iff variant d).1 m).mp hx
            obtain ⟨inner⟩ := d
            simp only at this
            subst this
            rfl
          | error d' =>
            have := (C10.extract_iff variant d).2 d' hx
            subst this
            exact ctxStep_same _ _ _ _ rfl
  | toDyn =>
    cases p with
    | none => cases hold <;> exact ctxStep_same _ _ _ _ rfl
    | some p =>
      cases hold with
      | dyn d => exact ctxStep_same _ _ _ _ rfl
      | gone => exact ctxStep_same _ _ _ _ rfl
      | typed m =>
        simp only [step]
        cases hx : intoDynamic p m with
        | none => exact ctxStep_same _ _ _ _ rfl
        | some d =>
          refine ctxStep_keep _ _ _ _ _ ?_ rfl
          simp only [intoDynamic, Option.map_eq_some_iff] at hx
          obtain ⟨_, _, rfl⟩ := hx
          rfl
  | tcall name pay =>
    cases hold with
    | dyn d => exact ctxStep_same _ _ _ _ rfl
    | gone => exact ctxStep_same _ _ _ _ rfl
    | typed m =>
      simp only [step]
      cases hf : c.findMethod m.state name with
      | none => exact ctxStep_same _ _ _ _ rfl
      | some meth =>
        simp only
        rcases hr : run env (methodProg meth m (if meth.payload.isSome then pay else none)) [] with ⟨o, t⟩
        cases o with
        | done r =>
          cases r with
          | ok nm => exact ctxStep_keep _ _ _ _ _ (by simp [Holder.ctx?, (method_ok_ctx meth env m _ [] t nm hr).1]) (by simp)
          | err old e => exact ctxStep_keep _ _ _ _ _ (by simp [Holder.ctx?, method_err_same meth env m _ [] t old e hr]) (by simp)
        | panicked pi => simp [CtxStep, Holder.ctx?, List.filter_append, isCtxDrop]
        | abandoned => simp [CtxStep, Holder.ctx?, List.filter_append, isCtxDrop]
  | tcallAbandon name pay n =>
    cases hold with
    | dyn d => exact ctxStep_same _ _ _ _ rfl
    | gone => exact ctxStep_same _ _ _ _ rfl
    | typed m =>
      simp only [step]
      cases hf : c.findMethod m.state name with
      | none => exact ctxStep_same _ _ _ _ rfl
      | some meth =>
        simp only
        rcases hr : runUpTo env n (methodProg meth m (if meth.payload.isSome then pay else none)) [] with ⟨o, t⟩
        cases o with
        | done r =>
          have hrun := runUpTo_done env _ n [] t r hr
          cases r with
          | ok nm => exact ctxStep_keep _ _ _ _ _ (by simp [Holder.ctx?, (method_ok_ctx meth env m _ [] t nm hrun).1]) (by simp)
          | err old e => exact ctxStep_keep _ _ _ _ _ (by simp [Holder.ctx?, method_err_same meth env m _ [] t old e hrun]) (by simp)
        | panicked pi => simp [CtxStep, Holder.ctx?, List.filter_append, isCtxDrop]
        | abandoned => simp [CtxStep, Holder.ctx?, List.filter_append, isCtxDrop]
  | tcallNoPoll name pay =>
    cases hold with
    | dyn d => exact ctxStep_same _ _ _ _ rfl
    | gone => exact ctxStep_same _ _ _ _ rfl
    | typed m =>
      simp only [step]
      cases hf : c.findMethod m.state name with
      | none => exact ctxStep_same _ _ _ _ rfl
      | some meth => simp [CtxStep, Holder.ctx?, List.filter_append, isCtxDrop]
  | tdata s =>
    simp only [step]
    repeat' split
    all_goals first
      | exact ctxStep_same _ _ _ _ rfl
      | simp [CtxStep, Holder.ctx?, isCtxDrop]
  | tdataMut s v =>
    simp only [step]
    repeat' split
    all_goals first
      | exact ctxStep_same _ _ _ _ rfl
      | exact ctxStep_keep _ _ _ _ _ (by simp [Holder.ctx?]) rfl
      | simp [CtxStep, Holder.ctx?, isCtxDrop]
  | topt s =>
    simp only [step]
    repeat' split
    all_goals exact ctxStep_same _ _ _ _ rfl
  | toptMut s v =>
    simp only [step]
    repeat' split
    all_goals first
      | exact ctxStep_same _ _ _ _ rfl
      | exact ctxStep_keep _ _ _ _ _ (by simp [Holder.ctx?]) rfl
  | drop =>
    simp only [step]
    repeat' split
    all_goals simp [CtxStep, Holder.ctx?, isCtxDrop]


theorem runOps_none (c : Code) (p : Option DynParts) :
    ∀ (ops : List (Env × Op)) (hold : Holder), (∀ x ∈ ops, Op.creates x.2 = false) → Holder.ctx? hold = none →
      Holder.ctx? (runOps c p hold ops).1 = none ∧ (runOps c p hold ops).2.filter isCtxDrop = [] := by
  intro ops
  induction ops with
  | nil => intro hold _ h; exact ⟨h, rfl⟩
  | cons x rest ih =>
    intro hold hall hnone
    obtain ⟨env, op⟩ := x
    have hstep := step_ctx_accounting env c p hold op (hall (env, op) (by simp))
    unfold CtxStep at hstep
    rw [hnone] at hstep
    obtain ⟨h1, h2⟩ := ih (step env c p hold op).holder (fun y hy => hall y (by simp [hy])) hstep.1
    simp only [runOps]
    exact ⟨h1, by rw [List.filter_append, hstep.2, h2]; rfl⟩

/-- **The context is dropped exactly once, when the machine is.** Along any history of operations of the
    public API (successes, refusals, conversions, accessors, panicking or abandoned calls) on a machine
    carrying context `k`: the drop log contains `k` exactly once if the caller no longer holds a machine in
    the end, and not at all if it still does — never twice, and never while the machine is still held. -/
theorem context_dropped_exactly_once (c : Code) (p : Option DynParts) :
    ∀ (ops : List (Env × Op)) (hold : Holder) (k : Nat), (∀ x ∈ ops, Op.creates x.2 = false) →
      Holder.ctx? hold = some k →
      (Holder.ctx? (runOps c p hold ops).1 = some k ∧ (runOps c p hold ops).2.filter isCtxDrop = []) ∨
      (Holder.ctx? (runOps c p hold ops).1 = none ∧ (runOps c p hold ops).2.filter isCtxDrop = [.ctx k]) := by
  intro ops
  induction ops with
  | nil => intro hold k _ h; exact Or.inl ⟨h, rfl⟩
  | cons x rest ih =>
    intro hold k hall hk
    obtain ⟨env, op⟩ := x
    have hstep := step_ctx_accounting env c p hold op (hall (env, op) (by simp))
    unfold CtxStep at hstep
    rw [hk] at hstep
    simp only [runOps]
    rcases hstep with ⟨h1, h2⟩ | ⟨h1, h2⟩
    · rcases ih (step env c p hold op).holder k (fun y hy => hall y (by simp [hy])) h1 with ⟨g1, g2⟩ | ⟨g1, g2⟩
      · exact Or.inl ⟨g1, by rw [List.filter_append, h2, g2]; rfl⟩
      · exact Or.inr ⟨g1, by rw [List.filter_append, h2, g2]; rfl⟩
    · obtain ⟨g1, g2⟩ := runOps_none c p rest (step env c p hold op).holder (fun y hy => hall y (by simp [hy])) h1
      exact Or.inr ⟨g1, by rw [List.filter_append, h2, g2]; rfl⟩

/-- in particular, a history that ends with dropping the machine has dropped the context exactly once -/
theorem dropped_once_at_the_end (c : Code) (p : Option DynParts) (ops : List (Env × Op)) (hold : Holder) (k : Nat)
    (env : Env) (hall : ∀ x ∈ ops, Op.creates x.2 = false) (hk : Holder.ctx? hold = some k) :
    (runOps c p hold (ops ++ [(env, .drop)])).2.filter isCtxDrop = [.ctx k] := by
  have hall' : ∀ x ∈ ops ++ [(env, Op.drop)], Op.creates x.2 = false := by
    intro x hx
    rcases List.mem_append.mp hx with hx | hx
    · exact hall x hx
    · simp at hx; subst hx; rfl
  rcases context_dropped_exactly_once c p (ops ++ [(env, .drop)]) hold k hall' hk with ⟨g1, _⟩ | ⟨_, g2⟩
  · -- the final holder after an explicit drop is `gone`
    exfalso
    have : ∀ (l : List (Env × Op)) (h0 : Holder), (runOps c p h0 (l ++ [(env, Op.drop)])).1 = .gone := by
      intro l
      induction l with
      | nil =>
        intro h0
        simp only [List.nil_append, runOps, step]
        cases h0 with
        | typed m => rfl
        | gone => rfl
        | dyn d => obtain ⟨inner⟩ := d; cases inner <;> rfl
      | cons y ys ihl => intro h0; obtain ⟨e2, o2⟩ := y; simp only [List.cons_append, runOps]; exact ihl _
    rw [this] at g1
    simp [Holder.ctx?] at g1
  · exact g2


end SMV.C16
