import SMV.Lemmas.Ctx
import SMV.Props.C10
import SMV.Props.C19
/-
  C16 — Context and payload are moved, never duplicated or lost.
  Facts about *any* emitted method / wrapper code, so they do not depend on how it was generated.
-/
namespace SMV.C16
open SMV

/-- what the holder's machine carries as context, if it holds one -/
def Holder.ctx? : Holder → Option Nat
  | .typed m => some m.ctx
  | .dyn ⟨some (_, m)⟩ => some m.ctx
  | _ => none

/-- **Guards see the machine's own context**, and so does every other hook, on every path. -/
theorem hooks_see_own_context (meth : Method) (env : Env) (self : TM) (payload : Option Nat) (h : Hist) :
    ∃ t, (run env (methodProg meth self payload) h).2 = h ++ t ∧
      ∀ c ∈ t, c.ctx = self.ctx ∧ (c.kind = .cond → c.ctxArg = some self.ctx) :=
  method_trace_ctx meth env self payload h

/-- **The context is moved through transitions**: `Ok` carries the receiver's context into the new
    machine, `Err` hands the receiver back. -/
theorem context_moved (meth : Method) (env : Env) (self : TM) (payload : Option Nat) (h h' : Hist) :
    (∀ nm, run env (methodProg meth self payload) h = (.done (.ok nm), h') → nm.ctx = self.ctx) ∧
    (∀ old ge, run env (methodProg meth self payload) h = (.done (.err old ge), h') → old = self) :=
  ⟨fun nm hr => (method_ok_ctx meth env self payload h h' nm hr).1,
   fun old ge hr => method_err_same meth env self payload h h' old ge hr⟩

theorem handleProg_done_ctx (env : Env) (c : Code) (p : DynParts) (tag : Name) (tm : TM) (ev : EventVal) (h h' : Hist)
    (d' : DM) (r : HandleRes) (hrun : run env (handleProg c p tag tm ev) h = (.done (d', r), h')) :
    ∃ tag' tm', d'.inner = some (tag', tm') ∧ tm'.ctx = tm.ctx := by
  unfold handleProg at hrun
  cases hfa : p.arms.find? (fun a => a.src = tag ∧ a.variant = ev.variant) with
  | none =>
    simp only [hfa, run] at hrun
    simp at hrun
    obtain ⟨⟨rfl, _⟩, _⟩ := hrun
    exact ⟨tag, tm, rfl, rfl⟩
  | some a =>
    simp only [hfa] at hrun
    cases hfm : c.findMethod ((alookup a.src p.anyVariants).getD []) a.method with
    | none => simp [hfm, run] at hrun
    | some meth =>
      simp only [hfm] at hrun
      rw [run_mapRet] at hrun
      rcases hr : run env (methodProg meth tm (if a.passPayload then ev.payload else none)) h with ⟨o, h2⟩
      rw [hr] at hrun
      cases o with
      | done mr =>
        cases mr with
        | ok nm =>
          simp at hrun
          obtain ⟨⟨rfl, _⟩, _⟩ := hrun
          exact ⟨_, nm, rfl, (method_ok_ctx meth env tm _ h h2 nm hr).1⟩
        | err old ge =>
          simp at hrun
          obtain ⟨⟨rfl, _⟩, _⟩ := hrun
          exact ⟨_, old, rfl, by rw [method_err_same meth env tm _ h h2 old ge hr]⟩
      | panicked pi => simp at hrun
      | abandoned => simp at hrun

/-- a dispatch that returns keeps the very context the wrapper had -/
theorem handle_keeps_context (env : Env) (c : Code) (p : DynParts) (tag : Name) (tm : TM) (ev : EventVal) (h h' : Hist)
    (d' : DM) (r : HandleRes)
    (hrun : runHandle env c p ⟨some (tag, tm)⟩ ev h = ((d', .done r), h')) :
    ∃ tag' tm', d'.inner = some (tag', tm') ∧ tm'.ctx = tm.ctx := by
  simp only [runHandle] at hrun
  rcases hr : run env (handleProg c p tag tm ev) h with ⟨o, h2⟩
  rw [hr] at hrun
  cases o with
  | done x =>
    obtain ⟨dd, rr⟩ := x
    simp at hrun
    obtain ⟨⟨rfl, rfl⟩, rfl⟩ := hrun
    exact handleProg_done_ctx env c p tag tm ev h h2 dd rr hr
  | panicked pi => simp at hrun
  | abandoned => simp at hrun

/-- **Payload: consumed exactly once per call**, whether the call succeeds, is refused, is refused as
    invalid, panics or is abandoned — for `handle` and for typed calls. -/
theorem payload_once (env : Env) (c : Code) (p : Option DynParts) (hold : Holder) (pid : Nat) :
    (∀ v, (step env c p hold (.handle v (some pid))).res ≠ .noSuch →
      ((step env c p hold (.handle v (some pid))).drops.filter (· = .payload pid)).length = 1) ∧
    (∀ n, (step env c p hold (.tcall n (some pid))).res ≠ .noSuch →
      ((step env c p hold (.tcall n (some pid))).drops.filter (· = .payload pid)).length = 1) := by
  constructor
  · intro v hne
    cases p with
    | none => simp [step] at hne
    | some p' =>
      cases hold with
      | dyn d =>
        simp only [step]
        rcases hr : runHandle env c p' d ⟨v, some pid⟩ [] with ⟨⟨d', out⟩, t⟩
        cases out with
        | done r => cases r <;> simp [payDrop]
        | panicked pi => cases hdi : d.inner <;> simp [payDrop]
        | abandoned => simp [payDrop]
      | typed m => simp [step] at hne
      | gone => simp [step] at hne
  · intro n hne
    cases hold with
    | typed m =>
      simp only [step] at hne ⊢
      cases hfm : c.findMethod m.state n with
      | none => simp [hfm] at hne
      | some meth =>
        simp only [hfm]
        rcases hr : run env (methodProg meth m (if meth.payload.isSome then some pid else none)) [] with ⟨o, t⟩
        cases o with
        | done mr => cases mr <;> simp [payDrop]
        | panicked pi => simp [payDrop]
        | abandoned => simp [payDrop]
    | dyn d => simp [step] at hne
    | gone => simp [step] at hne

/-- **Context: dropped exactly when the machine is** — by an explicit drop, or by a panicking or
    abandoned call that destroys the machine; never by a call that returns or by a conversion. -/
theorem context_dropped_with_machine (env : Env) (c : Code) (p : Option DynParts) (tag : Name) (tm : TM) (v : Name)
    (pay : Option Nat) :
    let o := step env c p (.dyn ⟨some (tag, tm)⟩) (.handle v pay)
    (o.res = .ok ∨ (∃ e, o.res = .errDyn e) → Res.Drop.ctx tm.ctx ∉ o.drops ∧ Holder.ctx? o.holder = some tm.ctx) ∧
    ((∃ pi, o.res = .panicked pi) → (o.drops.filter (· = .ctx tm.ctx)).length = 1 ∧ Holder.ctx? o.holder = none) := by
  intro o
  cases p with
  | none => simp [o, step]
  | some p =>
    simp only [o, step]
    rcases hr : runHandle env c p ⟨some (tag, tm)⟩ ⟨v, pay⟩ [] with ⟨⟨d', out⟩, t⟩
    cases out with
    | done r =>
      obtain ⟨tag', tm', hd, hctx⟩ := handle_keeps_context env c p tag tm ⟨v, pay⟩ [] t d' r hr
      have hd' : d' = ⟨some (tag', tm')⟩ := by cases d'; simp_all
      subst hd'
      cases r with
      | ok => cases pay <;> simp [payDrop, Holder.ctx?, hctx]
      | err e => cases pay <;> simp [payDrop, Holder.ctx?, hctx]
    | panicked pi =>
      have hnone := C19.panic_poisons env c p _ _ [] d' pi t hr
      have hd' : d' = ⟨none⟩ := by cases d'; simp_all
      subst hd'
      cases pay <;> simp [payDrop, Holder.ctx?]
    | abandoned => cases pay <;> simp [payDrop]

/-- conversions move the machine with its context and drop nothing -/
theorem conversions_keep_context (m : Machine) (tm : TM) (hs : tm.state ∈ m.states) :
    (intoDynamic (partsOf m) tm).map (fun d => Holder.ctx? (.dyn d)) = some (some tm.ctx) ∧
    (∀ tm', dynExtract tm.state ⟨some (tm.state, tm)⟩ = .ok tm' → tm'.ctx = tm.ctx) := by
  constructor
  · rw [(C10.into_dynamic_state m tm hs).1]; rfl
  · intro tm' h
    simp [dynExtract] at h
    rw [← h]

end SMV.C16
