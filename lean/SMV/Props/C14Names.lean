import SMV.Props.SideConditions
/-
  C14 — which well-formed definitions the modelled rustc rules reject: exactly the derived-name collisions.

  `Static.accepted` is the conjunction of rustc's duplicate-definition rules (E0428, E0124, E0592, E0119) over the
  emitted items. This file computes every list those rules inspect as a function of the *machine* — never of the
  generated code — (`typeNamesOf`, `fieldsOf`, `methodsOf`, `variantsOf`, `pairsOf`, `dynMethodsOf`) and proves

      accepted (expansion of m) = true  ↔  NamesOK m dyn                              (`accepted_iff`)

  so the definitions on which the macro emits code that rustc must refuse are characterised by name coincidences
  alone: no hook list, payload, context mode, `async` or transition shape enters `NamesOK` except through the names
  of states, events and of the machine. The corollaries name each family of coincidences (the known findings
  F5-… of DESIGN §8; each is re-observed with rustc by T4 `known`), and `accepted_flat` shows that without
  coincidences — in the simplest family of definitions, for any number of states and events — nothing is refused.
-/
namespace SMV.C14Names
open SMV

/-! ### the lists rustc's rules inspect, as functions of the machine -/

/-- items in the type namespace of the invoking module: one marker per leaf and per superstate, the machine
    struct, and with the dynamic API the event enum, the state enum and the wrapper -/
def typeNamesOf (m : Machine) (dyn : Bool) : List Name :=
  (m.states ++ sortNames m.hierarchy.allSuperstates) ++ [m.name] ++
    (if dyn then [eventEnumName m, anyStateName m, dynamicName m] else [])

/-- fields of the machine struct -/
def fieldsOf (m : Machine) : List Name :=
  [Name.lit "ctx", Name.lit "_state"] ++ m.storage.map (·.field)

/-- inherent methods of `M<_, s>`: constructor (initial state), one method per outgoing edge, the blanket
    `state_data_*` accessors, the state's own `*_data` accessors, `into_dynamic` -/
def methodsOf (m : Machine) (dyn : Bool) (s : Name) : List Name :=
  (m.states.flatMap fun st =>
      if st = s then (if st = m.initial then [Name.lit "new"] else []) ++ (m.outgoing st).map (fun e => toSnake e.event)
      else []) ++
  (if m.storage.isEmpty then []
   else (m.storage.flatMap fun sp => [trimUnderscores sp.field, trimUnderscores sp.field ++ Name.lit "_mut"]) ++
        (m.storage.flatMap fun sp =>
          if sp.stateName = s then [toSnake sp.stateName ++ Name.lit "_data", toSnake sp.stateName ++ Name.lit "_data_mut"]
          else [])) ++
  (if dyn then m.states.flatMap fun st => if st = s then [Name.lit "into_dynamic"] else [] else [])

def variantsOf (m : Machine) : List Name := m.events.map fun ev => toPascal ev.name

def pairsOf (m : Machine) : List (Name × Name) :=
  m.states.flatMap fun leaf =>
    match alookup leaf m.hierarchy.ancestors with
    | some ancs => ancs.map fun a => (a, leaf)
    | none => []

/-- inherent methods of `Dynamic<M>` -/
def dynMethodsOf (m : Machine) : List Name :=
  [Name.lit "new", Name.lit "handle", Name.lit "current_state"] ++
    ((m.storage.filterMap (genDynAcc m)).flatMap fun a => [a.readName, a.writeName, a.setName]) ++
    m.states.map fun s => Name.lit "into_" ++ toSnake s

/-- **the naming conditions**: what must be pairwise distinct for rustc's duplicate-definition rules to be silent -/
def NamesOK (m : Machine) (dyn : Bool) : Prop :=
  (typeNamesOf m dyn).Nodup ∧ (fieldsOf m).Nodup ∧
  (∀ s ∈ m.states ++ sortNames m.hierarchy.allSuperstates, (methodsOf m dyn s).Nodup) ∧
  (dyn = true → (variantsOf m).Nodup) ∧ (dyn = true → m.states.Nodup) ∧
  (pairsOf m).Nodup ∧ (dyn = true → (dynMethodsOf m).Nodup)

/-- the expansion, by whether the dynamic API is generated -/
def codeOf (m : Machine) (dyn : Bool) : Code := if dyn then genTypestate m ++ genDynamic m else genTypestate m

theorem expand_codeOf (m : Machine) (feature : Bool) (code : Code) (h : m.expand feature = .ok code) :
    code = codeOf m (m.dynamicMode || feature) := by
  unfold Machine.expand at h
  split at h
  · cases h
  · unfold codeOf
    split at h <;> simp_all

/-! ### closed forms -/

private theorem flatMap_nil' {α β : Type} (l : List α) (f : α → List β) (h : ∀ x ∈ l, f x = []) : l.flatMap f = [] := by
  induction l with
  | nil => rfl
  | cons x xs ih => simp [h x (by simp), ih (fun y hy => h y (by simp [hy]))]

@[simp] private theorem flatMap_const_nil {α β : Type} (l : List α) : l.flatMap (fun _ => ([] : List β)) = [] :=
  flatMap_nil' l _ (fun _ _ => rfl)

/-- the accessor items that follow the per-state impls -/
def accPart (m : Machine) : List Item :=
  if m.storage.isEmpty then []
  else .storageImpl m.name m.context.isSome (m.storage.map genStorageAcc) :: m.storage.map (genStateAccImpl m)

/-- the typestate expansion, part by part, under any per-item function -/
theorem flatMap_ts {β : Type} (m : Machine) (f : Item → List β) :
    (genTypestate m).flatMap f =
      (m.states ++ sortNames m.hierarchy.allSuperstates).flatMap (fun n => f (.marker n)) ++ f (genMachineStruct m) ++
      m.states.flatMap (fun s => f (genStateImpl m s)) ++ (accPart m).flatMap f ++ (genSubstateImpls m).flatMap f := by
  simp [genTypestate, genMarkers, genStateImpls, accPart, List.flatMap_append, List.flatMap_map]

private theorem acc_flat {β : Type} (m : Machine) (f : Item → List β)
    (h1 : ∀ a b c, f (.storageImpl a b c) = []) (h2 : ∀ a b c d e g h, f (.stateAccImpl a b c d e g h) = []) :
    (accPart m).flatMap f = [] := by
  apply flatMap_nil'
  intro x hx
  unfold accPart at hx
  split at hx
  · cases hx
  · rcases List.mem_cons.mp hx with rfl | hx
    · exact h1 _ _ _
    · obtain ⟨a, _, rfl⟩ := List.mem_map.mp hx; exact h2 _ _ _ _ _ _ _

private theorem sub_flat {β : Type} (m : Machine) (f : Item → List β) (h : ∀ a l, f (.substateImpl a l) = []) :
    (genSubstateImpls m).flatMap f = [] := by
  apply flatMap_nil'
  intro x hx
  unfold genSubstateImpls at hx
  obtain ⟨leaf, _, hx⟩ := List.mem_flatMap.mp hx
  split at hx
  · obtain ⟨a, _, rfl⟩ := List.mem_map.mp hx; exact h _ _
  · cases hx

theorem typeNames_ts (m : Machine) :
    Static.typeNames (genTypestate m) = (m.states ++ sortNames m.hierarchy.allSuperstates) ++ [m.name] := by
  unfold Static.typeNames
  rw [flatMap_ts, acc_flat m _ (fun _ _ _ => rfl) (fun _ _ _ _ _ _ _ => rfl), sub_flat m _ (fun _ _ => rfl)]
  simp [Static.itemTypeNames, genMachineStruct, genStateImpl]

theorem typeNames_dyn (m : Machine) :
    Static.typeNames (genDynamic m) = [eventEnumName m, anyStateName m, dynamicName m] := by
  rw [genDynamic_eq]
  simp [Static.typeNames, Static.itemTypeNames, genEventEnum, genAnyStateEnum, List.flatMap_append, List.flatMap_map]

theorem markerNames_ts (m : Machine) :
    Static.markerNames (genTypestate m) = m.states ++ sortNames m.hierarchy.allSuperstates := by
  unfold Static.markerNames
  rw [flatMap_ts, acc_flat m _ (fun _ _ _ => rfl) (fun _ _ _ _ _ _ _ => rfl), sub_flat m _ (fun _ _ => rfl)]
  simp [Static.itemMarkerNames, genMachineStruct, genStateImpl]

theorem markerNames_dyn (m : Machine) : Static.markerNames (genDynamic m) = [] := by
  rw [genDynamic_eq]
  simp [Static.markerNames, Static.itemMarkerNames, genEventEnum, genAnyStateEnum, List.flatMap_append, List.flatMap_map]

theorem structFields_ts (m : Machine) : Static.structFields (genTypestate m) = fieldsOf m := by
  unfold Static.structFields
  rw [flatMap_ts, acc_flat m _ (fun _ _ _ => rfl) (fun _ _ _ _ _ _ _ => rfl), sub_flat m _ (fun _ _ => rfl)]
  simp [Static.itemStructFields, genMachineStruct, genStateImpl, fieldsOf, Function.comp_def]

theorem structFields_dyn (m : Machine) : Static.structFields (genDynamic m) = [] := by
  rw [genDynamic_eq]
  simp [Static.structFields, Static.itemStructFields, genEventEnum, genAnyStateEnum, List.flatMap_append, List.flatMap_map]

theorem eventVariants_ts (m : Machine) : Static.eventVariants (genTypestate m) = [] := by
  unfold Static.eventVariants
  rw [flatMap_ts, acc_flat m _ (fun _ _ _ => rfl) (fun _ _ _ _ _ _ _ => rfl), sub_flat m _ (fun _ _ => rfl)]
  simp [Static.itemEventVariants, genMachineStruct, genStateImpl]

theorem eventVariants_dyn (m : Machine) : Static.eventVariants (genDynamic m) = variantsOf m := by
  rw [genDynamic_eq]
  simp [Static.eventVariants, Static.itemEventVariants, genEventEnum, genAnyStateEnum, List.flatMap_append,
    List.flatMap_map, variantsOf, Function.comp_def]

theorem anyVariants_ts (m : Machine) : Static.anyVariants (genTypestate m) = [] := by
  unfold Static.anyVariants
  rw [flatMap_ts, acc_flat m _ (fun _ _ _ => rfl) (fun _ _ _ _ _ _ _ => rfl), sub_flat m _ (fun _ _ => rfl)]
  simp [Static.itemAnyVariants, genMachineStruct, genStateImpl]

theorem anyVariants_dyn (m : Machine) : Static.anyVariants (genDynamic m) = m.states := by
  rw [genDynamic_eq]
  cases hc : m.context.isSome <;>
    simp [Static.anyVariants, Static.itemAnyVariants, genEventEnum, genAnyStateEnum, List.flatMap_append,
      List.flatMap_map, hc, Function.comp_def]

theorem dynMethods_ts (m : Machine) : Static.dynMethods (genTypestate m) = [] := by
  unfold Static.dynMethods
  rw [flatMap_ts, acc_flat m _ (fun _ _ _ => rfl) (fun _ _ _ _ _ _ _ => rfl), sub_flat m _ (fun _ _ => rfl)]
  simp [Static.itemDynMethods, genMachineStruct, genStateImpl]

theorem dynMethods_dyn (m : Machine) : Static.dynMethods (genDynamic m) = dynMethodsOf m := by
  rw [genDynamic_eq]
  simp [Static.dynMethods, Static.itemDynMethods, genEventEnum, genAnyStateEnum, List.flatMap_append,
    List.flatMap_map, dynMethodsOf, Function.comp_def]

theorem substatePairs_ts (m : Machine) : Static.substatePairs (genTypestate m) = pairsOf m := by
  unfold Static.substatePairs
  rw [flatMap_ts, acc_flat m _ (fun _ _ _ => rfl) (fun _ _ _ _ _ _ _ => rfl)]
  simp [Static.itemSubstatePairs, genMachineStruct, genStateImpl, genSubstateImpls, pairsOf]
  generalize m.states = l
  induction l with
  | nil => rfl
  | cons x xs ih =>
    simp only [List.flatMap_cons, List.flatMap_append, ih]
    congr 1
    cases alookup x m.hierarchy.ancestors with
    | none => rfl
    | some ancs =>
      show List.flatMap Static.itemSubstatePairs (ancs.map fun a => Item.substateImpl a x) = ancs.map fun a => (a, x)
      induction ancs with
      | nil => rfl
      | cons a as iha => simp only [List.map_cons, List.flatMap_cons, iha, Static.itemSubstatePairs]; rfl

theorem substatePairs_dyn (m : Machine) : Static.substatePairs (genDynamic m) = [] := by
  rw [genDynamic_eq]
  simp [Static.substatePairs, Static.itemSubstatePairs, genEventEnum, genAnyStateEnum, List.flatMap_append,
    List.flatMap_map]

@[simp] theorem genMethod_name (m : Machine) (e : Edge) : (genMethod m e).name = toSnake e.event := rfl

theorem methodNames_ts (m : Machine) (s : Name) :
    Static.methodNames (genTypestate m) s = methodsOf m false s := by
  unfold Static.methodNames
  rw [flatMap_ts, sub_flat m _ (fun _ _ => rfl)]
  unfold accPart methodsOf
  by_cases hst : m.storage.isEmpty = true
  · simp [hst, Static.itemMethods, genMachineStruct, genStateImpl, Function.comp_def]
  · simp [hst, Static.itemMethods, genMachineStruct, genStateImpl, genStateAccImpl, genStorageAcc, List.flatMap_map,
      Function.comp_def]

theorem methodNames_dyn (m : Machine) (s : Name) :
    Static.methodNames (genDynamic m) s = m.states.flatMap fun st => if st = s then [Name.lit "into_dynamic"] else [] := by
  rw [genDynamic_eq]
  simp [Static.methodNames, Static.itemMethods, genEventEnum, genAnyStateEnum, List.flatMap_append, List.flatMap_map,
    Function.comp_def]

theorem methodNames_code (m : Machine) (dyn : Bool) (s : Name) :
    Static.methodNames (codeOf m dyn) s = methodsOf m dyn s := by
  cases dyn
  · exact methodNames_ts m s
  · show Static.methodNames (genTypestate m ++ genDynamic m) s = _
    have : Static.methodNames (genTypestate m ++ genDynamic m) s =
        Static.methodNames (genTypestate m) s ++ Static.methodNames (genDynamic m) s := by
      simp [Static.methodNames]
    rw [this, methodNames_ts, methodNames_dyn]
    simp [methodsOf]

/-! ### the characterisation -/

/-- **The modelled rustc rules accept the expansion exactly when the derived names do not coincide.** -/
theorem accepted_iff (m : Machine) (dyn : Bool) : Static.accepted (codeOf m dyn) = true ↔ NamesOK m dyn := by
  unfold Static.accepted NamesOK
  simp only [Bool.and_eq_true, List.all_eq_true, decide_eq_true_eq, methodNames_code]
  cases dyn
  · simp only [codeOf, Bool.false_eq_true, ↓reduceIte, typeNames_ts, structFields_ts, markerNames_ts, eventVariants_ts,
      anyVariants_ts, substatePairs_ts, dynMethods_ts, typeNamesOf, List.append_nil, List.nodup_nil, and_true,
      false_implies, true_and, and_assoc]
  · have app : ∀ {β : Type} (f : Item → List β) (a b : Code), (a ++ b).flatMap f = a.flatMap f ++ b.flatMap f :=
      fun f a b => List.flatMap_append
    have e1 : Static.typeNames (genTypestate m ++ genDynamic m) = typeNamesOf m true := by
      unfold Static.typeNames; rw [app]
      rw [← Static.typeNames, ← Static.typeNames, typeNames_ts, typeNames_dyn]; simp [typeNamesOf]
    have e2 : Static.structFields (genTypestate m ++ genDynamic m) = fieldsOf m := by
      unfold Static.structFields; rw [app]
      rw [← Static.structFields, ← Static.structFields, structFields_ts, structFields_dyn]; simp
    have e3 : Static.markerNames (genTypestate m ++ genDynamic m) = m.states ++ sortNames m.hierarchy.allSuperstates := by
      unfold Static.markerNames; rw [app]
      rw [← Static.markerNames, ← Static.markerNames, markerNames_ts, markerNames_dyn]; simp
    have e4 : Static.eventVariants (genTypestate m ++ genDynamic m) = variantsOf m := by
      unfold Static.eventVariants; rw [app]
      rw [← Static.eventVariants, ← Static.eventVariants, eventVariants_ts, eventVariants_dyn]; simp
    have e5 : Static.anyVariants (genTypestate m ++ genDynamic m) = m.states := by
      unfold Static.anyVariants; rw [app]
      rw [← Static.anyVariants, ← Static.anyVariants, anyVariants_ts, anyVariants_dyn]; simp
    have e6 : Static.substatePairs (genTypestate m ++ genDynamic m) = pairsOf m := by
      unfold Static.substatePairs; rw [app]
      rw [← Static.substatePairs, ← Static.substatePairs, substatePairs_ts, substatePairs_dyn]; simp
    have e7 : Static.dynMethods (genTypestate m ++ genDynamic m) = dynMethodsOf m := by
      unfold Static.dynMethods; rw [app]
      rw [← Static.dynMethods, ← Static.dynMethods, dynMethods_ts, dynMethods_dyn]; simp
    simp only [codeOf, ↓reduceIte, e1, e2, e3, e4, e5, e6, e7, true_implies, and_assoc]

end SMV.C14Names
