import SMV.Props.SideConditions
/-
  C14 — which well-formed definitions the modelled rustc rules reject: exactly the derived-name collisions.

  `Static.accepted` is the conjunction of rustc's duplicate-definition rules (E0428, E0124, E0592, E0119) over the
  emitted items. This file computes every list those rules inspect as a function of the *machine* — never of the
  generated code — (`typeNamesOf`, `fieldsOf`, `methodsOf`, `variantsOf`, `pairsOf`, `dynMethodsOf`) and proves

      accepted (expansion of m) = true  ↔  NamesOK m dyn                              (`accepted_iff`)

  so the definitions on which the macro emits code that rustc must refuse are characterised by name coincidences
  alone: no hook list, payload, context mode, `async` or transition shape enters `NamesOK` except through the names
  of states, events and of the machine. The corollaries name each family of coincidences (the known findings
  F5-… of DESIGN §8; one instance of each is re-observed with rustc by T4 `known`). `Props/Witness.lean` shows the
  conditions satisfiable on a machine that uses every feature of the DSL.
-/
namespace SMV.C14Names
open SMV

/-! ### the lists rustc's rules inspect, as functions of the machine -/

/-- items in the type namespace of the invoking module: one marker per leaf and per superstate, the machine
    struct, and with the dynamic API the event enum, the state enum and the wrapper -/
def typeNamesOf (m : Machine) (dyn : Bool) : List Name :=
  (m.states ++ sortNames m.hierarchy.allSuperstates) ++ [m.name] ++
    (if dyn then [eventEnumName m, anyStateName m, dynamicName m] else [])

/-- fields of the machine struct -/
def fieldsOf (m : Machine) : List Name :=
  [Name.lit "ctx", Name.lit "_state"] ++ m.storage.map (·.field)

/-- inherent methods of `M<_, s>`: constructor (initial state), one method per outgoing edge, the blanket
    `state_data_*` accessors, the state's own `*_data` accessors, `into_dynamic` -/
def methodsOf (m : Machine) (dyn : Bool) (s : Name) : List Name :=
  (m.states.flatMap fun st =>
      if st = s then (if st = m.initial then [Name.lit "new"] else []) ++ (m.outgoing st).map (fun e => toSnake e.event)
      else []) ++
  (if m.storage.isEmpty then []
   else (m.storage.flatMap fun sp => [trimUnderscores sp.field, trimUnderscores sp.field ++ Name.lit "_mut"]) ++
        (m.storage.flatMap fun sp =>
          if sp.stateName = s then [toSnake sp.stateName ++ Name.lit "_data", toSnake sp.stateName ++ Name.lit "_data_mut"]
          else [])) ++
  (if dyn then m.states.flatMap fun st => if st = s then [Name.lit "into_dynamic"] else [] else [])

def variantsOf (m : Machine) : List Name := m.events.map fun ev => toPascal ev.name

def pairsOf (m : Machine) : List (Name × Name) :=
  m.states.flatMap fun leaf =>
    match alookup leaf m.hierarchy.ancestors with
    | some ancs => ancs.map fun a => (a, leaf)
    | none => []

/-- inherent methods of `Dynamic<M>` -/
def dynMethodsOf (m : Machine) : List Name :=
  [Name.lit "new", Name.lit "handle", Name.lit "current_state"] ++
    ((m.storage.filterMap (genDynAcc m)).flatMap fun a => [a.readName, a.writeName, a.setName]) ++
    m.states.map fun s => Name.lit "into_" ++ toSnake s

/-- **the naming conditions**: what must be pairwise distinct for rustc's duplicate-definition rules to be silent -/
def NamesOK (m : Machine) (dyn : Bool) : Prop :=
  (typeNamesOf m dyn).Nodup ∧ (fieldsOf m).Nodup ∧
  (∀ s ∈ m.states ++ sortNames m.hierarchy.allSuperstates, (methodsOf m dyn s).Nodup) ∧
  (dyn = true → (variantsOf m).Nodup) ∧ (dyn = true → m.states.Nodup) ∧
  (pairsOf m).Nodup ∧ (dyn = true → (dynMethodsOf m).Nodup)

/-- the expansion, by whether the dynamic API is generated -/
def codeOf (m : Machine) (dyn : Bool) : Code := if dyn then genTypestate m ++ genDynamic m else genTypestate m

theorem expand_codeOf (m : Machine) (feature : Bool) (code : Code) (h : m.expand feature = .ok code) :
    code = codeOf m (m.dynamicMode || feature) := by
  unfold Machine.expand at h
  split at h
  · cases h
  · unfold codeOf
    split at h <;> simp_all

/-! ### closed forms -/

theorem flatMap_nilOf {α β : Type} (l : List α) (f : α → List β) (h : ∀ x ∈ l, f x = []) : l.flatMap f = [] := by
  induction l with
  | nil => rfl
  | cons x xs ih => simp [h x (by simp), ih (fun y hy => h y (by simp [hy]))]

@[simp] theorem flatMap_const_nil {α β : Type} (l : List α) : l.flatMap (fun _ => ([] : List β)) = [] :=
  flatMap_nilOf l _ (fun _ _ => rfl)

/-- the accessor items that follow the per-state impls -/
def accPart (m : Machine) : List Item :=
  if m.storage.isEmpty then []
  else .storageImpl m.name m.context.isSome (m.storage.map genStorageAcc) :: m.storage.map (genStateAccImpl m)

/-- the typestate expansion, part by part, under any per-item function -/
theorem flatMap_ts {β : Type} (m : Machine) (f : Item → List β) :
    (genTypestate m).flatMap f =
      (m.states ++ sortNames m.hierarchy.allSuperstates).flatMap (fun n => f (.marker n)) ++ f (genMachineStruct m) ++
      m.states.flatMap (fun s => f (genStateImpl m s)) ++ (accPart m).flatMap f ++ (genSubstateImpls m).flatMap f := by
  simp [genTypestate, genMarkers, genStateImpls, accPart, List.flatMap_append, List.flatMap_map]

theorem acc_flat {β : Type} (m : Machine) (f : Item → List β)
    (h1 : ∀ a b c, f (.storageImpl a b c) = []) (h2 : ∀ a b c d e g h, f (.stateAccImpl a b c d e g h) = []) :
    (accPart m).flatMap f = [] := by
  apply flatMap_nilOf
  intro x hx
  unfold accPart at hx
  split at hx
  · cases hx
  · rcases List.mem_cons.mp hx with rfl | hx
    · exact h1 _ _ _
    · obtain ⟨a, _, rfl⟩ := List.mem_map.mp hx; exact h2 _ _ _ _ _ _ _

theorem sub_flat {β : Type} (m : Machine) (f : Item → List β) (h : ∀ a l, f (.substateImpl a l) = []) :
    (genSubstateImpls m).flatMap f = [] := by
  apply flatMap_nilOf
  intro x hx
  unfold genSubstateImpls at hx
  obtain ⟨leaf, _, hx⟩ := List.mem_flatMap.mp hx
  split at hx
  · obtain ⟨a, _, rfl⟩ := List.mem_map.mp hx; exact h _ _
  · cases hx

theorem typeNames_ts (m : Machine) :
    Static.typeNames (genTypestate m) = (m.states ++ sortNames m.hierarchy.allSuperstates) ++ [m.name] := by
  unfold Static.typeNames
  rw [flatMap_ts, acc_flat m _ (fun _ _ _ => rfl) (fun _ _ _ _ _ _ _ => rfl), sub_flat m _ (fun _ _ => rfl)]
  simp [Static.itemTypeNames, genMachineStruct, genStateImpl]

theorem typeNames_dyn (m : Machine) :
    Static.typeNames (genDynamic m) = [eventEnumName m, anyStateName m, dynamicName m] := by
  rw [genDynamic_eq]
  simp [Static.typeNames, Static.itemTypeNames, genEventEnum, genAnyStateEnum, List.flatMap_append, List.flatMap_map]

theorem markerNames_ts (m : Machine) :
    Static.markerNames (genTypestate m) = m.states ++ sortNames m.hierarchy.allSuperstates := by
  unfold Static.markerNames
  rw [flatMap_ts, acc_flat m _ (fun _ _ _ => rfl) (fun _ _ _ _ _ _ _ => rfl), sub_flat m _ (fun _ _ => rfl)]
  simp [Static.itemMarkerNames, genMachineStruct, genStateImpl]

theorem markerNames_dyn (m : Machine) : Static.markerNames (genDynamic m) = [] := by
  rw [genDynamic_eq]
  simp [Static.markerNames, Static.itemMarkerNames, genEventEnum, genAnyStateEnum, List.flatMap_append, List.flatMap_map]

theorem structFields_ts (m : Machine) : Static.structFields (genTypestate m) = fieldsOf m := by
  unfold Static.structFields
  rw [flatMap_ts, acc_flat m _ (fun _ _ _ => rfl) (fun _ _ _ _ _ _ _ => rfl), sub_flat m _ (fun _ _ => rfl)]
  simp [Static.itemStructFields, genMachineStruct, genStateImpl, fieldsOf, Function.comp_def]

theorem structFields_dyn (m : Machine) : Static.structFields (genDynamic m) = [] := by
  rw [genDynamic_eq]
  simp [Static.structFields, Static.itemStructFields, genEventEnum, genAnyStateEnum, List.flatMap_append, List.flatMap_map]

theorem eventVariants_ts (m : Machine) : Static.eventVariants (genTypestate m) = [] := by
  unfold Static.eventVariants
  rw [flatMap_ts, acc_flat m _ (fun _ _ _ => rfl) (fun _ _ _ _ _ _ _ => rfl), sub_flat m _ (fun _ _ => rfl)]
  simp [Static.itemEventVariants, genMachineStruct, genStateImpl]

theorem eventVariants_dyn (m : Machine) : Static.eventVariants (genDynamic m) = variantsOf m := by
  rw [genDynamic_eq]
  simp [Static.eventVariants, Static.itemEventVariants, genEventEnum, genAnyStateEnum, List.flatMap_append,
    List.flatMap_map, variantsOf, Function.comp_def]

theorem anyVariants_ts (m : Machine) : Static.anyVariants (genTypestate m) = [] := by
  unfold Static.anyVariants
  rw [flatMap_ts, acc_flat m _ (fun _ _ _ => rfl) (fun _ _ _ _ _ _ _ => rfl), sub_flat m _ (fun _ _ => rfl)]
  simp [Static.itemAnyVariants, genMachineStruct, genStateImpl]

theorem anyVariants_dyn (m : Machine) : Static.anyVariants (genDynamic m) = m.states := by
  rw [genDynamic_eq]
  cases hc : m.context.isSome <;>
    simp [Static.anyVariants, Static.itemAnyVariants, genEventEnum, genAnyStateEnum, List.flatMap_append,
      List.flatMap_map, hc, Function.comp_def]

theorem dynMethods_ts (m : Machine) : Static.dynMethods (genTypestate m) = [] := by
  unfold Static.dynMethods
  rw [flatMap_ts, acc_flat m _ (fun _ _ _ => rfl) (fun _ _ _ _ _ _ _ => rfl), sub_flat m _ (fun _ _ => rfl)]
  simp [Static.itemDynMethods, genMachineStruct, genStateImpl]

theorem dynMethods_dyn (m : Machine) : Static.dynMethods (genDynamic m) = dynMethodsOf m := by
  rw [genDynamic_eq]
  simp [Static.dynMethods, Static.itemDynMethods, genEventEnum, genAnyStateEnum, List.flatMap_append,
    List.flatMap_map, dynMethodsOf, Function.comp_def]

theorem substatePairs_ts (m : Machine) : Static.substatePairs (genTypestate m) = pairsOf m := by
  unfold Static.substatePairs
  rw [flatMap_ts, acc_flat m _ (fun _ _ _ => rfl) (fun _ _ _ _ _ _ _ => rfl)]
  simp [Static.itemSubstatePairs, genMachineStruct, genStateImpl, genSubstateImpls, pairsOf]
  generalize m.states = l
  induction l with
  | nil => rfl
  | cons x xs ih =>
    simp only [List.flatMap_cons, List.flatMap_append, ih]
    congr 1
    cases alookup x m.hierarchy.ancestors with
    | none => rfl
    | some ancs =>
      show List.flatMap Static.itemSubstatePairs (ancs.map fun a => Item.substateImpl a x) = ancs.map fun a => (a, x)
      induction ancs with
      | nil => rfl
      | cons a as iha => simp only [List.map_cons, List.flatMap_cons, iha, Static.itemSubstatePairs]; rfl

theorem substatePairs_dyn (m : Machine) : Static.substatePairs (genDynamic m) = [] := by
  rw [genDynamic_eq]
  simp [Static.substatePairs, Static.itemSubstatePairs, genEventEnum, genAnyStateEnum, List.flatMap_append,
    List.flatMap_map]

@[simp] theorem genMethod_name (m : Machine) (e : Edge) : (genMethod m e).name = toSnake e.event := rfl

theorem methodNames_ts (m : Machine) (s : Name) :
    Static.methodNames (genTypestate m) s = methodsOf m false s := by
  unfold Static.methodNames
  rw [flatMap_ts, sub_flat m _ (fun _ _ => rfl)]
  unfold accPart methodsOf
  by_cases hst : m.storage.isEmpty = true
  · simp [hst, Static.itemMethods, genMachineStruct, genStateImpl, Function.comp_def]
  · simp [hst, Static.itemMethods, genMachineStruct, genStateImpl, genStateAccImpl, genStorageAcc, List.flatMap_map,
      Function.comp_def]

theorem methodNames_dyn (m : Machine) (s : Name) :
    Static.methodNames (genDynamic m) s = m.states.flatMap fun st => if st = s then [Name.lit "into_dynamic"] else [] := by
  rw [genDynamic_eq]
  simp [Static.methodNames, Static.itemMethods, genEventEnum, genAnyStateEnum, List.flatMap_append, List.flatMap_map]

theorem methodNames_code (m : Machine) (dyn : Bool) (s : Name) :
    Static.methodNames (codeOf m dyn) s = methodsOf m dyn s := by
  cases dyn
  · exact methodNames_ts m s
  · show Static.methodNames (genTypestate m ++ genDynamic m) s = _
    have : Static.methodNames (genTypestate m ++ genDynamic m) s =
        Static.methodNames (genTypestate m) s ++ Static.methodNames (genDynamic m) s := by
      simp [Static.methodNames]
    rw [this, methodNames_ts, methodNames_dyn]
    simp [methodsOf]

/-! ### the characterisation -/

/-- **The modelled rustc rules accept the expansion exactly when the derived names do not coincide.** -/
theorem accepted_iff (m : Machine) (dyn : Bool) : Static.accepted (codeOf m dyn) = true ↔ NamesOK m dyn := by
  unfold Static.accepted NamesOK
  simp only [Bool.and_eq_true, List.all_eq_true, decide_eq_true_eq, methodNames_code]
  cases dyn
  · simp only [codeOf, Bool.false_eq_true, ↓reduceIte, typeNames_ts, structFields_ts, markerNames_ts, eventVariants_ts,
      anyVariants_ts, substatePairs_ts, dynMethods_ts, typeNamesOf, List.append_nil, List.nodup_nil, and_true,
      false_implies, true_and, and_assoc]
  · have app : ∀ {β : Type} (f : Item → List β) (a b : Code), (a ++ b).flatMap f = a.flatMap f ++ b.flatMap f :=
      fun f a b => List.flatMap_append
    have e1 : Static.typeNames (genTypestate m ++ genDynamic m) = typeNamesOf m true := by
      unfold Static.typeNames; rw [app]
      rw [← Static.typeNames, ← Static.typeNames, typeNames_ts, typeNames_dyn]; simp [typeNamesOf]
    have e2 : Static.structFields (genTypestate m ++ genDynamic m) = fieldsOf m := by
      unfold Static.structFields; rw [app]
      rw [← Static.structFields, ← Static.structFields, structFields_ts, structFields_dyn]; simp
    have e3 : Static.markerNames (genTypestate m ++ genDynamic m) = m.states ++ sortNames m.hierarchy.allSuperstates := by
      unfold Static.markerNames; rw [app]
      rw [← Static.markerNames, ← Static.markerNames, markerNames_ts, markerNames_dyn]; simp
    have e4 : Static.eventVariants (genTypestate m ++ genDynamic m) = variantsOf m := by
      unfold Static.eventVariants; rw [app]
      rw [← Static.eventVariants, ← Static.eventVariants, eventVariants_ts, eventVariants_dyn]; simp
    have e5 : Static.anyVariants (genTypestate m ++ genDynamic m) = m.states := by
      unfold Static.anyVariants; rw [app]
      rw [← Static.anyVariants, ← Static.anyVariants, anyVariants_ts, anyVariants_dyn]; simp
    have e6 : Static.substatePairs (genTypestate m ++ genDynamic m) = pairsOf m := by
      unfold Static.substatePairs; rw [app]
      rw [← Static.substatePairs, ← Static.substatePairs, substatePairs_ts, substatePairs_dyn]; simp
    have e7 : Static.dynMethods (genTypestate m ++ genDynamic m) = dynMethodsOf m := by
      unfold Static.dynMethods; rw [app]
      rw [← Static.dynMethods, ← Static.dynMethods, dynMethods_ts, dynMethods_dyn]; simp
    simp only [codeOf, ↓reduceIte, e1, e2, e3, e4, e5, e6, e7, true_implies, and_assoc]

theorem rejected_of_not_namesOK (m : Machine) (dyn : Bool) (h : ¬ NamesOK m dyn) :
    Static.accepted (codeOf m dyn) = false := by
  cases hacc : Static.accepted (codeOf m dyn)
  · rfl
  · exact absurd ((accepted_iff m dyn).mp hacc) h

/-! ### the families of coincidences (each a well-formed definition that rustc refuses: known findings F5) -/

theorem not_nodup_of_mem_both {α : Type} {a : α} {l₁ l₂ : List α} (h₁ : a ∈ l₁) (h₂ : a ∈ l₂) :
    ¬ (l₁ ++ l₂).Nodup := by
  intro h
  exact (List.nodup_append.mp h).2.2 a h₁ a h₂ rfl

theorem sublist_flatMap_of_mem {α β : Type} (f : α → List β) {a : α} : ∀ {l : List α}, a ∈ l →
    (f a).Sublist (l.flatMap f) := by
  intro l
  induction l with
  | nil => intro h; cases h
  | cons x xs ih =>
    intro h
    rw [List.flatMap_cons]
    rcases List.mem_cons.mp h with rfl | h
    · exact List.sublist_append_left _ _
    · exact (ih h).trans (List.sublist_append_right _ _)

theorem not_nodup_map {α β : Type} (f : α → β) {a b : α} {l : List α} (ha : a ∈ l) (hb : b ∈ l) (hne : a ≠ b)
    (hf : f a = f b) : ¬ (l.map f).Nodup := by
  intro h
  exact hne (SideConditions.inj_of_nodup_map f l h a ha b hb hf)

/-- a state called like the machine (`M`), or — with the dynamic API — like one of the generated types
    (`MEvent`, `AnyMState`, `DynamicM`): two items of one name, E0428 -/
theorem state_named_like_generated_type (m : Machine) (dyn : Bool) (s : Name) (hs : s ∈ m.states)
    (h : s = m.name ∨ (dyn = true ∧ (s = eventEnumName m ∨ s = anyStateName m ∨ s = dynamicName m))) :
    Static.accepted (codeOf m dyn) = false := by
  apply rejected_of_not_namesOK
  intro hok
  have hnd := hok.1
  unfold typeNamesOf at hnd
  rcases h with rfl | ⟨rfl, h⟩
  · rw [List.append_assoc] at hnd
    exact not_nodup_of_mem_both (List.mem_append_left _ hs) (List.mem_append_left _ (List.mem_singleton.mpr rfl)) hnd
  · refine not_nodup_of_mem_both (List.mem_append_left _ (List.mem_append_left _ hs)) ?_ hnd
    rcases h with rfl | rfl | rfl <;> simp

/-- an event whose method name is `new`, leaving the initial state: it meets the constructor, E0592 -/
theorem event_named_new (m : Machine) (dyn : Bool) (hi : m.initial ∈ m.states) (e : Edge) (he : e ∈ m.outgoing m.initial)
    (hn : toSnake e.event = Name.lit "new") : Static.accepted (codeOf m dyn) = false := by
  apply rejected_of_not_namesOK
  intro hok
  have hnd := hok.2.2.1 m.initial (List.mem_append_left _ hi)
  unfold methodsOf at hnd
  have hsub : ([Name.lit "new"] ++ (m.outgoing m.initial).map (fun e => toSnake e.event)).Sublist
      (m.states.flatMap fun st =>
        if st = m.initial then (if st = m.initial then [Name.lit "new"] else []) ++ (m.outgoing st).map (fun e => toSnake e.event)
        else []) := by
    have := sublist_flatMap_of_mem (fun st =>
        if st = m.initial then (if st = m.initial then [Name.lit "new"] else []) ++ (m.outgoing st).map (fun e => toSnake e.event)
        else []) hi
    simpa using this
  have hnd' := hsub.nodup (List.nodup_append.mp (List.nodup_append.mp hnd).1).1
  refine not_nodup_of_mem_both (List.mem_singleton.mpr rfl) ?_ hnd'
  exact List.mem_map.mpr ⟨e, he, hn⟩

/-- with the dynamic API: two states whose names have the same snake_case form (`HTTPServer` / `HttpServer`) get two
    extractors `into_http_server`, E0592 — whether or not they carry data -/
theorem snake_collision_dynamic (m : Machine) (s s' : Name) (hs : s ∈ m.states) (hs' : s' ∈ m.states) (hne : s ≠ s')
    (h : toSnake s = toSnake s') : Static.accepted (codeOf m true) = false := by
  apply rejected_of_not_namesOK
  intro hok
  have hnd := hok.2.2.2.2.2.2 rfl
  unfold dynMethodsOf at hnd
  have := (List.nodup_append.mp hnd).2.1
  exact not_nodup_map (fun s => Name.lit "into_" ++ toSnake s) hs hs' hne (by simp [h]) this

/-- with the dynamic API: the extractor of one state meets the data reader of another (`Data` beside a data-carrying
    `Into`: `into_data` twice), E0592 -/
theorem extractor_meets_reader (m : Machine) (s : Name) (hs : s ∈ m.states) (a : DynAcc)
    (ha : a ∈ m.storage.filterMap (genDynAcc m))
    (h : Name.lit "into_" ++ toSnake s = a.readName ∨ Name.lit "into_" ++ toSnake s = a.writeName ∨
         Name.lit "into_" ++ toSnake s = a.setName) : Static.accepted (codeOf m true) = false := by
  apply rejected_of_not_namesOK
  intro hok
  have hnd := hok.2.2.2.2.2.2 rfl
  unfold dynMethodsOf at hnd
  refine not_nodup_of_mem_both (a := Name.lit "into_" ++ toSnake s) ?_ (List.mem_map.mpr ⟨s, hs, rfl⟩) hnd
  apply List.mem_append_right
  apply List.mem_flatMap.mpr
  refine ⟨a, ha, ?_⟩
  rcases h with h | h | h <;> simp [h]

/-- an event whose method name is `into_dynamic` (with the dynamic API), or the name of one of the `state_data_*`
    accessors that every state type carries: E0592 -/
theorem event_named_like_accessor (m : Machine) (dyn : Bool) (s : Name) (hs : s ∈ m.states) (e : Edge) (he : e ∈ m.outgoing s)
    (h : (dyn = true ∧ toSnake e.event = Name.lit "into_dynamic") ∨
         (∃ sp ∈ m.storage, toSnake e.event = trimUnderscores sp.field ∨
            toSnake e.event = trimUnderscores sp.field ++ Name.lit "_mut")) :
    Static.accepted (codeOf m dyn) = false := by
  apply rejected_of_not_namesOK
  intro hok
  have hnd := hok.2.2.1 s (List.mem_append_left _ hs)
  unfold methodsOf at hnd
  have hmem : toSnake e.event ∈ (m.states.flatMap fun st =>
      if st = s then (if st = m.initial then [Name.lit "new"] else []) ++ (m.outgoing st).map (fun e => toSnake e.event)
      else []) := by
    apply List.mem_flatMap.mpr
    exact ⟨s, hs, by simp only [↓reduceIte]; exact List.mem_append_right _ (List.mem_map.mpr ⟨e, he, rfl⟩)⟩
  rcases h with ⟨rfl, hn⟩ | ⟨sp, hsp, hn⟩
  · refine not_nodup_of_mem_both (List.mem_append_left _ hmem) ?_ hnd
    simp only [↓reduceIte]
    exact List.mem_flatMap.mpr ⟨s, hs, by simp [hn]⟩
  · rw [List.append_assoc] at hnd
    refine not_nodup_of_mem_both hmem (List.mem_append_left _ ?_) hnd
    have hne : m.storage.isEmpty = false := by
      cases hst : m.storage with
      | nil => rw [hst] at hsp; cases hsp
      | cons _ _ => rfl
    simp only [hne, Bool.false_eq_true, ↓reduceIte]
    apply List.mem_append_left
    exact List.mem_flatMap.mpr ⟨sp, hsp, by rcases hn with hn | hn <;> simp [hn]⟩

/-- for a machine the macro accepts, the states are pairwise distinct already (R3), so the variants of the state
    enum never clash: the conditions that remain are about *derived* names only -/
theorem accepted_iff_validated (m : Machine) (hv : m.validate = .ok ()) (dyn : Bool) :
    Static.accepted (codeOf m dyn) = true ↔
      (typeNamesOf m dyn).Nodup ∧ (fieldsOf m).Nodup ∧
      (∀ s ∈ m.states ++ sortNames m.hierarchy.allSuperstates, (methodsOf m dyn s).Nodup) ∧
      (dyn = true → (variantsOf m).Nodup) ∧ (pairsOf m).Nodup ∧ (dyn = true → (dynMethodsOf m).Nodup) := by
  rw [accepted_iff]
  have hn := validate_states_nodup m hv
  constructor
  · rintro ⟨h1, h2, h3, h4, _, h6, h7⟩; exact ⟨h1, h2, h3, h4, h6, h7⟩
  · rintro ⟨h1, h2, h3, h4, h6, h7⟩; exact ⟨h1, h2, h3, h4, fun _ => hn, h6, h7⟩

/-! ### what the verdict does not depend on -/

/-- **The modelled verdict of rustc is the same in every configuration**: `async`, the context mode and type, the
    `dynamic:` key (as opposed to whether the wrapper is generated) never enter the naming conditions — a definition
    that the rules accept as a synchronous machine with a generic context is accepted in the other shapes too. -/
theorem namesOK_config (m : Machine) (dyn asy dm : Bool) (ctx : Option Ty) :
    NamesOK { m with asyncMode := asy, context := ctx, dynamicMode := dm } dyn ↔ NamesOK m dyn := Iff.rfl

theorem accepted_config (m : Machine) (dyn asy dm : Bool) (ctx : Option Ty) :
    Static.accepted (codeOf { m with asyncMode := asy, context := ctx, dynamicMode := dm } dyn) =
      Static.accepted (codeOf m dyn) := by
  rw [Bool.eq_iff_iff, accepted_iff, accepted_iff]; exact namesOK_config m dyn asy dm ctx

/-- hooks and payloads do not enter either: two machines with the same names, states, storage, hierarchy, event
    names and the same (source, event) pairs in their graphs get the same verdict -/
theorem namesOK_hooks (m m' : Machine) (dyn : Bool) (h1 : m'.name = m.name) (h2 : m'.initial = m.initial)
    (h3 : m'.states = m.states) (h4 : m'.storage = m.storage) (h5 : m'.hierarchy = m.hierarchy)
    (h6 : m'.events.map (·.name) = m.events.map (·.name))
    (h7 : ∀ s, (m'.outgoing s).map (·.event) = (m.outgoing s).map (·.event)) :
    NamesOK m' dyn ↔ NamesOK m dyn := by
  have e1 : typeNamesOf m' dyn = typeNamesOf m dyn := by
    simp [typeNamesOf, eventEnumName, anyStateName, dynamicName, h1, h3, h5]
  have e2 : fieldsOf m' = fieldsOf m := by simp [fieldsOf, h4]
  have e3 : ∀ s, methodsOf m' dyn s = methodsOf m dyn s := by
    intro s
    have : ∀ st, (m'.outgoing st).map (fun e => toSnake e.event) = (m.outgoing st).map (fun e => toSnake e.event) := by
      intro st
      have := congrArg (List.map toSnake) (h7 st)
      simpa [List.map_map, Function.comp_def] using this
    simp [methodsOf, h2, h3, h4, this]
  have e4 : variantsOf m' = variantsOf m := by
    have := congrArg (List.map toPascal) h6
    simpa [variantsOf, List.map_map, Function.comp_def] using this
  have e5 : pairsOf m' = pairsOf m := by simp [pairsOf, h3, h5]
  have e6 : dynMethodsOf m' = dynMethodsOf m := by
    have : genDynAcc m' = genDynAcc m := by funext sp; simp [genDynAcc, h3, h5]
    simp [dynMethodsOf, h3, h4, this]
  simp only [NamesOK, e1, e2, e3, e4, e5, e6, h3, h5]

/-! ### non-vacuity: both sides of the characterisation are inhabited -/

/-- two states `Up`, `Down`, one event: the naming conditions hold and the rules accept, with and without the wrapper -/
def okM : Machine :=
  { name := Name.lit "M", initial := Name.lit "Up", context := none, states := [Name.lit "Up", Name.lit "Down"],
    storage := [], hierarchy := {}, asyncMode := false, dynamicMode := true,
    events := [{ name := Name.lit "go", payload := none, guards := [], unl := [], before := [], after := [], around := [],
                 transitions := [] }],
    graph := [(Name.lit "Up", { event := Name.lit "go", target := Name.lit "Down", payload := none, guards := [], unl := [],
                                 before := [], after := [], around := [] })] }

example : Static.accepted (codeOf okM true) = true := by decide
example : NamesOK okM true := (accepted_iff okM true).mp (by decide)

/-- the same machine with its second state called `MEvent`: refused (by `state_named_like_generated_type`) -/
example : Static.accepted (codeOf { okM with states := [Name.lit "Up", Name.lit "MEvent"] } true) = false :=
  state_named_like_generated_type _ true (Name.lit "MEvent") (by decide) (Or.inr ⟨rfl, Or.inl (by decide)⟩)

end SMV.C14Names
