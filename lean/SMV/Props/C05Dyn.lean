import SMV.Props.C01
/-
  C05, dynamic half — after every error return of `handle` the wrapper is exactly what it was.
-/
namespace SMV.C05Dyn
open SMV

/-- **Every `Err` of `handle` (guard, unless, around Before, invalid transition) leaves the wrapper
    unchanged**: same state, same context, same data — so `current_state()` and every accessor answer
    as before, and a retry under favourable conditions succeeds (C03). -/
theorem dyn_error_no_effect (m : Machine) (hv : m.validate = .ok ()) (hg : m.GraphBuilt) (hp : m.PascalInj)
    (env : Env) (d : DM) (hinv : DynInv m d) (ev : Event) (hev : ev ∈ m.events) (pay : Option Nat) (h h' : Hist)
    (d' : DM) (e : DynError)
    (hrun : runHandle env m.code (partsOf m) d ⟨toPascal ev.name, pay⟩ h = ((d', .done (.err e)), h')) :
    d' = d := by
  obtain ⟨_, _, _, hstep⟩ := C01.handle_step m hv hg hp env d hinv ev hev pay h
  exact (hstep d' (.err e) h' hrun).2.2.2 e rfl

end SMV.C05Dyn
