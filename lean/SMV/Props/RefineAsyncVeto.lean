import SMV.Props.RefineAsync
import SMV.Props.RefineVeto
import SMV.Props.RefineReply
/-
  Asynchronous machines, vetoes included, under every suspension schedule: C15 composed with
  `Refine.refines_spec_veto`. The abstract machine is `specStepV` of the definition itself.
-/
namespace SMV.RefineAsync
open SMV C01 C03 C15 Refine

theorem specStepV_syncTwin (m : Machine) (sc : Script) (s e : Name) :
    specStepV (syncTwin m) sc s e = specStepV m sc s e := rfl

theorem specRunV_syncTwin (m : Machine) : ∀ (xs : List (Script × Name)) (s : Name),
    specRunV (syncTwin m) s xs = specRunV m s xs := by
  intro xs
  induction xs with
  | nil => intro s; rfl
  | cons x rest ih =>
    intro s
    obtain ⟨sc, e⟩ := x
    simp only [specRunV, specStepV_syncTwin, ih]

/-- **Refinement, asynchronous machines with vetoes.** Every finite sequence of declared events dispatched
    to an `async: true` machine, each under its own scripted hook environment (conditions by truth
    assignment, each around callback proceeding or vetoing with any kind) and its own suspension schedule:
    every dispatch completes, the accepted events are exactly those of the abstract machine with vetoes,
    and the wrapper ends in its final state. -/
theorem async_refines_spec_veto (m : Machine) (hv : m.validate = .ok ()) (hv' : (syncTwin m).validate = .ok ())
    (hg : m.GraphBuilt) (hp : m.PascalInj) :
    ∀ (xs : List (((Env × Script) × List Nat) × Event × Option Nat)) (d : DM) (s : Name) (h : Hist),
      (∀ x ∈ xs, Scripted x.1.1.1 x.1.1.2 ∧ x.2.1 ∈ m.events) → DynInv m d → d.stateName = some s →
      ∃ df rs, runEventsAsync m d (xs.map fun x => ((x.1.1.1, x.1.2), x.2.1, x.2.2)) h = some (df, rs) ∧
        rs.map (fun r => decide (r = .ok)) = (specRunV m s (xs.map fun x => (x.1.1.2, x.2.1.name))).2 ∧
        df.stateName = some (specRunV m s (xs.map fun x => (x.1.1.2, x.2.1.name))).1 ∧
        DynInv m df := by
  intro xs
  induction xs with
  | nil => intro d s h _ hinv hs; exact ⟨d, [], rfl, rfl, hs, hinv⟩
  | cons x rest ih =>
    intro d s h hall hinv hs
    obtain ⟨⟨⟨env, sc⟩, sched⟩, ev, pay⟩ := x
    obtain ⟨hsc, hev⟩ := hall _ (List.mem_cons_self)
    have hg' : (syncTwin m).GraphBuilt := hg
    have hp' : (syncTwin m).PascalInj := hp
    obtain ⟨d', r, h', hrun, hinv', hs', hr⟩ :=
      step_refines_veto (syncTwin m) hv' hg' hp' env sc hsc d ((dynInv_syncTwin m d).mpr hinv) s hs ev hev pay h
    rw [specStepV_syncTwin] at hs' hr
    have hra := runHandleAsync_eq m hv hv' hg hp env sched d hinv ev hev pay h
    obtain ⟨df, rs, hrest, hrs, hfs, hinvf⟩ :=
      ih d' _ h' (fun y hy => hall y (List.mem_cons_of_mem _ hy)) ((dynInv_syncTwin m d').mp hinv') hs'
    refine ⟨df, r :: rs, ?_, ?_, ?_, hinvf⟩
    · simp only [List.map_cons, runEventsAsync, hra, hrun, hrest, Option.map_some]
    · simp only [List.map_cons, specRunV, hr, hrs]
    · simpa only [List.map_cons, specRunV] using hfs

theorem specReply_syncTwin (m : Machine) (sc : Script) (s e : Name) :
    specReply (syncTwin m) sc s e = specReply m sc s e := rfl

/-- **The replies of an asynchronous machine along every history, under every schedule,** are the abstract
    machine's: the same `Ok`s and the same error values as `Refine.replies_refine` gives the synchronous
    expansion. -/
theorem async_replies_refine (m : Machine) (hv : m.validate = .ok ()) (hv' : (syncTwin m).validate = .ok ())
    (hg : m.GraphBuilt) (hp : m.PascalInj) :
    ∀ (xs : List (((Env × Script) × List Nat) × Event × Option Nat)) (d : DM) (s : Name) (h : Hist),
      (∀ x ∈ xs, Scripted x.1.1.1 x.1.1.2 ∧ x.2.1 ∈ m.events) → DynInv m d → d.stateName = some s →
      ∃ df, runEventsAsync m d (xs.map fun x => ((x.1.1.1, x.1.2), x.2.1, x.2.2)) h =
        some (df, specReplies m s (xs.map fun x => (x.1.1.2, x.2.1.name))) := by
  intro xs
  induction xs with
  | nil => intro d s h _ _ _; exact ⟨d, rfl⟩
  | cons x rest ih =>
    intro d s h hall hinv hs
    obtain ⟨⟨⟨env, sc⟩, sched⟩, ev, pay⟩ := x
    obtain ⟨hsc, hev⟩ := hall _ (List.mem_cons_self)
    have hg' : (syncTwin m).GraphBuilt := hg
    have hp' : (syncTwin m).PascalInj := hp
    have hinv0 : DynInv (syncTwin m) d := (dynInv_syncTwin m d).mpr hinv
    obtain ⟨d', r, h', hrun, hinv', hs', _⟩ :=
      step_refines_veto (syncTwin m) hv' hg' hp' env sc hsc d hinv0 s hs ev hev pay h
    obtain ⟨d'', h'', hrun'⟩ := step_reply (syncTwin m) hv' hg' hp' env sc hsc d hinv0 s hs ev hev pay h
    have heq : ((d', Out.done r), h') = ((d'', Out.done (specReply (syncTwin m) sc s ev.name)), h'') := by
      rw [← hrun, ← hrun']
    have hr : r = specReply m sc s ev.name := by
      have := congrArg (fun x => x.1.2) heq
      rw [specReply_syncTwin] at this
      simpa using this
    subst hr
    rw [specStepV_syncTwin] at hs'
    have hra := runHandleAsync_eq m hv hv' hg hp env sched d hinv ev hev pay h
    obtain ⟨df, hrest⟩ := ih d' _ h' (fun y hy => hall y (List.mem_cons_of_mem _ hy)) ((dynInv_syncTwin m d').mp hinv') hs'
    refine ⟨df, ?_⟩
    simp only [List.map_cons, runEventsAsync, hra, hrun, hrest, Option.map_some, specReplies]

end SMV.RefineAsync
