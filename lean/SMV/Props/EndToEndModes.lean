import SMV.Props.EndToEnd
import SMV.Props.RefineEraseAsync
/-
  From the definition as written to both APIs, both modes of execution and the conversions, in one statement.

  A definition that satisfies the rules is expanded, and — where the generated names do not collide (N1) — the
  machine `new` creates (wrapped or not) behaves, along every history that mixes typed calls, `handle` calls and
  conversions, under arbitrary hooks (and, for an `async: true` definition, arbitrary suspension schedules), exactly as
  the wrapper of the *synchronous* expansion does over the same events; and the typestate API alone, under scripted
  hooks, accepts exactly what the abstract machine with vetoes accepts and ends in its state. This composes
  `macro_accepts` (C13 ⇐ / C14), `new_initial` (C01), `async_conversion_erasure` (C09, C10, C15, C16) and
  `typed_refines_spec` (C02, C09).
-/
namespace SMV.EndToEnd
open SMV C01 C15 Refine

theorem end_to_end_modes (d : Def) (h : ParserRules d) (hv : ∀ m, parseMachine d = .ok m → C13.Valid m) :
    ∃ m, parseMachine d = .ok m ∧ m.validate = .ok () ∧
      (m.PascalInj → ∀ (ctx : Nat), ∃ tm, dynNew m.code (partsOf m) ctx = some ⟨some (m.initial, tm)⟩ ∧
        tm.state = m.initial ∧ tm.ctx = ctx ∧
        -- either API, conversions at will, any schedules, arbitrary hooks
        (∀ (ops : List AOp) (hist : Hist), (∀ op ∈ ops, AOpOk m op) →
          obs (gRunA m (.typed tm) ops hist) =
            obs (gRun (syncTwin m) (.dyn ⟨some (m.initial, tm)⟩) ((ops.map AOp.forget).filter GOp.isCall) hist) ∧
          obs (gRunA m (.dyn ⟨some (m.initial, tm)⟩) ops hist) =
            obs (gRun (syncTwin m) (.dyn ⟨some (m.initial, tm)⟩) ((ops.map AOp.forget).filter GOp.isCall) hist)) ∧
        -- the typestate API is the abstract machine
        (∀ (xs : List ((Env × Script) × Event × Option Nat)) (hist : Hist), (∀ x ∈ xs, Scripted x.1.1 x.1.2) →
          ∃ tf, typedRun m tm (xs.map fun x => (x.1.1, x.2.1, x.2.2)) hist =
              some (tf, (specRunV m m.initial (xs.map fun x => (x.1.2, x.2.1.name))).2) ∧
            tf.state = (specRunV m m.initial (xs.map fun x => (x.1.2, x.2.1.name))).1)) := by
  obtain ⟨m, hp, hval⟩ := macro_accepts d h hv
  have hg := parseMachine_graphBuilt d m hp
  have hval' : (syncTwin m).validate = .ok () := syncTwin_valid m hval
  refine ⟨m, hp, hval, ?_⟩
  intro hpi ctx
  obtain ⟨tm, hnew, hst, hctx, hinv⟩ := new_initial m hval ctx
  have hmem : tm.state ∈ m.states := by rw [hst]; exact validate_initial_mem m hval
  refine ⟨tm, hnew, hst, hctx, ?_, ?_⟩
  · intro ops hist hall
    have e1 := async_conversion_erasure m hval hval' hg hpi ops (.typed tm) hist hall hmem
    have e2 := async_conversion_erasure m hval hval' hg hpi ops (.dyn ⟨some (m.initial, tm)⟩) hist hall
      ⟨tm, by rw [hst], hmem⟩
    have a1 : (Hold2.typed tm).asDyn = .dyn ⟨some (m.initial, tm)⟩ := by simp [Hold2.asDyn, Hold2.carried, hst]
    have a2 : (Hold2.dyn ⟨some (m.initial, tm)⟩).asDyn = .dyn ⟨some (m.initial, tm)⟩ := by
      simp [Hold2.asDyn, Hold2.carried, hst]
    rw [a1] at e1
    rw [a2] at e2
    exact ⟨e1, e2⟩
  · intro xs hist hall
    have := typed_refines_spec m hval hg xs tm hist hall hmem
    rw [hst] at this
    exact this

end SMV.EndToEnd
