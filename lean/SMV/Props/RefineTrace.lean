import SMV.Props.Refine
import SMV.Props.C04
/-
  What one dispatch calls, and in which order, stated against the abstract machine of `Refine` (C04 lifted to
  the dynamic wrapper; tame hooks).
-/
namespace SMV.Refine
open SMV C01 C03 C04

/-- **What one dispatch calls, in which order** (tame hooks). From state `s`, for a declared event:
    * no edge: nothing is called;
    * the edge fires: exactly the documented list — around `Before` of every around callback, every guard,
      every unless-condition, the before callbacks, the after callbacks, around `AfterSuccess` — each once,
      with the documented receiver type, context and payload;
    * the edge is refused: the around `Before` stages, then the conditions up to and including the first one
      that blocks, and nothing after it. -/
theorem step_trace (m : Machine) (hv : m.validate = .ok ()) (hg : m.GraphBuilt) (hp : m.PascalInj)
    (env : Env) (σ : Name → Bool) (hc : CondsAnswer env σ) (hperm : Permissive env)
    (s : Name) (tm : TM) (hst : tm.state = s) (hs : s ∈ m.states)
    (ev : Event) (hev : ev ∈ m.events) (pay : Option Nat) (h : Hist) :
    let out := runHandle env m.code (partsOf m) ⟨some (s, tm)⟩ ⟨toPascal ev.name, pay⟩ h
    let pay' := if ev.payload.isSome then pay else none
    match m.delta s ev.name with
    | none => out.2 = h
    | some edge =>
      if (specStep m σ s ev.name).2 = true then
        ∃ t, out.2 = h ++ t ∧ t.map HookCall.sig = expectedSigs edge tm pay'
      else
        ∃ pre c post, conds edge = pre ++ c :: post ∧ (∀ d ∈ pre, σ d.1 = d.2) ∧ σ c.1 ≠ c.2 ∧
          out.2 = h ++ (edge.around.map (aroundOf m edge)).map (abCall tm) ++
            ((pre ++ [c]).map (checkOf m edge)).map (condCall tm pay') := by
  intro out pay'
  have hstep := runHandle_step m hv hg hp env s tm hst hs ev hev pay h
  cases hdel : m.delta s ev.name with
  | none =>
    simp only [hdel] at hstep
    simp only [out, hstep]
  | some edge =>
    simp only [hdel] at hstep
    simp only [specStep, hdel]
    by_cases hall : (∀ g ∈ edge.guards, σ g = true) ∧ (∀ u ∈ edge.unl, σ u = false)
    · have hb : ((edge.guards.all fun g => σ g) && (edge.unl.all fun u => !σ u)) = true := by
        simp only [Bool.and_eq_true, List.all_eq_true, Bool.not_eq_true']
        exact hall
      simp only [hb, ↓reduceIte]
      obtain ⟨nm, h', hrun⟩ := (fires_iff m edge env σ tm pay' h hc hperm).mpr hall
      obtain ⟨t, ht, hsig, _, _⟩ := success_trace m edge env tm pay' h h' nm hrun
      rw [hrun] at hstep
      simp only at hstep
      exact ⟨t, by simp only [out, hstep.1]; exact ht, hsig⟩
    · have hb : ((edge.guards.all fun g => σ g) && (edge.unl.all fun u => !σ u)) = false := by
        rw [Bool.eq_false_iff]
        intro hb
        simp only [Bool.and_eq_true, List.all_eq_true, Bool.not_eq_true'] at hb
        exact hall hb
      simp only [hb, Bool.false_eq_true, ↓reduceIte]
      have hna : ¬ (∀ d ∈ conds edge, σ d.1 = d.2) := fun h' => hall ((conds_agree_iff edge σ).mp h')
      obtain ⟨pre, c, post, hsplit, hpre, hblk⟩ := first_blocker σ (conds edge) hna
      have hrun := first_block m edge env σ tm pay' h hc hperm pre c post hsplit hpre hblk
      rw [hrun] at hstep
      simp only at hstep
      exact ⟨pre, c, post, hsplit, hpre, hblk, by simp only [out, hstep.1]⟩

end SMV.Refine
