import SMV.Props.RefineAsync
import SMV.Props.RefineData
/-
  The data cell of `RefineData`, for asynchronous machines under every suspension schedule: the dispatches
  of a history are `handle(..).await` driven to completion by an executor that finds the i-th awaited hook
  pending as often as the schedule of that dispatch says; reads, in-place writes and the setter are the
  synchronous accessors of the wrapper. C15 composed with `RefineData.cell_refines`.
-/
namespace SMV.RefineAsync
open SMV C01 C03 C08 C11 C15 Refine RefineData

/-- the emitted code of an `async: true` machine; each operation comes with a schedule (read by dispatches only) -/
def cstepA (m : Machine) (a : DynAcc) (d : DM) (h : Hist) : COp × List Nat → Option ((DM × Hist) × CRes)
  | (.handle env _ ev pay, sched) =>
    match runHandleAsync env sched m.code (partsOf m) d ⟨toPascal ev.name, pay⟩ h with
    | ((d', .done r), h') => some ((d', h'), .fired (decide (r = .ok)))
    | _ => none
  | (.read, _) => some ((d, h), .val (dynRead a d))
  | (.write x, _) => some ((dynWrite a d x, h), .unit)
  | (.set x, _) => some (((dynSet (partsOf m) a d x).1, h), .stored (dynSet (partsOf m) a d x).2.isNone)

def crunA (m : Machine) (a : DynAcc) : DM → Hist → List (COp × List Nat) → Option (DM × List CRes)
  | d, _, [] => some (d, [])
  | d, h, op :: rest =>
    match cstepA m a d h op with
    | none => none
    | some ((d', h'), r) => (crunA m a d' h' rest).map fun (df, rs) => (df, r :: rs)

theorem dynSet_syncTwin (m : Machine) (a : DynAcc) (d : DM) (x : Nat) :
    dynSet (partsOf (syncTwin m)) a d x = dynSet (partsOf m) a d x := rfl

/-- one operation of the asynchronous wrapper is the synchronous expansion's, whatever the schedule -/
theorem cstepA_eq (m : Machine) (hv : m.validate = .ok ()) (hv' : (syncTwin m).validate = .ok ())
    (hg : m.GraphBuilt) (hp : m.PascalInj) (a : DynAcc) (d : DM) (hinv : DynInv m d) (h : Hist)
    (op : COp) (hop : OpOk m op) (sched : List Nat) :
    cstepA m a d h (op, sched) = cstep (syncTwin m) a d h op := by
  cases op with
  | handle env σ ev pay =>
    simp only [cstepA, cstep]
    rw [runHandleAsync_eq m hv hv' hg hp env sched d hinv ev hop.2.2.2 pay h]
    generalize runHandle env (syncTwin m).code (partsOf (syncTwin m)) d ⟨toPascal ev.name, pay⟩ h = r
    obtain ⟨⟨d', o⟩, h'⟩ := r
    cases o <;> rfl
  | read => rfl
  | write x => rfl
  | set x => simp only [cstepA, cstep, dynSet_syncTwin]

theorem sstep_syncTwin (m : Machine) (X : Name) (st : Name × Option Nat) (op : COp) :
    sstep (syncTwin m) X st op = sstep m X st op := by
  cases op <;> rfl

theorem rel_dynInv {m : Machine} {a : DynAcc} {X : Name} {d : DM} {st : Name × Option Nat}
    (h : Rel m a X d st) : DynInv m d := by
  obtain ⟨tm, hd, hst, hmem, _, _⟩ := h
  exact ⟨st.1, tm, by rw [hd], hst, hmem⟩

/-- **The data of a state is a cell, for asynchronous machines under any schedule.** -/
theorem async_cell_refines (m : Machine) (hv : m.validate = .ok ()) (hv' : (syncTwin m).validate = .ok ())
    (hg : m.GraphBuilt) (hp : m.PascalInj)
    (hf : m.FieldsNodup) (spec : StorageSpec) (hspec : spec ∈ m.storage) (a : DynAcc)
    (ha : a.reachable = [spec.stateName]) (hfld : a.field = spec.field) :
    ∀ (ops : List (COp × List Nat)) (d : DM) (st : Name × Option Nat) (h : Hist),
      (∀ op ∈ ops, OpOk m op.1) → Rel m a spec.stateName d st →
      ∃ df, crunA m a d h ops = some (df, (srun m spec.stateName st (ops.map (·.1))).2) ∧
        Rel m a spec.stateName df (srun m spec.stateName st (ops.map (·.1))).1 := by
  intro ops
  induction ops with
  | nil => intro d st h _ hrel; exact ⟨d, rfl, hrel⟩
  | cons x rest ih =>
    intro d st h hall hrel
    obtain ⟨op, sched⟩ := x
    have hop : OpOk m op := hall (op, sched) List.mem_cons_self
    have hg' : (syncTwin m).GraphBuilt := hg
    have hp' : (syncTwin m).PascalInj := hp
    have hf' : (syncTwin m).FieldsNodup := hf
    have hrel0 : Rel (syncTwin m) a spec.stateName d st := hrel
    have hop0 : OpOk (syncTwin m) op := by cases op <;> exact hop
    obtain ⟨d', h', hc, hrel'⟩ :=
      cstep_refines (syncTwin m) hv' hg' hp' hf' spec hspec a ha hfld d st hrel0 h op hop0
    rw [sstep_syncTwin] at hc hrel'
    have hrel'' : Rel m a spec.stateName d' (sstep m spec.stateName st op).1 := hrel'
    have hca := cstepA_eq m hv hv' hg hp a d (rel_dynInv hrel) h op hop sched
    obtain ⟨df, hrun, hrelf⟩ := ih d' _ h' (fun o ho => hall o (List.mem_cons_of_mem _ ho)) hrel''
    refine ⟨df, ?_, ?_⟩
    · simp only [crunA, hca, hc, hrun, Option.map_some, List.map_cons, srun]
    · simpa only [List.map_cons, srun] using hrelf

end SMV.RefineAsync
