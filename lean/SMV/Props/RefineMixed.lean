import SMV.Props.RefineTyped
import SMV.Props.C10
/-
  Both modes in one history. The caller holds either the dynamic wrapper or a typed machine and may, at any point,
  dispatch an event (through `handle`, respectively through the typed method — which exists only if the relation
  has an edge) or convert what it holds to the other mode (`into_<current state>()` / `into_dynamic()`).
  Whatever the interleaving, the state of what the caller holds follows the abstract machine with vetoes over
  the dispatched events, every dispatch is accepted exactly when the abstract machine accepts it, and conversions
  change nothing and never fail. This is C09 and C10 composed along histories.
-/
namespace SMV.Refine
open SMV C01 C03 C10

inductive Hold2 where
  | typed (tm : TM)
  | dyn (d : DM)

def Hold2.state : Hold2 → Option Name
  | .typed tm => some tm.state
  | .dyn d => d.stateName

inductive MOp where
  | call (env : Env) (sc : Script) (ev : Event) (pay : Option Nat)
  | convert

/-- one operation on what the caller holds; `none` = the operation does not return / is not possible -/
def mixStep (m : Machine) : Hold2 → MOp → Hist → Option ((Hold2 × Option Bool) × Hist)
  | .dyn d, .call env _ ev pay, h =>
    match runHandle env m.code (partsOf m) d ⟨toPascal ev.name, pay⟩ h with
    | ((d', .done r), h') => some ((.dyn d', some (decide (r = .ok))), h')
    | _ => none
  | .typed tm, .call env _ ev pay, h =>
    match (genTypestate m).findMethod tm.state ev.name with
    | none => some ((.typed tm, some false), h)          -- not callable: nothing happens
    | some _ =>
      match typedCall env m tm ev pay h with
      | some ((tm', r), h') => some ((.typed tm', some r.isNone), h')
      | none => none
  | .typed tm, .convert, h => (intoDynamic (partsOf m) tm).map fun d => ((.dyn d, none), h)
  | .dyn d, .convert, h =>
    match d.stateName with
    | none => none
    | some s =>
      match dynExtract s d with
      | .ok tm => some ((.typed tm, none), h)
      | .error _ => none

def mixRun (m : Machine) : Hold2 → List MOp → Hist → Option (Hold2 × List (Option Bool))
  | hd, [], _ => some (hd, [])
  | hd, op :: rest, h =>
    match mixStep m hd op h with
    | none => none
    | some ((hd', r), h') => (mixRun m hd' rest h').map fun (hf, rs) => (hf, r :: rs)

/-- the abstract machine over the same operations: conversions are no-ops -/
def specOne (m : Machine) (s : Name) : MOp → Name × Option Bool
  | .call _ sc ev _ => ((specStepV m sc s ev.name).1, some (specStepV m sc s ev.name).2)
  | .convert => (s, none)

def specMix (m : Machine) : Name → List MOp → Name × List (Option Bool)
  | s, [] => (s, [])
  | s, op :: rest => ((specMix m (specOne m s op).1 rest).1, (specOne m s op).2 :: (specMix m (specOne m s op).1 rest).2)

def MOpOk (m : Machine) : MOp → Prop
  | .call env sc ev _ => Scripted env sc ∧ ev ∈ m.events
  | .convert => True

/-- what the caller holds is well-formed and in state `s` -/
def HoldInv (m : Machine) (hd : Hold2) (s : Name) : Prop :=
  match hd with
  | .typed tm => tm.state = s ∧ s ∈ m.states
  | .dyn d => DynInv m d ∧ d.stateName = some s

theorem mixStep_refines (m : Machine) (hv : m.validate = .ok ()) (hg : m.GraphBuilt) (hp : m.PascalInj)
    (hd : Hold2) (s : Name) (hinv : HoldInv m hd s) (op : MOp) (hop : MOpOk m op) (h : Hist) :
    ∃ hd' h', mixStep m hd op h = some ((hd', (specOne m s op).2), h') ∧
      HoldInv m hd' (specOne m s op).1 := by
  cases op with
  | convert =>
    cases hd with
    | typed tm =>
      obtain ⟨hst, hs⟩ := hinv
      subst hst
      have h1 := (into_dynamic_state m tm hs).1
      refine ⟨.dyn ⟨some (tm.state, tm)⟩, h, by simp [mixStep, h1, specOne], ?_⟩
      exact ⟨⟨tm.state, tm, rfl, rfl, hs⟩, rfl⟩
    | dyn d =>
      obtain ⟨⟨s0, tm, hd0, hst0, hs0⟩, hsn⟩ := hinv
      have hdd : d = ⟨some (s0, tm)⟩ := by cases d; simp_all
      subst hdd
      have : s0 = s := by simpa [DM.stateName] using hsn
      subst this
      refine ⟨.typed tm, h, ?_, ⟨hst0, hs0⟩⟩
      simp [mixStep, DM.stateName, dynExtract, specOne]
  | call env sc ev pay =>
    obtain ⟨hsc, hev⟩ := hop
    cases hd with
    | dyn d =>
      obtain ⟨hdinv, hsn⟩ := hinv
      obtain ⟨d', r, h', hrun, hinv', hs', hr⟩ := step_refines_veto m hv hg hp env sc hsc d hdinv s hsn ev hev pay h
      refine ⟨.dyn d', h', ?_, ⟨hinv', by simpa [specOne] using hs'⟩⟩
      simp [mixStep, hrun, specOne, hr]
    | typed tm =>
      obtain ⟨hst, hs⟩ := hinv
      subst hst
      have hstep := typed_step_refines m hv hg env sc hsc tm hs ev pay h
      cases hdel : m.delta tm.state ev.name with
      | none =>
        rw [hdel] at hstep
        obtain ⟨_, hnone⟩ := hstep
        have hsp : specStepV m sc tm.state ev.name = (tm.state, false) := by simp [specStepV, hdel]
        refine ⟨.typed tm, h, ?_, ?_⟩
        · simp [mixStep, hnone, specOne, hsp]
        · simpa [specOne, hsp, HoldInv] using hs
      | some edge =>
        rw [hdel] at hstep
        obtain ⟨tm', h', hcall, hst', hb, _⟩ := hstep
        have hfm := findMethod_eq_delta m hv hg tm.state hs ev
        rw [hdel] at hfm
        have hmem : tm'.state ∈ m.states := by
          rw [hst']
          unfold specStepV
          simp only [hdel]
          split
          · exact delta_target_mem m hv hg tm.state ev.name edge hdel
          · exact hs
        refine ⟨.typed tm', h', ?_, ?_⟩
        · simp [mixStep, hfm, hcall, specOne, hb]
        · simp only [specOne, HoldInv]
          exact ⟨hst', by rw [← hst']; exact hmem⟩

/-- **Both modes in one history refine the abstract machine.** -/
theorem mixed_refines_spec (m : Machine) (hv : m.validate = .ok ()) (hg : m.GraphBuilt) (hp : m.PascalInj) :
    ∀ (ops : List MOp) (hd : Hold2) (s : Name) (h : Hist),
      (∀ op ∈ ops, MOpOk m op) → HoldInv m hd s →
      ∃ hf, mixRun m hd ops h = some (hf, (specMix m s ops).2) ∧ HoldInv m hf (specMix m s ops).1 := by
  intro ops
  induction ops with
  | nil => intro hd s h _ hinv; exact ⟨hd, rfl, hinv⟩
  | cons op rest ih =>
    intro hd s h hall hinv
    obtain ⟨hd', h', hstep, hinv'⟩ := mixStep_refines m hv hg hp hd s hinv op (hall op List.mem_cons_self) h
    obtain ⟨hf, hrun, hinvf⟩ := ih hd' _ h' (fun o ho => hall o (List.mem_cons_of_mem _ ho)) hinv'
    refine ⟨hf, ?_, ?_⟩
    · simp only [mixRun, hstep, hrun, Option.map_some, specMix]
    · simpa only [specMix] using hinvf

end SMV.Refine
